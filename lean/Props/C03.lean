/-
  Props/C03.lean — property C03: "HSM: event dispatch and transition resolution follow hierarchical semantics".

  The five predicates P1–P5 of the design are the boolean functions of `Model/Spec/C03.lean` (`p1`, `p2Offer`,
  `p3After`/`p3Order`/`p3Complete`, `p4Offer` with `expectedExits`/`expectedEnters`, `expectedOutcome`), evaluated by
  the monitor `C03.mrun` on the ghost events of every processed event — predicate and checker are the same
  definition, so "checker ⇔ predicate" is definitional; the driver runs exactly `C03.verdict` on implementation
  traces.  Statements only (lemmas in `Proofs/C03Effect.lean`, `Proofs/C03Pass.lean`).

  What holds, for ALL state definitions, transition placements, condition valuations and configurations:
    * P4 (effect) for every transition declared on the machine: `C03_P4_exits`, `C03_P4_enters`;
    * P1 (precedence) — and the first half of P2 (the source was active when the event began) — for machines all of
      whose transitions are declared on the machine: `C03_P1_global_only`;
    * the outcome of an event nobody declares, while the state value is a plain list: `C03_P5_unhandled_flat`.
  What is false on the pinned tree (full statement `C03_full` kept visible, each refuted by `decide` on a concrete
  machine whose run is replayed on the real classes by the harness — corpus/C03):
    * P1/P3: an event declared inside a state with two active children is dispatched once per child
      (`C03_counterexample_redispatch`);
    * P2: a pending transition of the same event fires from a source that an earlier one exited
      (`C03_counterexample_stale_source`) or exited and re-entered (`C03_counterexample_reentered_source`);
    * P3: a transition executed in a child scope suppresses the machine-level candidates of sibling regions
      (`C03_counterexample_suppressed_region`);
    * P4: a transition declared inside a state exits and re-enters its relative root, because the relative
      destination is looked up in the global tree (`C03_counterexample_local_effect`);
    * P5: a later region whose candidates are all blocked overwrites the result of an executed transition
      (`C03_counterexample_result_overwritten`); an unhandled event in a parallel-in-parallel configuration raises
      ValueError instead of MachineError (`C03_counterexample_nested_lists`).
-/
import Proofs.C03Effect
import Proofs.C03Pass
import Proofs.C03Pass2

namespace TM
open C02 C03

/-! ### P4: effect of a machine-level transition -/

/-- **P4, exits**: a transition declared on the machine exits exactly the active states strictly below the deepest
active proper ancestor of its destination — only those in the destination's branch when that ancestor has several
active children, never the ancestor itself (`C03.expectedExits`) -/
theorem C03_P4_exits (cfg : NCfg) (hwf : cfg.states.WF = true)
    (conf : Forest) (hc : ConfOK cfg.states conf = true) (hlen : conf.len = 1)
    (dest : SPath) (r : Resolved) (h : resolveTransition cfg.root cfg.root conf dest = .ok r)
    (live : List SPath) (hnd : live.Nodup) (hl : ∀ p, p ∈ live ↔ p ∈ conf.nodes) :
    sameSet (pathsOf r.exits) (expectedExits live dest) = true :=
  C03_exits_global cfg hwf conf hc hlen dest r h live hnd hl

/-- **P4, enters**: … and then enters exactly the rest of the destination path and the initial descendants of the
destination (`C03.expectedEnters`); other regions are untouched (`C02_new_configuration`) -/
theorem C03_P4_enters (cfg : NCfg) (hwf : cfg.states.WF = true)
    (conf : Forest) (hc : ConfOK cfg.states conf = true) (hlen : conf.len = 1)
    (dest : SPath) (r : Resolved) (h : resolveTransition cfg.root cfg.root conf dest = .ok r)
    (live : List SPath) (hnd : live.Nodup) (hl : ∀ p, p ∈ live ↔ p ∈ conf.nodes) :
    sameSet (pathsOf r.enters) (expectedEnters cfg live dest) = true :=
  C03_enters_global cfg hwf conf hc hlen dest r h live hnd hl

/-! ### P1: precedence -/

/-- **P1 for one pass of `trigger_nested`** (any scope, any list in `resolve_order` shape): transitions execute only
from listed states that are not in the `done` set, and the executed sources are pairwise unrelated in the
ancestor order -/
theorem C03_P1_pass (cfg : NCfg) (sub : NSub) (sc : Script) (hR : NoRaise sc) (hC : NoCmds sc)
    (scope : Scope) (x : Ctx) (ev : Nat) (ts : List NTrans) (ps done : List SPath) (s s' : NSt)
    (hord : ps.Pairwise (fun a b => properPrefix a b = false)) (hnd : ps.Nodup)
    (h : (tnLoop sub sc cfg scope x ev ts ps done s).state? = some s') :
    ∃ seg, s'.glog = s.glog ++ seg ∧
      (execSources ts seg).Pairwise (fun a b => related a b = false) ∧
      (∀ p ∈ execSources ts seg, p ∈ ps ∧ p ∉ done) :=
  tnLoop_antichain cfg sub sc hR hC scope x ev ts ps done s s' hord hnd h

/-- **P1 for machines all of whose transitions are declared on the machine**: while one trigger call is processed
(unqueued machine, admissible configuration with a single root) only transitions of the triggered event execute,
and their sources are pairwise unrelated — in particular none executes twice, and no ancestor's transition
executes after (or before) a descendant's -/
theorem C03_P1 (cfg : NCfg) (sub : NSub) (sc : Script) (hR : NoRaise sc) (hC : NoCmds sc)
    (hq : cfg.queued = false) (hno : cfg.states.noEvents = true)
    (qmax ev : Nat) (s s' : NSt) (hlen : s.conf.len = 1) (hcok : ConfOK cfg.states s.conf = true) (hidle : s.queue = [])
    (h : (napiTrigger sub sc cfg qmax ev s).state? = some s') :
    ∃ seg, s'.glog = s.glog ++ seg ∧
      (∀ tr ∈ execRefs seg, tr.scope = [] ∧ tr.ev = ev) ∧
      (execSources ((alookup ev cfg.events).getD []) seg).Pairwise (fun a b => related a b = false) :=
  C03_P1_global_only cfg sub sc hR hC hq hno qmax ev s s' hlen hcok hidle h

/-- when no state declares events, `_trigger_event_nested` offers the event exactly once, to the machine's scope -/
theorem C03_dispatch_global_only (cfg : NCfg) (sub : NSub) (sc : Script) (x : Ctx) (ev : Nat)
    (hno : cfg.states.noEvents = true) (k : Nat) (v : Forest) (hc : ConfOK cfg.states (.cons k v .nil) = true)
    (s : NSt) :
    ten sub sc cfg x ev cfg.root (.cons k v .nil) [] s =
      (match alookup ev cfg.events with
       | none => .ok [] s
       | some ts => (triggerNested sub sc cfg cfg.root x ev ts s).bind fun tmp s2 =>
           .ok (match tmp with
             | some b => [(k, b)]
             | none => []) s2) :=
  ten_global_only cfg sub sc x ev hno k v hc s

/-! ### P3, P2 (first half), and what a pass returns -/

/-- **P3 for one pass of `trigger_nested`**: read the offers off the ghost segment (`sOffers`): nothing of the same
state or of an ancestor is offered after a transition executed (`sAfter`), no state is offered before one of its
descendants and the candidates of one state come in definition order (`sOrder`) -/
theorem C03_P3_pass (cfg : NCfg) (sub : NSub) (sc : Script) (hR : NoRaise sc) (hC : NoCmds sc)
    (scope : Scope) (x : Ctx) (ev : Nat) (ts : List NTrans) (ps done : List SPath) (s s' : NSt)
    (hord : ps.Pairwise (fun a b => properPrefix a b = false)) (hnd : ps.Nodup)
    (h : (tnLoop sub sc cfg scope x ev ts ps done s).state? = some s') :
    ∃ seg, s'.glog = s.glog ++ seg ∧ sAfter (sOffers ts seg []) = true ∧ sOrder (sOffers ts seg []) = true :=
  tnLoop_p3 cfg sub sc hR hC scope x ev ts ps done s s' hord hnd h

/-- **completeness of a pass**: every listed state with candidates that is not in the initial `done` set is offered,
unless a transition of that state or of a descendant executed -/
theorem C03_P3_complete_pass (cfg : NCfg) (sub : NSub) (sc : Script) (hR : NoRaise sc) (hC : NoCmds sc)
    (scope : Scope) (x : Ctx) (ev : Nat) (ts : List NTrans) (ps done : List SPath) (s s' : NSt)
    (h : tnLoop sub sc cfg scope x ev ts ps done s = .ok () s') :
    ∃ seg, s'.glog = s.glog ++ seg ∧
      ∀ p ∈ ps, p ∉ done → (ncandidates scope.pre ev ts p).isEmpty = false →
        (∃ o ∈ sOffers ts seg [], o.src = p) ∨ (∃ o ∈ sOffers ts seg [], o.executed = true ∧ isPrefix p o.src = true) :=
  tnLoop_complete cfg sub sc hR hC scope x ev ts ps done s s' h

/-- **what a pass returns** (P5): the outcome of the LAST offered state, not "some transition executed" — the
two agree exactly when no state is offered and blocked after an execution (`C03_counterexample_result_overwritten`) -/
theorem C03_P5_pass_result (cfg : NCfg) (sub : NSub) (sc : Script) (hR : NoRaise sc) (hC : NoCmds sc)
    (scope : Scope) (x : Ctx) (ev : Nat) (ts : List NTrans) (ps done : List SPath) (s s' : NSt)
    (h : tnLoop sub sc cfg scope x ev ts ps done s = .ok () s') :
    ∃ seg, s'.glog = s.glog ++ seg ∧
      s'.result = (match (sOffers ts seg []).getLast? with
        | some o => some o.executed
        | none => s.result) :=
  tnLoop_result cfg sub sc hR hC scope x ev ts ps done s s' h

/-- **P2, first half, for machine-level declarations**: every transition executes from a state that was active when
the event began (the second half — "and has not been exited since" — is false: `C03_counterexample_stale_source`) -/
theorem C03_P2_source_was_active (cfg : NCfg) (sub : NSub) (sc : Script) (hR : NoRaise sc) (hC : NoCmds sc)
    (hq : cfg.queued = false) (hno : cfg.states.noEvents = true)
    (qmax ev : Nat) (s s' : NSt) (hlen : s.conf.len = 1) (hcok : ConfOK cfg.states s.conf = true) (hidle : s.queue = [])
    (h : (napiTrigger sub sc cfg qmax ev s).state? = some s') :
    ∃ seg, s'.glog = s.glog ++ seg ∧
      ∀ p ∈ execSources ((alookup ev cfg.events).getD []) seg, p ∈ s.conf.nodes :=
  C03_P2_active_at_start cfg sub sc hR hC hq hno qmax ev s s' hlen hcok hidle h

/-- **P5 for machine-level declarations, end to end** (unqueued machine, no on_exception handlers): if the event
was offered to some state the trigger returns whether the LAST offered state executed a transition — "True iff
some transition executed" holds exactly when no state is offered and blocked after an execution —; if it was offered
to nobody the outcome is what `_check_event_result` decides from the (unchanged) state value (`C03_P5_unhandled_flat`) -/
theorem C03_P5 (cfg : NCfg) (sub : NSub) (sc : Script) (hR : NoRaise sc) (hC : NoCmds sc)
    (hq : cfg.queued = false) (hno : cfg.states.noEvents = true) (hex : cfg.onException = [])
    (qmax ev : Nat) (s : NSt) (hlen : s.conf.len = 1) (hcok : ConfOK cfg.states s.conf = true) (hidle : s.queue = []) :
    (∀ b s', napiTrigger sub sc cfg qmax ev s = .ok b s' →
      ∃ seg, s'.glog = s.glog ++ seg ∧
        (match (sOffers ((alookup ev cfg.events).getD []) seg []).getLast? with
          | some o => b = o.executed
          | none => cerLoop cfg ev (buildStateList [] s.conf).listify = .ok b ∧ s'.conf = s.conf)) ∧
    (∀ e s', napiTrigger sub sc cfg qmax ev s = .err e s' →
      ∃ seg, s'.glog = s.glog ++ seg ∧
        ((sOffers ((alookup ev cfg.events).getD []) seg []) = [] →
          cerLoop cfg ev (buildStateList [] s.conf).listify = .err e ∧ s'.conf = s.conf)) :=
  C03_P5_global_only cfg sub sc hR hC hq hno hex qmax ev s hlen hcok hidle

/-! ### P5: an event nobody handles -/

/-- what `_check_event_result` decides for a state value that is a plain list of names: the first active state
that does not ignore invalid triggers decides — MachineError if the machine knows the event, AttributeError
otherwise; `False` when all of them ignore -/
def unhandledOutcome (cfg : NCfg) (ev : Nat) : List SPath → PR Bool
  | [] => .ok false
  | p :: ps =>
    match getState cfg.root cfg.root p with
    | none => .err .valueError
    | some f =>
      if !(f.d.ignore.getD cfg.ignore) then
        (if cfg.hasTrigger ev then .err .machineError else .err .attributeError)
      else unhandledOutcome cfg ev ps

theorem C03_P5_unhandled_flat (cfg : NCfg) (ev : Nat) (ps : List SPath) :
    cerLoop cfg ev (ps.map SVal.name) = unhandledOutcome cfg ev ps := by
  induction ps with
  | nil => rfl
  | cons p ps ih =>
    simp only [List.map_cons, cerLoop, unhandledOutcome]
    cases getState cfg.root cfg.root p with
    | none => rfl
    | some f =>
      simp only
      split
      · rfl
      · exact ih

/-! ### the full statement and the witnesses -/

def c03Script : Script := fun c _ => if c = 100 then { out := .ret false } else {}
def c03Sub : NSub := fun _ s => .ok () s

/-- what the monitor says about one trigger of event 0 from the initial configuration -/
def c03Judge (cfg : NCfg) : Option (List String) :=
  (NSt.init cfg).bind fun s0 => ((napiTrigger c03Sub c03Script cfg 4 0 s0).state?).map fun s =>
    (mrun cfg (M.init s0.conf) s.glog).bad

/-- full strength: whatever the (well-formed) machine, one trigger from the initial configuration is accepted -/
def C03_full : Prop := ∀ (cfg : NCfg), cfg.states.WF = true → ∀ bad, c03Judge cfg = some bad → bad = []

def c03Leaf (n : Nat) : SDef := { name := n }

/-- `P`(1) parallel [`a`(2) ⊃ `a1`(3), `a2`(4);  `b`(5) ⊃ `b1`(6), `b2`(7)], `Q`(8); events declared in `P` / in `a` -/
def c03Regions (pEvents aEvents : List (Nat × List NTrans)) : SForest :=
  .cons { name := 1, initial := [2, 5], events := pEvents }
    (.cons { name := 2, initial := [3], events := aEvents } (.cons (c03Leaf 3) .nil (.cons (c03Leaf 4) .nil .nil))
      (.cons { name := 5, initial := [6] } (.cons (c03Leaf 6) .nil (.cons (c03Leaf 7) .nil .nil)) .nil))
    (.cons (c03Leaf 8) .nil .nil)

/-- an internal transition on `a`, declared inside `P`: executed twice (once per active child of `P`) -/
def c03Redispatch : NCfg := { states := c03Regions [(0, [{ source := [2], dest := none }])] [], initial := [1] }

theorem C03_counterexample_redispatch : c03Judge c03Redispatch =
    some ["P1:same-transition-twice:local@local", "P3:offered-after-execution:local@local", "P3:order@local"] := by
  decide

/-- `P_a_a1 → P_a_a2` executes, `P_b_b1 → P_b_b2` is blocked by its condition (callback 100 returns False):
the trigger returns False -/
def c03Overwritten : NCfg :=
  { states := c03Regions [] [], initial := [1], events := [(0, [{ source := [1, 2, 3], dest := some [1, 2, 4] }, { source := [1, 5, 6], dest := some [1, 5, 7], conds := [⟨100, true⟩] }])] }

theorem C03_counterexample_result_overwritten :
    c03Judge c03Overwritten = some ["P5:false-after-execution:later-offer-blocked@global"] := by decide

/-- `P_a_a1 → Q` leaves `P`; `P_b_b1 → P_b_b2` fires nevertheless -/
def c03Stale : NCfg :=
  { states := c03Regions [] [], initial := [1], events := [(0, [{ source := [1, 2, 3], dest := some [8] }, { source := [1, 5, 6], dest := some [1, 5, 7] }])] }

theorem C03_counterexample_stale_source : c03Judge c03Stale = some ["P2:source-not-active@global"] := by decide

/-- `P_a_a1 → P` exits and re-enters both regions; `P_b_b1 → P_b_b2` fires from the re-entered `b1` -/
def c03Reentered : NCfg :=
  { states := c03Regions [] [], initial := [1], events := [(0, [{ source := [1, 2, 3], dest := some [1] }, { source := [1, 5, 6], dest := some [1, 5, 7] }])] }

theorem C03_counterexample_reentered_source : c03Judge c03Reentered = some ["P2:source-re-entered@global"] := by
  decide

/-- `P`(1) parallel [`a`(2) parallel [`x`(3), `y`(4)], `b`(5)], `Q`(6); event 0 only from `Q`: in `P` nobody
handles it, the state value is `[[P_a_x, P_a_y], P_b]` and `_check_event_result` raises ValueError -/
def c03NestedLists : NCfg :=
  { states := .cons { name := 1, initial := [2, 5] }
      (.cons { name := 2, initial := [3, 4] } (.cons (c03Leaf 3) .nil (.cons (c03Leaf 4) .nil .nil))
        (.cons (c03Leaf 5) .nil .nil))
      (.cons (c03Leaf 6) .nil .nil),
    events := [(0, [{ source := [6], dest := some [1] }])], initial := [1] }

theorem C03_counterexample_nested_lists :
    c03Judge c03NestedLists = some ["P5:error-kind:nested-state-lists@global"] := by decide

/-- `P`(1) ⊃ `a`(2) ⊃ `x`(3), `y`(4); `b`(5): `a_x → a_y` declared inside `P` exits and re-enters `a` -/
def c03LocalEffect : NCfg :=
  { states := .cons { name := 1, initial := [2], events := [(0, [{ source := [2, 3], dest := some [2, 4] }])] }
      (.cons { name := 2, initial := [3] } (.cons (c03Leaf 3) .nil (.cons (c03Leaf 4) .nil .nil))
        (.cons (c03Leaf 5) .nil .nil)) .nil,
    initial := [1] }

theorem C03_counterexample_local_effect : c03Judge c03LocalEffect = some ["P4:local@local"] := by decide

/-- `a1 → a2` declared inside `a` executes; the machine-level `P_b_b1 → P_b_b2` is then never offered -/
def c03Suppressed : NCfg :=
  { states := c03Regions [] [(0, [{ source := [3], dest := some [4] }])], initial := [1],
    events := [(0, [{ source := [1, 5, 6], dest := some [1, 5, 7] }])] }

theorem C03_counterexample_suppressed_region : c03Judge c03Suppressed = some ["P3:not-offered@local"] := by decide

example : c03Stale.states.WF = true := by decide

theorem C03_full_counterexample : ¬ C03_full := by
  intro h
  have := h c03Stale (by decide) _ C03_counterexample_stale_source
  cases this

/-! ### non-vacuity: events that the monitor accepts -/

/-- two regions, both transitions region-local: both execute, True -/
def c03Good : NCfg :=
  { states := c03Regions [] [], initial := [1], events := [(0, [{ source := [1, 2, 3], dest := some [1, 2, 4] }, { source := [1, 5, 6], dest := some [1, 5, 7] }, { source := [1], dest := some [8] }])] }

/-- both region transitions execute (innermost first), the transition of the common ancestor `P` is not consulted -/
example : ((NSt.init c03Good).bind fun s0 => ((napiTrigger c03Sub c03Script c03Good 4 0 s0).state?).map fun s =>
    ((mrun c03Good (M.init s0.conf) s.glog).bad, execRefs s.glog |>.map (·.idx), buildStateList [] s.conf))
    = some ([], [0, 1], .cons (.name [1, 2, 4]) (.cons (.name [1, 5, 7]) .nil)) := by decide

end TM
