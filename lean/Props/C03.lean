/-
  Props/C03.lean — property C03: "HSM: event dispatch and transition resolution follow hierarchical semantics".

  The five predicates P1–P5 of the design are the boolean functions of `Model/Spec/C03.lean` (`p1`, `p2Offer`,
  `p3After`/`p3Order`/`p3Complete`, `p4Offer` with `expectedExits`/`expectedEnters`, `expectedOutcome`), evaluated by
  the monitor `C03.mrun` on the ghost events of every processed event — predicate and checker are the same
  definition, so "checker ⇔ predicate" is definitional; the driver runs exactly `C03.verdict` on implementation
  traces.  Statements only (lemmas in `Proofs/C03Effect.lean`, `Proofs/C03Pass.lean`).

  The model follows the REPAIRED code (fix: commits bcc5ea7, 2725aeb, 4e63890, 09ede92, 603ad02 in /repo).
  What holds, for ALL state definitions, transition placements, condition valuations and configurations:
    * P4 (effect) for every transition, declared on the machine or inside a state definition: `C03_P4_exits`,
      `C03_P4_enters` (scope-relative destination `dest`, global destination `sc.pre ++ dest`);
    * for machines all of whose transitions are declared on the machine — one `trigger_nested` pass —:
      P1 (precedence) `C03_P1`, P2 both halves `C03_P2` (the source was active when the event began and has not been
      exited since), P3 for the pass `C03_P3_pass`, `C03_P3_complete_pass`, P5 `C03_P5` (True iff some transition executed;
      else False if somebody was offered; else what `_check_event_result` decides, `C03_P5_unhandled_flat` on the flattened
      state value);
    * `C03_P5_pass_result`: what one pass returns, for any scope.
  What is still false (full statement `C03_full` kept visible, each class refuted by `decide` on a concrete machine that
  the harness replays on the real classes — corpus/C03): events declared inside state definitions are dispatched in
  SEPARATE PASSES PER SCOPE (innermost scope first, each pass with its own `done` set, an outer scope skipped entirely
  once an inner one executed):
    * P3 completeness: a transition executed in a child scope suppresses the machine-level candidates of sibling regions
      (`C03_counterexample_suppressed_region`);
    * P1 / P3: a state executes in the pass of an outer scope although a descendant executed in an inner pass
      (`C03_counterexample_related_passes`);
    * P3 order: the inner scope's pass offers an ancestor before the outer pass offers its descendant
      (`C03_counterexample_pass_order`);
    * P2: the outer pass takes a fresh `resolve_order` and offers the event to a state that the inner pass entered
      (`C03_counterexample_entered_during_event`).
  The machines of the CLOSED findings (re-dispatch per region, result overwritten, stale / re-entered source, ValueError
  on nested lists, local transitions exiting their relative root) are regression examples now: `C03_regression_*`.
-/
import Proofs.C03Effect
import Proofs.C03Pass
import Proofs.C03Pass2

namespace TM
open C02 C03

/-! ### P4: effect of a transition -/

/-- **P4, exits**: a transition declared in any scope `sc` (the machine, or a state definition reachable from it) with
the scope-relative destination `dest` exits exactly the active states strictly below the deepest active proper ancestor
of its global destination `sc.pre ++ dest` — only those in the destination's branch when that ancestor has several
active children, never the ancestor itself (`C03.expectedExits`) -/
theorem C03_P4_exits (cfg : NCfg) (hwf : cfg.states.WF = true) (sc : Scope) (hsc : cfg.root.walkTo sc.pre = some sc)
    (conf : Forest) (hc : ConfOK cfg.states conf = true) (hlen : conf.len = 1)
    (dest : SPath) (r : Resolved) (h : resolveTransition cfg.root sc conf dest = .ok r)
    (live : List SPath) (hnd : live.Nodup) (hl : ∀ p, p ∈ live ↔ p ∈ conf.nodes) :
    sameSet (pathsOf r.exits) (expectedExits live (sc.pre ++ dest)) = true :=
  C03_exits_scoped cfg hwf sc hsc conf hc hlen dest r h live hnd hl

/-- **P4, enters**: … and then enters exactly the rest of the destination path and the initial descendants of the
destination (`C03.expectedEnters`); other regions are untouched (`C02_new_configuration`) -/
theorem C03_P4_enters (cfg : NCfg) (hwf : cfg.states.WF = true) (sc : Scope) (hsc : cfg.root.walkTo sc.pre = some sc)
    (conf : Forest) (hc : ConfOK cfg.states conf = true) (hlen : conf.len = 1)
    (dest : SPath) (r : Resolved) (h : resolveTransition cfg.root sc conf dest = .ok r)
    (live : List SPath) (hnd : live.Nodup) (hl : ∀ p, p ∈ live ↔ p ∈ conf.nodes) :
    sameSet (pathsOf r.enters) (expectedEnters cfg live (sc.pre ++ dest)) = true :=
  C03_enters_scoped cfg hwf sc hsc conf hc hlen dest r h live hnd hl

/-! ### P1: precedence -/

/-- **P1 for one pass of `trigger_nested`** (any scope, any list in `resolve_order` shape): transitions execute only
from listed states that are not in the `done` set, and the executed sources are pairwise unrelated in the
ancestor order -/
theorem C03_P1_pass (cfg : NCfg) (sub : NSub) (sc : Script) (hR : NoRaise sc) (hC : NoCmds sc)
    (scope : Scope) (x : Ctx) (ev : Nat) (ts : List NTrans) (ps done : List SPath) (s s' : NSt)
    (hord : ps.Pairwise (fun a b => properPrefix a b = false)) (hnd : ps.Nodup)
    (h : (tnLoop sub sc cfg scope x ev ts ps done s).state? = some s') :
    ∃ seg, s'.glog = s.glog ++ seg ∧
      (execSources ts seg).Pairwise (fun a b => related a b = false) ∧
      (∀ p ∈ execSources ts seg, p ∈ ps ∧ p ∉ done) :=
  tnLoop_antichain cfg sub sc hR hC scope x ev ts ps done s s' hord hnd h

/-- **P1 for machines all of whose transitions are declared on the machine**: while one trigger call is processed
(unqueued machine, admissible configuration with a single root) only transitions of the triggered event execute,
and their sources are pairwise unrelated — in particular none executes twice, and no ancestor's transition
executes after (or before) a descendant's -/
theorem C03_P1 (cfg : NCfg) (sub : NSub) (sc : Script) (hR : NoRaise sc) (hC : NoCmds sc)
    (hq : cfg.queued = false) (hno : cfg.states.noEvents = true)
    (qmax ev : Nat) (s s' : NSt) (hlen : s.conf.len = 1) (hcok : ConfOK cfg.states s.conf = true) (hidle : s.queue = [])
    (h : (napiTrigger sub sc cfg qmax ev s).state? = some s') :
    ∃ seg, s'.glog = s.glog ++ seg ∧
      (∀ tr ∈ execRefs seg, tr.scope = [] ∧ tr.ev = ev) ∧
      (execSources ((alookup ev cfg.events).getD []) seg).Pairwise (fun a b => related a b = false) :=
  C03_P1_global_only cfg sub sc hR hC hq hno qmax ev s s' hlen hcok hidle h

/-- when no state declares events, `_trigger_event_nested` offers the event exactly once, to the machine's scope -/
theorem C03_dispatch_global_only (cfg : NCfg) (sub : NSub) (sc : Script) (x : Ctx) (ev : Nat)
    (hno : cfg.states.noEvents = true) (k : Nat) (v : Forest) (hc : ConfOK cfg.states (.cons k v .nil) = true)
    (s : NSt) :
    ten sub sc cfg x ev cfg.root (.cons k v .nil) [] false s =
      (match alookup ev cfg.events with
       | none => .ok [] s
       | some ts => (triggerNested sub sc cfg cfg.root x ev ts s).bind fun tmp s2 =>
           .ok (match tmp with
             | some b => [(k, b)]
             | none => []) s2) :=
  ten_global_only cfg sub sc x ev hno k v hc s

/-! ### P3, P2 (first half), and what a pass returns -/

/-- **P3 for one pass of `trigger_nested`**: read the offers off the ghost segment (`sOffers`): nothing of the same
state or of an ancestor is offered after a transition executed (`sAfter`), no state is offered before one of its
descendants and the candidates of one state come in definition order (`sOrder`) -/
theorem C03_P3_pass (cfg : NCfg) (sub : NSub) (sc : Script) (hR : NoRaise sc) (hC : NoCmds sc)
    (scope : Scope) (x : Ctx) (ev : Nat) (ts : List NTrans) (ps done : List SPath) (s s' : NSt)
    (hord : ps.Pairwise (fun a b => properPrefix a b = false)) (hnd : ps.Nodup)
    (h : (tnLoop sub sc cfg scope x ev ts ps done s).state? = some s') :
    ∃ seg, s'.glog = s.glog ++ seg ∧ sAfter (sOffers ts seg []) = true ∧ sOrder (sOffers ts seg []) = true :=
  tnLoop_p3 cfg sub sc hR hC scope x ev ts ps done s s' hord hnd h

/-- **completeness of a pass**: every listed state with candidates that is not in the initial `done` set is offered,
unless a transition of that state or of a descendant executed, or the state was exited during the event -/
theorem C03_P3_complete_pass (cfg : NCfg) (sub : NSub) (sc : Script) (hR : NoRaise sc) (hC : NoCmds sc)
    (scope : Scope) (x : Ctx) (ev : Nat) (ts : List NTrans) (ps done done' : List SPath) (s s' : NSt)
    (h : tnLoop sub sc cfg scope x ev ts ps done s = .ok done' s') :
    ∃ seg, s'.glog = s.glog ++ seg ∧
      ∀ p ∈ ps, p ∉ done → (ncandidates scope.pre ev ts p).isEmpty = false →
        (∃ o ∈ sOffers ts seg [], o.src = p) ∨ (∃ o ∈ sOffers ts seg [], o.executed = true ∧ isPrefix p o.src = true)
        ∨ (scope.pre ++ p) ∈ s'.exited :=
  tnLoop_complete cfg sub sc hR hC scope x ev ts ps done done' s s' h

/-- **what `trigger_nested` returns** (any scope): True iff some transition of this call executed; otherwise False if
some state was offered, and the old value if nobody was -/
theorem C03_P5_pass_result (cfg : NCfg) (sub : NSub) (sc : Script) (hR : NoRaise sc) (hC : NoCmds sc)
    (scope : Scope) (x : Ctx) (ev : Nat) (ts : List NTrans) (s s' : NSt) (tmp : Option Bool)
    (h : triggerNested sub sc cfg scope x ev ts s = .ok tmp s') :
    ∃ seg, s'.glog = s.glog ++ seg ∧
      tmp = (if (sOffers ts seg []).any (·.executed) then some true
             else match (sOffers ts seg []).getLast? with
               | some _ => some false
               | none => s.result) :=
  triggerNested_result cfg sub sc hR hC scope x ev ts s s' tmp h

/-- **P2 for machine-level declarations, both halves**: every transition executes from a state that was active when
the event began (`∈ s.conf.nodes`) and has not been exited since (`execFresh`: its source is not among the states
exited earlier in the event's segment) -/
theorem C03_P2 (cfg : NCfg) (hwf : cfg.states.WF = true) (sub : NSub) (sc : Script)
    (hR : NoRaise sc) (hC : NoCmds sc) (hq : cfg.queued = false) (hno : cfg.states.noEvents = true)
    (qmax ev : Nat) (s s' : NSt) (hlen : s.conf.len = 1) (hcok : ConfOK cfg.states s.conf = true) (hidle : s.queue = [])
    (h : (napiTrigger sub sc cfg qmax ev s).state? = some s') :
    ∃ seg, s'.glog = s.glog ++ seg ∧
      (∀ p ∈ execSources ((alookup ev cfg.events).getD []) seg, p ∈ s.conf.nodes) ∧
      execFresh ((alookup ev cfg.events).getD []) seg [] = true :=
  C03_P2_global_only cfg hwf sub sc hR hC hq hno qmax ev s s' hlen hcok hidle h

/-- **P5 for machine-level declarations, end to end** (unqueued machine, no on_exception handlers): the trigger
returns True iff some transition executed, False if the event was offered to some state and none executed; if it was
offered to nobody the outcome is what `_check_event_result` decides from the (unchanged, flattened) state value -/
theorem C03_P5 (cfg : NCfg) (sub : NSub) (sc : Script) (hR : NoRaise sc) (hC : NoCmds sc)
    (hq : cfg.queued = false) (hno : cfg.states.noEvents = true) (hex : cfg.onException = [])
    (qmax ev : Nat) (s : NSt) (hlen : s.conf.len = 1) (hcok : ConfOK cfg.states s.conf = true) (hidle : s.queue = []) :
    (∀ b s', napiTrigger sub sc cfg qmax ev s = .ok b s' →
      ∃ seg, s'.glog = s.glog ++ seg ∧
        (if (sOffers ((alookup ev cfg.events).getD []) seg []) = [] then
           cerLoop cfg ev (buildStateList [] s.conf).flat = .ok b ∧ s'.conf = s.conf
         else b = (sOffers ((alookup ev cfg.events).getD []) seg []).any (·.executed))) ∧
    (∀ e s', napiTrigger sub sc cfg qmax ev s = .err e s' →
      ∃ seg, s'.glog = s.glog ++ seg ∧
        ((sOffers ((alookup ev cfg.events).getD []) seg []) = [] →
          cerLoop cfg ev (buildStateList [] s.conf).flat = .err e ∧ s'.conf = s.conf)) :=
  C03_P5_global_only cfg sub sc hR hC hq hno hex qmax ev s hlen hcok hidle

/-! ### P5: an event nobody handles -/

/-- what `_check_event_result` decides from the flattened names of the state value: the first active state that does
not ignore invalid triggers decides — MachineError if the machine knows the event, AttributeError otherwise; `False`
when all of them ignore (nested lists of parallel states inside parallel states included) -/
def unhandledOutcome (cfg : NCfg) (ev : Nat) : List SPath → PR Bool
  | [] => .ok false
  | p :: ps =>
    match getState cfg.root cfg.root p with
    | none => .err .valueError
    | some f =>
      if !(f.d.ignore.getD cfg.ignore) then
        (if cfg.hasTrigger ev then .err .machineError else .err .attributeError)
      else unhandledOutcome cfg ev ps

theorem C03_P5_unhandled_flat (cfg : NCfg) (ev : Nat) (ps : List SPath) :
    cerLoop cfg ev ps = unhandledOutcome cfg ev ps := by
  induction ps with
  | nil => rfl
  | cons p ps ih =>
    simp only [cerLoop, unhandledOutcome]
    cases getState cfg.root cfg.root p with
    | none => rfl
    | some f =>
      simp only
      split
      · rfl
      · exact ih

/-! ### the full statement and the witnesses -/

def c03Script : Script := fun c _ => if c = 100 then { out := .ret false } else {}
def c03Sub : NSub := fun _ s => .ok () s

/-- what the monitor says about one trigger of event 0 from the initial configuration -/
def c03Judge (cfg : NCfg) : Option (List String) :=
  (NSt.init cfg).bind fun s0 => ((napiTrigger c03Sub c03Script cfg 4 0 s0).state?).map fun s =>
    (mrun cfg (M.init s0.conf) s.glog).bad

/-- full strength: whatever the (well-formed) machine, one trigger from the initial configuration is accepted -/
def C03_full : Prop := ∀ (cfg : NCfg), cfg.states.WF = true → ∀ bad, c03Judge cfg = some bad → bad = []

def c03Leaf (n : Nat) : SDef := { name := n }

/-- `P`(1) parallel [`a`(2) ⊃ `a1`(3), `a2`(4);  `b`(5) ⊃ `b1`(6), `b2`(7)], `Q`(8); events declared in `P` / in `a` -/
def c03Regions (pEvents aEvents : List (Nat × List NTrans)) : SForest :=
  .cons { name := 1, initial := [2, 5], events := pEvents }
    (.cons { name := 2, initial := [3], events := aEvents } (.cons (c03Leaf 3) .nil (.cons (c03Leaf 4) .nil .nil))
      (.cons { name := 5, initial := [6] } (.cons (c03Leaf 6) .nil (.cons (c03Leaf 7) .nil .nil)) .nil))
    (.cons (c03Leaf 8) .nil .nil)

/-- an internal transition on `a`, declared inside `P`: executed twice (once per active child of `P`) -/
def c03Redispatch : NCfg := { states := c03Regions [(0, [{ source := [2], dest := none }])] [], initial := [1] }

/-- regression (closed, 603ad02): offered to the scope once -/
theorem C03_regression_redispatch : c03Judge c03Redispatch = some [] := by decide

/-- `P_a_a1 → P_a_a2` executes, `P_b_b1 → P_b_b2` is blocked by its condition (callback 100 returns False):
the trigger returns False -/
def c03Overwritten : NCfg :=
  { states := c03Regions [] [], initial := [1], events := [(0, [{ source := [1, 2, 3], dest := some [1, 2, 4] }, { source := [1, 5, 6], dest := some [1, 5, 7], conds := [⟨100, true⟩] }])] }

/-- regression (closed, 2725aeb): the trigger returns True -/
theorem C03_regression_result_overwritten : c03Judge c03Overwritten = some [] := by decide

/-- `P_a_a1 → Q` leaves `P`; `P_b_b1 → P_b_b2` fires nevertheless -/
def c03Stale : NCfg :=
  { states := c03Regions [] [], initial := [1], events := [(0, [{ source := [1, 2, 3], dest := some [8] }, { source := [1, 5, 6], dest := some [1, 5, 7] }])] }

/-- regression (closed, bcc5ea7): the exited state gets no turn -/
theorem C03_regression_stale_source : c03Judge c03Stale = some [] := by decide

/-- `P_a_a1 → P` exits and re-enters both regions; `P_b_b1 → P_b_b2` fires from the re-entered `b1` -/
def c03Reentered : NCfg :=
  { states := c03Regions [] [], initial := [1], events := [(0, [{ source := [1, 2, 3], dest := some [1] }, { source := [1, 5, 6], dest := some [1, 5, 7] }])] }

/-- regression (closed, bcc5ea7) -/
theorem C03_regression_reentered_source : c03Judge c03Reentered = some [] := by decide

/-- `P`(1) parallel [`a`(2) parallel [`x`(3), `y`(4)], `b`(5)], `Q`(6); event 0 only from `Q`: in `P` nobody
handles it, the state value is `[[P_a_x, P_a_y], P_b]` and `_check_event_result` raises ValueError -/
def c03NestedLists : NCfg :=
  { states := .cons { name := 1, initial := [2, 5] }
      (.cons { name := 2, initial := [3, 4] } (.cons (c03Leaf 3) .nil (.cons (c03Leaf 4) .nil .nil))
        (.cons (c03Leaf 5) .nil .nil))
      (.cons (c03Leaf 6) .nil .nil),
    events := [(0, [{ source := [6], dest := some [1] }])], initial := [1] }

/-- regression (closed, 4e63890): MachineError -/
theorem C03_regression_nested_lists : c03Judge c03NestedLists = some [] := by decide

/-- `P`(1) ⊃ `a`(2) ⊃ `x`(3), `y`(4); `b`(5): `a_x → a_y` declared inside `P` exits and re-enters `a` -/
def c03LocalEffect : NCfg :=
  { states := .cons { name := 1, initial := [2], events := [(0, [{ source := [2, 3], dest := some [2, 4] }])] }
      (.cons { name := 2, initial := [3] } (.cons (c03Leaf 3) .nil (.cons (c03Leaf 4) .nil .nil))
        (.cons (c03Leaf 5) .nil .nil)) .nil,
    initial := [1] }

/-- regression (closed, 09ede92): only `a_x` is exited -/
theorem C03_regression_local_effect : c03Judge c03LocalEffect = some [] := by decide

/-- `a1 → a2` declared inside `a` executes; the machine-level `P_b_b1 → P_b_b2` is then never offered -/
def c03Suppressed : NCfg :=
  { states := c03Regions [] [(0, [{ source := [3], dest := some [4] }])], initial := [1],
    events := [(0, [{ source := [1, 5, 6], dest := some [1, 5, 7] }])] }

theorem C03_counterexample_suppressed_region :
    c03Judge c03Suppressed = some ["P3:not-offered:after-execution@local"] := by decide

/-- `Q`(0); `P`(1) ⊃ `a`(2) ⊃ `x`(3).  `P` declares `a → a` (blocked: callback 100 returns False), the machine declares
`P_a_x → Q`: the pass of scope `P` offers the ancestor `a` before the machine's pass offers its descendant `x` -/
def c03PassOrder : NCfg :=
  { states := .cons (c03Leaf 0) .nil
      (.cons { name := 1, initial := [2], events := [(0, [{ source := [2], dest := some [2], conds := [⟨100, true⟩] }])] }
        (.cons { name := 2, initial := [3] } (.cons (c03Leaf 3) .nil .nil) .nil) .nil),
    events := [(0, [{ source := [1, 2, 3], dest := some [0] }])], initial := [1] }

theorem C03_counterexample_pass_order : c03Judge c03PassOrder = some ["P3:order@local"] := by decide

/-- `P`(1) parallel [`a`(2) ⊃ `x`(4); `b`(5)].  `a` declares an internal transition on `x`, `P` declares `a → a`: `x`'s
executes in the pass of scope `a`; the pass of scope `P` (reached through the region `b`) executes `a → a` although a
descendant of `a` already executed -/
def c03RelatedPasses : NCfg :=
  { states := .cons { name := 1, initial := [2, 5], events := [(0, [{ source := [2], dest := some [2] }])] }
      (.cons { name := 2, initial := [4], events := [(0, [{ source := [4], dest := none }])] } (.cons (c03Leaf 4) .nil .nil)
        (.cons (c03Leaf 5) .nil .nil)) .nil,
    initial := [1] }

theorem C03_counterexample_related_passes : c03Judge c03RelatedPasses =
    some ["P1:related-sources:local@local", "P3:offered-after-execution:local@local"] := by decide

/-- `P`(1) parallel [`a`(2) ⊃ `x`(3), `y`(4); `b`(5)].  `a` declares `x → y`, `P` declares `a_y → a_x`: the pass of `P`
offers the event to `a_y`, which the pass of `a` entered a moment before -/
def c03EnteredDuringEvent : NCfg :=
  { states := .cons { name := 1, initial := [2, 5], events := [(0, [{ source := [2, 4], dest := some [2, 3] }])] }
      (.cons { name := 2, initial := [3], events := [(0, [{ source := [3], dest := some [4] }])] }
        (.cons (c03Leaf 3) .nil (.cons (c03Leaf 4) .nil .nil))
        (.cons (c03Leaf 5) .nil .nil)) .nil,
    initial := [1] }

theorem C03_counterexample_entered_during_event :
    c03Judge c03EnteredDuringEvent = some ["P2:source-entered-during-event@local"] := by decide

example : c03Suppressed.states.WF = true := by decide

theorem C03_full_counterexample : ¬ C03_full := by
  intro h
  have := h c03Suppressed (by decide) _ C03_counterexample_suppressed_region
  cases this

/-! ### non-vacuity: events that the monitor accepts -/

/-- two regions, both transitions region-local: both execute, True -/
def c03Good : NCfg :=
  { states := c03Regions [] [], initial := [1], events := [(0, [{ source := [1, 2, 3], dest := some [1, 2, 4] }, { source := [1, 5, 6], dest := some [1, 5, 7] }, { source := [1], dest := some [8] }])] }

/-- both region transitions execute (innermost first), the transition of the common ancestor `P` is not consulted -/
example : ((NSt.init c03Good).bind fun s0 => ((napiTrigger c03Sub c03Script c03Good 4 0 s0).state?).map fun s =>
    ((mrun c03Good (M.init s0.conf) s.glog).bad, execRefs s.glog |>.map (·.idx), buildStateList [] s.conf))
    = some ([], [0, 1], .cons (.name [1, 2, 4]) (.cons (.name [1, 5, 7]) .nil)) := by decide

end TM
