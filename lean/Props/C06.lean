/-
  Props/C06.lean — property C06: "Locked machines serialize event processing under every thread
  schedule".

  Model: `Model/Locked.lean` (small-step LTS of locking.py's protocol).  Quantifiers of every theorem:
  ALL configurations `c` (any machine_context list containing a mutex `L`, any model_context lists),
  ALL thread programs `progs : Nat → List Op` (any number of threads, any calls, re-entrant calls,
  raising calls, even malformed programs), ALL engines `eng` (the effect of an engine step on the
  shared machine state is an arbitrary function), ALL schedules `σ : List Nat`.

  `WF c L`: the machine contexts contain the mutex `L`, and the user cannot supply the machine's own
  IdentManager as a context (`ProgOK progs`: nor to `add_model` later on).

  Registration is dynamic: `Op.reg` / `Op.unreg` inside calls mirror `add_model` / `remove_model` on
  `model_context_map`.  `s.ung = false` restricts a theorem to runs in which no outermost call has
  entered an EMPTY context list — an event on a model that is not registered at that moment (flat
  machine: `model_context_map[id(model)]` of a missing key) runs without any context and is outside the
  property's statement; what follows a re-registration is inside it.
-/
import Proofs.C06

namespace TM
namespace Locked

/-- mutual exclusion: a lock is held by at most one thread; `IdentManager.current` is 0 or the one
thread that is inside the ident context, and that thread holds the machine lock -/
theorem C06_mutex (c : Cfg) (L : Nat) (hwf : WF c L) (eng : Nat → Nat → Nat) (progs : Nat → List Op)
    (hp : ProgOK progs) (ms : Nat) (σ : List Nat) :
    let s := runSched c eng (init c progs ms) σ
    s.ung = false →
    (∀ t t' l, Ctx.lock l ∈ held (s.th t) → Ctx.lock l ∈ held (s.th t') → t = t') ∧
    (∀ t, Ctx.ident ∈ held (s.th t) ↔ s.current = t + 1) ∧
    (∀ t, Ctx.ident ∈ held (s.th t) → Ctx.lock L ∈ held (s.th t)) ∧
    (∀ t l, Ctx.lock l ∈ held (s.th t) ↔ s.owner l = t + 1) :=
  C06P.mutex c L hwf eng progs hp ms σ

/-- no overlap: in every trace, the windows of the machine lock are disjoint and every engine step /
callback happens inside a window of its own thread (verified monitor `noOverlap`) -/
theorem C06_no_overlap (c : Cfg) (L : Nat) (hwf : WF c L) (eng : Nat → Nat → Nat)
    (progs : Nat → List Op) (hp : ProgOK progs) (ms : Nat) (σ : List Nat) :
    let s := runSched c eng (init c progs ms) σ
    s.ung = false → noOverlap L s.trace = true :=
  C06P.no_overlap c L hwf eng progs hp ms σ

/-- serializable: there is an order of outermost calls whose *serial* execution (sequential
reference semantics `seqRun`: no locks, one call after the other) leaves every thread that is not
inside a call with exactly the remaining program it has in the concurrent run, and — whenever no
thread is inside a call body — the same machine state and the same log of engine steps -/
theorem C06_serializable (c : Cfg) (L : Nat) (hwf : WF c L) (eng : Nat → Nat → Nat)
    (progs : Nat → List Op) (hp : ProgOK progs) (ms : Nat) (σ : List Nat) :
    let s := runSched c eng (init c progs ms) σ
    s.ung = false →
    ∃ order : List Nat,
      let q := seqRun eng progs ms order
      (∀ t, (s.th t).frames = [] → q.progs t = (s.th t).prog) ∧
      ((∀ t, (s.th t).frames = [] ∨ (s.th t).pend ≠ [] ∨ (s.th t).exiting = true) →
        q.ms = s.mstate ∧ q.log = cbLog s.trace) :=
  C06P.serializable c L hwf eng progs hp ms σ

/-- calls made from callbacks on the thread that is processing proceed without acquiring anything:
inside a call body the thread is the machine's `current`, it is not blocked, and a `call` step
leaves nothing to enter -/
theorem C06_reentrant_no_deadlock (c : Cfg) (L : Nat) (hwf : WF c L) (eng : Nat → Nat → Nat)
    (progs : Nat → List Op) (hp : ProgOK progs) (ms : Nat) (σ : List Nat) (t : Nat) :
    let s := runSched c eng (init c progs ms) σ
    s.ung = false →
    (s.th t).frames ≠ [] → (s.th t).pend = [] → (s.th t).exiting = false →
      s.current = t + 1 ∧ blocked s t = false ∧
      ∀ tgt tag p, (s.th t).prog = .call tgt tag :: p →
        ((step c eng s t).th t).pend = [] ∧ blocked (step c eng s t) t = false ∧
        (step c eng s t).trace = s.trace ++ [.callBegin t tgt tag] :=
  C06P.reentrant c L hwf eng progs hp ms σ t

/-- contexts held in order, flat AND hierarchical machines, registration changing over time: every
thread's events follow the grammar `callBegin · enter (all contexts configured for the machine and
for the event's model at that moment, in order) · body · exit (reverse order) · callEnd`,
re-entrant calls enter nothing (verified monitor `contextsOrder`, which keeps its own record of the
configured contexts from the `reg` / `unreg` events) -/
theorem C06_contexts_held_in_order (c : Cfg) (L : Nat) (hwf : WF c L) (eng : Nat → Nat → Nat)
    (progs : Nat → List Op) (hp : ProgOK progs) (ms : Nat) (σ : List Nat) :
    let s := runSched c eng (init c progs ms) σ
    s.ung = false → contextsOrder c s.trace = true :=
  C06P.contexts_held c L hwf eng progs hp ms σ

/-- a model that is registered (again) is processed under its contexts: the monitor's record of the
configured contexts is the machine's `model_context_map`, and a registered model's entry is the
machine contexts followed by contexts of its own -/
theorem C06_registered_contexts (c : Cfg) (L : Nat) (hwf : WF c L) (eng : Nat → Nat → Nat)
    (progs : Nat → List Op) (hp : ProgOK progs) (ms : Nat) (σ : List Nat) :
    let s := runSched c eng (init c progs ms) σ
    s.ung = false →
    (∃ f, ctxMonRun c s.trace = some f ∧ f.cm = s.cmap) ∧
    ∀ m, s.cmap m = [] ∨ ∃ xs, s.cmap m = c.mctx ++ xs ∧ Ctx.ident ∉ xs :=
  C06P.registered c L hwf eng progs hp ms σ

/-- released, also on raise: a thread that is not inside a call owns no lock and is not `current`;
and the monitor has seen all its contexts exited (`raised` calls unwind exactly like returning ones) -/
theorem C06_released_on_raise (c : Cfg) (L : Nat) (hwf : WF c L) (eng : Nat → Nat → Nat)
    (progs : Nat → List Op) (hp : ProgOK progs) (ms : Nat) (σ : List Nat) (t : Nat) :
    let s := runSched c eng (init c progs ms) σ
    s.ung = false →
    (s.th t).frames = [] →
      s.current ≠ t + 1 ∧ (∀ l, s.owner l ≠ t + 1) ∧
      ∃ f, ctxMonRun c s.trace = some f ∧ f.th t = {} :=
  C06P.released c L hwf eng progs hp ms σ t

/-- frame lemma for snapshots: pickling / deep-copying the machine from a callback changes nothing but
the thread's program counter — in particular `IdentManager.current`, the lock owners and the context
map are untouched, so (by `C06_reentrant_no_deadlock`, which holds for runs containing snapshots) the
calls that follow on the processing thread still acquire nothing -/
theorem C06_snapshot_frame (c : Cfg) (eng : Nat → Nat → Nat) (s : LState) (t : Nat) (p : List Op)
    (hp : (s.th t).prog = .snap :: p) (hpend : (s.th t).pend = []) (hf : (s.th t).frames ≠ []) :
    let s' := step c eng s t
    s'.current = s.current ∧ s'.owner = s.owner ∧ s'.cmap = s.cmap ∧ s'.mstate = s.mstate ∧
    s'.ung = s.ung ∧ s'.trace = s.trace ++ [.snap t] ∧
    (∀ i, held (s'.th i) = held (s.th i)) ∧ (∀ i, (s'.th i).pend = (s.th i).pend) ∧
    (s'.th t).prog = p :=
  C06P.snapshot_frame c eng s t p hp hpend hf

/-- no shared machine field is written outside the lock window: a step of thread `t` that changes the
shared machine state (`mstate` stands for everything the engine keeps machine-wide: model states, the
state / event tables, and for hierarchical machines the current scope `_stack / scoped / states / events /
prefix_path`), the context map or `IdentManager.current` is taken while `t` owns the machine lock.
In particular every step a thread takes BEFORE it has acquired the lock (`callBegin`, the read of
`current`, entering user contexts that precede the lock, a blocked attempt) leaves all of them
unchanged. -/
theorem C06_shared_writes_in_window (c : Cfg) (L : Nat) (hwf : WF c L) (eng : Nat → Nat → Nat)
    (progs : Nat → List Op) (hp : ProgOK progs) (ms : Nat) (σ : List Nat) (t : Nat) :
    let s := runSched c eng (init c progs ms) σ
    let s' := step c eng s t
    s'.ung = false →
    (s'.mstate ≠ s.mstate ∨ s'.cmap ≠ s.cmap ∨ s'.current ≠ s.current) → s.owner L = t + 1 :=
  C06P.shared_writes c L hwf eng progs hp ms σ t

/-- the lock of a machine exists before any thread runs — also for a machine that was restored from
pickle / deepcopy (`PicklableLock.__setstate__` re-runs `__init__`): in the model a lock is a cell
`owner l` of the initial state, free and the same for every thread; acquiring it never creates or
replaces a cell — a thread acquires lock `l` only when THE cell `l` is free, and no other cell
changes.  (An implementation that allocates the lock lazily on first use can hand two first users
two different locks; the harness makes `Lock()` a yield point to expose that.) -/
theorem C06_locks_allocated_initially (c : Cfg) (progs : Nat → List Op) (ms : Nat) (l : Nat) :
    ((init c progs ms).owner l = 0 ∧ (init c progs ms).current = 0) ∧
    ∀ (s s' : LState) (t : Nat), enterCtx s t (.lock l) = some s' →
      s.owner l = 0 ∧ s'.owner l = t + 1 ∧ ∀ l', l' ≠ l → s'.owner l' = s.owner l' :=
  ⟨C06P.locks_allocated c progs ms l, fun _ _ _ h => C06P.enter_lock_same_cell h⟩

/-! non-vacuity -/

/-- a snapshot in the middle of an event, followed by a re-entrant call: nothing is entered again -/
example :
    let c : Cfg := { hsm := false, base := [], extra := [] }
    let progs : Nat → List Op := fun t =>
      if t = 0 then [.call 1 0, .cb 1, .snap, .call 1 1, .cb 2, .ret false, .cb 3, .ret false] else []
    let s := runSched c (fun a m => 2 * m + a) (init c progs 0) (List.replicate 12 0)
    s.trace = [.callBegin 0 1 0, .enter 0 (.lock 0), .enter 0 .ident, .cb 0 1, .snap 0, .callBegin 0 1 1,
               .cb 0 2, .callEnd 0 false, .cb 0 3, .exit 0 .ident, .exit 0 (.lock 0), .callEnd 0 false] ∧
    noOverlap 0 s.trace = true ∧ contextsOrderDone c 1 s.trace = true := by decide


/-- regression (former finding F-C06-hsm-model-context-ignored, fixed in /repo 2c648fd): a
LockedHierarchicalMachine, model 0 with one context of its own, one thread, one event — the model
context is entered after the machine contexts and exited before them; the monitor accepts -/
def hsmWitness : Cfg := { hsm := true, base := [], extra := [(0, [.user 7])] }

example :
    let progs : Nat → List Op := fun t => if t = 0 then [.call 1 0, .cb 0, .ret false] else []
    let s := runSched hsmWitness (fun _ m => m) (init hsmWitness progs 0) [0, 0, 0, 0, 0, 0, 0, 0, 0]
    s.trace = [.callBegin 0 1 0, .enter 0 (.lock 0), .enter 0 .ident, .enter 0 (.user 7), .cb 0 0,
               .exit 0 (.user 7), .exit 0 .ident, .exit 0 (.lock 0), .callEnd 0 false] ∧
    contextsOrderDone hsmWitness 1 s.trace = true ∧ s.ung = false := by decide

/-- … and a trace in which the hierarchical machine skips the model context (the old behaviour) is
rejected by the monitor -/
example : contextsOrder hsmWitness
    [.callBegin 0 1 0, .enter 0 (.lock 0), .enter 0 .ident, .cb 0 0] = false := by decide

/-- re-registration: model 0 is removed and added again with a different context; the next event on
it holds the machine contexts and the NEW model context; a trace in which that event enters nothing
(a re-registered model left without contexts) is rejected by the monitor -/
example :
    let c : Cfg := { hsm := false, base := [], extra := [(0, [.user 7])] }
    let progs : Nat → List Op := fun t =>
      if t = 0 then [.call 0 0, .unreg 0, .ret false, .call 0 1, .reg 0 [.user 8], .ret false,
                     .call 1 2, .cb 0, .ret false] else []
    let s := runSched c (fun _ m => m) (init c progs 0) (List.replicate 23 0)
    s.trace.drop 14 = [.callBegin 0 1 2, .enter 0 (.lock 0), .enter 0 .ident, .enter 0 (.user 8), .cb 0 0,
               .exit 0 (.user 8), .exit 0 .ident, .exit 0 (.lock 0), .callEnd 0 false] ∧
    contextsOrderDone c 1 s.trace = true ∧ s.ung = false ∧
    contextsOrder c (s.trace.take 14 ++ [.callBegin 0 1 2, .cb 0 0]) = false := by decide

/-- default configuration (PicklableLock + ident) and a model context -/
example : WF { hsm := false, base := [], extra := [(0, [.user 7])] } 0 := by decide

/-- two threads contend: thread 1 is blocked while thread 0 processes, both calls complete, the
second one raises; the monitors accept, everything is released -/
example :
    let c : Cfg := { hsm := false, base := [], extra := [(0, [.user 7])] }
    let progs : Nat → List Op := fun t =>
      if t = 0 then [.call 1 0, .cb 1, .call 1 1, .cb 2, .ret false, .ret false]
      else if t = 1 then [.call 1 2, .cb 3, .ret true] else []
    let s1 := runSched c (fun a m => 2 * m + a) (init c progs 0) [0, 1, 0, 1, 1]
    let s := runSched c (fun a m => 2 * m + a) s1 [0, 0, 0, 0, 0, 0, 0, 0, 0, 0, 1, 1, 1, 1, 1, 1, 1, 1]
    blocked s1 1 = true ∧ s.mstate = 11 ∧ cbLog s.trace = [(0, 1), (0, 2), (1, 3)] ∧
    noOverlap 0 s.trace = true ∧ contextsOrderDone c 2 s.trace = true ∧
    s.current = 0 ∧ s.owner 0 = 0 ∧ s.ung = false := by decide

/-- `machine.dispatch(ev)` is ONE locked call whose body is the sequence of the per-model events
(re-entrant calls: they enter nothing, not even model 1's own context): thread 0 takes the machine
lock once for both models, thread 1's event on model 1 — attempted between the two models — is
processed after the whole dispatch -/
example :
    let c : Cfg := { hsm := false, base := [], extra := [(1, [.user 7])] }
    let progs : Nat → List Op := fun t =>
      if t = 0 then [.call 0 0, .call 1 1, .cb 1, .ret false, .call 2 2, .cb 2, .ret false, .ret false]
      else if t = 1 then [.call 2 3, .cb 3, .ret false] else []
    let s := runSched c (fun a m => 2 * m + a) (init c progs 0)
      [0, 0, 0, 1, 0, 0, 1, 0, 1, 0, 0, 0, 1, 0, 0, 0, 1, 1, 1, 1, 1, 1, 1, 1]
    cbLog s.trace = [(0, 1), (0, 2), (1, 3)] ∧ noOverlap 0 s.trace = true ∧
    contextsOrderDone c 2 s.trace = true ∧
    (s.trace.filter (· == Ev.enter 0 (.lock 0))).length = 1 ∧ s.ung = false := by decide

/-- an event on a model that is not registered (flat machine) enters nothing: the run is flagged -/
example :
    let c : Cfg := { hsm := false, base := [], extra := [], absent := [0] }
    (runSched c (fun _ m => m) (init c (fun _ => [.call 1 0, .cb 0, .ret false]) 0) [0]).ung = true := by
  decide

end Locked
end TM
