/-
  Props/C06.lean — property C06: "Locked machines serialize event processing under every thread
  schedule".

  Model: `Model/Locked.lean` (small-step LTS of locking.py's protocol).  Quantifiers of every theorem:
  ALL configurations `c` (any machine_context list containing a mutex `L`, any model_context lists),
  ALL thread programs `progs : Nat → List Op` (any number of threads, any calls, re-entrant calls,
  raising calls, even malformed programs), ALL engines `eng` (the effect of an engine step on the
  shared machine state is an arbitrary function), ALL schedules `σ : List Nat`.

  `WF c L`: the machine contexts contain the mutex `L`, and the user cannot supply the machine's own
  IdentManager as a context.
-/
import Proofs.C06

namespace TM
namespace Locked

/-- mutual exclusion: a lock is held by at most one thread; `IdentManager.current` is 0 or the one
thread that is inside the ident context, and that thread holds the machine lock -/
theorem C06_mutex (c : Cfg) (L : Nat) (hwf : WF c L) (eng : Nat → Nat → Nat) (progs : Nat → List Op)
    (ms : Nat) (σ : List Nat) :
    let s := runSched c eng (init progs ms) σ
    (∀ t t' l, Ctx.lock l ∈ held (s.th t) → Ctx.lock l ∈ held (s.th t') → t = t') ∧
    (∀ t, Ctx.ident ∈ held (s.th t) ↔ s.current = t + 1) ∧
    (∀ t, Ctx.ident ∈ held (s.th t) → Ctx.lock L ∈ held (s.th t)) ∧
    (∀ t l, Ctx.lock l ∈ held (s.th t) ↔ s.owner l = t + 1) :=
  C06P.mutex c L hwf eng progs ms σ

/-- no overlap: in every trace, the windows of the machine lock are disjoint and every engine step /
callback happens inside a window of its own thread (verified monitor `noOverlap`) -/
theorem C06_no_overlap (c : Cfg) (L : Nat) (hwf : WF c L) (eng : Nat → Nat → Nat)
    (progs : Nat → List Op) (ms : Nat) (σ : List Nat) :
    noOverlap L (runSched c eng (init progs ms) σ).trace = true :=
  C06P.no_overlap c L hwf eng progs ms σ

/-- serializable: there is an order of outermost calls whose *serial* execution (sequential
reference semantics `seqRun`: no locks, one call after the other) leaves every thread that is not
inside a call with exactly the remaining program it has in the concurrent run, and — whenever no
thread is inside a call body — the same machine state and the same log of engine steps -/
theorem C06_serializable (c : Cfg) (L : Nat) (hwf : WF c L) (eng : Nat → Nat → Nat)
    (progs : Nat → List Op) (ms : Nat) (σ : List Nat) :
    let s := runSched c eng (init progs ms) σ
    ∃ order : List Nat,
      let q := seqRun eng progs ms order
      (∀ t, (s.th t).frames = [] → q.progs t = (s.th t).prog) ∧
      ((∀ t, (s.th t).frames = [] ∨ (s.th t).pend ≠ [] ∨ (s.th t).exiting = true) →
        q.ms = s.mstate ∧ q.log = cbLog s.trace) :=
  C06P.serializable c L hwf eng progs ms σ

/-- calls made from callbacks on the thread that is processing proceed without acquiring anything:
inside a call body the thread is the machine's `current`, it is not blocked, and a `call` step
leaves nothing to enter -/
theorem C06_reentrant_no_deadlock (c : Cfg) (L : Nat) (hwf : WF c L) (eng : Nat → Nat → Nat)
    (progs : Nat → List Op) (ms : Nat) (σ : List Nat) (t : Nat) :
    let s := runSched c eng (init progs ms) σ
    (s.th t).frames ≠ [] → (s.th t).pend = [] → (s.th t).exiting = false →
      s.current = t + 1 ∧ blocked s t = false ∧
      ∀ tgt tag p, (s.th t).prog = .call tgt tag :: p →
        ((step c eng s t).th t).pend = [] ∧ blocked (step c eng s t) t = false ∧
        (step c eng s t).trace = s.trace ++ [.callBegin t tgt tag] :=
  C06P.reentrant c L hwf eng progs ms σ t

/-- FULL STRENGTH (false for hierarchical machines, see the counterexample): every thread's events
follow the grammar `callBegin · enter (all configured machine + model contexts, in order) · body ·
exit (reverse order) · callEnd`, re-entrant calls enter nothing -/
def ContextsHeldInOrder (c : Cfg) : Prop :=
  ∀ (eng : Nat → Nat → Nat) (progs : Nat → List Op) (ms : Nat) (σ : List Nat),
    contextsOrder (configured c) (runSched c eng (init progs ms) σ).trace = true

/-- exclusion: the machine is flat, or no model has contexts of its own -/
theorem C06_contexts_held_in_order_partial (c : Cfg) (L : Nat) (hwf : WF c L)
    (hx : c.hsm = false ∨ ∀ p ∈ c.extra, p.2 = []) : ContextsHeldInOrder c :=
  C06P.contexts_partial c L hwf hx

/-- the witness: LockedHierarchicalMachine, model 0 with one context of its own, one thread, one event -/
def hsmWitness : Cfg := { hsm := true, base := [], extra := [(0, [.user 7])] }

theorem C06_contexts_held_in_order_counterexample : ¬ ContextsHeldInOrder hsmWitness :=
  C06P.contexts_counterexample

/-- released, also on raise: a thread that is not inside a call owns no lock and is not `current`;
and the monitor has seen all its contexts exited (`raised` calls unwind exactly like returning ones) -/
theorem C06_released_on_raise (c : Cfg) (L : Nat) (hwf : WF c L)
    (hx : c.hsm = false ∨ ∀ p ∈ c.extra, p.2 = []) (eng : Nat → Nat → Nat)
    (progs : Nat → List Op) (ms : Nat) (σ : List Nat) (t : Nat) :
    let s := runSched c eng (init progs ms) σ
    (s.th t).frames = [] →
      s.current ≠ t + 1 ∧ (∀ l, s.owner l ≠ t + 1) ∧
      ∃ f, ctxMonRun (configured c) s.trace = some f ∧ f t = {} :=
  C06P.released c L hwf hx eng progs ms σ t

/-! non-vacuity -/

/-- default configuration (PicklableLock + ident) and a model context -/
example : WF { hsm := false, base := [], extra := [(0, [.user 7])] } 0 := by decide

/-- two threads contend: thread 1 is blocked while thread 0 processes, both calls complete, the
second one raises; the monitors accept, everything is released -/
example :
    let c : Cfg := { hsm := false, base := [], extra := [(0, [.user 7])] }
    let progs : Nat → List Op := fun t =>
      if t = 0 then [.call 1 0, .cb 1, .call 1 1, .cb 2, .ret false, .ret false]
      else if t = 1 then [.call 1 2, .cb 3, .ret true] else []
    let s1 := runSched c (fun a m => 2 * m + a) (init progs 0) [0, 1, 0, 1, 1]
    let s := runSched c (fun a m => 2 * m + a) s1 [0, 0, 0, 0, 0, 0, 0, 0, 0, 0, 1, 1, 1, 1, 1, 1, 1, 1]
    blocked s1 1 = true ∧ s.mstate = 11 ∧ cbLog s.trace = [(0, 1), (0, 2), (1, 3)] ∧
    noOverlap 0 s.trace = true ∧ contextsOrderDone (configured c) 2 s.trace = true ∧
    s.current = 0 ∧ s.owner 0 = 0 := by decide

end Locked
end TM
