/-
  Props/C04N.lean — property C04 ("a failing callback is contained: outcome, state, usability at any crash point")
  on the HIERARCHICAL engine (`HierarchicalMachine`, model `Model/Tree.lean`, `Model/Nested.lean`,
  `Model/NestedDispatch.lean` written after `transitions/extensions/nesting.py`).

  Statements only (lemmas in `Proofs/C04N.lean`, `Proofs/C04NState.lean`, `Proofs/C04NQueue.lean`,
  `Proofs/C04NShift.lean`, `Proofs/C04NUsable.lean`).  Containment is the acceptor of `Model/Spec/C04N.lean`
  (`C04N.aApi` one trigger call, `C04N.aHistory` / `C04N.checkTrace` a recorded trace): an event is a sequence of
  transition attempts (one per region / declaring scope), each a sequence of stages; `Acc.bind` cuts everything that
  was to follow a failure; then the on_exception handlers iff registered, then the finalize callbacks (always, their
  own exception dropped), outcome `raised e` / normal return; every callback is shown the configuration the acceptor
  tracks, which moves only at `_update_model`.

  Quantifiers: EVERY configuration `NCfg` (any state tree, compound / parallel states, final flags, global and local
  transitions, queued or not), EVERY script — any callback, condition, on_exception handler or finalize callback may
  raise any exception (`Exception` or `BaseException` kinds) at any invocation, any number of them, and callbacks may
  trigger further events (processed immediately on unqueued machines, through the queue on queued ones) — and every
  history of trigger calls.  Only the statements about WHERE the configuration is after a failure
  (`C04N_state_of_failure`, `C04N_conf_reach`, `C04N_conf_frozen`) assume scripts without re-entrant commands (a
  callback that triggers events moves the configuration itself).
-/
import Proofs.C04N
import Proofs.C04NState
import Proofs.C04NQueue
import Proofs.C04NUsable

namespace TM
open C04N

/-- **C04N, one trigger call** (top-level or re-entrant, direct or through the queue, any script): the segment it
appends to the log is accepted by the containment acceptor, which also fixes the outcome (`ok b` ↔ the call returned
`b`, `fail e` ↔ `e` reached the caller) and the bookkeeping afterwards (configuration, queue). -/
theorem C04N_step (sc : Script) (cfg : NCfg) (qmax f ev : Nat) (s : NSt) :
    match napiTrigger (nrunCmd sc cfg qmax f) sc cfg qmax ev s with
    | .ok b s' => ∃ seg, s'.log = s.log ++ seg ∧
        ∀ rest, aApi (aRunCmd cfg qmax f) cfg qmax s.abs (seg ++ rest) = some (.ok b, s'.abs, rest)
    | .err e s' => ∃ seg, s'.log = s.log ++ seg ∧
        ∀ rest, aApi (aRunCmd cfg qmax f) cfg qmax s.abs (seg ++ rest) = some (.fail e, s'.abs, rest)
    | .oof => True := by
  have h := napiTrigger_sim (invokeSim_nrunCmd sc cfg qmax f) cfg qmax ev s
  cases hr : napiTrigger (nrunCmd sc cfg qmax f) sc cfg qmax ev s with
  | ok b s' => rw [hr] at h; exact h
  | err e s' => rw [hr] at h; exact h
  | oof => trivial

/-- the same for scripts without re-entrant commands, whatever interprets commands on either side -/
theorem C04N_step_noCmds (sub : NSub) (inner : Inner) (sc : Script) (hC : NoCmds sc) (cfg : NCfg) (qmax ev : Nat) (s : NSt) :
    match napiTrigger sub sc cfg qmax ev s with
    | .ok b s' => ∃ seg, s'.log = s.log ++ seg ∧
        ∀ rest, aApi inner cfg qmax s.abs (seg ++ rest) = some (.ok b, s'.abs, rest)
    | .err e s' => ∃ seg, s'.log = s.log ++ seg ∧
        ∀ rest, aApi inner cfg qmax s.abs (seg ++ rest) = some (.fail e, s'.abs, rest)
    | .oof => True := by
  have h := napiTrigger_sim (invokeSim_of_noCmds sub sc inner hC) cfg qmax ev s
  cases hr : napiTrigger sub sc cfg qmax ev s with
  | ok b s' => rw [hr] at h; exact h
  | err e s' => rw [hr] at h; exact h
  | oof => trivial

/-- **C04N, every history** (any number of failures at any positions, re-entrant calls included): the whole trace is
accepted call by call, and the machine is idle after every call of a history that started idle. -/
theorem C04N_history (sc : Script) (cfg : NCfg) (qmax fuel : Nat) (h : List Nat) (s s' : NSt)
    (hrun : nrunHistory sc cfg qmax fuel h s = some s') :
    ∃ tr, s'.log = s.log ++ tr ∧
      (∀ n, h.length ≤ n → (aHistory cfg qmax fuel n s.abs tr 0).2.1 = true) ∧
      (s.queue = [] → s'.queue = []) := by
  obtain ⟨tr, l, _, a⟩ := nrunHistory_sim sc cfg qmax fuel h s s' hrun
  exact ⟨tr, l, fun n hn => by rw [a n 0 hn], fun hq => nrunHistory_idle sc cfg qmax fuel h s s' hq hrun⟩

/-- what the driver's `c04n` request computes accepts every model history from the initial configuration -/
theorem C04N_monitor_accepts_model (sc : Script) (cfg : NCfg) (qmax fuel : Nat) (h : List Nat) (s0 s' : NSt)
    (h0 : NSt.init cfg = some s0) (hrun : nrunHistory sc cfg qmax fuel h s0 = some s') :
    checkTrace cfg qmax fuel s0.conf s'.log = true := by
  obtain ⟨tr, l, hlen, a⟩ := nrunHistory_sim sc cfg qmax fuel h s0 s' hrun
  simp only [NSt.init, Option.map_eq_some_iff] at h0
  obtain ⟨f, _, rfl⟩ := h0
  have hl : s'.log = tr := by rw [l]; rfl
  rw [hl]
  unfold checkTrace
  have := a tr.length 0 hlen
  simp only [NSt.abs] at this
  rw [this]

/-! ### what acceptance means, spelled out on the acceptor itself (so the clauses cannot be lost) -/

/-- after a failure nothing that was to follow is accepted — no later callback of the stage, no later stage of the
transition, no later transition of the event: the sequencing combinator passes the failure on without looking at the
continuation -/
theorem C04N_no_later_stage {α β : Type} (p : Acc α) (q q' : α → Acc β) (a : ASt) (l : List Item) (e : Exc) (a' : ASt)
    (l' : List Item) (h : p a l = some (.fail e, a', l')) :
    p.bind q a l = some (.fail e, a', l') ∧ p.bind q a l = p.bind q' a l := by
  simp [Acc.bind, h]

/-- the outcome of an event is fixed by its body and the on_exception handlers (`aHandled`); the finalize stage then
consumes its callbacks — raising or not, `aFinalize` yields no outcome — and the event ends with that same outcome:
an exception raised by a finalize callback never replaces it -/
theorem C04N_finalize_never_replaces (inner : Inner) (cfg : NCfg) (x : Ctx) (ev : Nat) (a : ASt) (l : List Item)
    (o : Rs Bool) (a' : ASt) (l' : List Item) (h : aTriggerEvent inner cfg x ev a l = some (o, a', l')) :
    ∃ a1 l1, aHandled inner cfg x ev a l = some (o, a1, l1) ∧ aFinalize inner cfg x a1 l1 = some (a', l') := by
  unfold aTriggerEvent at h
  split at h
  · cases h
  · rename_i o1 a1 l1 hh
    split at h
    · rename_i a2 l2 hf
      simp only [Option.some.injEq, Prod.mk.injEq] at h
      obtain ⟨rfl, rfl, rfl⟩ := h
      exact ⟨a1, l1, hh, hf⟩
    · cases h

/-- without handlers the exception of the body reaches the caller; with handlers the event returns normally (unless
a handler raises: then that exception propagates) -/
theorem C04N_outcome (inner : Inner) (cfg : NCfg) (x : Ctx) (ev : Nat) (a : ASt) (l : List Item)
    (e : Exc) (a1 : ASt) (l1 : List Item)
    (hb : aBody inner cfg x ev { a with result := none, exited := [] } l = some (.fail e, a1, l1)) :
    (cfg.onException = [] → aHandled inner cfg x ev a l = some (.fail e, a1, l1)) ∧
    (cfg.onException ≠ [] → ∀ a2 l2, aCallbacks inner cfg .onException x cfg.onException a1 l1 = some (.ok (), a2, l2) →
      aHandled inner cfg x ev a l = some (.ok (a2.result.getD false), a2, l2)) := by
  constructor
  · intro hex
    simp only [aHandled, hb, hex]
  · intro hex a2 l2 hc
    cases hx : cfg.onException with
    | nil => exact absurd hx hex
    | cons h0 hs =>
      rw [hx] at hc
      simp only [aHandled, hb, hx, hc]

/-! ### where the configuration is after a failure (scripts without re-entrant commands) -/

/-- **the exact boundary the code has**: `_change_state` runs the exit partials, then `_update_model`, then the
enter partials.  The trace of a failed `Transition.execute` is `pre ++ post`: `pre` holds only callbacks of the
stages before `_update_model` (prepare, conditions, unless, before_state_change, before, on_exit of the exit chain),
`post` only callbacks of the stages after it (on_enter of the enter chain, on_final, after, after_state_change).  If
no callback after `_update_model` ran (or the transition is internal) the configuration is the one the transition
started from — a raise inside the exit chain after some exits leaves it unchanged —, otherwise it is the resolved
destination configuration — a raise inside the enter chain leaves the destination.  Nothing else, no rollback. -/
theorem C04N_state_of_failure (sub : NSub) (sc : Script) (cfg : NCfg) (hC : NoCmds sc) (scope : Scope) (x : Ctx)
    (tr : TRef) (t : NTrans) (s s' : NSt) (e : Exc) (h : nexecute sub sc cfg scope x tr t s = .err e s') :
    ∃ pre post, s'.log = s.log ++ pre ++ post ∧ OnlySlots Slot.beforeUpdate pre ∧ OnlySlots Slot.afterUpdate post ∧
      (((post = [] ∨ t.dest = none) ∧ s'.conf = s.conf) ∨
       (∃ d r, t.dest = some d ∧ resolveTransition cfg.root scope s.conf d = .ok r ∧ s'.conf = r.tree)) :=
  nexecute_failure_state sub sc cfg hC scope x tr t s s' e h

/-- a transition that completes: blocked → unchanged; executed → the destination (unchanged if internal) -/
theorem C04N_state_of_success (sub : NSub) (sc : Script) (cfg : NCfg) (hC : NoCmds sc) (scope : Scope) (x : Ctx)
    (tr : TRef) (t : NTrans) (s s' : NSt) (b : Bool) (h : nexecute sub sc cfg scope x tr t s = .ok b s') :
    (b = false → s'.conf = s.conf) ∧
    (b = true → match t.dest with
      | none => s'.conf = s.conf
      | some d => ∃ r, resolveTransition cfg.root scope s.conf d = .ok r ∧ s'.conf = r.tree) :=
  nexecute_success_state sub sc cfg hC scope x tr t s s' b h

/-- the handlers and the finalize callbacks are shown — and leave — the configuration the `try:` part ended in -/
theorem C04N_conf_frozen (cfg : NCfg) (sub : NSub) (sc : Script) (hC : NoCmds sc) (x : Ctx) (ev : Nat) (s s' : NSt)
    (h : (ntriggerEvent sub sc cfg x ev s).state? = some s') :
    ∃ s1, (triggerEventBody sub sc cfg x ev { s with result := none, exited := [] }).state? = some s1 ∧
      s'.conf = s1.conf :=
  ntriggerEvent_conf_frozen cfg sub sc hC x ev s s' h

/-- whatever fails, wherever: after a trigger call — and after a whole history — the configuration is one that
resolved state changes of declared scopes lead to from the configuration before; each attempted transition moved
its region not at all or all the way -/
theorem C04N_conf_reach (cfg : NCfg) (sc : Script) (hC : NoCmds sc) (qmax fuel : Nat) (evs : List Nat) (s s' : NSt)
    (h : nrunHistory sc cfg qmax fuel evs s = some s') : ConfReach cfg s.conf s'.conf :=
  nrunHistory_confReach cfg sc hC qmax fuel evs s s' h

/-! ### afterwards the machine is fully usable -/

/-- **nothing is left behind.**  After a trigger call on an idle machine — whatever its outcome, wherever it failed,
re-entrant calls included — the engine state and a FRESH machine placed in the same configuration (same script
position) are the same machine (`SameMachine`: configuration, empty queue, counters; the root scope is restored by
construction, `result` / `exited` belong to the finished event's `event_data`), and `SameMachine` is preserved by
every further call with identical outcomes and identical traces: any further history behaves exactly as on the
fresh machine. -/
theorem C04N_usable_afterwards (sc : Script) (cfg : NCfg) (qmax f ev : Nat) (s s' : NSt) (hidle : s.queue = [])
    (h : (napiTrigger (nrunCmd sc cfg qmax f) sc cfg qmax ev s).state? = some s') :
    s'.queue = [] ∧ SameMachine s' s'.placed ∧
    ∀ (fuel : Nat) (hist : List Nat),
      (nrunHistory sc cfg qmax fuel hist s').map (fun t => (t.log.drop s'.log.length, t.conf, t.queue, t.counts, t.nextTag)) =
      (nrunHistory sc cfg qmax fuel hist s'.placed).map (fun t => (t.log, t.conf, t.queue, t.counts, t.nextTag)) :=
  usable_afterwards sc cfg qmax f ev s s' hidle h

/-- the relation of `C04N_usable_afterwards` is preserved by every step: two engine states that are the same machine
answer every trigger call with the same outcome, the same appended trace, and are the same machine afterwards -/
theorem C04N_sameMachine_step (sc : Script) (cfg : NCfg) (qmax f ev : Nat) (s1 s2 : NSt) (hR : SameMachine s1 s2) :
    match napiTrigger (nrunCmd sc cfg qmax f) sc cfg qmax ev s1, napiTrigger (nrunCmd sc cfg qmax f) sc cfg qmax ev s2 with
    | .ok b1 t1, .ok b2 t2 => b1 = b2 ∧ SameMachine t1 t2 ∧ ∃ seg, t1.log = s1.log ++ seg ∧ t2.log = s2.log ++ seg
    | .err e1 t1, .err e2 t2 => e1 = e2 ∧ SameMachine t1 t2 ∧ ∃ seg, t1.log = s1.log ++ seg ∧ t2.log = s2.log ++ seg
    | .oof, .oof => True
    | _, _ => False :=
  sameMachine_step sc cfg qmax f ev s1 s2 hR

/-! ### non-vacuity: a parallel state with two regions; one event runs a transition in each region -/

def c4Leaf (n : Nat) (en ex : List Nat) : SDef := { name := n, onEnter := en, onExit := ex }

/-- `P`(1) parallel [`a`(2) ⊃ `a1`(3), `a2`(4, final, on_final 60);  `b`(5) ⊃ `b1`(6), `b2`(7)];
event 0: `P_a_a1 → P_a_a2` (before 20, after 21) and `P_b_b1 → P_b_b2` (before 22, after 23);
prepare_event 1, finalize 2 and 4, on_exception `handlers` -/
def exCfg4N (handlers : List Nat) : NCfg :=
  { states := .cons { name := 1, initial := [2, 5], onEnter := [10], onExit := [11] }
      (.cons { name := 2, initial := [3], onEnter := [12], onExit := [13] }
        (.cons (c4Leaf 3 [30] [31]) .nil (.cons { name := 4, onEnter := [40], onExit := [41], final := true, onFinal := [60] } .nil .nil))
        (.cons { name := 5, initial := [6], onEnter := [14], onExit := [15] }
          (.cons (c4Leaf 6 [32] [33]) .nil (.cons (c4Leaf 7 [42, 43] [44]) .nil .nil)) .nil))
      .nil,
    events := [(0, [{ source := [1, 2, 3], dest := some [1, 2, 4], before := [20], after := [21] },
                    { source := [1, 5, 6], dest := some [1, 5, 7], before := [22], after := [23] }])],
    prepareEvent := [1], finalize := [2, 4], onException := handlers, initial := [1] }

/-- callback 42 (first enter callback of `P_b_b2`, the destination of the SECOND transition of the event) raises
`User 7`; finalize callback 2 raises too -/
def exScript4N : Script := fun c _ =>
  if c = 42 then { out := .raise (.user 7) } else if c = 2 then { out := .raise (.base 1) } else {}

example : NoCmds exScript4N := by intro c k; unfold exScript4N; split <;> (try split) <;> rfl


/-- without handlers: the first region's transition completed (with its on_final callback), the second failed in its
enter chain: the exception reaches the caller, the configuration is `[P_a_a2, P_b_b2]` (both destinations; no
rollback of either), callback 43 / after 23 never ran, finalize callback 2 ran and its own exception vanished, callback
4 (after the raising finalize callback) did not run; the queue is empty -/
example : ((NSt.init (exCfg4N [])).bind fun s0 => (nrunHistory exScript4N (exCfg4N []) 4 2 [0] s0).map fun s =>
    (s.log.getLast?, buildStateList [] s.conf, s.queue, s.log.length))
    = some (some (.raised 0 (.user 7)),
            .cons (.name [1, 2, 4]) (.cons (.name [1, 5, 7]) .nil), [], 24) := by decide

/-- the callbacks from the enter chains on, as (slot, callback, configuration mask shown): on_enter 40, on_final 60,
after 21 (first transition), on_enter 42 (raises; the configuration has moved), finalize 2 — nothing else -/
example : ((NSt.init (exCfg4N [])).bind fun s0 => (nrunHistory exScript4N (exCfg4N []) 4 2 [0] s0).map fun s =>
    s.log.filterMap fun i => match i with
      | .call sl c _ _ st => if sl.code ≥ 7 then some (sl.code, c, st) else none
      | _ => none)
    = some [(7, 40, 40), (8, 60, 40), (9, 21, 40), (7, 42, 72), (11, 2, 72)] := by decide

/-- … and the containment acceptor accepts that trace (the hypotheses of `C04N_monitor_accepts_model` are met) -/
example : ∀ s0 s, NSt.init (exCfg4N []) = some s0 → nrunHistory exScript4N (exCfg4N []) 4 2 [0] s0 = some s →
    checkTrace (exCfg4N []) 4 2 s0.conf s.log = true :=
  fun s0 s h0 h => C04N_monitor_accepts_model exScript4N (exCfg4N []) 4 2 [0] s0 s h0 h

/-- with a handler (callback 50): called once with the destination configuration, the trigger returns normally
(True: the first transition executed) -/
example : ((NSt.init (exCfg4N [50])).bind fun s0 => (nrunHistory exScript4N (exCfg4N [50]) 4 2 [0] s0).map fun s =>
    (s.log.getLast?, buildStateList [] s.conf, s.queue, s.log.length))
    = some (some (.ret 0 true), .cons (.name [1, 2, 4]) (.cons (.name [1, 5, 7]) .nil), [], 26) := by decide

example : ((NSt.init (exCfg4N [50])).bind fun s0 => (nrunHistory exScript4N (exCfg4N [50]) 4 2 [0] s0).map fun s =>
    s.log.filterMap fun i => match i with
      | .call sl c _ _ st => if sl.code ≥ 11 then some (sl.code, c, st) else none
      | _ => none)
    = some [(12, 50, 72), (11, 2, 72)] := by decide

/-- a raise inside the EXIT chain of the second transition (callback 33 = on_exit of `P_b_b1`): the second region is
left as it was, the first one has moved; the machine stays usable (second call: region `a` has no transition from
`a2`, region `b` fails again) -/
def exScript4X : Script := fun c _ => if c = 33 then { out := .raise (.base 3) } else {}

example : ((NSt.init (exCfg4N [])).bind fun s0 => (nrunHistory exScript4X (exCfg4N []) 4 2 [0, 0] s0).map fun s =>
    (buildStateList [] s.conf, s.queue, s.log.getLast?))
    = some (.cons (.name [1, 2, 4]) (.cons (.name [1, 5, 6]) .nil), [], some (.raised 1 (.base 3))) := by decide

/-! the acceptor is not trivially true: a two-state machine, the enter callback of the destination raises -/

def exTinyStates : SForest := .cons { name := 1, onExit := [11] } .nil (.cons { name := 2, onEnter := [12] } .nil .nil)
def exTinyTr : NTrans := { source := [1], dest := some [2], before := [20], after := [21] }
def exTiny : NCfg := { states := exTinyStates, events := [(0, [exTinyTr])], finalize := [2], initial := [1] }

/-- accepted: the failure in on_enter (configuration already the destination: mask 2), finalize, outcome `raised` -/
example : checkTrace exTiny 4 2 (.cons 1 .nil .nil)
  [.api 0 0 0 0, .call .before 20 0 0 1, .done 20 (.ret true), .call .onExit 11 0 0 1, .done 11 (.ret true),
   .call .onEnter 12 0 0 2, .done 12 (.raise (.user 7)), .call .finalize 2 0 0 2, .done 2 (.ret true),
   .raised 0 (.user 7)] = true := by decide

/-- rejected: the `after` callback runs after the failure -/
example : checkTrace exTiny 4 2 (.cons 1 .nil .nil)
  [.api 0 0 0 0, .call .before 20 0 0 1, .done 20 (.ret true), .call .onExit 11 0 0 1, .done 11 (.ret true),
   .call .onEnter 12 0 0 2, .done 12 (.raise (.user 7)), .call .after 21 0 0 2, .done 21 (.ret true),
   .call .finalize 2 0 0 2, .done 2 (.ret true), .raised 0 (.user 7)] = false := by decide

/-- rejected: the finalize stage is missing -/
example : checkTrace exTiny 4 2 (.cons 1 .nil .nil)
  [.api 0 0 0 0, .call .before 20 0 0 1, .done 20 (.ret true), .call .onExit 11 0 0 1, .done 11 (.ret true),
   .call .onEnter 12 0 0 2, .done 12 (.raise (.user 7)), .raised 0 (.user 7)] = false := by decide

/-- rejected: the exception is swallowed although no handler is registered -/
example : checkTrace exTiny 4 2 (.cons 1 .nil .nil)
  [.api 0 0 0 0, .call .before 20 0 0 1, .done 20 (.ret true), .call .onExit 11 0 0 1, .done 11 (.ret true),
   .call .onEnter 12 0 0 2, .done 12 (.raise (.user 7)), .call .finalize 2 0 0 2, .done 2 (.ret true),
   .ret 0 false] = false := by decide

/-- rejected: the configuration is rolled back to the source after the failure in on_enter (finalize shown mask 1) -/
example : checkTrace exTiny 4 2 (.cons 1 .nil .nil)
  [.api 0 0 0 0, .call .before 20 0 0 1, .done 20 (.ret true), .call .onExit 11 0 0 1, .done 11 (.ret true),
   .call .onEnter 12 0 0 2, .done 12 (.raise (.user 7)), .call .finalize 2 0 0 1, .done 2 (.ret true),
   .raised 0 (.user 7)] = false := by decide

/-- rejected: a finalize callback's exception replaces the outcome -/
example : checkTrace exTiny 4 2 (.cons 1 .nil .nil)
  [.api 0 0 0 0, .call .before 20 0 0 1, .done 20 (.ret true), .call .onExit 11 0 0 1, .done 11 (.ret true),
   .call .onEnter 12 0 0 2, .done 12 (.raise (.user 7)), .call .finalize 2 0 0 2, .done 2 (.raise (.base 1)),
   .raised 0 (.base 1)] = false := by decide

end TM
