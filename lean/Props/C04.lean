/-
  Props/C04.lean — property C04: "A failing callback is contained: outcome, state, usability at any
  crash point" — flat synchronous engine.

  Statements only (lemmas in `Proofs/C04.lean`).  Containment is the acceptor `C04.expectEvent` /
  `C04.checkTrace` of `Model/Spec/C04.lean`: the no-failure segment cut right after the first raising
  call, then the on_exception handlers iff registered, then the finalize callbacks (always, their own
  exception swallowed), outcome `raised e` / normal return, state = source or destination according to
  the failing stage.

  Quantifiers: every configuration, EVERY script without re-entrant commands — any callback or
  condition may raise any exception (`Exception` or `BaseException` kinds) at any invocation, any
  number of them, including on_exception handlers and finalize callbacks themselves; the single
  crash point of the property statement is the special case — and every history of trigger calls.
-/
import Proofs.C04
import Props.C01

namespace TM
open C04

/-- **C04, one step.** On an idle unqueued machine a trigger call appends `api … :: seg` where `seg`
is accepted by the containment acceptor, which also fixes outcome and the state afterwards; the
machine is left idle (`queue = []`, same models): nothing is left behind, so every continuation runs
exactly as from a fresh machine placed in that state. -/
theorem C04_step (sub : Sub) (sc : Script) (cfg : Cfg)
    (hC : NoCmds sc) (hWF : cfg.WF) (hq : cfg.queued = false)
    (qmax m ev : Nat) (s : St) (src : Nat) (ts : List Trans)
    (hev : cfg.event? ev = some ts) (hm : alookup m s.mstate = some src) (hreg : (cfg.state? src).isSome)
    (hidle : s.queue = []) :
    ∃ (s' : St) (st' : Nat) (seg : List Item),
      (apiTrigger sub sc cfg qmax m ev s).state? = some s' ∧
      s'.log = s.log ++ .api 0 s.nextTag m ev :: seg ∧
      s'.mstate = aset m st' s.mstate ∧ s'.queue = [] ∧ s'.models = s.models ∧
      s'.nextTag = s.nextTag + 1 ∧ (cfg.state? st').isSome ∧
      ∀ rest, expectEvent cfg m s.nextTag src ev (seg ++ rest) = some (st', rest) :=
  apiTrigger_any sub sc cfg hC hWF hq qmax m ev s src ts hev hm hreg hidle

/-- **C04, every history** (any number of failures at any positions): the run never gets stuck, the
machine is idle and in registered states after every call, and the whole trace is accepted. -/
theorem C04_history (sc : Script) (cfg : Cfg)
    (hC : NoCmds sc) (hWF : cfg.WF) (hq : cfg.queued = false) (qmax fuel : Nat) :
    ∀ (h : List Cmd) (s : St), s.queue = [] → StatesRegistered cfg s → TriggerHistory cfg s h →
    ∃ (s' : St) (tr : List Item),
      runHistory sc cfg qmax (fuel + 1) h s = some s' ∧ s'.log = s.log ++ tr ∧
      s'.queue = [] ∧ StatesRegistered cfg s' ∧
      ∀ n, h.length ≤ n → checkTrace cfg n s.mstate tr = true := by
  intro h
  induction h with
  | nil =>
    intro s hq0 hreg _
    exact ⟨s, [], rfl, by simp, hq0, hreg, fun n _ => by cases n <;> rfl⟩
  | cons c cs ih =>
    intro s hq0 hreg hh
    obtain ⟨m, ev, rfl, hmS, hevS⟩ := hh _ (List.mem_cons_self ..)
    obtain ⟨src, hm⟩ := Option.isSome_iff_exists.mp hmS
    obtain ⟨ts, hev⟩ := Option.isSome_iff_exists.mp hevS
    obtain ⟨s1, st', seg, e1, l1, m1, q1, _, _, reg1, a1⟩ :=
      C04_step (runCmd sc cfg qmax fuel) sc cfg hC hWF hq qmax m ev s src ts hev hm (hreg m src hm) hq0
    have hreg1 : StatesRegistered cfg s1 := by
      intro m' st hl
      rw [m1] at hl
      by_cases hmm : m' = m
      · subst hmm; rw [alookup_aset_self] at hl; cases hl; exact reg1
      · rw [alookup_aset_ne _ _ _ hmm] at hl; exact hreg m' st hl
    have hh1 : TriggerHistory cfg s1 cs := by
      intro c hc
      obtain ⟨m', ev', rfl, h1, h2⟩ := hh c (List.mem_cons_of_mem _ hc)
      refine ⟨m', ev', rfl, ?_, h2⟩
      rw [m1]
      by_cases hmm : m' = m
      · subst hmm; simp [alookup_aset_self]
      · rw [alookup_aset_ne _ _ _ hmm]; exact h1
    obtain ⟨s2, tr2, e2, l2, q2, reg2, c2⟩ := ih s1 q1 hreg1 hh1
    refine ⟨s2, .api 0 s.nextTag m ev :: seg ++ tr2, ?_, ?_, q2, reg2, ?_⟩
    · have : runCmd sc cfg qmax (fuel + 1) (.trigger m ev) s =
          (apiTrigger (runCmd sc cfg qmax fuel) sc cfg qmax m ev s).map fun _ => () := rfl
      simp only [runHistory, this]
      cases hr : apiTrigger (runCmd sc cfg qmax fuel) sc cfg qmax m ev s with
      | ok b sx => simp [hr, Res.state?] at e1; subst e1; simpa [Res.map] using e2
      | err e sx => simp [hr, Res.state?] at e1; subst e1; simpa [Res.map] using e2
      | oof => simp [hr, Res.state?] at e1
    · rw [l2, l1]; simp
    · intro n hn
      cases n with
      | zero => simp at hn
      | succ n =>
        have := a1 tr2
        simp only [List.cons_append, checkTrace, hm, this]
        rw [← m1]
        exact c2 n (by simpa using hn)

/-! ### what acceptance means, spelled out on the acceptor itself (so the clauses cannot be lost) -/

/-- after a failure nothing of a later stage is accepted: the sequencing combinator passes the
failure on without looking at the continuation -/
theorem C04_no_later_stage {α β} (p : AccE α) (q q' : α → AccE β) (l : List Item) (e : Exc) (st : Nat) (l' : List Item)
    (h : p l = some (.fail e st, l')) : andThen p q l = andThen p q' l := by
  simp [andThen, h]

/-- the finalize stage consumes the same items whether or not one of its callbacks raises, and
yields no outcome: an exception raised by a finalize callback never replaces the event's outcome -/
theorem C04_finalize_never_replaces (cfg : Cfg) (m tag src : Nat) (e : Exc) (st : Nat) (l : List Item) (st' : Nat) (rest : List Item)
    (hex : cfg.onException = [])
    (h : finish cfg m tag src (.fail e st) l = some (st', rest)) :
    st' = st ∧ ∃ l0, finalize cfg m tag st l = some (.raised tag e :: rest) ∧ l0 = l := by
  simp only [finish, hex] at h
  split at h
  · rename_i t e' l' hf
    split at h
    · rename_i hc; simp at h; obtain ⟨rfl, rfl⟩ := h; obtain ⟨rfl, rfl⟩ := hc; exact ⟨rfl, l, hf, rfl⟩
    · cases h
  · cases h

/-- the state after a failed event is the state carried by the failure: source for failures up to
and including on_exit, destination from on_enter on (by construction of `expectCand`) -/
theorem C04_state_of_failure (cfg : Cfg) (m tag src : Nat) (e : Exc) (st : Nat) (l : List Item) (st' : Nat) (rest : List Item)
    (h : finish cfg m tag src (.fail e st) l = some (st', rest)) : st' = st := by
  simp only [finish] at h
  split at h
  · split at h
    · split at h
      · simp at h; exact h.1.symm
      · cases h
    · cases h
  · split at h
    · split at h
      · split at h
        · simp at h; exact h.1.symm
        · cases h
      · cases h
    · split at h
      · split at h
        · simp at h; exact h.1.symm
        · cases h
      · cases h
    · cases h

/-! ### non-vacuity: a machine whose enter callback raises, with and without handlers -/

def exCfg4 (handlers : List Nat) : Cfg :=
  { states := [{ name := 0, onExit := [10] }, { name := 1, onEnter := [11, 12] }],
    events := [(0, [{ source := 0, dest := some 1, before := [22], after := [23] }])],
    prepareEvent := [1], finalize := [2, 4], onException := handlers, initial := 0 }

/-- callback 11 (first enter callback of the destination) raises `User 7`; finalize callback 2 raises too -/
def exScript4 : Script := fun c _ =>
  if c = 11 then { out := .raise (.user 7) } else if c = 2 then { out := .raise (.base 1) } else {}

example : NoCmds exScript4 := by intro c k; unfold exScript4; split <;> (try split) <;> rfl
example : (exCfg4 []).WF := by
  intro ev ts h t ht
  simp [Cfg.event?, exCfg4, alookup] at h
  obtain ⟨_, rfl⟩ := h
  simp at ht; subst ht
  constructor <;> simp [Cfg.state?, exCfg4]
/-- without handlers: the exception reaches the caller, the state is the destination (failure in
on_enter), callback 12 / after never ran, finalize callback 2 ran (and its own exception vanished) -/
example : ((runHistory exScript4 (exCfg4 []) 4 2 [.trigger 0 0] (St.init (exCfg4 []) [0])).map
    fun s => (s.log.getLast?, s.stateOf 0, s.log.length, checkTrace (exCfg4 []) 1 (St.init (exCfg4 []) [0]).mstate s.log))
    = some (some (.raised 0 (.user 7)), 1, 12, true) := by decide
/-- with a handler (callback 30): called once, the trigger returns False normally -/
example : ((runHistory exScript4 (exCfg4 [30]) 4 2 [.trigger 0 0] (St.init (exCfg4 [30]) [0])).map
    fun s => (s.log.getLast?, s.stateOf 0, s.log.length, checkTrace (exCfg4 [30]) 1 (St.init (exCfg4 [30]) [0]).mstate s.log))
    = some (some (.ret 0 false), 1, 14, true) := by decide

end TM
