/-
  Props/C14.lean — property C14: "Markup export is faithful, current, and round-trips into an equal
  machine".  Statements only; definitions of the hypotheses and helper lemmas are in `Proofs/C14.lean`,
  the model of `transitions/extensions/markup.py` is `Model/Markup.lean`.

  Quantifiers: every configuration `c` (any state tree of any depth and width, any callback name lists
  in every slot, any flags, any events/transitions per scope, any machine-level lists and options, any
  models in any states), every attribute whitelist `wl` (the harness reads the live class attributes
  `MarkupMachine.state_attributes / transition_attributes` on every run and evaluates the hypotheses on
  them), every sequence of modifications and reads.

  The model mirrors the code as it is.  Where the pinned tree violates the property the full-strength
  statement is kept as a `def … : Prop`, a `…_partial` theorem carries the decidable exclusion
  hypothesis and a `…_counterexample` refutes the full statement on a witness:
    F1 `after_state_change` is exported from `before_state_change`,
    F2 internal transitions are exported without `dest` and cannot be re-imported,
    F3 a state flag `ignore_invalid_triggers=False` (or `None`) is dropped when the machine's flag is `True`,
    F4 `on_final` of nested states is not in the attribute whitelist,
    F5 automatic transitions named `to_<model_attribute>_<state>` are not recognised as automatic.
-/
import Proofs.C14

namespace TM
open Mk

/-! ## faithful: everything appears under its own key -/

/-- Machine-level lists, options, name, initial state and models appear under their own keys. -/
theorem C14_faithful_machine (wl : WL) (c : Cfg) :
    (exportMk wl c).prepareEvent = c.prepareEvent ∧ (exportMk wl c).beforeSC = c.beforeSC ∧
    (exportMk wl c).finalize = c.finalize ∧ (exportMk wl c).onException = c.onException ∧
    (exportMk wl c).onFinal = c.onFinal ∧ (exportMk wl c).opts = c.opts ∧
    (exportMk wl c).name = c.name ∧ (exportMk wl c).initial = c.initial ∧
    (exportMk wl c).models = c.models := by
  refine ⟨rfl, rfl, rfl, rfl, rfl, rfl, ?_, ?_, rfl⟩
  · simp only [exportMk, refresh, convert, initMarkup]; cases c.name <;> rfl
  · simp only [exportMk, refresh, convert, initMarkup]; cases c.initial <;> rfl

/-- full strength for the remaining machine-level list (fails on the pinned tree: F1) -/
def C14_FaithfulAfterSC (wl : WL) (c : Cfg) : Prop := (exportMk wl c).afterSC = c.afterSC

theorem C14_faithful_afterSC_partial (wl : WL) (c : Cfg) (h : c.afterSC = c.beforeSC) :
    C14_FaithfulAfterSC wl c := by
  exact h.symm

theorem C14_faithful_afterSC_counterexample : ¬ C14_FaithfulAfterSC WL.pinned witnessAfterSC := by
  unfold C14_FaithfulAfterSC; decide

/-- Every state of the tree, at any depth, is exported at the same position of the nested
`states`/`children` lists (so the nesting is preserved and no state is lost or invented). -/
theorem C14_faithful_tree (wl : WL) (root : List St) :
    ∀ (pos : List Nat) (sts : List St),
      mstAt (exportSts wl root sts) pos = (stAt sts pos).map (exportSt wl root) := by
  exact mstAt_export wl root

theorem C14_faithful_tree_length (wl : WL) (root sts : List St) :
    (exportSts wl root sts).length = sts.length := by
  exact exportSts_length wl root sts

/-- The entry of a state carries its name, enter/exit callbacks, `final` flag; a state with substates
also carries its initial substate, its substates' entries and its local transitions; the
`ignore_invalid_triggers` key is present exactly for a `True` flag.  (Whitelist hypotheses: the live
lists name `on_exit`, `on_enter`, `ignore_invalid_triggers`, `final`.) -/
theorem C14_faithful_state (wl : WL) (root : List St) (s : St)
    (h0 : wl.st.contains 0 = true) (h1 : wl.st.contains 1 = true) (h2 : wl.st.contains 2 = true)
    (h3 : wl.st.contains 3 = true) :
    (exportSt wl root s).name = s.name ∧ (exportSt wl root s).onEnter = s.onEnter ∧
    (exportSt wl root s).onExit = s.onExit ∧ (exportSt wl root s).final = s.final ∧
    ((exportSt wl root s).ignore = some .yes ↔ s.ignore = .yes) ∧
    ((exportSt wl root s).ignore = none ↔ s.ignore ≠ .yes) ∧
    (exportSt wl root s).children = exportSts wl root s.children ∧
    (s.children ≠ [] → (exportSt wl root s).initial = s.initial ∧
      (exportSt wl root s).transitions = exportEvents wl s.children root s.events) := by
  exact exportSt_fields wl root s h0 h1 h2 h3

/-- full strength for `on_final` of a state (fails on the pinned tree: F4) -/
def C14_FaithfulOnFinal (wl : WL) (root : List St) (s : St) : Prop :=
  (exportSt wl root s).onFinal = s.onFinal

theorem C14_faithful_onFinal_partial (wl : WL) (root : List St) (s : St)
    (h : wl.st.contains 4 = true ∨ s.onFinal = []) : C14_FaithfulOnFinal wl root s := by
  cases s
  rcases h with h | h
  · simp only [C14_FaithfulOnFinal, exportSt, MState.onFinal, St.onFinal, keep, h, if_true]
  · simp only [St.onFinal] at h
    simp [C14_FaithfulOnFinal, exportSt, MState.onFinal, St.onFinal, keep, h]

theorem C14_faithful_onFinal_counterexample : ¬ C14_FaithfulOnFinal WL.pinned [] witnessOnFinal := by
  unfold C14_FaithfulOnFinal; decide

/-- full strength for the flag: the markup entry determines the flag the state effectively has, given
the machine-level flag `mi` that is exported next to it (fails on the pinned tree: F3) -/
def C14_FaithfulIgnore (wl : WL) (root : List St) (mi : Tri) (s : St) : Prop :=
  (exportSt wl root s).effIgnore mi = effIgnore mi s.ignore

theorem C14_faithful_ignore_partial (wl : WL) (root : List St) (mi : Tri) (s : St)
    (h2 : wl.st.contains 2 = true) (h : ¬ (s.ignore = .no ∧ mi = .yes)) :
    C14_FaithfulIgnore wl root mi s := by
  exact exportSt_effIgnore wl root mi s h2 h

theorem C14_faithful_ignore_counterexample :
    ¬ C14_FaithfulIgnore WL.pinned [] .yes (.mk 0 [] [] [] .no false none [] []) := by
  unfold C14_FaithfulIgnore; decide

/-- Exactly the transitions of the non-automatic events of a scope are exported, in dict order, each
as its own entry. -/
theorem C14_faithful_transitions (wl : WL) (scope root : List St) (evs : List Event) :
    exportEvents wl scope root evs
      = (pairs (evs.filter fun e => !isAuto scope root e)).map fun p => exportTrans wl p.1 p.2 := by
  exact exportEvents_eq_pairs wl scope root evs

/-- An entry carries trigger, source, destination (absent exactly for an internal transition),
prepare/before/after callbacks and the conditions / unless-conditions by target, in order. -/
theorem C14_faithful_transition_fields (wl : WL) (n : EvName) (t : Trans)
    (h : ∀ k, k < 5 → wl.tr.contains k = true) :
    (exportTrans wl n t).trigger = n ∧ (exportTrans wl n t).source = some t.source ∧
    (exportTrans wl n t).dest = t.dest ∧ (exportTrans wl n t).prepare = t.prepare ∧
    (exportTrans wl n t).before = t.before ∧ (exportTrans wl n t).after = t.after ∧
    (exportTrans wl n t).conditions = (t.conds.filter (·.2)).map (·.1) ∧
    (exportTrans wl n t).unl = (t.conds.filter fun c => !c.2).map (·.1) := by
  have h0 := h 0 (by omega); have h1 := h 1 (by omega); have h2 := h 2 (by omega)
  have h3 := h 3 (by omega); have h4 := h 4 (by omega)
  simp only [exportTrans, keep, h0, h1, h2, h3, h4, if_true, and_self]

/-- The entry determines the transition: binding it back with `add_transition(**entry)` yields the
same trigger and a transition equal to the original up to the `conditions`-before-`unless` order that
`Transition.__init__` produces anyway.  Internal transitions are excluded (F2). -/
theorem C14_transition_entry_roundtrip (wl : WL) (n : EvName) (t : Trans)
    (h : ∀ k, k < 5 → wl.tr.contains k = true) (hd : t.dest ≠ none) :
    importTrans (exportTrans wl n t) = some (n, normT t) := by
  exact importTrans_export wl n t (h 0 (by omega)) (h 1 (by omega)) (h 2 (by omega)) (h 3 (by omega))
    (h 4 (by omega)) hd

/-! ## current: the dirty flag -/

/-- After any sequence of `add_transition` / `remove_transition` / `add_states` calls, callback
registrations through the machine's dynamic methods, model state changes and reads, the next read of
`markup` shows the states, transitions and models of the *current* object state (and `initial`/`name`
when set); the machine-level lists and options are those captured by the constructor. -/
theorem C14_current (wl : WL) (c0 : Cfg) (ops : List Op) :
    let m := (MM.new c0).run wl ops
    let r := (m.read wl).cache
    r.states = exportSts wl m.cfg.states m.cfg.states ∧
    r.transitions = exportEvents wl m.cfg.states m.cfg.states m.cfg.events ∧
    r.models = m.cfg.models ∧
    (∀ i, m.cfg.initial = some i → r.initial = some i) ∧
    (∀ n, m.cfg.name = some n → r.name = some n) ∧
    r.prepareEvent = (initMarkup c0).prepareEvent ∧ r.beforeSC = (initMarkup c0).beforeSC ∧
    r.afterSC = (initMarkup c0).afterSC ∧ r.finalize = (initMarkup c0).finalize ∧
    r.onException = (initMarkup c0).onException ∧ r.onFinal = (initMarkup c0).onFinal ∧
    r.opts = (initMarkup c0).opts := by
  exact MM.current wl c0 ops

/-- … in particular, when the initial state and the name never changed along the history (`hpre`: after
every prefix of the calls they are the constructor-time ones) and the machine-level lists and options are
the constructor-time ones at the end (`hfix`), a read after any history equals the export of a machine
freshly built in the current object state.  (`hpre` is needed: `_convert_states_and_transitions` writes
`initial`/`name` only when truthy, so a value read earlier stays in the cached dict after it was reset.) -/
theorem C14_current_export (wl : WL) (c0 : Cfg) (ops : List Op)
    (hfix : ∀ c, ((MM.new c0).run wl ops).cfg = c →
      c.initial = c0.initial ∧ c.name = c0.name ∧ c.prepareEvent = c0.prepareEvent ∧
      c.beforeSC = c0.beforeSC ∧ c.finalize = c0.finalize ∧ c.onException = c0.onException ∧
      c.onFinal = c0.onFinal ∧ c.opts = c0.opts)
    (hpre : ∀ k c, ((MM.new c0).run wl (ops.take k)).cfg = c → c.initial = c0.initial ∧ c.name = c0.name) :
    (((MM.new c0).run wl ops).read wl).cache = exportMk wl ((MM.new c0).run wl ops).cfg := by
  exact MM.current_export wl c0 ops hfix hpre

/-! ## round trip -/

/-- full strength: the machine built from the exported markup exists and exports the identical markup -/
def C14_RoundTripMarkup (wl : WL) (c : Cfg) : Prop :=
  ∃ c', importMk c.hier (exportMk wl c) = some c' ∧ exportMk wl c' = exportMk wl c

/-- **Round trip.**  For every configuration meeting the decidable hypotheses `rtOK` (dict invariants;
exclusions F2, F3, F5; `to_…` trigger names reserved for automatic transitions) the rebuilt machine
exists and its markup is identical: states with nesting, flags, callbacks, local transitions; all
transitions in order; machine-level lists, options, models.  Unbounded in tree depth/width and in the
number of events, sources and transitions. -/
theorem C14_roundtrip_markup_partial (wl : WL) (c : Cfg) (h : rtOK wl c = true) :
    C14_RoundTripMarkup wl c := by
  exact roundtrip wl c h

/-- F2: the markup of a machine with an internal transition cannot be imported -/
theorem C14_roundtrip_internal_counterexample : ¬ C14_RoundTripMarkup WL.pinned witnessInternal := by
  rintro ⟨c', h1, _⟩
  have h3 : (importMk witnessInternal.hier (exportMk WL.pinned witnessInternal)).isSome = false := by decide
  rw [h1] at h3
  exact Bool.noConfusion h3

/-- F3: explicit `False` flag under a `True` machine flag: the rebuilt machine's markup differs -/
theorem C14_roundtrip_flag_counterexample : ¬ C14_RoundTripMarkup WL.pinned witnessFlag := by
  rintro ⟨c', h1, h2⟩
  have h3 : (importMk witnessFlag.hier (exportMk WL.pinned witnessFlag)).map
      (fun c' => (exportMk WL.pinned c').states.map MState.ignore) = some [some .yes, some .yes] := by decide
  rw [h1, Option.map_some, h2] at h3
  exact absurd h3 (by decide)

/-- F5: `model_attribute ≠ 'state'` with automatic transitions: the rebuilt machine's markup differs -/
theorem C14_roundtrip_attr_counterexample : ¬ C14_RoundTripMarkup WL.pinned witnessAttr := by
  rintro ⟨c', h1, h2⟩
  have h3 : (importMk witnessAttr.hier (exportMk WL.pinned witnessAttr)).map
      (fun c' => (exportMk WL.pinned c').transitions.length) = some 8 := by decide
  rw [h1, Option.map_some, h2] at h3
  exact absurd h3 (by decide)

/-! ## non-vacuity -/

/-- a hierarchical configuration with callbacks in state and transition slots, a conditional
transition, a nested local transition, automatic transitions and two models meets `rtOK` -/
def exampleCfg : Cfg :=
  let b1 : St := .mk 11 [31] [32] [] .none true none [] []
  let b2 : St := .mk 12 [] [] [] .none false none [] []
  let a : St := .mk 1 [21] [22] [] .none false none [] []
  let b : St := .mk 2 [23] [] [] .none false (some 111)
    [⟨.plain 41, [([11], [{ source := [11], dest := some [12], prepare := [51], conds := [(52, true), (53, false)],
                            before := [54], after := [55] }])]⟩] [b1, b2]
  let sts := [a, b]
  { hier := true, name := some 99, initial := some 101
    prepareEvent := [61], beforeSC := [62], afterSC := [62], finalize := [64], onException := [65], onFinal := [66]
    opts := { sendEvent := true, autoTransitions := true, queued := true, modelOverride := false,
              ignore := .none, modelAttribute := none }
    states := sts
    events := autoEvents true none sts ++
      [⟨.plain 42, [([1], [{ source := [1], dest := some [2], prepare := [], conds := [(56, true)], before := [], after := [57] }]),
                    ([2, 11], [{ source := [2, 11], dest := some [1], prepare := [], conds := [], before := [], after := [] }])]⟩]
    models := [⟨7, none, 101⟩, ⟨7, none, 102⟩] }

example : rtOK WL.pinned exampleCfg = true := by decide
example : (exportMk WL.pinned exampleCfg).transitions.length = 2 := by decide
example : ((importMk true (exportMk WL.pinned exampleCfg)).map fun c => c.events.length) = some 5 := by decide

end TM
