/-
  Props/C14.lean — property C14: "Markup export is faithful, current, and round-trips into an equal
  machine".  Statements only; definitions of the hypotheses and helper lemmas are in `Proofs/C14.lean`,
  the model of `transitions/extensions/markup.py` is `Model/Markup.lean`.

  Quantifiers: every configuration `c` (any state tree of any depth and width, any callback name lists
  in every slot, any flags, any events/transitions per scope incl. internal ones, any machine-level
  lists and options, any models in any states), every attribute whitelist `wl` (the harness reads the
  live class attributes `MarkupMachine.state_attributes / transition_attributes` on every run and checks
  the whitelist hypotheses on them), every sequence of modifications and reads.

  The model follows the repaired code (fix commits 37d0b0c, cafc2bf, 3ec44b8, 32fbca9, 496a8cd,
  c222dc4 in /repo): all statements are at full strength; the configurations that used to refute
  them are kept as regression `example`s (and as corpus cases of the harness).
-/
import Proofs.C14

namespace TM
open Mk

/-! ## faithful: everything appears under its own key -/

/-- Machine-level lists (each under its own key), options, name, initial state and models. -/
theorem C14_faithful_machine (wl : WL) (c : Cfg) :
    (exportMk wl c).prepareEvent = c.prepareEvent ∧ (exportMk wl c).beforeSC = c.beforeSC ∧
    (exportMk wl c).afterSC = c.afterSC ∧
    (exportMk wl c).finalize = c.finalize ∧ (exportMk wl c).onException = c.onException ∧
    (exportMk wl c).onFinal = c.onFinal ∧ (exportMk wl c).opts = c.opts ∧
    (exportMk wl c).name = c.name ∧ (exportMk wl c).initial = c.initial ∧
    (exportMk wl c).models = c.models := by
  refine ⟨rfl, rfl, rfl, rfl, rfl, rfl, rfl, ?_, ?_, rfl⟩
  · simp only [exportMk, refresh, convert, initMarkup]; cases c.name <;> rfl
  · simp only [exportMk, refresh, convert, initMarkup]; cases c.initial <;> rfl

/-- Every state of the tree, at any depth, is exported at the same position of the nested
`states`/`children` lists (so the nesting is preserved and no state is lost or invented). -/
theorem C14_faithful_tree (wl : WL) (mi : Tri) (root : List St) :
    ∀ (pos : List Nat) (sts : List St),
      mstAt (exportSts wl mi root sts) pos = (stAt sts pos).map (exportSt wl mi root) := by
  exact mstAt_export wl mi root

theorem C14_faithful_tree_length (wl : WL) (mi : Tri) (root sts : List St) :
    (exportSts wl mi root sts).length = sts.length := by
  exact exportSts_length wl mi root sts

/-- The entry of a state carries its name, enter/exit/final callbacks and `final` flag; a state with
substates also carries its initial substate, its substates' entries and its local transitions; the
`ignore_invalid_triggers` key holds `True` for a `True` flag, the falsy flag itself when the machine's
flag `mi` is `True`, and is absent otherwise.  (Whitelist hypotheses: the live list names `on_exit`,
`on_enter`, `ignore_invalid_triggers`, `final`, `on_final`.) -/
theorem C14_faithful_state (wl : WL) (mi : Tri) (root : List St) (s : St)
    (h0 : wl.st.contains 0 = true) (h1 : wl.st.contains 1 = true) (h2 : wl.st.contains 2 = true)
    (h3 : wl.st.contains 3 = true) (h4 : wl.st.contains 4 = true) :
    (exportSt wl mi root s).name = s.name ∧ (exportSt wl mi root s).onEnter = s.onEnter ∧
    (exportSt wl mi root s).onExit = s.onExit ∧ (exportSt wl mi root s).onFinal = s.onFinal ∧
    (exportSt wl mi root s).final = s.final ∧
    (exportSt wl mi root s).ignore
      = (if s.ignore = .yes then some .yes else if mi = .yes then some s.ignore else none) ∧
    (exportSt wl mi root s).children = exportSts wl mi root s.children ∧
    (s.children ≠ [] → (exportSt wl mi root s).initial = s.initial ∧
      (exportSt wl mi root s).transitions = exportEvents wl s.children root s.events) := by
  exact exportSt_fields wl mi root s h0 h1 h2 h3 h4

/-- The markup entry determines the flag the state effectively has, given the machine-level flag `mi`
that is exported next to it — for every combination of the two tri-state flags. -/
theorem C14_faithful_ignore (wl : WL) (root : List St) (mi : Tri) (s : St)
    (h2 : wl.st.contains 2 = true) :
    (exportSt wl mi root s).effIgnore mi = effIgnore mi s.ignore := by
  exact exportSt_effIgnore wl root mi s h2

/-- Exactly the transitions of the non-automatic events of a scope are exported, in dict order, each
as its own entry. -/
theorem C14_faithful_transitions (wl : WL) (scope root : List St) (evs : List Event) :
    exportEvents wl scope root evs
      = (pairs (evs.filter fun e => !isAuto scope root e)).map fun p => exportTrans wl p.1 p.2 := by
  exact exportEvents_eq_pairs wl scope root evs

/-- An entry carries trigger, source, destination (absent exactly for an internal transition),
prepare/before/after callbacks and the conditions / unless-conditions by target, in order. -/
theorem C14_faithful_transition_fields (wl : WL) (n : EvName) (t : Trans)
    (h : ∀ k, k < 5 → wl.tr.contains k = true) :
    (exportTrans wl n t).trigger = n ∧ (exportTrans wl n t).source = some t.source ∧
    (exportTrans wl n t).dest = t.dest ∧ (exportTrans wl n t).prepare = t.prepare ∧
    (exportTrans wl n t).before = t.before ∧ (exportTrans wl n t).after = t.after ∧
    (exportTrans wl n t).conditions = (t.conds.filter (·.2)).map (·.1) ∧
    (exportTrans wl n t).unl = (t.conds.filter fun c => !c.2).map (·.1) := by
  have h0 := h 0 (by omega); have h1 := h 1 (by omega); have h2 := h 2 (by omega)
  have h3 := h 3 (by omega); have h4 := h 4 (by omega)
  simp only [exportTrans, keep, h0, h1, h2, h3, h4, if_true, and_self]

/-- The entry determines the transition, internal ones included: binding it back with
`add_transition(**entry)` yields the same trigger and a transition equal to the original up to the
`conditions`-before-`unless` order that `Transition.__init__` produces anyway. -/
theorem C14_transition_entry_roundtrip (wl : WL) (n : EvName) (t : Trans)
    (h : ∀ k, k < 5 → wl.tr.contains k = true) :
    importTrans (exportTrans wl n t) = some (n, normT t) := by
  exact importTrans_export wl n t (h 0 (by omega)) (h 1 (by omega)) (h 2 (by omega)) (h 3 (by omega))
    (h 4 (by omega))

/-! ## current: the dirty flag -/

/-- After any sequence of `add_transition` / `remove_transition` / `add_states` calls, callback
registrations through the machine's dynamic methods, model state changes, read-only observers
(diagram rendering …), pickle / deepcopy restores and reads, the next read of
`markup` shows the states, transitions and models of the *current* object state (and `initial`/`name`
when set); the machine-level lists and options are those captured by the constructor. -/
theorem C14_current (wl : WL) (c0 : Cfg) (ops : List Op) :
    let m := (MM.new c0).run wl ops
    let r := (m.read wl).cache
    r.states = exportSts wl m.cfg.opts.ignore m.cfg.states m.cfg.states ∧
    r.transitions = exportEvents wl m.cfg.states m.cfg.states m.cfg.events ∧
    r.models = m.cfg.models ∧
    (∀ i, m.cfg.initial = some i → r.initial = some i) ∧
    (∀ n, m.cfg.name = some n → r.name = some n) ∧
    r.prepareEvent = (initMarkup c0).prepareEvent ∧ r.beforeSC = (initMarkup c0).beforeSC ∧
    r.afterSC = (initMarkup c0).afterSC ∧ r.finalize = (initMarkup c0).finalize ∧
    r.onException = (initMarkup c0).onException ∧ r.onFinal = (initMarkup c0).onFinal ∧
    r.opts = (initMarkup c0).opts := by
  exact MM.current wl c0 ops

/-- … in particular, when the initial state and the name never changed along the history (`hpre`: after
every prefix of the calls they are the constructor-time ones) and the machine-level lists (all six,
`after_state_change` included) and options are the constructor-time ones at the end (`hfix`), a read
after any history equals the export of a machine freshly built in the current object state.
(`hpre` is needed: `_convert_states_and_transitions` writes `initial`/`name` only when truthy, so a value
read earlier stays in the cached dict after it was reset.) -/
theorem C14_current_export (wl : WL) (c0 : Cfg) (ops : List Op)
    (hfix : ∀ c, ((MM.new c0).run wl ops).cfg = c →
      c.initial = c0.initial ∧ c.name = c0.name ∧ c.prepareEvent = c0.prepareEvent ∧
      c.beforeSC = c0.beforeSC ∧ c.afterSC = c0.afterSC ∧ c.finalize = c0.finalize ∧
      c.onException = c0.onException ∧ c.onFinal = c0.onFinal ∧ c.opts = c0.opts)
    (hpre : ∀ k c, ((MM.new c0).run wl (ops.take k)).cfg = c → c.initial = c0.initial ∧ c.name = c0.name) :
    (((MM.new c0).run wl ops).read wl).cache = exportMk wl ((MM.new c0).run wl ops).cfg := by
  exact MM.current_export wl c0 ops hfix hpre

/-! ## round trip -/

/-- the machine built from the exported markup exists and exports the identical markup -/
def C14_RoundTripMarkup (wl : WL) (c : Cfg) : Prop :=
  ∃ c', importMk c.hier (exportMk wl c) = some c' ∧ exportMk wl c' = exportMk wl c

/-- **Round trip.**  For every configuration meeting the decidable well-formedness `rtOK` (the dict
invariants the library maintains by construction; `source` whitelisted; `to_…` trigger names reserved
for automatic transitions when `auto_transitions` is on, and when it is off not mistaken for automatic
ones and without empty source entries) — with internal transitions, any combination of state and machine flags,
any `model_attribute` — the rebuilt machine exists and its markup is identical: states with nesting,
flags, callbacks, local transitions; all transitions in order; machine-level lists, options, models.
Unbounded in tree depth/width and in the number of events, sources and transitions. -/
theorem C14_roundtrip_markup (wl : WL) (c : Cfg) (h : rtOK wl c = true) :
    C14_RoundTripMarkup wl c := by
  exact roundtrip wl c h

/-! ## regression: the witnesses of the former findings F1–F5 now satisfy the statements -/

example : (exportMk WL.pinned witnessAfterSC).afterSC = witnessAfterSC.afterSC := by decide
example : (exportSt WL.pinned .none [] witnessOnFinal).onFinal = witnessOnFinal.onFinal := by decide
example : rtOK WL.pinned witnessInternal = true := by decide
example : rtOK WL.pinned witnessFlag = true := by decide
example : rtOK WL.pinned witnessAttr = true := by decide
example : ((importMk false (exportMk WL.pinned witnessInternal)).map fun c => c.events.length) = some 1 := by decide
example : ((importMk false (exportMk WL.pinned witnessFlag)).map
    fun c' => (exportMk WL.pinned c').states.map MState.ignore) = some [some .no, some .yes] := by decide
example : ((importMk false (exportMk WL.pinned witnessAttr)).map
    fun c' => (exportMk WL.pinned c').transitions.length) = some 0 := by decide

/-- `auto_transitions` off: a user-defined trigger merely named `to_s1` is inside the round-trip theorem and
is exported like any other -/
example : rtOK WL.pinned witnessToNamed = true := by decide
example : (exportMk WL.pinned witnessToNamed).transitions.length = 1 := by decide

/-! ## non-vacuity -/

/-- a hierarchical configuration with callbacks in state and transition slots, a conditional
transition, an internal transition, a nested local transition, automatic transitions and two models meets `rtOK` -/
def exampleCfg : Cfg :=
  let b1 : St := .mk 11 [31] [32] [] .none true none [] []
  let b2 : St := .mk 12 [] [] [] .none false none [] []
  let a : St := .mk 1 [21] [22] [] .none false none [] []
  let b : St := .mk 2 [23] [] [] .none false (some 111)
    [⟨.plain 41, [([11], [{ source := [11], dest := some [12], prepare := [51], conds := [(52, true), (53, false)],
                            before := [54], after := [55] }])]⟩] [b1, b2]
  let sts := [a, b]
  { hier := true, name := some 99, initial := some 101
    prepareEvent := [61], beforeSC := [62], afterSC := [63], finalize := [64], onException := [65], onFinal := [66]
    opts := { sendEvent := true, autoTransitions := true, queued := true, modelOverride := false,
              ignore := .none, modelAttribute := none }
    states := sts
    events := autoEvents true none sts ++
      [⟨.plain 42, [([1], [{ source := [1], dest := some [2], prepare := [], conds := [(56, true)], before := [], after := [57] }]),
                    ([2, 11], [{ source := [2, 11], dest := none, prepare := [], conds := [], before := [], after := [58] }])]⟩]
    models := [⟨7, none, 101⟩, ⟨7, none, 102⟩] }

example : rtOK WL.pinned exampleCfg = true := by decide
example : (exportMk WL.pinned exampleCfg).transitions.length = 2 := by decide
example : ((importMk true (exportMk WL.pinned exampleCfg)).map fun c => c.events.length) = some 5 := by decide

end TM
