/-
  Props/C02.lean — property C02: "HSM: active configuration stays well-formed; enter/exit stay balanced".

  Statements only (lemmas in `Proofs/C02*.lean`).  The model is `Model/Tree.lean`, `Model/Nested.lean`,
  `Model/NestedDispatch.lean` (the hierarchical engine of `transitions/extensions/nesting.py`, function by
  function); the property is stated on the GHOST log of state-level events (`enter p`, `exit p`, `exec t`, `fin …`)
  that the model emits where the code calls `scoped_enter` / `scoped_exit` / passes the conditions / reaches the
  `finally:` of `_trigger_event`, judged by the bookkeeping `C02.gstep` / `C02.grun` of `Model/Spec/C02.lean` — the
  same function the driver runs on implementation traces (verified monitor).

  Invariant `GI cfg g conf` (decidable core: `C02.invOK`): the configuration tree is admissible for the state
  definitions (`ConfOK`: every path is a registered state; a state with active children has one or all of them
  active; an active state without active children declares no `initial`), it has a single active root, and the
  states entered and not exited (`g.live`) are exactly the nodes of the tree = the active states reported by the
  model together with all their ancestors.

  Quantifiers: ALL state definitions (`cfg.states.WF`: sibling names distinct, every `initial` is empty, one child
  or all children — the property's "initial substate (or parallel children)"), ALL transition sets, declared on the
  machine or inside state definitions (no hypothesis on them at all), ALL scripts whose callbacks neither raise nor
  issue re-entrant commands (conditions may return anything, any number of times), ALL histories, queued or not.

  The model follows the REPAIRED code (fix: commits bcc5ea7, 603ad02, 09ede92, 2725aeb, 4e63890 in /repo): a state that an
  earlier transition of the same event exited gets no turn, an event declared inside a state is offered to that scope
  once, scope-relative destinations.  What is still false: "no state is entered and afterwards exited within the
  processing of one event" fails when two transitions of one event execute from sources that both stay active and the
  later one targets (an ancestor in) the region the earlier one changed — the library has no conflict resolution between
  regions (open findings F-C02-ete-cross-region-*) — and, with events declared inside state definitions, when the
  separate passes per scope let related states execute (F-C02-ete-related-sources-local).  The full statement stays
  visible (`C02_step_full`); it is refuted on a concrete machine (`C02_step_counterexample`, two regions, the second
  transition re-enters the region the first one just re-entered) and proved under the exclusions
    * `C02_step_global`: machine-level declarations — every executing transition keeps its destination inside the branch
      of its source wherever an ancestor of the source (or the machine) has two or more active children (`regionOK`);
    * `C02_step_regions`: any declarations — every executing transition is local at its moment (`localRef`: the region
      condition, and its source is active, was not entered during this event, nothing below it was entered during it);
    * `C02_step_partial` / `C02_step_clean`: at most one transition executes per event; `C02_step_exclusive`: no parallel
      state is active.
  The closed defects are regression examples now (`c02Stale`: the second transition no longer fires).
-/
import Proofs.C02
import Proofs.C02RoundTrip
import Proofs.C02Project
import Proofs.C02Q
import Proofs.C02Regions
import Proofs.C02Global
import Proofs.C02Nest

namespace TM
open C02

/-! ### the invariant is decidable -/

/-- the decidable core `C02.invOK` (what the driver evaluates) implies the invariant, given the ghost's own
bookkeeping facts -/
theorem C02_inv_of_check (cfg : NCfg) (g : G) (conf : Forest) (h : invOK cfg g conf = true)
    (hh : g.halted = false) (hj : g.entered ≠ [] → g.execd ≠ []) (hm : g.execd.length ≤ g.maxExec) :
    GI cfg g conf := by
  simp only [invOK, Bool.and_eq_true, beq_iff_eq, List.all_eq_true, List.contains_iff_mem] at h
  obtain ⟨⟨⟨⟨h1, h2⟩, h3⟩, h4⟩, h5⟩ := h
  exact ⟨h1, h2, nodup_of_eraseDups_len' _ h3, fun p => ⟨h4 p, h5 p⟩, hh, hj, hm⟩

/-! ### C02_init -/

/-- **initial configuration** (`add_model` / `_resolve_initial`: descent through `initial`, no callbacks): it
satisfies the invariant and passes every end-of-event check (registered states only, the state value names the
leaves of the live set, every leaf declares no `initial`) -/
theorem C02_init (cfg : NCfg) (hwf : cfg.states.WF = true) (s : NSt) (h : NSt.init cfg = some s) :
    GI cfg (G.init cfg s.conf) s.conf ∧ (G.init cfg s.conf).clean = true := by
  obtain ⟨hc, hl⟩ := init_confOK cfg hwf s h
  have hnd : s.conf.nodes.Nodup := Forest.nodes_nodup (ConfOK_WF hc)
  have hfin := finOk_of_inv cfg hwf s.conf hc s.conf.nodes hnd (fun _ => Iff.rfl)
  refine ⟨⟨hc, hl, hnd, fun _ => Iff.rfl, rfl, fun h => absurd rfl h, Nat.le_refl _⟩, ?_⟩
  simp [G.clean, G.init, hfin]

/-! ### C02_step -/

/-- **one trigger call** (direct, or queued and drained): whatever the transition set, the call carries the
invariant; the flags "entered while active", "exited while inactive", "entered before its parent", "exited before
an active descendant" and the end-of-event checks stay as they were; "entered and afterwards exited within one
event" can only rise if some event executed two or more transitions. -/
theorem C02_step_partial (cfg : NCfg) (hwf : cfg.states.WF = true) (sub : NSub) (sc : Script)
    (hR : NoRaise sc) (hC : NoCmds sc) (qmax ev : Nat) (s s' : NSt) (g : G) (hI : GI cfg g s.conf)
    (h : (napiTrigger sub sc cfg qmax ev s).state? = some s') :
    ∃ seg, s'.glog = s.glog ++ seg ∧ GI cfg (grun cfg g seg) s'.conf ∧ (grun cfg g seg).core = g.core ∧
      g.maxExec ≤ (grun cfg g seg).maxExec ∧
      ((grun cfg g seg).enteredThenExited = true → g.enteredThenExited = true ∨ 2 ≤ (grun cfg g seg).maxExec) := by
  obtain ⟨seg, hl, hc⟩ := frame_apiTrigger' cfg sub sc (RInv cfg) hR hC (rinv_closed sub sc cfg hwf hR hC) qmax ev s s' h
  exact ⟨seg, hl, hc g hI⟩

/-- … in particular: a clean ghost stays clean as long as no event executes two transitions -/
theorem C02_step_clean (cfg : NCfg) (hwf : cfg.states.WF = true) (sub : NSub) (sc : Script)
    (hR : NoRaise sc) (hC : NoCmds sc) (qmax ev : Nat) (s s' : NSt) (g : G) (hI : GI cfg g s.conf)
    (hcl : g.clean = true) (h : (napiTrigger sub sc cfg qmax ev s).state? = some s') :
    ∃ seg, s'.glog = s.glog ++ seg ∧ GI cfg (grun cfg g seg) s'.conf ∧
      ((grun cfg g seg).maxExec ≤ 1 → (grun cfg g seg).clean = true) := by
  obtain ⟨seg, hl, hi, hcore, _, hete⟩ := C02_step_partial cfg hwf sub sc hR hC qmax ev s s' g hI h
  refine ⟨seg, hl, hi, fun hm => ?_⟩
  simp only [G.clean, Bool.and_eq_true, Bool.not_eq_true'] at hcl ⊢
  obtain ⟨⟨⟨⟨⟨a1, a2⟩, a3⟩, a4⟩, a5⟩, a6⟩ := hcl
  simp only [G.core, Prod.mk.injEq] at hcore
  obtain ⟨b1, b2, b3, b4, b5⟩ := hcore
  have hE : (grun cfg g seg).enteredThenExited = false := by
    cases hx : (grun cfg g seg).enteredThenExited with
    | false => rfl
    | true =>
      rcases hete hx with h1 | h1
      · rw [a3] at h1; cases h1
      · omega
  exact ⟨⟨⟨⟨⟨b1.trans a1, b2.trans a2⟩, hE⟩, b3.trans a4⟩, b4.trans a5⟩, b5.trans a6⟩

/-- the statement at full strength: a clean ghost stays clean (no exclusion) -/
def C02_step_full : Prop :=
  ∀ (cfg : NCfg), cfg.states.WF = true → ∀ (sub : NSub) (sc : Script), NoRaise sc → NoCmds sc →
  ∀ (qmax ev : Nat) (s s' : NSt) (g : G), GI cfg g s.conf → g.clean = true →
  (napiTrigger sub sc cfg qmax ev s).state? = some s' →
  ∃ seg, s'.glog = s.glog ++ seg ∧ (grun cfg g seg).clean = true

/-! #### the witness: two regions `a`, `b` of the parallel state `P`; `P_a_a1 → P_a` re-enters region `a`, then
`P_b_b1 → P_a` — of the same event, its source `b1` active all the time — exits and re-enters `a` again: `P_a`, `P_a_a1`
are entered and afterwards exited within one event (no conflict resolution between regions) -/

def c02Leaf (n : Nat) : SDef := { name := n }

/-- `P`(1) parallel [`a`(2) ⊃ `a1`(3);  `b`(4) ⊃ `b1`(5), `b2`(6)], `Q`(7);
event 0: `P_a_a1 → Q` and `P_b_b1 → P_b_b2`, both declared on the machine — the witness of the CLOSED finding
(stale source): after the repair the second transition no longer fires -/
def c02Stale : NCfg :=
  { states := .cons { name := 1, initial := [2, 4] }
      (.cons { name := 2, initial := [3] } (.cons (c02Leaf 3) .nil .nil)
        (.cons { name := 4, initial := [5] } (.cons (c02Leaf 5) .nil (.cons (c02Leaf 6) .nil .nil)) .nil))
      (.cons (c02Leaf 7) .nil .nil),
    events := [(0, [{ source := [1, 2, 3], dest := some [7] }, { source := [1, 4, 5], dest := some [1, 4, 6] }])],
    initial := [1] }

/-- same tree; event 0: `P_a_a1 → P_a` and `P_b_b1 → P_a` -/
def c02Cross : NCfg :=
  { c02Stale with events := [(0, [{ source := [1, 2, 3], dest := some [1, 2] }, { source := [1, 4, 5], dest := some [1, 2] }])] }

def c02Script : Script := fun _ _ => {}
def c02Sub : NSub := fun _ s => .ok () s

example : c02Cross.states.WF = true := by decide
example : NoRaise c02Script := fun _ _ => ⟨true, rfl⟩
example : NoCmds c02Script := fun _ _ => rfl

/-- regression (closed finding, bcc5ea7): `[P_a_a1, P_b_b1]` --0--> `Q`; only the first transition executes, the
ghost is clean -/
theorem C02_regression_stale_source :
    ((NSt.init c02Stale).bind fun s0 => ((napiTrigger c02Sub c02Script c02Stale 4 0 s0).state?).map fun s =>
      (buildStateList [] s.conf, (grun c02Stale (G.init c02Stale s0.conf) s.glog).maxExec,
       (grun c02Stale (G.init c02Stale s0.conf) s.glog).clean))
    = some (.name [7], 1, true) := by decide

/-- the run of the open finding: the configuration is `[P_a_a1, P_b_b1]` again, two transitions executed, states
were entered and exited within the event, the exiting transition's source was active (`eteActive`) -/
theorem C02_step_counterexample_run :
    ((NSt.init c02Cross).bind fun s0 => ((napiTrigger c02Sub c02Script c02Cross 4 0 s0).state?).map fun s =>
      (buildStateList [] s0.conf, buildStateList [] s.conf,
       (grun c02Cross (G.init c02Cross s0.conf) s.glog).enteredThenExited,
       (grun c02Cross (G.init c02Cross s0.conf) s.glog).eteActive,
       (grun c02Cross (G.init c02Cross s0.conf) s.glog).maxExec))
    = some (.cons (.name [1, 2, 3]) (.cons (.name [1, 4, 5]) .nil),
            .cons (.name [1, 2, 3]) (.cons (.name [1, 4, 5]) .nil), true, true, 2) := by decide

theorem C02_step_counterexample : ¬ C02_step_full := by
  intro hfull
  cases h0 : NSt.init c02Cross with
  | none => revert h0; decide
  | some s0 =>
    cases h1 : (napiTrigger c02Sub c02Script c02Cross 4 0 s0).state? with
    | none =>
      have := C02_step_counterexample_run
      simp [h0, h1] at this
    | some s1 =>
      obtain ⟨hI, hcl⟩ := C02_init c02Cross (by decide) s0 h0
      obtain ⟨seg, hl, hc⟩ := hfull c02Cross (by decide) c02Sub c02Script (fun _ _ => ⟨true, rfl⟩) (fun _ _ => rfl)
        4 0 s0 s1 (G.init c02Cross s0.conf) hI hcl h1
      have hg0 : s0.glog = [] := by
        simp only [NSt.init, Option.map_eq_some_iff] at h0
        obtain ⟨f, _, rfl⟩ := h0; rfl
      have hseg : seg = s1.glog := by rw [hl, hg0]; rfl
      have hrun := C02_step_counterexample_run
      simp only [h0, h1, Option.bind_some, Option.map_some, Option.some.injEq, Prod.mk.injEq] at hrun
      have hete := hrun.2.2.1
      rw [hseg] at hc
      simp only [G.clean, Bool.and_eq_true, Bool.not_eq_true'] at hc
      rw [hc.1.1.1.2] at hete
      cases hete

/-! ### C02_history -/

/-- **every history** of trigger calls from the initial configuration, on a direct or on a queued machine: the
invariant holds after the last call (hence after every call: histories are closed under prefixes), none of the
four order / balance flags ever rises, every end-of-event check passes, and the ghost is clean unless some event
executed two or more transitions. -/
theorem C02_history (cfg : NCfg) (hwf : cfg.states.WF = true) (sc : Script) (hR : NoRaise sc) (hC : NoCmds sc)
    (qmax fuel : Nat) (evs : List Nat) (s0 s' : NSt) (h0 : NSt.init cfg = some s0)
    (h : nrunHistory sc cfg qmax fuel evs s0 = some s') :
    GI cfg (grun cfg (G.init cfg s0.conf) s'.glog) s'.conf ∧
    (grun cfg (G.init cfg s0.conf) s'.glog).core = (false, false, false, false, false) ∧
    ((grun cfg (G.init cfg s0.conf) s'.glog).maxExec ≤ 1 → (grun cfg (G.init cfg s0.conf) s'.glog).clean = true) := by
  obtain ⟨hI, hcl⟩ := C02_init cfg hwf s0 h0
  obtain ⟨seg, hl, hc⟩ := frame_history' cfg sc (RInv cfg) hR hC (fun sub => rinv_closed sub sc cfg hwf hR hC)
    qmax fuel evs s0 s' h
  have hg0 : s0.glog = [] := by
    simp only [NSt.init, Option.map_eq_some_iff] at h0
    obtain ⟨f, _, rfl⟩ := h0; rfl
  have hseg : s'.glog = seg := by
    have : s'.view.glog = s0.view.glog ++ seg := hl
    simpa [NSt.view, hg0] using this
  obtain ⟨hi, hcore, _, hete⟩ := hc _ hI
  rw [hseg]
  simp only [G.clean, Bool.and_eq_true, Bool.not_eq_true'] at hcl
  obtain ⟨⟨⟨⟨⟨a1, a2⟩, a3⟩, a4⟩, a5⟩, a6⟩ := hcl
  have hcore0 : (G.init cfg s0.conf).core = (false, false, false, false, false) := by
    simp only [G.core, a1, a2, a4, a5, a6]
  refine ⟨hi, hcore.trans hcore0, fun hm => ?_⟩
  have hcore' := hcore.trans hcore0
  simp only [G.core, Prod.mk.injEq] at hcore'
  obtain ⟨b1, b2, b3, b4, b5⟩ := hcore'
  have hE : (grun cfg (G.init cfg s0.conf) seg).enteredThenExited = false := by
    cases hx : (grun cfg (G.init cfg s0.conf) seg).enteredThenExited with
    | false => rfl
    | true =>
      rcases hete hx with h1 | h1
      · rw [a3] at h1; cases h1
      · omega
  simp only [G.clean, Bool.and_eq_true, Bool.not_eq_true']
  exact ⟨⟨⟨⟨⟨b1, b2⟩, hE⟩, b3⟩, b4⟩, b5⟩

/-- **histories on a queued machine whose callbacks trigger further events** ("through the queue"): such a call
only appends to the queue, the event is processed after the current one, one at a time; the same conclusions hold
for the whole history — the `api`/`ret` marks of the nested calls are interleaved with exits and enters and are
invisible to the bookkeeping — and the queue is empty again when the outermost call returns -/
theorem C02_history_queued (cfg : NCfg) (hwf : cfg.states.WF = true) (sc : Script) (hR : NoRaise sc)
    (hT : TriggersOnly sc) (hq : cfg.queued = true)
    (qmax fuel : Nat) (evs : List Nat) (s0 s' : NSt) (h0 : NSt.init cfg = some s0)
    (h : nrunHistory sc cfg qmax fuel evs s0 = some s') :
    s'.queue = [] ∧
    GI cfg (grun cfg (G.init cfg s0.conf) s'.glog) s'.conf ∧
    (grun cfg (G.init cfg s0.conf) s'.glog).core = (false, false, false, false, false) ∧
    ((grun cfg (G.init cfg s0.conf) s'.glog).maxExec ≤ 1 → (grun cfg (G.init cfg s0.conf) s'.glog).clean = true) := by
  obtain ⟨hI, hcl⟩ := C02_init cfg hwf s0 h0
  have hs0 : s0.glog = [] ∧ s0.queue = [] := by
    simp only [NSt.init, Option.map_eq_some_iff] at h0
    obtain ⟨f, _, rfl⟩ := h0; exact ⟨rfl, rfl⟩
  obtain ⟨⟨seg, hl, hc⟩, hq'⟩ := frame_history_queued cfg sc (RInv cfg) hR hT hq (rinv_closedQ cfg sc hwf hR hT)
    qmax fuel evs s0 s' hs0.2 h
  have hseg : s'.glog = seg := by
    have : s'.view.glog = s0.view.glog ++ seg := hl
    simpa [NSt.view, hs0.1] using this
  obtain ⟨hi, hcore, _, hete⟩ := hc _ hI
  rw [hseg]
  simp only [G.clean, Bool.and_eq_true, Bool.not_eq_true'] at hcl
  obtain ⟨⟨⟨⟨⟨a1, a2⟩, a3⟩, a4⟩, a5⟩, a6⟩ := hcl
  have hcore0 : (G.init cfg s0.conf).core = (false, false, false, false, false) := by
    simp only [G.core, a1, a2, a4, a5, a6]
  refine ⟨hq', hi, hcore.trans hcore0, fun hm => ?_⟩
  have hcore' := hcore.trans hcore0
  simp only [G.core, Prod.mk.injEq] at hcore'
  obtain ⟨b1, b2, b3, b4, b5⟩ := hcore'
  have hE : (grun cfg (G.init cfg s0.conf) seg).enteredThenExited = false := by
    cases hx : (grun cfg (G.init cfg s0.conf) seg).enteredThenExited with
    | false => rfl
    | true =>
      rcases hete hx with h1 | h1
      · rw [a3] at h1; cases h1
      · omega
  simp only [G.clean, Bool.and_eq_true, Bool.not_eq_true']
  exact ⟨⟨⟨⟨⟨b1, b2⟩, hE⟩, b3⟩, b4⟩, b5⟩

/-- **machines without active parallel states** (all transitions declared on the machine, unqueued): from a
configuration in which no state has two active children one trigger call executes at most one transition
(`C03_exec_le_one_of_chain`), so a clean ghost stays clean — unconditionally: this is the full statement of the
property for hierarchical machines as long as no parallel state is active -/
theorem C02_step_exclusive (cfg : NCfg) (hwf : cfg.states.WF = true) (sub : NSub) (sc : Script)
    (hR : NoRaise sc) (hC : NoCmds sc) (hq : cfg.queued = false) (hno : cfg.states.noEvents = true)
    (qmax ev : Nat) (s s' : NSt) (g : G) (hI : GI cfg g s.conf) (hidle : s.queue = [])
    (hchain : s.conf.isChain = true) (hcl : g.clean = true) (hex : g.execd = []) (hmax : g.maxExec ≤ 1)
    (h : (napiTrigger sub sc cfg qmax ev s).state? = some s') :
    ∃ seg, s'.glog = s.glog ++ seg ∧ GI cfg (grun cfg g seg) s'.conf ∧ (grun cfg g seg).clean = true ∧
      (grun cfg g seg).maxExec ≤ 1 := by
  obtain ⟨seg, hl, hi, hclean⟩ := C02_step_clean cfg hwf sub sc hR hC qmax ev s s' g hI hcl h
  obtain ⟨seg', hl', hle⟩ := C03_exec_le_one_of_chain cfg sub sc hR hC hq hno qmax ev s s' hI.root1 hI.conf_ok hidle hchain h
  have hss : seg' = seg := List.append_cancel_left (hl'.symm.trans hl)
  subst hss
  have hb := (grun_execd_le cfg seg' g).2
  rw [hex] at hb
  simp only [List.length_nil, Nat.zero_add] at hb
  have hm : (grun cfg g seg').maxExec ≤ 1 := by omega
  exact ⟨seg', hl, hi, hclean hm, hm⟩

/-! ### the sharp exclusion: transitions that are not local when they execute -/

/-- **one trigger call, sharp form.**  A transition is LOCAL at the moment it executes (`localRef`, decidable on the
ghost state): it is its source is active and was not entered during the current event,
nothing below its source was entered during the current event, and wherever an ancestor of the source (or the machine)
has two or more active children the destination lies in the same child's branch as the source.  "Entered and
afterwards exited within one event" can only rise if some transition that executes is NOT local at that moment
(`nonLocalRun`), for transitions declared on the machine or inside state definitions alike.  Any number of transitions
may execute in the event. -/
theorem C02_step_regions (cfg : NCfg) (hwf : cfg.states.WF = true) (sub : NSub) (sc : Script)
    (hR : NoRaise sc) (hC : NoCmds sc) (qmax ev : Nat) (s s' : NSt) (g : G) (hI : GI2 cfg g s.conf)
    (h : (napiTrigger sub sc cfg qmax ev s).state? = some s') :
    ∃ seg, s'.glog = s.glog ++ seg ∧ GI2 cfg (grun cfg g seg) s'.conf ∧ (grun cfg g seg).core = g.core ∧
      ((grun cfg g seg).enteredThenExited = true → g.enteredThenExited = true ∨ nonLocalRun cfg g seg = true) := by
  obtain ⟨seg, hl, hc⟩ := frame_apiTrigger2 cfg sub sc (RInv2 cfg) hR hC (rinv2_closed sub sc cfg hwf hR hC) qmax ev s s' h
  exact ⟨seg, hl, hc g hI⟩

/-- **one trigger call on a machine whose transitions are all declared on the machine — the statement up to the one
remaining open finding.**  Unqueued machine, ghost state between events: "entered and afterwards exited within one
event" can only rise if some transition that executes violates the REGION CONDITION at that moment (`nonRegionRun`,
`regionOK`): an ancestor of its source (or the machine) has two or more active children and its destination lies outside
the source's branch — i.e. the transition targets (an ancestor in) another region.  That its source is active, was not
exited or entered during the event, and that nothing below it was entered during the event is PROVED for every
transition the repaired dispatch executes (`nonLocal_imp_nonRegion`), it is no longer an exclusion. -/
theorem C02_step_global (cfg : NCfg) (hwf : cfg.states.WF = true) (sub : NSub) (sc : Script)
    (hR : NoRaise sc) (hC : NoCmds sc) (hq : cfg.queued = false) (hno : cfg.states.noEvents = true)
    (hkeys : (cfg.events.map (·.1)).Nodup)
    (qmax ev : Nat) (s s' : NSt) (g : G) (hI : GI2 cfg g s.conf) (hidle : s.queue = [])
    (hent : g.entered = []) (hexi : g.exited = [])
    (h : (napiTrigger sub sc cfg qmax ev s).state? = some s') :
    ∃ seg, s'.glog = s.glog ++ seg ∧ GI2 cfg (grun cfg g seg) s'.conf ∧ (grun cfg g seg).core = g.core ∧
      ((grun cfg g seg).enteredThenExited = true → g.enteredThenExited = true ∨ nonRegionRun cfg g seg = true) := by
  obtain ⟨seg, hl, hi, hcore, hete⟩ := C02_step_regions cfg hwf sub sc hR hC qmax ev s s' g hI h
  obtain ⟨seg', hl', himp⟩ := nonLocal_imp_nonRegion cfg hwf sub sc hR hC hq hno hkeys qmax ev s s' g hI hidle hent hexi h
  have hss : seg' = seg := List.append_cancel_left (hl'.symm.trans hl)
  subst hss
  refine ⟨seg', hl, hi, hcore, fun hx => ?_⟩
  rcases hete hx with h1 | h1
  · exact Or.inl h1
  · exact Or.inr (himp h1)

/-- the witness `c02Cross` violates the region condition (and only then can the flag rise); the two-region machine
`c02Regions` below does not -/
example : ((NSt.init c02Cross).bind fun s0 => ((napiTrigger c02Sub c02Script c02Cross 4 0 s0).state?).map fun s =>
      nonRegionRun c02Cross (G.init c02Cross s0.conf) s.glog) = some true := by decide

/-- **every history, sharp form**: the ghost is clean after any history in which every executing transition was
local at its moment -/
theorem C02_history_regions (cfg : NCfg) (hwf : cfg.states.WF = true) (sc : Script) (hR : NoRaise sc) (hC : NoCmds sc)
    (qmax fuel : Nat) (evs : List Nat) (s0 s' : NSt) (h0 : NSt.init cfg = some s0)
    (h : nrunHistory sc cfg qmax fuel evs s0 = some s') :
    GI2 cfg (grun cfg (G.init cfg s0.conf) s'.glog) s'.conf ∧
    (nonLocalRun cfg (G.init cfg s0.conf) s'.glog = false → (grun cfg (G.init cfg s0.conf) s'.glog).clean = true) := by
  obtain ⟨hI, hcl⟩ := C02_init cfg hwf s0 h0
  have hI2 : GI2 cfg (G.init cfg s0.conf) s0.conf := ⟨hI, fun p hp => by simp [G.init] at hp⟩
  obtain ⟨seg, hl, hc⟩ := frame_history2 cfg sc (RInv2 cfg) hR hC (fun sub => rinv2_closed sub sc cfg hwf hR hC)
    qmax fuel evs s0 s' h
  have hg0 : s0.glog = [] := by
    simp only [NSt.init, Option.map_eq_some_iff] at h0
    obtain ⟨f, _, rfl⟩ := h0; rfl
  have hseg : s'.glog = seg := by
    have : s'.view.glog = s0.view.glog ++ seg := hl
    simpa [NSt.view, hg0] using this
  obtain ⟨hi, hcore, hete⟩ := hc _ hI2
  rw [hseg]
  refine ⟨hi, fun hnl => ?_⟩
  simp only [G.clean, Bool.and_eq_true, Bool.not_eq_true'] at hcl
  obtain ⟨⟨⟨⟨⟨a1, a2⟩, a3⟩, a4⟩, a5⟩, a6⟩ := hcl
  simp only [G.core, Prod.mk.injEq] at hcore
  obtain ⟨b1, b2, b3, b4, b5⟩ := hcore
  have hE : (grun cfg (G.init cfg s0.conf) seg).enteredThenExited = false := by
    cases hx : (grun cfg (G.init cfg s0.conf) seg).enteredThenExited with
    | false => rfl
    | true =>
      rcases hete hx with h1 | h1
      · rw [a3] at h1; cases h1
      · rw [hnl] at h1; cases h1
  simp only [G.clean, Bool.and_eq_true, Bool.not_eq_true']
  exact ⟨⟨⟨⟨⟨b1.trans a1, b2.trans a2⟩, hE⟩, b3.trans a4⟩, b4.trans a5⟩, b5.trans a6⟩

/-- non-vacuity / sharpness: in the two-region machine below both region-local transitions execute in one event
(`maxExec = 2`, outside `C02_step_clean`'s exclusion) and every one is local, so the ghost is clean; in the witness
`c02Cross` the second transition is not local (its destination lies in the sibling region) -/
def c02Regions : NCfg :=
  { c02Stale with events := [(0, [{ source := [1, 2, 3], dest := some [1, 2] }, { source := [1, 4, 5], dest := some [1, 4, 6] }])] }

example : ((NSt.init c02Regions).bind fun s0 => (nrunHistory c02Script c02Regions 8 2 [0] s0).map fun s =>
      (buildStateList [] s.conf, (grun c02Regions (G.init c02Regions s0.conf) s.glog).maxExec,
       nonLocalRun c02Regions (G.init c02Regions s0.conf) s.glog,
       (grun c02Regions (G.init c02Regions s0.conf) s.glog).clean))
    = some (.cons (.name [1, 2, 3]) (.cons (.name [1, 4, 6]) .nil), 2, false, true) := by decide

example : ((NSt.init c02Cross).bind fun s0 => (nrunHistory c02Script c02Cross 8 2 [0] s0).map fun s =>
      nonLocalRun c02Cross (G.init c02Cross s0.conf) s.glog) = some true := by decide

/-! ### order of exits and enters, closure of the entered part -/

/-- `resolve_order` lists every node of a state tree exactly once, deepest level first: every state comes after
all its descendants -/
theorem C02_resolve_order (f : Forest) :
    ∃ l, resolveOrder f = some l ∧ l.Perm f.nodes ∧ l.Pairwise (fun a b => properPrefix a b = false) := by
  obtain ⟨l, h⟩ := resolveOrder_total f
  exact ⟨l, h, resolveOrder_perm h, resolveOrder_children_first h⟩

/-- **exits run children before parents**: the exit list of a resolved transition — from any scope, to any
destination — consists of distinct active states, never lists a state before one of its descendants, and is closed
under active descendants (so every active descendant of an exited state is exited, earlier) -/
theorem C02_exit_children_first (cfg : NCfg) (hwf : cfg.states.WF = true) (scope : Scope)
    (hsc : cfg.root.walkTo scope.pre = some scope) (conf : Forest) (hc : ConfOK cfg.states conf = true)
    (hlen : conf.len = 1) (dest : SPath) (r : Resolved) (h : resolveTransition cfg.root scope conf dest = .ok r) :
    (pathsOf r.exits).Nodup ∧ (∀ p ∈ pathsOf r.exits, p ∈ conf.nodes) ∧
    (pathsOf r.exits).Pairwise (fun a b => properPrefix a b = false) ∧
    (∀ p ∈ pathsOf r.exits, ∀ q ∈ conf.nodes, properPrefix p q = true → q ∈ pathsOf r.exits) := by
  obtain ⟨A, _, xnd, xin, xord, xcl, _⟩ :=
    resolveTransition_spec enterSpec_holds enterRootEq_holds cfg hwf scope hsc conf hc hlen dest r h
  exact ⟨xnd, fun p hp => (xin p hp).1, xord, xcl⟩

/-- **enters run parents before children**: the enter list consists of distinct states, none of which stays
active across the exits, each after its parent — the first one directly below a state that stays active (or a
root state) -/
theorem C02_enter_parents_first (cfg : NCfg) (hwf : cfg.states.WF = true) (scope : Scope)
    (hsc : cfg.root.walkTo scope.pre = some scope) (conf : Forest) (hc : ConfOK cfg.states conf = true)
    (hlen : conf.len = 1) (dest : SPath) (r : Resolved) (h : resolveTransition cfg.root scope conf dest = .ok r) :
    ∃ A, (A = [] ∨ (A ∈ conf.nodes ∧ A ∉ pathsOf r.exits)) ∧
      (pathsOf r.enters).Nodup ∧ (∀ p ∈ pathsOf r.enters, p ∈ conf.nodes → p ∈ pathsOf r.exits) ∧
      parentsFirst A [] (pathsOf r.enters) = true := by
  obtain ⟨A, hA, _, xin, _, _, nnd, nnew, npf, _⟩ :=
    resolveTransition_spec enterSpec_holds enterRootEq_holds cfg hwf scope hsc conf hc hlen dest r h
  refine ⟨A, ?_, nnd, nnew, npf⟩
  rcases hA with h | h
  · exact Or.inl h
  · refine Or.inr ⟨h, fun hx => ?_⟩
    have := (xin A hx).2
    rw [properPrefix_self] at this
    cases this

/-- **the entered part is closed under initial descent**: what `_enter_nested` enters for a destination
`d0 :: dr` below a scope is a tree with the single root `d0` whose nodes are exactly the entered states, and it is
admissible (`ConfOK`): every entered state without entered children declares no `initial` — the entered part ends
in leaves or in states without an initial substate — and a state entered through `initial` has one child or all
its children entered.  The breadth-first loop never runs out of the fuel it is given. -/
theorem C02_entered_part_closed (sc : Scope) (hwf : sc.states.WF = true) (d0 : Nat) (dr : SPath) :
    enterDest sc (d0 :: dr) ≠ .oof ∧
    ∀ (T : Forest) (ents : List Found), enterDest sc (d0 :: dr) = .ok (T, ents) →
      ∃ v, T = .cons d0 v .nil ∧ ConfOK sc.states T = true ∧
        (∀ p, p ∈ ents.map (·.path) ↔ ∃ q ∈ T.nodes, p = sc.pre ++ q) := by
  refine ⟨enterDest_no_oof sc hwf (d0 :: dr) (fun h => by cases h), fun T ents h => ?_⟩
  obtain ⟨v, h1, h2, _, h4, _⟩ := enterDest_spec sc hwf d0 dr T ents h
  exact ⟨v, h1, h2, h4⟩

/-- the new configuration of a resolved transition: admissible, single root, nodes = (old nodes − exits) + enters -/
theorem C02_new_configuration (cfg : NCfg) (hwf : cfg.states.WF = true) (scope : Scope)
    (hsc : cfg.root.walkTo scope.pre = some scope) (conf : Forest) (hc : ConfOK cfg.states conf = true)
    (hlen : conf.len = 1) (dest : SPath) (r : Resolved) (h : resolveTransition cfg.root scope conf dest = .ok r) :
    ConfOK cfg.states r.tree = true ∧ r.tree.len = 1 ∧
    (∀ p, p ∈ r.tree.nodes ↔ (p ∈ conf.nodes ∧ p ∉ pathsOf r.exits) ∨ p ∈ pathsOf r.enters) := by
  obtain ⟨_, _, _, _, _, _, _, _, _, tok, tlen, tmem⟩ :=
    resolveTransition_spec enterSpec_holds enterRootEq_holds cfg hwf scope hsc conf hc hlen dest r h
  exact ⟨tok, tlen, tmem⟩

/-! ### several models on one machine -/

/-- **an event of model `m` leaves every other model alone**: configuration, ghost log (hence the set of states entered
and not exited) and everything else of every other model are unchanged -/
theorem C02_models_frame (sc : Script) (cfg : NCfg) (qmax fuel m ev : Nat) (ms ms' : MSt)
    (h : mapiTrigger sc cfg qmax fuel m ev ms = some ms') :
    ∀ m', m' ≠ m → alookup m' ms' = alookup m' ms := by
  intro m' hne
  simp only [mapiTrigger] at h
  cases hs : alookup m ms with
  | none => simp [hs] at h
  | some s =>
    simp only [hs] at h
    cases hr : nrunCmd sc cfg qmax fuel (.trigger 0 ev) s with
    | ok a s1 => simp only [hr, Option.some.injEq] at h; subst h; exact alookup_aset_ne m m' s1 hne ms
    | err e s1 => simp only [hr, Option.some.injEq] at h; subst h; exact alookup_aset_ne m m' s1 hne ms
    | oof => simp [hr] at h

/-- **per model**: every model of the machine satisfies the invariant w.r.t. its OWN ghost bookkeeping after every
history of calls addressed to any of the models (each model: its own entered-and-not-exited set = its own reported
configuration plus ancestors; order / balance flags never rise; clean unless one of ITS events executed two transitions) -/
theorem C02_models_history (cfg : NCfg) (hwf : cfg.states.WF = true) (sc : Script) (hR : NoRaise sc) (hC : NoCmds sc)
    (qmax fuel : Nat) :
    ∀ (h : List (Nat × Nat)) (ms ms' : MSt) (g0 : Nat → G),
      (∀ m s, alookup m ms = some s → GI cfg (grun cfg (g0 m) s.glog) s.conf ∧
        (grun cfg (g0 m) s.glog).core = (false, false, false, false, false)) →
      mrunHistory sc cfg qmax fuel h ms = some ms' →
      ∀ m s', alookup m ms' = some s' → GI cfg (grun cfg (g0 m) s'.glog) s'.conf ∧
        (grun cfg (g0 m) s'.glog).core = (false, false, false, false, false) := by
  intro h
  induction h with
  | nil => intro ms ms' g0 hI hrun; simp only [mrunHistory, Option.some.injEq] at hrun; subst hrun; exact hI
  | cons c h ih =>
    intro ms ms' g0 hI hrun
    obtain ⟨m, ev⟩ := c
    simp only [mrunHistory] at hrun
    cases h1 : mapiTrigger sc cfg qmax fuel m ev ms with
    | none => simp [h1] at hrun
    | some ms1 =>
      simp only [h1] at hrun
      refine ih ms1 ms' g0 ?_ hrun
      intro m' s1 hs1
      by_cases hm : m' = m
      · subst hm
        simp only [mapiTrigger] at h1
        cases hs : alookup m' ms with
        | none => simp [hs] at h1
        | some s =>
          simp only [hs] at h1
          obtain ⟨hgi, hcore⟩ := hI m' s hs
          have step : ∀ s2, (nrunCmd sc cfg qmax fuel (.trigger 0 ev) s).state? = some s2 →
              GI cfg (grun cfg (g0 m') s2.glog) s2.conf ∧
              (grun cfg (g0 m') s2.glog).core = (false, false, false, false, false) := by
            intro s2 h2
            cases fuel with
            | zero => simp [nrunCmd, Res.state?] at h2
            | succ f =>
              have h3 : (napiTrigger (nrunCmd sc cfg qmax f) sc cfg qmax ev s).state? = some s2 := by
                simp only [nrunCmd] at h2
                cases hx : napiTrigger (nrunCmd sc cfg qmax f) sc cfg qmax ev s with
                | ok b sx => simpa [hx, Res.map, Res.state?] using h2
                | err e sx => simpa [hx, Res.map, Res.state?] using h2
                | oof => simp [hx, Res.map, Res.state?] at h2
              obtain ⟨seg, hl, hi, hc, _, _⟩ :=
                C02_step_partial cfg hwf (nrunCmd sc cfg qmax f) sc hR hC qmax ev s s2 _ hgi h3
              rw [hl, grun_append]
              exact ⟨hi, hc.trans hcore⟩
          cases hr : nrunCmd sc cfg qmax fuel (.trigger 0 ev) s with
          | ok a sx =>
            simp only [hr, Option.some.injEq] at h1; subst h1
            rw [alookup_aset_self] at hs1; cases hs1
            exact step s1 (by simp [hr, Res.state?])
          | err e sx =>
            simp only [hr, Option.some.injEq] at h1; subst h1
            rw [alookup_aset_self] at hs1; cases hs1
            exact step s1 (by simp [hr, Res.state?])
          | oof => simp [hr] at h1
      · rw [C02_models_frame sc cfg qmax fuel m ev ms ms1 h1 m' hm] at hs1
        exact hI m' s1 hs1

/-! ### membership operations between events -/

theorem alookup_append_some {β : Type} (k : Nat) (v : β) : ∀ (l r : List (Nat × β)), alookup k l = some v →
    alookup k (l ++ r) = some v
  | [], _, h => by simp [alookup] at h
  | (k', v') :: l, r, h => by
    simp only [List.cons_append, alookup] at h ⊢
    split
    · rename_i hk; simpa [hk] using h
    · rename_i hk; simp only [hk, if_false] at h; exact alookup_append_some k v l r h

theorem alookup_append_none {β : Type} (k : Nat) : ∀ (l r : List (Nat × β)), alookup k l = none →
    alookup k (l ++ r) = alookup k r
  | [], _, _ => rfl
  | (k', v') :: l, r, h => by
    simp only [List.cons_append, alookup] at h ⊢
    split
    · rename_i hk; simp [hk] at h
    · rename_i hk; simp only [hk, if_false] at h; exact alookup_append_none k l r h

/-- **add_model does not touch a registered model**: whatever list of models is passed (registered ones, new ones, a
model twice), a model that is registered keeps its engine state - configuration AND ghost log, hence its
entered-and-not-exited set -/
theorem C02_add_models_frame (fresh : NSt) : ∀ (ids : List Nat) (ms : MSt) (m : Nat) (s : NSt),
    alookup m ms = some s → alookup m (addModels fresh ids ms) = some s
  | [], _, _, _, h => h
  | i :: r, ms, m, s, h => by
    unfold addModels
    split
    · exact C02_add_models_frame fresh r ms m s h
    · exact C02_add_models_frame fresh r _ m s (alookup_append_some m s ms _ h)

/-- a model that is named and was not registered starts from the registration state -/
theorem C02_add_models_new (fresh : NSt) : ∀ (ids : List Nat) (ms : MSt) (m : Nat),
    alookup m ms = none → m ∈ ids → alookup m (addModels fresh ids ms) = some fresh
  | [], _, _, _, hin => by simp at hin
  | i :: r, ms, m, h, hin => by
    unfold addModels
    by_cases him : i = m
    · subst him
      simp only [h]
      exact C02_add_models_frame fresh r _ i fresh (by rw [alookup_append_none i ms _ h]; simp [alookup])
    · have hin' : m ∈ r := by
        rcases List.mem_cons.mp hin with h1 | h1
        · exact absurd h1.symm him
        · exact h1
      split
      · exact C02_add_models_new fresh r ms m h hin'
      · refine C02_add_models_new fresh r _ m ?_ hin'
        rw [alookup_append_none m ms _ h]; simp [alookup, him]

/-- a model that is not named stays unregistered -/
theorem C02_add_models_unnamed (fresh : NSt) : ∀ (ids : List Nat) (ms : MSt) (m : Nat),
    alookup m ms = none → m ∉ ids → alookup m (addModels fresh ids ms) = none
  | [], _, _, h, _ => h
  | i :: r, ms, m, h, hin => by
    have him : i ≠ m := fun e => hin (by simp [e])
    have hin' : m ∉ r := fun e => hin (List.mem_cons_of_mem _ e)
    unfold addModels
    split
    · exact C02_add_models_unnamed fresh r ms m h hin'
    · refine C02_add_models_unnamed fresh r _ m ?_ hin'
      rw [alookup_append_none m ms _ h]; simp [alookup, him]

/-- **remove_model does not touch the models that stay** -/
theorem C02_remove_models_frame (ids : List Nat) : ∀ (ms : MSt) (m : Nat), m ∉ ids →
    alookup m (removeModels ids ms) = alookup m ms
  | [], _, _ => rfl
  | (k, v) :: ms, m, h => by
    have ih := C02_remove_models_frame ids ms m h
    unfold removeModels at ih ⊢
    rw [List.filter_cons]
    by_cases hk : k = m
    · subst hk
      have hc : (!ids.contains k) = true := by simpa using h
      simp only [hc, if_true, alookup]
    · cases hc : (!ids.contains k)
      · simp only [Bool.false_eq_true, if_false, alookup, hk]; exact ih
      · simp only [if_true, alookup, hk, if_false]; exact ih

/-! ### the state value and the observable trace -/

/-- the model keeps the configuration as a tree, the code keeps `_build_state_list(tree)` in the model's state
attribute and rebuilds the tree with `build_state_tree` whenever it needs it: the two are inverse to each other, and
the state value names exactly the leaves of the tree, in order -/
theorem C02_state_value_roundtrip (f : Forest) (hwf : f.WF = true) (hne : f ≠ .nil) :
    buildStateTree (buildStateList [] f) .nil = f ∧ (buildStateList [] f).names = f.leaves :=
  ⟨buildStateTree_buildStateList f hwf hne, buildStateList_names f⟩

/-- **the verified monitor accepts the model's observable traces**: on a machine instrumented by the recorder
convention (`Instrumented`: first on_enter / on_exit / prepare / before / finalize callbacks present and unique),
the ghost events `C02.project` reads off the model's `Item` log ARE its ghost log; so `C02.check` — the function the
driver runs on implementation traces — accepts every history of the model in which no event executes two transitions -/
theorem C02_monitor_accepts_model (cfg : NCfg) (hwf : cfg.states.WF = true) (hI : Instrumented cfg)
    (sc : Script) (hR : NoRaise sc) (hC : NoCmds sc) (qmax fuel : Nat) (evs : List Nat) (s0 s' : NSt)
    (h0 : NSt.init cfg = some s0) (h : nrunHistory sc cfg qmax fuel evs s0 = some s') :
    project cfg s'.log = s'.glog ∧
    ((grun cfg (G.init cfg s0.conf) (project cfg s'.log)).maxExec ≤ 1 → check cfg s0.conf s'.log = true) := by
  have hlogs : s0.log = [] ∧ s0.glog = [] := by
    simp only [NSt.init, Option.map_eq_some_iff] at h0
    obtain ⟨f, _, rfl⟩ := h0; exact ⟨rfl, rfl⟩
  have hp : project cfg s'.log = s'.glog :=
    project_history cfg hwf hI sc hC qmax fuel evs s0 s' (by rw [hlogs.1, hlogs.2]; rfl) h
  refine ⟨hp, fun hm => ?_⟩
  rw [hp] at hm
  simp only [check, hp]
  exact (C02_history cfg hwf sc hR hC qmax fuel evs s0 s' h0 h).2.2 hm

/-- **nesting of the enter / exit callbacks while they run**: in the model every callback invocation is a `call` item
immediately followed by its `done` item, so no enter callback ever starts while an ancestor's is still running and no exit
callback while a descendant's is — the nesting monitor `C02.nestOk` (which the driver runs on implementation traces, where
the async classes can suspend inside a callback) accepts every observable trace of the model; together with
`C02_monitor_accepts_model`: the whole monitor `C02.check2` does -/
theorem C02_nesting_model (cfg : NCfg) (hwf : cfg.states.WF = true) (hI : Instrumented cfg)
    (sc : Script) (hR : NoRaise sc) (hC : NoCmds sc) (qmax fuel : Nat) (evs : List Nat) (s0 s' : NSt)
    (h0 : NSt.init cfg = some s0) (h : nrunHistory sc cfg qmax fuel evs s0 = some s') :
    nestOk cfg s'.log = true ∧
    ((grun cfg (G.init cfg s0.conf) (project cfg s'.log)).maxExec ≤ 1 → check2 cfg s0.conf s'.log = true) := by
  have hlog : s0.log = [] := by
    simp only [NSt.init, Option.map_eq_some_iff] at h0
    obtain ⟨f, _, rfl⟩ := h0; rfl
  have hn : nestOk cfg s'.log = true :=
    nestOk_of_idle cfg s'.log (nest_history cfg sc hC qmax fuel evs s0 s' (by rw [hlog]; rfl) h)
  refine ⟨hn, fun hm => ?_⟩
  simp only [check2, Bool.and_eq_true]
  exact ⟨(C02_monitor_accepts_model cfg hwf hI sc hR hC qmax fuel evs s0 s' h0 h).2 hm, hn⟩

/-- non-vacuity of the recorder convention: `P`(1) ⊃ `a`(2), `b`(3); `Q`(4), every state with its own on_enter /
on_exit recorder (plus a second on_enter callback on `P`), one machine-level and one locally declared transition with
their prepare / before recorders, a finalize recorder -/
def c02Inst : NCfg :=
  { states := .cons { name := 1, initial := [2], onEnter := [11, 99], onExit := [21],
                      events := [(0, [{ source := [2], dest := some [3], prepare := [31], before := [41] }])] }
      (.cons { name := 2, onEnter := [12], onExit := [22] } .nil
        (.cons { name := 3, onEnter := [13], onExit := [23] } .nil .nil))
      (.cons { name := 4, onEnter := [14], onExit := [24] } .nil .nil),
    events := [(1, [{ source := [1], dest := some [4], prepare := [32], before := [42], conds := [⟨60, true⟩] }])],
    finalize := [50, 51], initial := [1] }

example : Instrumented c02Inst := by
  constructor <;> decide

/-- the model's observable trace of the history [0, 1] is accepted by the monitor as run by the driver -/
example : ((NSt.init c02Inst).bind fun s0 => (nrunHistory c02Script c02Inst 8 2 [0, 1] s0).map fun s =>
      (buildStateList [] s.conf, check c02Inst s0.conf s.log, s.log.length, decide (project c02Inst s.log = s.glog)))
    = some (.name [4], true, 32, true) := by decide

/-! ### non-vacuity: a machine with parallel states nested in a parallel state -/

/-- `P`(1) parallel [`a`(2) parallel [`x`(4), `y`(5)], `b`(3)], `Q`(6); event 0: `Q → P` and `P_b → Q` -/
def c02Nest : NCfg :=
  { states := .cons { name := 1, initial := [2, 3] }
      (.cons { name := 2, initial := [4, 5] } (.cons (c02Leaf 4) .nil (.cons (c02Leaf 5) .nil .nil))
        (.cons (c02Leaf 3) .nil .nil))
      (.cons (c02Leaf 6) .nil .nil),
    events := [(0, [{ source := [6], dest := some [1] }, { source := [1, 3], dest := some [6] }])],
    initial := [6] }

example : c02Nest.states.WF = true := by decide
/-- `Q` → `[[P_a_x, P_a_y], P_b]` → `Q`: two events, each executing one transition; the ghost is clean throughout -/
example : ((NSt.init c02Nest).bind fun s0 => (nrunHistory c02Script c02Nest 8 2 [0, 0, 0] s0).map fun s =>
      (buildStateList [] s.conf, (grun c02Nest (G.init c02Nest s0.conf) s.glog).clean,
       (grun c02Nest (G.init c02Nest s0.conf) s.glog).maxExec, s.glog.length))
    = some (.cons (.cons (.name [1, 2, 4]) (.cons (.name [1, 2, 5]) .nil)) (.cons (.name [1, 3]) .nil), true, 1, 33) := by
  decide

end TM
