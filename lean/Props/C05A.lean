/-
  Props/C05A.lean — property C05 ("queued processing is run-to-completion, FIFO and exactly-once") on the
  ASYNCHRONOUS flat engine `Model/Async.lean` (`AsyncMachine._process_async`, `AsyncEvent._trigger`, `gather`).

  queued=True (qm = 1, one machine-wide queue): `C05A_queued_history` — the async trace of every history of awaited
  triggers is accepted by the SAME abstract queue acceptor as the synchronous engine, `C05.idle` / `C05.busy`
  (Model/Spec/C05.lean), at FULL strength: every configuration, every script (callbacks at any stage await further
  triggers on any model, raise), every assignment of plain / coroutine / suspending kinds to the callbacks, every
  history, NO staging hypothesis (`WellStaged` of property C07 is not needed: the acceptor ignores `done` items and
  `gather` only changes when callbacks finish, not which event they belong to).  Proved directly on the async
  model by simulation (Proofs/C05AGen.lean, Proofs/C05A.lean), a port of the synchronous proof.

  `C05A_queued_history_partial` — the same under the observation map of property C07 and by TRANSPORT: under the
  hypotheses of `C07_flat_partial` the synchronous run exists, its trace is accepted (`C05_queued_history`), the two
  traces have the same observation `obsC07` (`Agree`), and the OBSERVED async trace `obsC07 tr` is accepted as well.
  The last step uses `C05_idle_obsC07_gen` (Proofs/C05Filter.lean): the acceptor is insensitive to the items
  `obsC07` removes (`done` items, starts of dead conditions) on traces without remove_model calls — and the async
  engine logs none (Proofs/C05ANR.lean).  In fact the observed async trace is accepted for EVERY script
  (`C05A_queued_history_obs`); the regime `WellStaged` is needed for the comparison with the synchronous run only.

  `remove_model` is not a command of the async model (`Async.runCmd` answers `oof` for everything but `trigger`),
  so that clause is covered for the async classes by the sync-vs-async twin of harness/props/c05.py only.
-/
import Proofs.C05A
import Proofs.C05ANR
import Proofs.C05Filter
import Props.C05
import Props.C07

namespace TM
open C05 A5

/-- a top-level awaited trigger on an idle `queued=True` async machine -/
theorem C05A_top_trigger (fin0 : Nat) (sc : Script) (kd : Async.Kinds) (cfg : Cfg) (qmax n : Nat)
    (rest : List Nat) (hfin : cfg.finalize = fin0 :: rest) (hnot : fin0 ∉ rest)
    (m ev : Nat) (s : St) (hidle : s.queue = []) :
    ∀ s', (Async.apiTrigger (Async.runCmd sc kd cfg 1 qmax n) sc kd cfg 1 qmax m ev s).state? = some s' →
      s'.queue = [] ∧ ∃ seg, s'.log = s.log ++ .api 0 s.nextTag m ev :: seg ∧
        ∀ tl k, idle fin0 (k + 1) (.api 0 s.nextTag m ev :: (seg ++ tl)) = idle fin0 k tl := by
  intro s' hs'
  let s1 : St := ({ s with nextTag := s.nextTag + 1 }).emit (.api 0 s.nextTag m ev)
  have hs1q : s1.queue = [] := hidle
  have refuse_exc : ∀ e, s' = s1.emit (.raised s.nextTag e) →
      s'.queue = [] ∧ ∃ seg, s'.log = s.log ++ .api 0 s.nextTag m ev :: seg ∧
        ∀ tl k, idle fin0 (k + 1) (.api 0 s.nextTag m ev :: (seg ++ tl)) = idle fin0 k tl := by
    intro e h; subst h
    exact ⟨hidle, [.raised s.nextTag e], by simp [St.emit, s1], fun tl k => by simp [idle, busy]⟩
  have refuse : s' = s1.emit (.ret s.nextTag false) →
      s'.queue = [] ∧ ∃ seg, s'.log = s.log ++ .api 0 s.nextTag m ev :: seg ∧
        ∀ tl k, idle fin0 (k + 1) (.api 0 s.nextTag m ev :: (seg ++ tl)) = idle fin0 k tl := by
    intro h; subst h
    exact ⟨hidle, [.ret s.nextTag false], by simp [St.emit, s1], fun tl k => by simp [idle, busy]⟩
  unfold Async.apiTrigger at hs'
  change (match Async.triggerByName _ sc kd cfg 1 qmax m ev s.nextTag s1 with
        | .ok b s' => (.ok b (s'.emit (.ret s.nextTag b)) : R Bool)
        | .err e s' => .err e (s'.emit (.raised s.nextTag e))
        | .oof => .oof).state? = some s' at hs'
  unfold Async.triggerByName at hs'
  by_cases hmod : (alookup m s1.mstate).isNone = true
  · simp only [hmod, if_true, Res.state?, Option.some.injEq] at hs'
    exact refuse_exc _ hs'.symm
  · simp only [hmod] at hs'
    cases hev : cfg.event? ev with
    | none =>
      simp only [hev, Bool.false_eq_true, if_false] at hs'
      cases hst : cfg.state? (s1.stateOf m) with
      | none => simp only [hst, Res.state?, Option.some.injEq] at hs'; exact refuse_exc _ hs'.symm
      | some _ =>
        simp only [hst] at hs'
        by_cases hig : ignoreInvalid cfg (s1.stateOf m) = true
        · simp only [hig, if_true, Res.state?, Option.some.injEq] at hs'; exact refuse hs'.symm
        · simp only [hig, Bool.false_eq_true, if_false, Res.state?, Option.some.injEq] at hs'
          exact refuse_exc _ hs'.symm
    | some ts =>
      have h10 : ((1 : Nat) = 0) = False := by simp
      have h12 : ((1 : Nat) = 2) = False := by simp
      simp only [hev, Bool.false_eq_true, if_false, Async.machineProcess, Async.qOf, h10, h12, hs1q, List.nil_append,
        List.length_singleton, gt_iff_lt, Nat.lt_irrefl] at hs'
      -- the caller drains
      let s2 : St := { s1 with queue := [(m, ev, s.nextTag)] }
      let σ0 : Q := { owner := s.nextTag, q := [(s.nextTag, m)], fin := false }
      have hpre : DrainPre σ0 s2 :=
        ⟨⟨by simp [s2], by intro e he; simp [s2] at he; subst he; exact Nat.lt_succ_self _⟩,
          Or.inl ⟨rfl, rfl, by simp [s2]⟩⟩
      have hd := adrain_post fin0 sc kd cfg (Async.runCmd sc kd cfg 1 qmax n) rest hfin hnot m qmax σ0 s2
        (asubOK_runCmd fin0 s.nextTag sc kd cfg qmax n) hpre
      change (match (Async.drain (Async.runCmd sc kd cfg 1 qmax n) sc kd cfg 1 m qmax s2).bind
          fun _ s' => (.ok true s' : R Bool) with
        | .ok b s' => (.ok b (s'.emit (.ret s.nextTag b)) : R Bool)
        | .err e s' => .err e (s'.emit (.raised s.nextTag e))
        | .oof => .oof).state? = some s' at hs'
      cases hr : Async.drain (Async.runCmd sc kd cfg 1 qmax n) sc kd cfg 1 m qmax s2 with
      | oof => simp [hr, Res.bind, Res.state?] at hs'
      | ok u s3 =>
        rw [hr] at hd
        obtain ⟨σ3, seg, l3, a3, hq3, hf3, hl3, o3⟩ := hd
        simp only [hr, Res.bind, Res.state?, Option.some.injEq] at hs'
        subst hs'
        refine ⟨hq3, seg ++ [.ret s.nextTag true], by simp [St.emit, l3, s2, s1], ?_⟩
        intro tl k
        have hb : busy fin0 { owner := s.nextTag, q := [(s.nextTag, m)], fin := false }
            (seg ++ [.ret s.nextTag true] ++ tl) = some tl := by
          have := a3 (.ret s.nextTag true :: tl)
          rw [List.append_assoc, List.singleton_append, this]
          simp [busy, o3, σ0, hl3, hf3]
        exact idle_busy fin0 k _ _ _ _ _ hb
      | err e s3 =>
        rw [hr] at hd
        obtain ⟨σ3, seg, l3, a3, hq3, o3⟩ := hd
        simp only [hr, Res.bind, Res.state?, Option.some.injEq] at hs'
        subst hs'
        refine ⟨hq3, seg ++ [.raised s.nextTag e], by simp [St.emit, l3, s2, s1], ?_⟩
        intro tl k
        have hb : busy fin0 { owner := s.nextTag, q := [(s.nextTag, m)], fin := false }
            (seg ++ [.raised s.nextTag e] ++ tl) = some tl := by
          have := a3 (.raised s.nextTag e :: tl)
          rw [List.append_assoc, List.singleton_append, this]
          simp [busy, o3, σ0]
        exact idle_busy fin0 k _ _ _ _ _ hb

/-- **C05 (queued=True) on the async engine, full strength.**  Every trace of a history of awaited triggers on an
async machine with one machine-wide queue — callbacks of any kind (plain, coroutine, suspending) that await
further triggers on any model and raise arbitrarily, any number of callbacks per stage — follows the abstract
queue: run-to-completion including the finalize callbacks, FIFO, at most once, deferred triggers return True, an
escaping exception discards what is pending, the draining call returns only when nothing is pending; and the queue
is empty again after every top-level call.  (`Async.runHistory` answers `none` for histories that contain other
commands than `trigger`.) -/
theorem C05A_queued_history (fin0 : Nat) (sc : Script) (kd : Async.Kinds) (cfg : Cfg) (qmax fuel : Nat)
    (rest : List Nat) (hfin : cfg.finalize = fin0 :: rest) (hnot : fin0 ∉ rest) :
    ∀ (h : List Cmd) (s : St), s.queue = [] →
    ∀ s', Async.runHistory sc kd cfg 1 qmax fuel h s = some s' →
      s'.queue = [] ∧ ∃ tr, s'.log = s.log ++ tr ∧ ∀ n, h.length ≤ n → idle fin0 n tr = true := by
  intro h
  induction h with
  | nil =>
    intro s hq0 s' hs'
    simp only [Async.runHistory, Option.some.injEq] at hs'
    subst hs'
    exact ⟨hq0, [], by simp, fun n _ => by cases n <;> rfl⟩
  | cons c cs ih =>
    intro s hq0 s' hs'
    cases fuel with
    | zero => simp [Async.runHistory, Async.runCmd] at hs'
    | succ f =>
      have step : ∀ s1, (Async.runCmd sc kd cfg 1 qmax (f + 1) c s).state? = some s1 →
          s1.queue = [] ∧ ∃ seg, s1.log = s.log ++ seg ∧
            ∀ tl k, idle fin0 (k + 1) (seg ++ tl) = idle fin0 k tl := by
        intro s1 h1
        cases c with
        | trigger m ev =>
          have h1' : (Async.apiTrigger (Async.runCmd sc kd cfg 1 qmax f) sc kd cfg 1 qmax m ev s).state? = some s1 := by
            have : Async.runCmd sc kd cfg 1 qmax (f + 1) (.trigger m ev) s =
              (Async.apiTrigger (Async.runCmd sc kd cfg 1 qmax f) sc kd cfg 1 qmax m ev s).map fun _ => () := rfl
            rw [this] at h1
            cases hr : Async.apiTrigger (Async.runCmd sc kd cfg 1 qmax f) sc kd cfg 1 qmax m ev s <;>
              simp [hr, Res.map, Res.state?] at h1 ⊢ <;> exact h1
          obtain ⟨q1, seg, l1, a1⟩ := C05A_top_trigger fin0 sc kd cfg qmax f rest hfin hnot m ev s hq0 s1 h1'
          exact ⟨q1, _, l1, fun tl k => by simpa using a1 tl k⟩
        | removeModel _ => simp [Async.runCmd, Res.state?] at h1
        | addModel _ => simp [Async.runCmd, Res.state?] at h1
        | dispatch _ => simp [Async.runCmd, Res.state?] at h1
        | may _ _ => simp [Async.runCmd, Res.state?] at h1
      simp only [Async.runHistory] at hs'
      cases hr : Async.runCmd sc kd cfg 1 qmax (f + 1) c s with
      | oof => simp [hr] at hs'
      | ok u s1 =>
        simp only [hr] at hs'
        obtain ⟨q1, seg, l1, a1⟩ := step s1 (by simp [hr, Res.state?])
        obtain ⟨q2, tr, l2, a2⟩ := ih s1 q1 s' hs'
        refine ⟨q2, seg ++ tr, by rw [l2, l1, List.append_assoc], ?_⟩
        intro n hn
        cases n with
        | zero => simp at hn
        | succ n => rw [a1]; exact a2 n (by simpa using hn)
      | err e s1 =>
        simp only [hr] at hs'
        obtain ⟨q1, seg, l1, a1⟩ := step s1 (by simp [hr, Res.state?])
        obtain ⟨q2, tr, l2, a2⟩ := ih s1 q1 s' hs'
        refine ⟨q2, seg ++ tr, by rw [l2, l1, List.append_assoc], ?_⟩
        intro n hn
        cases n with
        | zero => simp at hn
        | succ n => rw [a1]; exact a2 n (by simpa using hn)

/-- the observed async trace (`obsC07`: `done` items and the starts of dead conditions dropped) is accepted too —
for EVERY script and kind assignment -/
theorem C05A_queued_history_obs (fin0 : Nat) (sc : Script) (kd : Async.Kinds) (cfg : Cfg) (qmax fuel : Nat)
    (rest : List Nat) (hfin : cfg.finalize = fin0 :: rest) (hnot : fin0 ∉ rest) :
    ∀ (h : List Cmd) (s : St), s.queue = [] →
    ∀ s', Async.runHistory sc kd cfg 1 qmax fuel h s = some s' →
      ∃ tr, s'.log = s.log ++ tr ∧ ∀ n, h.length ≤ n → idle fin0 n (C07.obsC07 cfg sc tr) = true := by
  intro h s hq0 s' hs'
  obtain ⟨_, tr, hl, hacc⟩ := C05A_queued_history fin0 sc kd cfg qmax fuel rest hfin hnot h s hq0 s' hs'
  obtain ⟨seg, hl2, hnr⟩ := runHistory_nr sc kd cfg 1 qmax fuel h s s' hs'
  have : seg = tr := List.append_cancel_left (hl2.symm.trans hl)
  subst this
  exact ⟨seg, hl, fun n hn => C05_idle_obsC07_gen fin0 cfg sc n seg hnr (hacc n hn)⟩

/-- **C05 (queued=True) on the async engine by transport through `Agree` (regime of C07).**  Under the hypotheses
of `C07_flat_partial` (qm = 1): the synchronous run of the same history exists and its trace is accepted by the
abstract queue, the async trace has the same observation `obsC07`, and the observed async trace is accepted. -/
theorem C05A_queued_history_partial (fin0 : Nat) (cfg : Cfg) (sc : Script) (kd : Async.Kinds) (m0 qmax fuel : Nat)
    (h : List Cmd) (s : St)
    (hq : cfg.queued = true) (hsc : C07.ScriptOK 1 m0 sc) (hh : ∀ c ∈ h, C07.CmdOK 1 m0 c)
    (hW : C07.WellStaged cfg sc)
    (rest : List Nat) (hfin : cfg.finalize = fin0 :: rest) (hnot : fin0 ∉ rest) (hidle : s.queue = []) :
    ∀ sa, Async.runHistory sc kd cfg 1 qmax fuel h s = some sa →
      ∃ ss tra trs, runHistory sc cfg qmax fuel h s = some ss ∧
        sa.log = s.log ++ tra ∧ ss.log = s.log ++ trs ∧ sa.queue = [] ∧ ss.queue = [] ∧
        sa.mstate = ss.mstate ∧
        C07.obsC07 cfg sc tra = C07.obsC07 cfg sc trs ∧
        (∀ n, h.length ≤ n → idle fin0 n trs = true) ∧
        (∀ n, h.length ≤ n → idle fin0 n (C07.obsC07 cfg sc tra) = true) := by
  intro sa hsa
  have hagree := C07_flat_partial cfg sc kd 1 m0 qmax fuel h s (by rw [hq]; rfl) hsc hh
    (by intro h2; exact absurd h2 (by decide)) hW
  rw [hsa] at hagree
  cases hss : runHistory sc cfg qmax fuel h s with
  | none => rw [hss] at hagree; exact hagree.elim
  | some ss =>
    rw [hss] at hagree
    obtain ⟨hobs, hms, _, hqq⟩ := hagree
    -- the synchronous trace is accepted
    have hcmds : CmdsOK sc := by
      intro c k cmd hc
      obtain ⟨m, ev, rfl, _⟩ := hsc c k cmd hc
      trivial
    have hhist : ∀ c ∈ h, CmdOK c := by
      intro c hc
      obtain ⟨m, ev, rfl, _⟩ := hh c hc
      trivial
    obtain ⟨hsq, trs, hls, haccs⟩ := C05_queued_history fin0 sc cfg qmax fuel hq hcmds rest hfin hnot h s hidle hhist ss hss
    obtain ⟨tra, hla, hacca⟩ := C05A_queued_history_obs fin0 sc kd cfg qmax fuel rest hfin hnot h s hidle sa hsa
    refine ⟨ss, tra, trs, rfl, hla, hls, by rw [hqq]; exact hsq, hsq, hms, ?_, haccs, hacca⟩
    have : C07.obsC07 cfg sc (s.log ++ tra) = C07.obsC07 cfg sc (s.log ++ trs) := by rw [← hla, ← hls]; exact hobs
    simp only [C07.obsC07, List.filter_append] at this ⊢
    exact List.append_cancel_left this

/-! ### non-vacuity

Two models; event 0 moves a model from state 0 to state 1, its `before` stage holds TWO callbacks — 10, a suspending
coroutine that (first invocation) awaits three further triggers, next to the coroutine 11: outside the regime
`WellStaged` of C07 — event 1 is internal with `before = [20]`, which raises at its second invocation.  First
top-level call (tag 0, model 0): the awaited triggers (tags 1, 2, 3) are deferred and return True; tag 1 (model 1)
is processed, tag 2 (model 0) raises: the exception escapes call 0 and the pending call of tag 3 is discarded.  The
second top-level call (tag 4) starts from an empty queue. -/

def exCfg5A : Cfg :=
  { states := [{ name := 0, onExit := [30] }, { name := 1 }],
    events := [(0, [{ source := 0, dest := some 1, before := [10, 11], after := [12] }]),
               (1, [{ source := 0, dest := none, before := [20] }, { source := 1, dest := none, before := [20] }])],
    finalize := [90, 91], queued := true, initial := 0 }

def exScript5A : Script := fun c k =>
  if c = 10 ∧ k = 0 then { cmds := [.trigger 1 1, .trigger 0 1, .trigger 1 0] }
  else if c = 20 ∧ k = 1 then { out := .raise (.user 3) }
  else {}

def exKinds5A : Async.Kinds := fun c => if c = 10 ∨ c = 91 then 2 else if c = 11 then 1 else 0

/-- `(callback, model, tag)` of the callback starts of a trace -/
def callsOf5A (l : List Item) : List (Nat × Nat × Nat) :=
  l.filterMap fun i => match i with
    | .call _ c m t _ => some (c, m, t)
    | _ => none

/-- `(tag, outcome)`: 1 = returned True, 0 = returned False, 2 = raised -/
def outsOf5A (l : List Item) : List (Nat × Nat) :=
  l.filterMap fun i => match i with
    | .ret t b => some (t, if b then 1 else 0)
    | .raised t _ => some (t, 2)
    | _ => none

-- the hypotheses of `C05A_queued_history` hold for it
example : exCfg5A.finalize = 90 :: [91] ∧ 90 ∉ [91] ∧ (St.init exCfg5A [0, 1]).queue = [] := by decide

/-- the run completes (46 items, queue empty): the events are processed in arrival order (tags 0, 1, 2, then 4 —
nothing of tag 3), the deferred calls returned True, call 0 raised; the acceptor accepts the raw trace and the
observed one -/
example :
    ((Async.runHistory exScript5A exKinds5A exCfg5A 1 16 3 [.trigger 0 0, .trigger 1 0] (St.init exCfg5A [0, 1])).map
      fun s => (s.log.length, s.queue.length, idle 90 2 s.log, idle 90 2 (C07.obsC07 exCfg5A exScript5A s.log))) =
      some (46, 0, true, true) ∧
    ((Async.runHistory exScript5A exKinds5A exCfg5A 1 16 3 [.trigger 0 0, .trigger 1 0] (St.init exCfg5A [0, 1])).map
      fun s => callsOf5A s.log) =
      some [(10, 0, 0), (11, 0, 0), (30, 0, 0), (12, 0, 0), (90, 0, 0), (91, 0, 0), (20, 1, 1), (90, 1, 1), (91, 1, 1),
            (20, 0, 2), (90, 0, 2), (91, 0, 2), (10, 1, 4), (11, 1, 4), (30, 1, 4), (12, 1, 4), (90, 1, 4), (91, 1, 4)] ∧
    ((Async.runHistory exScript5A exKinds5A exCfg5A 1 16 3 [.trigger 0 0, .trigger 1 0] (St.init exCfg5A [0, 1])).map
      fun s => outsOf5A s.log) = some [(1, 1), (2, 1), (3, 1), (0, 2), (4, 1)] := by
  decide

/-- the raw async trace really differs from the synchronous one (the suspended callbacks finish later) -/
example :
    ((Async.runHistory exScript5A exKinds5A exCfg5A 1 16 3 [.trigger 0 0, .trigger 1 0] (St.init exCfg5A [0, 1])).map
      (·.log)) ≠
    ((runHistory exScript5A exCfg5A 16 3 [.trigger 0 0, .trigger 1 0] (St.init exCfg5A [0, 1])).map (·.log)) := by
  decide

end TM
