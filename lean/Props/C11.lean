/-
  Props/C11.lean — property C11: "The helpers on a model always mirror the machine and the model's
  state" — `Model/Helpers.lean` (written after `Machine.add_model`, `_checked_assignment`,
  `_add_model_to_state`, `_add_trigger_to_model`, `add_states`, `add_transition`, `remove_transition`,
  `get_triggers`, `get_transitions`, `is_state`; `HierarchicalMachine.is_state`, `get_triggers`,
  `get_nested_triggers`, helper naming with custom separators).

  Quantifiers: every `model_attribute` / `model_override` / `auto_transitions` setting, every model
  object (any class attributes, any instance attributes, clashing names included) and EVERY history of
  reconfigurations and events (`Op`: initial, add_states, add_transition, remove_transition,
  add_model, trigger) — `run (HM.new …) ops` for all `ops`; lemmas in `Proofs/C11.lean`.
-/
import Proofs.C11
import Props.C04

namespace TM
namespace Helpers

/-- the machines of the property: any history from a fresh `Machine(model=None, states=None, initial=None)` -/
def Reach (attr : Name) (ov auto : Bool) (ops : List Op) : HM := run (HM.new attr ov auto) ops

theorem reach_inv (attr : Name) (ov auto : Bool) (ops : List Op) (ha : AttrOK attr) (hf : OpsFresh ops) :
    Inv (Reach attr ov auto ops) :=
  Inv.run ops _ (Inv.new attr ov auto ha) hf

theorem reach_attr (attr : Name) (ov auto : Bool) (ops : List Op) : (Reach attr ov auto ops).attr = attr :=
  (run_consts ops _).attr
theorem reach_override (attr : Name) (ov auto : Bool) (ops : List Op) : (Reach attr ov auto ops).override = ov :=
  (run_consts ops _).override

theorem kget_of_mem_nodup {β : Type} {m : Nat} {o : β} {l : List (Nat × β)} (hn : (keys l).Nodup) (h : (m, o) ∈ l) :
    kget m l = some o := by
  induction l with
  | nil => cases h
  | cons hd t ih =>
    obtain ⟨m0, o0⟩ := hd
    simp only [keys, List.map_cons, List.nodup_cons] at hn
    rcases List.mem_cons.mp h with h | h
    · injection h with h1 h2; subst h1; subst h2; simp [kget]
    · have : m0 ≠ m := by
        intro e; subst e; exact hn.1 (List.mem_map_of_mem (f := (·.1)) h)
      simp only [kget, this, if_false]
      exact ih hn.2 h

theorem filter_decide_eq_singleton {α : Type} [DecidableEq α] : ∀ (l : List α) (cur : α), cur ∈ l → l.Nodup →
    l.filter (fun s => decide (s = cur)) = [cur]
  | [], _, h, _ => by cases h
  | x :: t, cur, hcs, hnd => by
    simp only [List.nodup_cons] at hnd
    by_cases hx : x = cur
    · subst hx
      simp only [List.filter_cons, decide_true, if_true]
      congr
      apply List.filter_eq_nil_iff.mpr
      intro y hy; simp; intro e; subst e; exact hnd.1 hy
    · have : cur ∈ t := by
        rcases List.mem_cons.mp hcs with h | h
        · exact absurd h.symm hx
        · exact h
      simp only [List.filter_cons, hx, decide_false, Bool.false_eq_true, if_false]
      exact filter_decide_eq_singleton t cur this hnd.2

/-! ### an event can never be named like the state attribute -/

/-- **C11, trigger ≠ attribute.** `add_transition(<model_attribute>, …)` raises ValueError and changes
nothing; hence, whatever the history, no event of the machine carries that name, and the state
attribute of every registered model holds a registered state (never a helper). -/
theorem C11_trigger_ne_attribute (attr : Name) (ov auto : Bool) (ops : List Op) (ha : AttrOK attr) (hf : OpsFresh ops) :
    (∀ hm src dst pass, addTransition hm hm.attr src dst pass = (hm, some .valueError)) ∧
    (∀ e ∈ keys (Reach attr ov auto ops).events, e ≠ attr) ∧
    (∀ m o, (m, o) ∈ (Reach attr ov auto ops).objs → ∃ s ∈ (Reach attr ov auto ops).states, o.getattr attr = some (.value s)) := by
  have hi := reach_inv attr ov auto ops ha hf
  refine ⟨addTransition_attr_raises, ?_, ?_⟩
  · intro e he; have := hi.evNe e he; rwa [reach_attr] at this
  · intro m o hmo
    obtain ⟨s, hs⟩ := (hi.objs m o hmo).st
    have ok := (hi.objs m o hmo).inst _ _ hs
    rw [reach_attr] at hs
    exact ⟨s, ok.2, by simp [Obj.getattr, hs]⟩

/-! ### exactly one `is_<state>()` is True -/

/-- a machine-made binding can only be found in the instance dict -/
theorem getattr_machine {hm : HM} {o : Obj} (ok : ObjOK hm o) {n : Name} {b : Binding} (h : o.getattr n = some b)
    (hb : b.isUser = false) : kget n o.inst = some b := by
  unfold Obj.getattr at h
  cases hi : kget n o.inst with
  | some b' => rw [hi] at h; exact h
  | none => rw [hi] at h; have := ok.cls n b h; rw [hb] at this; cases this

/-- **C11, every `is_` helper answers for the current state.** Whatever the history, the overriding
policy and the attributes the model brought along: the model's state is a registered state `cur`, and
any `is_` helper found on the model — under whatever name — is the helper of a registered state `s`,
sits under the documented name and answers `s = cur`.  So at most one helper is True, and only the
current state's can be. -/
theorem C11_is_helper_answers_current (attr : Name) (ov auto : Bool) (ops : List Op) (ha : AttrOK attr)
    (hf : OpsFresh ops) (m : Nat) (o : Obj) (hmo : (m, o) ∈ (Reach attr ov auto ops).objs) :
    ∃ cur ∈ (Reach attr ov auto ops).states, (Reach attr ov auto ops).stateOf m = some cur ∧
      ∀ n s, o.getattr n = some (.isState s) →
        n = isName attr s ∧ s ∈ (Reach attr ov auto ops).states ∧
        callIs (Reach attr ov auto ops) m n = .answer (decide (s = cur)) := by
  have hi := reach_inv attr ov auto ops ha hf
  have hattr := reach_attr attr ov auto ops
  generalize Reach attr ov auto ops = hm at *
  have ok := hi.objs m o hmo
  have hk : kget m hm.objs = some o := kget_of_mem_nodup hi.nodupM hmo
  obtain ⟨cur, hc⟩ := ok.st
  have hcs : cur ∈ hm.states := (ok.inst _ _ hc).2
  have hst : o.stateOf hm.attr = some cur := by simp [Obj.stateOf, Obj.getattr, hc]
  refine ⟨cur, hcs, by simp [HM.stateOf, hk, hst], ?_⟩
  intro n s hn
  have hb := ok.inst n _ (getattr_machine ok hn rfl)
  refine ⟨by rw [← hattr]; exact hb.1, hb.2, ?_⟩
  simp only [callIs, hk, hn, isStateEval, hst]
  by_cases hsc : s = cur
  · subst hsc; simp
  · have : ¬ cur = s := fun e => hsc e.symm
    simp [hsc, this]

/-- nothing but `is_` helpers sits under a name starting with `is_` (name hygiene of the model's own
attributes and of the event names: decidable on the final namespace) -/
def IsClean (o : Obj) : Prop := ∀ n b, sIs <+: n → o.getattr n = some b → ∃ s, b = .isState s

/-- **C11, exactly one.** No `model_override`; name hygiene: no event ever removed that is named like an `is_`
helper / `trigger` (`RemHyg`: `_remove_trigger_from_model` deletes whatever partial of the machine sits
under the removed event's name), `is_`-names used for nothing else (`IsClean`): then at every point of every
history every registered state has its helper on every model, and the states whose helper answers
True are exactly `[current state]`. -/
theorem C11_exactly_one_is (attr : Name) (auto : Bool) (ops : List Op) (ha : AttrOK attr)
    (hf : OpsFresh ops) (hr : RemHyg ops) (m : Nat) (o : Obj) (hmo : (m, o) ∈ (Reach attr false auto ops).objs)
    (hc : IsClean o) :
    ∃ cur, (Reach attr false auto ops).stateOf m = some cur ∧
      (∀ s ∈ (Reach attr false auto ops).states, o.getattr (isName attr s) = some (.isState s)) ∧
      (Reach attr false auto ops).states.filter
        (fun s => callIs (Reach attr false auto ops) m (isName attr s) == .answer true) = [cur] := by
  obtain ⟨cur, hcs, hst, hall⟩ := C11_is_helper_answers_current attr false auto ops ha hf m o hmo
  have hfi : FInv (fun m o => Op.addModel m o ∈ ops) True (Reach attr false auto ops) :=
    FInv.run ops ops _ rfl (by intro m o h; cases h) (fun _ => hr) (fun _ h => h)
  have hi := reach_inv attr false auto ops ha hf
  have hattr := reach_attr attr false auto ops
  generalize Reach attr false auto ops = hm at *
  have hbound : ∀ s ∈ hm.states, o.getattr (isName attr s) = some (.isState s) := by
    intro s hs
    have hb := (hfi m o hmo).isB trivial s hs
    rw [hattr] at hb
    unfold Bnd Obj.unbound at hb
    cases hg : o.getattr (isName attr s) with
    | none => simp [hg] at hb
    | some b =>
      obtain ⟨s', rfl⟩ := hc _ b (isName_prefix attr s) hg
      have := (hall _ s' hg).1
      have hs' : s' = s := by
        unfold isName infixed at this
        split at this
        · exact (List.append_cancel_left this).symm
        · have h2 := List.append_cancel_left (List.append_cancel_left this)
          injection h2 with _ h3; exact h3.symm
      rw [hs']
  refine ⟨cur, hst, hbound, ?_⟩
  have hans : ∀ s ∈ hm.states, (callIs hm m (isName attr s) == .answer true) = decide (s = cur) := by
    intro s hs
    rw [(hall _ s (hbound s hs)).2.2]
    by_cases hsc : s = cur <;> simp [hsc]
  rw [List.filter_congr hans]
  exact filter_decide_eq_singleton hm.states cur hcs hi.nodupS

/-! ### calling an event method is `trigger(name)` -/

/-- **C11, event method ≡ trigger(name).** Whatever the history and the overriding policy: an event
method found on a registered model — under whatever name — is the method of an event the machine
still has, sits under the event's name, and calling it is `fire` of that event; `model.trigger(e)`,
when it is the machine's, is `fire e` as well.  So `model.<e>()` and `model.trigger('<e>')` are the
same computation: same result or exception, same state afterwards. -/
theorem C11_event_method_eq_trigger (attr : Name) (ov auto : Bool) (ops : List Op) (ha : AttrOK attr)
    (hf : OpsFresh ops) (m : Nat) (o : Obj) (hmo : (m, o) ∈ (Reach attr ov auto ops).objs) :
    (∀ n e, o.getattr n = some (.trigger e) → n = e ∧ e ∈ keys (Reach attr ov auto ops).events ∧
      callEvent (Reach attr ov auto ops) m n = ((fire (Reach attr ov auto ops) m e).1, .fired (fire (Reach attr ov auto ops) m e).2)) ∧
    (o.getattr sTrigger = some .triggerFn → ∀ e,
      callTrigger (Reach attr ov auto ops) m e = ((fire (Reach attr ov auto ops) m e).1, .fired (fire (Reach attr ov auto ops) m e).2)) ∧
    (∀ e e', o.getattr e = some (.trigger e') → o.getattr sTrigger = some .triggerFn →
      callEvent (Reach attr ov auto ops) m e = callTrigger (Reach attr ov auto ops) m e) := by
  have hi := reach_inv attr ov auto ops ha hf
  generalize Reach attr ov auto ops = hm at *
  have ok := hi.objs m o hmo
  have hk : kget m hm.objs = some o := kget_of_mem_nodup hi.nodupM hmo
  have h1 : ∀ n e, o.getattr n = some (.trigger e) → n = e ∧ e ∈ keys hm.events ∧
      callEvent hm m n = ((fire hm m e).1, .fired (fire hm m e).2) := by
    intro n e hn
    have hb := ok.inst n _ (getattr_machine ok hn rfl)
    exact ⟨hb.1, hb.2, by simp [callEvent, hk, hn]⟩
  have h2 : o.getattr sTrigger = some .triggerFn → ∀ e, callTrigger hm m e = ((fire hm m e).1, .fired (fire hm m e).2) := by
    intro ht e; simp [callTrigger, hk, ht]
  refine ⟨h1, h2, ?_⟩
  intro e e' he ht
  obtain ⟨rfl, _, h3⟩ := h1 e e' he
  rw [h3, h2 ht]

/-- **C11, every event has its method** — full strength, no hypothesis on the history: without
`model_override`, at every point of every history every event of the machine is callable on every
registered model (the machine's method, or the attribute of that name the model defined itself). -/
theorem C11_event_method_exists (attr : Name) (auto : Bool) (ops : List Op)
    (m : Nat) (o : Obj) (hmo : (m, o) ∈ (Reach attr false auto ops).objs) :
    ∀ e ∈ keys (Reach attr false auto ops).events, Bnd o e := by
  have hfi : FInv (fun m o => Op.addModel m o ∈ ops) False (Reach attr false auto ops) :=
    FInv.run ops ops _ rfl (by intro m o h; cases h) (fun h => h.elim) (fun _ h => h)
  exact (hfi m o hmo).evB

/-- … and `trigger` itself, when no removed event is named `trigger` / `is_…` (`RemHyg`) -/
theorem C11_trigger_exists (attr : Name) (auto : Bool) (ops : List Op) (hr : RemHyg ops)
    (m : Nat) (o : Obj) (hmo : (m, o) ∈ (Reach attr false auto ops).objs) : Bnd o sTrigger := by
  have hfi : FInv (fun m o => Op.addModel m o ∈ ops) True (Reach attr false auto ops) :=
    FInv.run ops ops _ rfl (by intro m o h; cases h) (fun _ => hr) (fun _ h => h)
  exact (hfi m o hmo).trB trivial

/-! ### attributes the model already defines are never overwritten -/

/-- **C11, no overwrite** — full strength, no hypothesis on the history: without `model_override`, whatever
the history (removals included), every registered model still has its class and every non-None attribute
it defined itself (other than the state attribute) is the very same object. -/
theorem C11_no_overwrite (attr : Name) (auto : Bool) (ops : List Op)
    (m : Nat) (o : Obj) (hmo : (m, o) ∈ (Reach attr false auto ops).objs) :
    ∃ o0, Op.addModel m o0 ∈ ops ∧ KeptFrom attr o0 o := by
  have hfi : FInv (fun m o => Op.addModel m o ∈ ops) False (Reach attr false auto ops) :=
    FInv.run ops ops _ rfl (by intro m o h; cases h) (fun h => h.elim) (fun _ h => h)
  have := (hfi m o hmo).orig
  rwa [reach_attr] at this

/-- **C11, with `model_override` only attributes the model defines are replaced** — every history: a
registered model still has its class, and every name it did not define (missing, or None) is still
undefined — the machine bound nothing there. -/
theorem C11_override_only_replaces (attr : Name) (auto : Bool) (ops : List Op)
    (m : Nat) (o : Obj) (hmo : (m, o) ∈ (Reach attr true auto ops).objs) :
    ∃ o0, Op.addModel m o0 ∈ ops ∧ o.cls = o0.cls ∧ ∀ n, n ≠ attr → o0.unbound n = true → o.unbound n = true := by
  have hti : TInv (fun m o => Op.addModel m o ∈ ops) (Reach attr true auto ops) :=
    TInv.run ops ops _ rfl (by intro m o h; cases h) (fun _ h => h)
  obtain ⟨o0, hp, hk⟩ := hti m o hmo
  rw [reach_attr] at hk
  exact ⟨o0, hp, hk.cls, hk.unb⟩

/-- one `_checked_assignment`: without `model_override` an attribute the model has (not None) is left
alone; with `model_override` ONLY such attributes are replaced, a missing one stays missing -/
theorem C11_checked_assignment (ov : Bool) (o : Obj) (n : Name) (b : Binding) :
    (∀ n', n' ≠ n → (checkedAssign ov o n b).getattr n' = o.getattr n') ∧ (checkedAssign ov o n b).cls = o.cls ∧
    (ov = false → o.unbound n = false → checkedAssign ov o n b = o) ∧
    (ov = true → o.unbound n = true → checkedAssign ov o n b = o) ∧
    (ov = true → o.unbound n = false → (checkedAssign ov o n b).getattr n = some b) := by
  refine ⟨fun n' h => getattr_checkedAssign_ne _ _ _ _ _ h, checkedAssign_cls _ _ _ _, ?_, ?_, ?_⟩
  · intro h1 h2; subst h1; simp [checkedAssign, h2]
  · intro h1 h2; subst h1; simp [checkedAssign, h2]
  · intro h1 h2; subst h1; rw [getattr_checkedAssign_self]; simp [h2]

/-- regression (former finding F-C11-remove-transition-delattr): a model with its own instance attribute
`go` (character codes 103 111), a machine with an event `go`; removing the event's only transition
leaves the model's attribute alone -/
def exRemoveOps : List Op :=
  [.setInitial [65], .addTransition [103, 111] (.one [65]) (.to [65]) true,
   .addModel 0 { inst := [([103, 111], .user 1)] }, .removeTransition [103, 111] none none]

example : ((Reach sState false true exRemoveOps).objs.map fun p => p.2.getattr [103, 111]) = [some (.user 1)] ∧
    (Reach sState false true exRemoveOps).events.map (·.1) = [toName sState [65]] := by decide

/-- … two models, the second defines `go` as a class attribute: the removal succeeds, the first model loses
the machine's method, the second keeps its own attribute, the event is gone -/
def exRemoveOps2 : List Op :=
  [.setInitial [65], .addTransition [103, 111] (.one [65]) (.to [65]) true, .addTransition [103, 111] (.one [66]) (.to [65]) true,
   .addModel 0 {}, .addModel 1 { cls := [([103, 111], .user 1)] }, .removeTransition [103, 111] none none]

example : (applyOp (Reach sState false true exRemoveOps2.dropLast) (.removeTransition [103, 111] none none)).2 = none ∧
    ((Reach sState false true exRemoveOps2).objs.map fun p => p.2.getattr [103, 111]) = [none, some (.user 1)] ∧
    kget [103, 111] (Reach sState false true exRemoveOps2).events = none := by decide

/-! ### `to_<state>()` exists for every state iff auto transitions are enabled, and ends in that state -/

theorem reach_auto (attr : Name) (ov auto : Bool) (ops : List Op) : (Reach attr ov auto ops).auto = auto :=
  (run_consts ops _).auto

/-- **C11, `to_<state>`.** Every history whose own `add_transition` / `remove_transition` calls do not
name events `to_…`.  Without auto transitions the machine has no event named `to_…` at all.  With
auto transitions every registered state `d` has its event `to_<d>` (`to_<attr>_<d>` for a custom
`model_attribute`), and from whatever registered state a model is in, firing it returns True and
leaves the model in `d`.  (That the event's method is on the model: `C11_event_method_exists`.) -/
theorem C11_to_iff_auto (attr : Name) (ov auto : Bool) (ops : List Op) (ha : AttrOK attr) (hf : OpsFresh ops)
    (hu : UserEvents ops) :
    (auto = false → ∀ e ∈ keys (Reach attr ov auto ops).events, ¬ sTo <+: e) ∧
    (auto = true → ∀ d ∈ (Reach attr ov auto ops).states,
      toName attr d ∈ keys (Reach attr ov auto ops).events ∧
      ∀ m s, (Reach attr ov auto ops).stateOf m = some s →
        (fire (Reach attr ov auto ops) m (toName attr d)).2 = .ok true ∧
        (fire (Reach attr ov auto ops) m (toName attr d)).1.stateOf m = some d) := by
  have hi := reach_inv attr ov auto ops ha hf
  have hau : AutoInv (Reach attr ov auto ops) := AutoInv.run ops _ (AutoInv.new attr ov auto) hu
  have hattr := reach_attr attr ov auto ops
  have hauto := reach_auto attr ov auto ops
  generalize Reach attr ov auto ops = hm at *
  subst hattr
  refine ⟨?_, ?_⟩
  · intro hfalse e he hp
    cases hk : kget e hm.events with
    | none => exact ((kget_none_iff e hm.events).mp hk) he
    | some ts =>
      have := (hau.shape e ts hk hp).1
      rw [hauto, hfalse] at this; cases this
  · intro htrue d hd
    rw [← hauto] at htrue
    refine ⟨?_, ?_⟩
    · obtain ⟨ts, hk, _⟩ := hau.cover htrue d hd d hd
      exact mem_keys_of_kget hk
    · intro m s hst
      unfold HM.stateOf at hst
      cases hk : kget m hm.objs with
      | none => simp [hk] at hst
      | some o =>
        simp only [hk] at hst
        have hmo : (m, o) ∈ hm.objs := kget_mem _ _ _ hk
        have hs : s ∈ hm.states := by
          obtain ⟨c, hc⟩ := (hi.objs m o hmo).st
          have := (hi.objs m o hmo).inst _ _ hc
          have h2 : o.stateOf hm.attr = some c := by simp [Obj.stateOf, Obj.getattr, hc]
          rw [h2] at hst; injection hst with hst; subst hst; exact this.2
        obtain ⟨ts, hke, t, ht, hts⟩ := hau.cover htrue s hs d hd
        obtain ⟨_, d', _, hde, hall⟩ := hau.shape _ ts hke (toName_prefix _ _)
        have hdd : d = d' := toName_inj _ _ _ hde
        subst hdd
        unfold fire
        simp only [hk, hst, hs, not_true_eq_false, if_false, hke]
        cases hf' : ts.filter (fun t => t.source = s) with
        | nil =>
          have : t ∈ ts.filter (fun t => t.source = s) := List.mem_filter.mpr ⟨ht, by simpa using hts⟩
          rw [hf'] at this; cases this
        | cons c cs =>
          have hc : c ∈ ts := (List.mem_filter.mp (by rw [hf']; exact List.mem_cons_self ..)).1
          obtain ⟨hcd, hcp, _⟩ := hall c hc
          simp only [List.find?_cons, hcp, hcd, hd, if_true]
          refine ⟨trivial, ?_⟩
          simp [HM.stateOf, kget_kset_self, Obj.stateOf, getattr_setattr_self]

/-! ### get_triggers / get_transitions against the events table -/

theorem kget_iff_mem_nodup {β : Type} {k : Name} {v : β} {l : List (Name × β)} (hn : (keys l).Nodup) :
    kget k l = some v ↔ (k, v) ∈ l := by
  constructor
  · exact kget_mem k v l
  · intro h
    induction l with
    | nil => cases h
    | cons hd t ih =>
      obtain ⟨k0, v0⟩ := hd
      simp only [keys, List.map_cons, List.nodup_cons] at hn
      rcases List.mem_cons.mp h with h | h
      · injection h with h1 h2; subst h1; subst h2; simp [kget]
      · have : k0 ≠ k := by intro e; subst e; exact hn.1 (List.mem_map_of_mem (f := (·.1)) h)
        simp only [kget, this, if_false]; exact ih hn.2 h

/-- **C11, get_triggers is exact** (flat machines, every history): `get_triggers(s)` lists an event iff
the events table has a transition of that event with source `s` — and that is exactly when firing
the event from `s` is not refused ("Can't trigger event … from state …" / unknown event). -/
theorem C11_get_triggers_exact (attr : Name) (ov auto : Bool) (ops : List Op) (ha : AttrOK attr) (hf : OpsFresh ops)
    (s e : Name) :
    (e ∈ getTriggers (Reach attr ov auto ops) [s] ↔
      ∃ ts, kget e (Reach attr ov auto ops).events = some ts ∧ ∃ t ∈ ts, t.source = s) ∧
    (∀ m, (Reach attr ov auto ops).stateOf m = some s →
      (e ∈ getTriggers (Reach attr ov auto ops) [s] ↔
        ((fire (Reach attr ov auto ops) m e).2 ≠ .error .machineError ∧
         (fire (Reach attr ov auto ops) m e).2 ≠ .error .attributeError))) := by
  have hi := reach_inv attr ov auto ops ha hf
  generalize Reach attr ov auto ops = hm at *
  have h1 : e ∈ getTriggers hm [s] ↔ ∃ ts, kget e hm.events = some ts ∧ ∃ t ∈ ts, t.source = s := by
    simp only [getTriggers, List.mem_filterMap]
    constructor
    · rintro ⟨⟨e', ts⟩, hmem, hsome⟩
      split at hsome
      · rename_i hany
        injection hsome with hsome; subst hsome
        obtain ⟨t, ht, hts⟩ := List.any_eq_true.mp hany
        exact ⟨ts, (kget_iff_mem_nodup hi.nodupE).mpr hmem, t, ht, by simpa using hts⟩
      · cases hsome
    · rintro ⟨ts, hk, t, ht, hts⟩
      refine ⟨(e, ts), (kget_iff_mem_nodup hi.nodupE).mp hk, ?_⟩
      have : ts.any (fun t => [s].contains t.source) = true := List.any_eq_true.mpr ⟨t, ht, by simp [hts]⟩
      show (if ts.any (fun t => [s].contains t.source) = true then some e else none) = some e
      rw [if_pos this]
  refine ⟨h1, ?_⟩
  intro m hst
  rw [h1]
  unfold HM.stateOf at hst
  cases hk : kget m hm.objs with
  | none => simp [hk] at hst
  | some o =>
    simp only [hk] at hst
    have hmo : (m, o) ∈ hm.objs := kget_mem _ _ _ hk
    have hs : s ∈ hm.states := by
      obtain ⟨c, hc⟩ := (hi.objs m o hmo).st
      have := (hi.objs m o hmo).inst _ _ hc
      have h2 : o.stateOf hm.attr = some c := by simp [Obj.stateOf, Obj.getattr, hc]
      rw [h2] at hst; injection hst with hst; subst hst; exact this.2
    unfold fire
    simp only [hk, hst, hs, not_true_eq_false, if_false]
    cases he : kget e hm.events with
    | none => simp
    | some ts =>
      simp only
      cases hf' : ts.filter (fun t => t.source = s) with
      | nil =>
        simp only [ne_eq, not_true_eq_false, false_and, iff_false, not_exists, not_and]
        intro ts' hts' t ht hsrc
        injection hts' with hts'; subst hts'
        have : t ∈ ts.filter (fun t => t.source = s) := List.mem_filter.mpr ⟨ht, by simpa using hsrc⟩
        rw [hf'] at this; cases this
      | cons c cs =>
        have hc : c ∈ ts.filter (fun t => t.source = s) := by rw [hf']; exact List.mem_cons_self ..
        have hc' := List.mem_filter.mp hc
        constructor
        · intro _
          simp only
          split
          · simp
          · split
            · simp
            · split <;> simp
        · intro _
          exact ⟨ts, rfl, c, hc'.1, by simpa using hc'.2⟩

/-- the events table as a list of (event, transition) pairs -/
def allTransitions (hm : HM) : List (Name × Tr) := hm.events.flatMap fun ev => ev.2.map fun t => (ev.1, t)

def matchesSel (trigger src dst : Option Name) (p : Name × Tr) : Bool :=
  (match trigger with | some e => p.1 == e | none => true) && selMatch src dst p.2

theorem filter_key_eq {β : Type} (e : Name) : ∀ (l : List (Name × β)), (keys l).Nodup →
    l.filter (fun p => p.1 == e) = (match kget e l with | some ts => [(e, ts)] | none => [])
  | [], _ => rfl
  | (k0, v0) :: t, hn => by
    simp only [keys, List.map_cons, List.nodup_cons] at hn
    by_cases hk : k0 = e
    · subst hk
      have : kget k0 t = none := (kget_none_iff k0 t).mpr hn.1
      have ih := filter_key_eq k0 t hn.2
      rw [this] at ih
      simp [kget, ih]
    · have ih := filter_key_eq e t hn.2
      simp [kget, hk, ih]

/-- **C11, get_transitions is exact** (flat machines, every history): the result is — as a list, with
multiplicities and in table order — the transitions of the events table that match the three
selectors; an unknown trigger gives `[]`. -/
theorem C11_get_transitions_exact (attr : Name) (ov auto : Bool) (ops : List Op) (ha : AttrOK attr) (hf : OpsFresh ops)
    (trigger src dst : Option Name) :
    getTransitions (Reach attr ov auto ops) trigger src dst =
      (allTransitions (Reach attr ov auto ops)).filter (matchesSel trigger src dst) := by
  have hi := reach_inv attr ov auto ops ha hf
  generalize Reach attr ov auto ops = hm at *
  unfold getTransitions allTransitions
  cases trigger with
  | none =>
    congr 1
  | some e =>
    have key : ∀ (l : List (Name × List Tr)),
        (l.flatMap fun ev => ev.2.map fun t => (ev.1, t)).filter (fun p => p.1 == e) =
        (l.filter (fun p => p.1 == e)).flatMap fun ev => ev.2.map fun t => (ev.1, t) := by
      intro l
      induction l with
      | nil => rfl
      | cons hd t ih =>
        simp only [List.flatMap_cons, List.filter_append, ih, List.filter_cons]
        by_cases hh : hd.1 = e
        · have : List.filter (fun _ => true) hd.2 = hd.2 := List.filter_eq_self.mpr (fun _ _ => rfl)
          simp [hh, List.filter_map, Function.comp_def, this]
        · simp [hh, List.filter_map, Function.comp_def]
    have split3 : ∀ (l : List (Name × Tr)),
        l.filter (matchesSel (some e) src dst) =
        (l.filter (fun p => p.1 == e)).filter (matchesSel none src dst) := by
      intro l
      rw [List.filter_filter]
      congr 1
      funext p
      simp only [matchesSel, Bool.true_and]
      cases (p.1 == e) <;> simp
    rw [split3, key, filter_key_eq e hm.events hi.nodupE]
    have m0 : matchesSel none src dst = fun p => selMatch src dst p.2 := by
      funext p; simp [matchesSel]
    rw [m0]
    cases hk : kget e hm.events with
    | none => simp [hk]
    | some ts => simp [hk]

/-! ### helper naming is injective -/

/-- what a helper name stands for -/
inductive Kind
  | isK (s : Name)        -- `is_<state>`
  | toK (s : Name)        -- `to_<state>` (the auto transition's event method)
  | mayToK (s : Name)     -- `may_to_<state>`
  | evK (e : Name)        -- a user event's method
  | mayK (e : Name)       -- `may_<event>`
  | triggerK | mayTriggerK
  deriving DecidableEq, Repr

def helperName (attr : Name) : Kind → Name
  | .isK s => isName attr s
  | .toK s => toName attr s
  | .mayToK s => mayName (toName attr s)
  | .evK e => e
  | .mayK e => mayName e
  | .triggerK => sTrigger
  | .mayTriggerK => sMayTrigger

/-- name hygiene of a user event: not named like a helper -/
def UserEv (e : Name) : Prop := ¬ sIs <+: e ∧ ¬ sTo <+: e ∧ ¬ sMay <+: e ∧ e ≠ sTrigger

def Kind.Hyg : Kind → Prop
  | .evK e => UserEv e
  | .mayK e => UserEv e
  | _ => True

theorem mayName_inj (a b : Name) (h : mayName a = mayName b) : a = b := List.append_cancel_left h
theorem mayName_prefix (e : Name) : sMay <+: mayName e := List.prefix_append _ _

/-- **C11, helper names are injective** on (kind, state/event), for every `model_attribute`, provided
user events are not themselves named `is_…`, `to_…`, `may_…` or `trigger`: two different helpers never
compete for one attribute name (so `_checked_assignment` never drops a helper because of another). -/
theorem C11_names_injective (attr : Name) (k1 k2 : Kind) (h1 : k1.Hyg) (h2 : k2.Hyg)
    (h : helperName attr k1 = helperName attr k2) : k1 = k2 := by
  have e1 : ∀ s : Name, isName attr s ≠ sTrigger := by intro s; simp [isName, sIs, sTrigger]
  have e2 : ∀ s : Name, toName attr s ≠ sTrigger := by intro s; simp [toName, sTo, sTrigger]
  have e3 : ∀ s t : Name, isName attr s ≠ toName attr t := by intro s t; simp [isName, toName, sIs, sTo]
  have e4 : ∀ s e : Name, isName attr s ≠ mayName e := by intro s e; simp [isName, mayName, sIs, sMay]
  have e5 : ∀ s e : Name, toName attr s ≠ mayName e := by intro s e; simp [toName, mayName, sTo, sMay]
  have e6 : ∀ e : Name, mayName e ≠ sTrigger := by intro e; simp [mayName, sMay, sTrigger]
  have e7 : ∀ s : Name, isName attr s ≠ sMayTrigger := fun s => e4 s sTrigger
  have e8 : ∀ s : Name, toName attr s ≠ sMayTrigger := fun s => e5 s sTrigger
  have e9 : sTrigger ≠ sMayTrigger := by decide
  cases k1 <;> cases k2 <;> simp only [helperName, Kind.Hyg] at h h1 h2
  -- isK
  · rw [isName_inj _ _ _ h]
  · exact absurd h (e3 _ _)
  · exact absurd h (e4 _ _)
  · exact absurd (h ▸ isName_prefix attr _) h2.1
  · exact absurd h (e4 _ _)
  · exact absurd h (e1 _)
  · exact absurd h (e7 _)
  -- toK
  · exact absurd h.symm (e3 _ _)
  · rw [toName_inj _ _ _ h]
  · exact absurd h (e5 _ _)
  · exact absurd (h ▸ toName_prefix attr _) h2.2.1
  · exact absurd h (e5 _ _)
  · exact absurd h (e2 _)
  · exact absurd h (e8 _)
  -- mayToK
  · exact absurd h.symm (e4 _ _)
  · exact absurd h.symm (e5 _ _)
  · rw [toName_inj _ _ _ (mayName_inj _ _ h)]
  · exact absurd (h ▸ mayName_prefix _) h2.2.2.1
  · exact absurd ((mayName_inj _ _ h) ▸ toName_prefix attr _) h2.2.1
  · exact absurd h (e6 _)
  · exact absurd (mayName_inj _ _ h) (e2 _)
  -- evK
  · exact absurd (h.symm ▸ isName_prefix attr _) h1.1
  · exact absurd (h.symm ▸ toName_prefix attr _) h1.2.1
  · exact absurd (h.symm ▸ mayName_prefix _) h1.2.2.1
  · rw [h]
  · exact absurd (h.symm ▸ mayName_prefix _) h1.2.2.1
  · exact absurd h h1.2.2.2
  · exact absurd (h.symm ▸ mayName_prefix sTrigger) h1.2.2.1
  -- mayK
  · exact absurd h.symm (e4 _ _)
  · exact absurd h.symm (e5 _ _)
  · exact absurd ((mayName_inj _ _ h).symm ▸ toName_prefix attr _) h1.2.1
  · exact absurd (h ▸ mayName_prefix _) h2.2.2.1
  · rw [mayName_inj _ _ h]
  · exact absurd h (e6 _)
  · exact absurd (mayName_inj _ _ h) h1.2.2.2
  -- triggerK
  · exact absurd h.symm (e1 _)
  · exact absurd h.symm (e2 _)
  · exact absurd h.symm (e6 _)
  · exact absurd h.symm h2.2.2.2
  · exact absurd h.symm (e6 _)
  · rfl
  · exact absurd h e9
  -- mayTriggerK
  · exact absurd h.symm (e7 _)
  · exact absurd h.symm (e8 _)
  · exact absurd (mayName_inj _ _ h).symm (e2 _)
  · exact absurd (h ▸ mayName_prefix sTrigger) h2.2.2.1
  · exact absurd (mayName_inj _ _ h).symm h2.2.2.2
  · exact absurd h.symm e9
  · rfl

/-! ### hierarchical machines: `is_<state>` -/

/-- **C11, nested `is_<state>()`.** `active` = the model's active leaves (non-empty paths).  The tree walk
of `HierarchicalMachine.is_state` answers True with `allow_substates` exactly for the active leaves and
their ancestors; without it exactly for paths that are active and have nothing active below them — for
a well-formed configuration (no active path is a proper prefix of another) that is `p ∈ active`. -/
theorem C11_is_state_nested (active : List Path) (hne : ∀ a ∈ active, a ≠ []) (p : Path) (hp : p ≠ []) :
    (isStateH active p true = true ↔ ∃ a ∈ active, p <+: a) ∧
    (isStateH active p false = true ↔ (p ∈ active ∧ ∀ a ∈ active, p <+: a → a = p)) ∧
    ((∀ a ∈ active, ∀ b ∈ active, a <+: b → b = a) → (isStateH active p false = true ↔ p ∈ active)) := by
  have h1 : isStateH active p true = true ↔ ∃ a ∈ active, p <+: a := by
    rw [isStateH_allow]; simp [hp]
  have h2 : isStateH active p false = true ↔ (p ∈ active ∧ ∀ a ∈ active, p <+: a → a = p) := by
    rw [isStateH_exact p active hne]
    constructor
    · rintro ⟨h | ⟨a, ha, hpre⟩, hall⟩
      · exact absurd h hp
      · exact ⟨by rw [← hall a ha hpre]; exact ha, hall⟩
    · rintro ⟨hm, hall⟩
      exact ⟨Or.inr ⟨p, hm, List.prefix_refl p⟩, hall⟩
  refine ⟨h1, h2, ?_⟩
  intro hwf
  rw [h2]
  exact ⟨fun h => h.1, fun h => ⟨h, fun a ha hpre => hwf p h a ha hpre⟩⟩

/-! ### hierarchical machines: `get_triggers` -/

/-- **C11, nested get_triggers is exact** — full strength: for every hierarchical machine (scopes are
dicts: unique event keys) and every registered state (`PathStates`: the state and its ancestors are
registered — for anything else the code raises KeyError), `get_triggers(state)` lists exactly the events
that are offered a transition when the model is in that state, i.e. declared — in the root scope or in
the scope of an ancestor — on the state or one of its ancestors. -/
theorem C11_get_triggers_nested (h : HSM) (hn : h.ScopesNodup) (p : Path) (hp : PathStates h [] p) (e : Name) :
    e ∈ getTriggersH h p ↔ firesIn h [] p e = true := by
  cases p with
  | nil => simp [getTriggersH, firesIn, prefixesDesc]
  | cons x tl =>
    unfold getTriggersH firesIn
    have hflat : e ∈ (prefixesDesc (x :: tl)).flatMap (scopeTriggers (h.scopeEvents [])) ↔
        (prefixesDesc (x :: tl)).any (declared (h.scopeEvents []) e) = true := by
      simp only [List.mem_flatMap, List.any_eq_true]
      constructor
      · rintro ⟨q, hq, he⟩; exact ⟨q, hq, (mem_scopeTriggers (hn [])).mp he⟩
      · rintro ⟨q, hq, he⟩; exact ⟨q, hq, (mem_scopeTriggers (hn [])).mpr he⟩
    rw [List.mem_append, hflat, Bool.or_eq_true, Bool.and_eq_true]
    cases tl with
    | nil => simp
    | cons y tl' =>
      have := scopedTriggers_iff h hn e (y :: tl') [x] (by simpa using hp.2)
      simp only [List.nil_append, ne_eq, reduceCtorEq, not_false_eq_true, decide_true, true_and]
      rw [this]
      exact Or.comm

/-- **C11, whatever fires is a known trigger**: an event that is offered a transition from some state is declared in
some scope of the machine (`knownEvents`: root and nested scopes) — so "every known trigger has its method on the model"
(the oracle's clause after every step, removals included) covers everything `get_triggers` can list or a model can fire. -/
theorem C11_fires_known (h : HSM) (e : Name) : ∀ (rel pre : Path), firesIn h pre rel e = true → e ∈ h.knownEvents
  | [], _, hf => by simp [firesIn] at hf
  | x :: tl, pre, hf => by
    unfold firesIn at hf
    simp only [Bool.or_eq_true, Bool.and_eq_true, List.any_eq_true] at hf
    rcases hf with ⟨q, _, hd⟩ | ⟨_, hsub⟩
    · unfold declared at hd
      cases hk : kget e (h.scopeEvents pre) with
      | none => simp [hk] at hd
      | some srcs =>
        have hm := kget_mem _ _ _ hk
        unfold HSM.scopeEvents at hm
        cases hs : kget pre h.scopes with
        | none => simp [hs] at hm
        | some evs =>
          simp only [hs, Option.getD_some] at hm
          exact List.mem_flatMap.mpr ⟨(pre, evs), kget_mem _ _ _ hs, List.mem_map.mpr ⟨(e, srcs), hm, rfl⟩⟩
    · exact C11_fires_known h e tl (pre ++ [x]) hsub

theorem C11_get_triggers_known (h : HSM) (hn : h.ScopesNodup) (p : Path) (hp : PathStates h [] p) (e : Name)
    (hm : e ∈ getTriggersH h p) : e ∈ h.knownEvents :=
  C11_fires_known h e p [] ((C11_get_triggers_nested h hn p hp e).mp hm)

theorem top_mem_prefixesDesc (x : Name) (tl : Path) : [x] ∈ prefixesDesc (x :: tl) := by
  unfold prefixesDesc; exact List.mem_append_right _ (List.mem_singleton.mpr rfl)

/-- **C11, nested `to_<state>` works from every state.** When every state's `to_<state>` event is declared in the root
scope with every top-level state as a source (`autoCoveredB`: what `_init_state` establishes with auto transitions on —
a decidable check the driver evaluates on the tables introspected from the real machine after every step), then from
EVERY state `q` of the machine (its top-level ancestor is registered) the event `to_<p>` of every state `p` is offered a
transition. -/
theorem C11_to_fires_everywhere (h : HSM) (sep : Nat) (hc : autoCoveredB h sep = true) (p : Path) (hp : p ∈ h.states)
    (x : Name) (tl : Path) (hx : [x] ∈ h.states) : firesIn h [] (x :: tl) (toEventH sep p) = true := by
  unfold autoCoveredB at hc
  have h1 := List.all_eq_true.mp hc p hp
  have hxt : x ∈ h.topStates := by
    unfold HSM.topStates
    exact List.mem_filterMap.mpr ⟨[x], hx, rfl⟩
  have h2 := List.all_eq_true.mp h1 x hxt
  unfold firesIn
  simp only [Bool.or_eq_true, List.any_eq_true]
  exact Or.inl ⟨[x], top_mem_prefixesDesc x tl, h2⟩

/-- regression (former finding F-C11-nested-get-triggers, DESIGN.md section 6 item 20): states `P`, `P_a`, `P_a_1`
(character codes 80 / 97 / 49), the event `mid` (109 105 100) declared in the scope of `P` on the
source `a`: it fires from `P_a_1` and `get_triggers('P_a_1')` lists it -/
def exNested : HSM :=
  { states := [[[80]], [[80], [97]], [[80], [97], [49]]],
    scopes := [([[80]], [([109, 105, 100], [[[97]]])])] }

example : getTriggersH exNested [[80], [97], [49]] = [[109, 105, 100]] ∧
    firesIn exNested [] [[80], [97], [49]] [109, 105, 100] = true := by decide +kernel

/-! ### hierarchical machines: `get_transitions` -/

/-- every transition of the machine with the scope it is declared in -/
def allT (h : HT) : List FoundT :=
  h.tables.flatMap fun sc => sc.2.flatMap fun ev => ev.2.map fun t =>
    ({ scope := sc.1, event := ev.1, source := t.1, dest := t.2 } : FoundT)

def trigOK (trig : Option Name) (f : FoundT) : Prop :=
  match trig with
  | some e => f.event = e
  | none => True

/-- soundness of the recursion: what `get_nested_transitions` finds in the scope `pre` or below is declared in
a scope `pre ++ u` and its names, prefixed with `u`, are the requested (remaining) source / destination -/
theorem nestedT_sound (h : HT) : ∀ (n : Nat) (pre : Path) (trig : Option Name) (src dst : Path) (f : FoundT),
    f ∈ nestedT h n pre trig src dst →
    trigOK trig f ∧
    ∃ u, f.scope = pre ++ u ∧ (src = [] ∨ u ++ f.source = src) ∧
      (dst = [] ∨ ∃ d, f.dest = some d ∧ u ++ d = dst)
  | 0, _, _, _, _, _, hf => by cases hf
  | n + 1, pre, trig, src, dst, f, hf => by
    have hflat : ∀ s d, f ∈ flatT h pre trig s d →
        trigOK trig f ∧
        f.scope = pre ∧ (s = [] ∨ f.source = s) ∧ (d = [] ∨ f.dest = some d) := by
      intro s d hm
      unfold flatT at hm
      simp only [List.mem_filter, List.mem_flatMap, List.mem_map, Bool.and_eq_true, Bool.or_eq_true,
        decide_eq_true_eq, beq_iff_eq] at hm
      obtain ⟨⟨ev, hev, t, _, rfl⟩, hs, hd⟩ := hm
      refine ⟨?_, rfl, hs, hd⟩
      unfold trigOK
      cases trig with
      | none => trivial
      | some e =>
        simp only at hev ⊢
        cases hk : kget e (h.table pre) with
        | none => simp [hk] at hev
        | some ts => simp [hk] at hev; rw [hev]
    have lift : ∀ (x : Name) (s d : Path), f ∈ nestedT h n (pre ++ [x]) trig s d →
        trigOK trig f ∧
        ∃ u, f.scope = pre ++ u ∧ (s = [] ∨ u ++ f.source = x :: s) ∧ (d = [] ∨ ∃ d', f.dest = some d' ∧ u ++ d' = x :: d) := by
      intro x s d hm
      obtain ⟨ht, u, hu, hs, hd⟩ := nestedT_sound h n (pre ++ [x]) trig s d f hm
      refine ⟨ht, x :: u, by rw [hu]; simp, ?_, ?_⟩
      · rcases hs with h1 | h1
        · exact Or.inl h1
        · exact Or.inr (by simp [h1])
      · rcases hd with h1 | ⟨d', h1, h2⟩
        · exact Or.inl h1
        · exact Or.inr ⟨d', h1, by simp [h2]⟩
    unfold nestedT at hf
    cases src with
    | nil =>
      cases dst with
      | nil =>
        simp only at hf
        rcases List.mem_append.mp hf with h1 | h1
        · obtain ⟨ht, hs, _, _⟩ := hflat [] [] h1
          exact ⟨ht, [], by simp [hs], Or.inl rfl, Or.inl rfl⟩
        · obtain ⟨x, _, hx⟩ := List.mem_flatMap.mp h1
          obtain ⟨ht, u, hu, _, _⟩ := lift x [] [] hx
          exact ⟨ht, u, hu, Or.inl rfl, Or.inl rfl⟩
      | cons d0 dr =>
        simp only at hf
        rcases List.mem_append.mp hf with h1 | h1
        · obtain ⟨ht, hs, _, hd⟩ := hflat [] (d0 :: dr) h1
          refine ⟨ht, [], by simp [hs], Or.inl rfl, Or.inr ?_⟩
          rcases hd with hd | hd
          · cases hd
          · exact ⟨d0 :: dr, hd, rfl⟩
        · by_cases hc : dr ≠ [] ∧ d0 ∈ h.children pre
          · rw [if_pos hc] at h1
            obtain ⟨ht, u, hu, _, hd⟩ := lift d0 [] dr h1
            refine ⟨ht, u, hu, Or.inl rfl, Or.inr ?_⟩
            rcases hd with hd | hd
            · exact absurd hd hc.1
            · exact hd
          · rw [if_neg hc] at h1; cases h1
    | cons s0 sr =>
      cases dst with
      | nil =>
        simp only at hf
        rcases List.mem_append.mp hf with h1 | h1
        · obtain ⟨ht, hs, hsrc, _⟩ := hflat (s0 :: sr) [] h1
          refine ⟨ht, [], by simp [hs], Or.inr ?_, Or.inl rfl⟩
          rcases hsrc with hsrc | hsrc
          · cases hsrc
          · simpa using hsrc
        · by_cases hc : sr ≠ []
          · rw [if_pos hc] at h1
            obtain ⟨ht, u, hu, hs, _⟩ := lift s0 sr [] h1
            refine ⟨ht, u, hu, Or.inr ?_, Or.inl rfl⟩
            rcases hs with hs | hs
            · exact absurd hs hc
            · exact hs
          · rw [if_neg hc] at h1; cases h1
      | cons d0 dr =>
        simp only at hf
        rcases List.mem_append.mp hf with h1 | h1
        · obtain ⟨ht, hs, hsrc, hd⟩ := hflat (s0 :: sr) (d0 :: dr) h1
          refine ⟨ht, [], by simp [hs], Or.inr ?_, Or.inr ?_⟩
          · rcases hsrc with hsrc | hsrc
            · cases hsrc
            · simpa using hsrc
          · rcases hd with hd | hd
            · cases hd
            · exact ⟨d0 :: dr, hd, rfl⟩
        · by_cases hc : sr ≠ [] ∧ dr ≠ [] ∧ s0 = d0
          · rw [if_pos hc] at h1
            obtain ⟨ht, u, hu, hs, hd⟩ := lift s0 sr dr h1
            refine ⟨ht, u, hu, Or.inr ?_, Or.inr ?_⟩
            · rcases hs with hs | hs
              · exact absurd hs hc.1
              · exact hs
            · rcases hd with hd | ⟨d', hd1, hd2⟩
              · exact absurd hd hc.2.1
              · exact ⟨d', hd1, by rw [hd2, hc.2.2]⟩
          · rw [if_neg hc] at h1; cases h1

/-- **C11, nested get_transitions returns only matching transitions** — full strength, no hypothesis: for
every hierarchical machine and all three selectors, everything `get_transitions(trigger, source, dest)`
returns matches the selectors by its GLOBAL names (scope of declaration + local name). -/
theorem C11_get_transitions_nested (h : HT) (trigger : Option Name) (src dst : Path) (f : FoundT)
    (hf : f ∈ getTransitionsH h trigger src dst) : f.matchesH trigger src dst = true := by
  obtain ⟨ht, u, hu, hs, hd⟩ := nestedT_sound h _ [] trigger src dst f hf
  simp only [List.nil_append] at hu
  unfold FoundT.matchesH
  simp only [Bool.and_eq_true, Bool.or_eq_true, decide_eq_true_eq, beq_iff_eq]
  refine ⟨⟨?_, ?_⟩, ?_⟩
  · unfold trigOK at ht
    cases trigger with
    | none => rfl
    | some e => simpa using ht
  · rcases hs with hs | hs
    · exact Or.inl hs
    · exact Or.inr (by rw [hu]; exact hs)
  · rcases hd with hd | ⟨d, hd1, hd2⟩
    · exact Or.inl hd
    · right; rw [hd1, hu]; simpa using hd2

/-- regression (former finding F-C11-nested-get-transitions-local): top-level states `A`, `B` (65, 66) with
children `1`, `2` (49, 50); `loc` (108 111 99) declared in the scope of `A` from `1` to `2` — i.e. `A_1 → A_2` — is
returned for `dest='A_2'` and for no selector in `B` -/
def exHT : HT :=
  { states := [[[65]], [[65], [49]], [[65], [50]], [[66]], [[66], [49]], [[66], [50]]],
    tables := [([[65]], [([108, 111, 99], [([[49]], some [[50]])])])] }

example : getTransitionsH exHT none [] [[66], [50]] = [] ∧ getTransitionsH exHT none [[65], [49]] [[66], [50]] = [] ∧
    (getTransitionsH exHT none [] [[65], [50]]).length = 1 ∧ (getTransitionsH exHT none [[65], [49]] [[65], [50]]).length = 1 ∧
    (getTransitionsH exHT none [] []).length = 1 := by decide +kernel

/-! ### hierarchical machines with a custom separator: binding the FunctionWrapper helpers -/

/-- the attribute under one top-level helper name after the steps: only the steps for that name matter -/
theorem runWrap_attr (override : Bool) (n : Name) : ∀ (steps : List WStep) (ns : List (Name × TopAttr)),
    (kget n (runWrap override ns steps)).getD .missing =
      (steps.filter (fun st => st.name == n)).foldl (wrapStep override) ((kget n ns).getD .missing)
  | [], _ => rfl
  | st :: r, ns => by
    unfold runWrap
    rw [runWrap_attr override n r]
    by_cases hn : st.name = n
    · subst hn; simp [kget_kset_self]
    · have : (st.name == n) = false := by simpa using hn
      simp [this, kget_kset_ne _ _ _ _ (Ne.symm hn)]

theorem wrapFold_wrapper (ov : Bool) : ∀ (l : List WStep), l.foldl (wrapStep ov) .wrapper = .wrapper
  | [] => rfl
  | _ :: r => by simp [List.foldl, wrapStep, wrapFold_wrapper ov r]

theorem wrapFold_user_false : ∀ (l : List WStep), l.foldl (wrapStep false) .user = .user
  | [] => rfl
  | st :: r => by
    have : wrapStep false .user st = .user := by unfold wrapStep; cases st.restEmpty <;> simp
    simp [List.foldl, this, wrapFold_user_false r]

theorem wrapFold_unbound_true (a : TopAttr) (ha : a = .missing ∨ a = .userNone) :
    ∀ (l : List WStep), l.foldl (wrapStep true) a = a
  | [] => rfl
  | st :: r => by
    have : wrapStep true a st = a := by
      rcases ha with h | h <;> subst h <;> unfold wrapStep <;> cases st.restEmpty <;> simp
    simp [List.foldl, this, wrapFold_unbound_true a ha r]

theorem wrapFold_bind (ov : Bool) (a : TopAttr)
    (ha : (ov = false ∧ (a = .missing ∨ a = .userNone ∨ a = .wrapper)) ∨ (ov = true ∧ (a = .user ∨ a = .wrapper))) :
    ∀ (l : List WStep), (∃ st ∈ l, st.restEmpty = true) → l.foldl (wrapStep ov) a = .wrapper
  | [], h => by obtain ⟨_, hm, _⟩ := h; cases hm
  | st :: r, h => by
    simp only [List.foldl]
    cases hr : st.restEmpty with
    | true =>
      have : wrapStep ov a st = .wrapper := by
        rcases ha with ⟨ho, h1 | h1 | h1⟩ | ⟨ho, h1 | h1⟩ <;> subst ho <;> subst h1 <;> simp [wrapStep, hr]
      rw [this]; exact wrapFold_wrapper ov r
    | false =>
      have : wrapStep ov a st = a := by
        rcases ha with ⟨ho, h1 | h1 | h1⟩ | ⟨ho, h1 | h1⟩ <;> subst ho <;> subst h1 <;> simp [wrapStep, hr]
      rw [this]
      apply wrapFold_bind ov a ha r
      obtain ⟨st', hm, hs⟩ := h
      rcases List.mem_cons.mp hm with h1 | h1
      · subst h1; rw [hr] at hs; cases hs
      · exact ⟨st', h1, hs⟩

/-- **C11, the FunctionWrapper helpers respect the override policy** — full strength (binding is total: it
cannot raise any more), every model namespace, every sequence of binding steps, every top-level helper
name `n` (`is_<top>` / `to_<top>`); `a0` / `a1` = what the model has under `n` before / after:
without `model_override` an attribute of the model stays, and a free name that has a top-level step gets
its wrapper; with `model_override` a missing (or None) name stays as it is and an attribute of the model
that has a top-level step is replaced by the wrapper; a wrapper stays a wrapper. -/
theorem C11_wrapper_binding (override : Bool) (ns : List (Name × TopAttr)) (steps : List WStep) (n : Name) :
    let a0 := (kget n ns).getD .missing
    let a1 := (kget n (runWrap override ns steps)).getD .missing
    (override = false → a0 = .user → a1 = .user) ∧
    (override = false → (a0 = .missing ∨ a0 = .userNone ∨ a0 = .wrapper) →
      (∃ st ∈ steps, st.name = n ∧ st.restEmpty = true) → a1 = .wrapper) ∧
    (override = true → (a0 = .missing ∨ a0 = .userNone) → a1 = a0) ∧
    (override = true → a0 = .user → (∃ st ∈ steps, st.name = n ∧ st.restEmpty = true) → a1 = .wrapper) ∧
    (a0 = .wrapper → a1 = .wrapper) := by
  intro a0 a1
  have h1 : a1 = (steps.filter (fun st => st.name == n)).foldl (wrapStep override) a0 := runWrap_attr override n steps ns
  have hex : (∃ st ∈ steps, st.name = n ∧ st.restEmpty = true) →
      ∃ st ∈ steps.filter (fun st => st.name == n), st.restEmpty = true := by
    rintro ⟨st, hm, hn, hr⟩
    exact ⟨st, List.mem_filter.mpr ⟨hm, by simpa using hn⟩, hr⟩
  refine ⟨?_, ?_, ?_, ?_, ?_⟩
  · intro ho ha; subst ho; rw [h1, ha]; exact wrapFold_user_false _
  · intro ho ha he; rw [h1]; exact wrapFold_bind override a0 (Or.inl ⟨ho, ha⟩) _ (hex he)
  · intro ho ha; subst ho; rw [h1]; exact wrapFold_unbound_true a0 ha _
  · intro ho ha he; rw [h1]; exact wrapFold_bind override a0 (Or.inr ⟨ho, Or.inl ha⟩) _ (hex he)
  · intro ha; rw [h1, ha]; exact wrapFold_wrapper override _

/-- regressions (former finding F-C11-custom-separator-wrapper-clash): a model with its own `is_A` keeps it;
`model_override` with a nested state `A.1` and no attribute of the model binds nothing and does not raise -/
example : runWrap false [([105, 115, 95, 65], .user)] [{ name := [105, 115, 95, 65], isStep := true, restEmpty := true }] =
    [([105, 115, 95, 65], .user)] := by decide
example : runWrap true [] [{ name := [105, 115, 95, 65], isStep := true, restEmpty := true },
    { name := [105, 115, 95, 65], isStep := true, restEmpty := false }] = [([105, 115, 95, 65], .missing)] := by decide

/-! ### the flat engine with callbacks: the state attribute stays registered (C04) -/

/-- **C11 on the engine of C01/C04** (`Model/Core.lean`, callbacks of every kind, any of them raising
anywhere): after every history of trigger calls each model's state is a registered state, hence —
state names being unique — exactly one `is_<state>` evaluates to True, the current state's. -/
theorem C11_exactly_one_is_engine (sc : Script) (cfg : Cfg) (hC : NoCmds sc) (hWF : cfg.WF) (hq : cfg.queued = false)
    (hnd : (cfg.states.map (·.name)).Nodup) (qmax fuel : Nat) (h : List Cmd) (s : St)
    (hidle : s.queue = []) (hreg : StatesRegistered cfg s) (hh : TriggerHistory cfg s h) :
    ∃ s', runHistory sc cfg qmax (fuel + 1) h s = some s' ∧
      ∀ m cur, alookup m s'.mstate = some cur →
        (cfg.states.map (·.name)).filter (fun n => decide (s'.stateOf m = n)) = [cur] := by
  obtain ⟨s', _, hr, _, _, hreg', _⟩ := C04_history sc cfg hC hWF hq qmax fuel h s hidle hreg hh
  refine ⟨s', hr, ?_⟩
  intro m cur hm
  have hs : s'.stateOf m = cur := by simp [St.stateOf, hm]
  have hin : cur ∈ cfg.states.map (·.name) := by
    have := hreg' m cur hm
    obtain ⟨sd, hsd⟩ := Option.isSome_iff_exists.mp this
    unfold Cfg.state? at hsd
    have h1 := List.find?_some hsd
    have h2 := List.mem_of_find?_eq_some hsd
    exact List.mem_map.mpr ⟨sd, h2, by simpa using h1⟩
  rw [hs]
  have : (fun n => decide (cur = n)) = (fun n => decide (n = cur)) := by
    funext n; exact decide_eq_decide.mpr ⟨Eq.symm, Eq.symm⟩
  rw [this]
  exact filter_decide_eq_singleton _ cur hin hnd

/-! ### non-vacuity -/

/-- `model_attribute='mode'`, auto transitions; a model class that defines `is_mode_A` (a method) and an
instance attribute `go`; states A, B (B added after the model), events `go` (A→B) and `run` (B→A, added
after the model, later removed again); characters: A 65, B 66, go 103 111, run 114 117 110, mode 109 111 100 101 -/
def exAttr : Name := [109, 111, 100, 101]
def exOps : List Op :=
  [.setInitial [65], .addTransition [103, 111] (.one [65]) (.to [66]) true,
   .addModel 0 { cls := [(isName exAttr [65], .user 7)], inst := [([103, 111], .user 8)] },
   .addState [66], .addTransition [114, 117, 110] (.one [66]) (.to [65]) true,
   .fire 0 (toName exAttr [66]), .removeTransition [114, 117, 110] none none, .addModel 1 {}]

def isCleanB (o : Obj) : Bool :=
  (o.inst ++ o.cls).all fun p => !sIs.isPrefixOf p.1 || (match p.2 with | .isState _ => true | _ => false)

theorem isClean_of_B {o : Obj} (h : isCleanB o = true) : IsClean o := by
  intro n b hp hg
  simp only [isCleanB, List.all_eq_true, List.mem_append] at h
  have hmem : (n, b) ∈ o.inst ∨ (n, b) ∈ o.cls := by
    unfold Obj.getattr at hg
    cases hi : kget n o.inst with
    | some b' => rw [hi] at hg; injection hg with hg; subst hg; exact Or.inl (kget_mem _ _ _ hi)
    | none => rw [hi] at hg; exact Or.inr (kget_mem _ _ _ hg)
  have := h (n, b) hmem
  simp only [Bool.or_eq_true, Bool.not_eq_true'] at this
  rcases this with h1 | h1
  · rw [List.isPrefixOf_iff_prefix.mpr hp] at h1; cases h1
  · cases b <;> simp at h1
    exact ⟨_, rfl⟩

example : AttrOK exAttr := ⟨by decide, by decide⟩
/-- the second model of the history below carries nothing but `is_` helpers under `is_…` names -/
example : IsClean ((Reach exAttr false true exOps).objs.getLast!).2 := isClean_of_B (by decide)
example : OpsFresh exOps := opsFresh_of_B (by decide)
example : RemHyg exOps := RemHyg_of_B (by decide)
example : UserEvents exOps := UserEvents_of_B (by decide)
/-- model 0 ends in B; its own `is_mode_A` and `go` are untouched, `is_mode_B` answers True, `to_mode_A` is
there; model 1 (added last, in A) has every helper -/
example : (Reach exAttr false true exOps).stateOf 0 = some [66] ∧
    ((Reach exAttr false true exOps).objs.map fun p =>
      (p.2.getattr (isName exAttr [65]), p.2.getattr [103, 111], p.2.getattr (isName exAttr [66]),
       callIs (Reach exAttr false true exOps) p.1 (isName exAttr [66]), (p.2.getattr (toName exAttr [65])).isSome)) =
    [(some (.user 7), some (.user 8), some (.isState [66]), .answer true, true),
     (some (.isState [65]), some (.trigger [103, 111]), some (.isState [66]), .answer false, true)] := by decide
/-- with `model_override` the same history replaces exactly the two attributes the model defined -/
example : ((Reach exAttr true true exOps).objs.map fun p =>
      (p.2.getattr (isName exAttr [65]), p.2.getattr [103, 111], p.2.getattr (isName exAttr [66]), p.2.getattr sTrigger)) =
    [(some (.isState [65]), some (.trigger [103, 111]), none, none), (none, none, none, none)] := by decide
/-- nested `is_<state>`: parallel configuration [P_a_1, P_b] -/
example : (isStateH [[[80], [97], [49]], [[80], [98]]] [[80], [97]] false, isStateH [[[80], [97], [49]], [[80], [98]]] [[80], [97]] true,
    isStateH [[[80], [97], [49]], [[80], [98]]] [[80], [98]] false) = (false, true, true) := by decide +kernel
/-- custom separator `.` (46): `is_P.a.s1()` / `to_P.a.s1()`; default separator: `is_P_a_1` -/
example : isAccessH 46 [[80], [97], [49]] = [sIs ++ [80], [97], [115, 49]] ∧
    toAccessH 46 [[80], [97], [49]] = [sTo ++ [80], [97], [115, 49]] ∧
    isAccessH 95 [[80], [97], [49]] = [sIs ++ [80, 95, 97, 95, 49]] := by decide +kernel

end Helpers
end TM
