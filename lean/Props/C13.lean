/-
  Props/C13.lean — property C13: "Equivalent ways of building a machine yield equivalent machines".

  Statements only (helper lemmas: Proofs/C13.lean, Proofs/C13Behaviour.lean, Proofs/C13Check.lean).
  The construction model is Model/Build.lean (`Op`, `applyOpF`, `build`), written after
  `Machine.__init__/add_states/add_transition/add_ordered_transitions/remove_transition`; its
  target is the configuration type `Cfg` of the engine model Model/Core.lean.  `≈` is
  `Build.Equiv` (Model/Spec/C13.lean): same states, same machine-level lists, same known events and
  per (event, source) the same ordered candidate list.

  Quantifiers: every machine under construction `b` (any states, any events, auto transitions on or
  off), every filter `F` (the real construction is `F = allT`), every event / source list /
  destination / callback lists, every script prefix and suffix; for `C13_equiv_behaviour` every
  script of callback behaviours (raising, re-entrant, anything), every history, fuel and queue bound.

  Representation choices that are pure Python typing (str / dict / State / Enum member, list / dict
  transition definitions, callback by name / reference / import path / property) map to the same
  `Op`; hierarchical machines are not modelled here.  Both are decided by the differential harness
  (harness/build13.py, harness/hsm13.py).
-/
import Proofs.C13
import Proofs.C13Behaviour
import Proofs.C13Check
import Model.NestedNames

namespace TM
open Build

/-- **Wildcard.** `add_transition(ev, '*', dst, …)` is the sequence of single-source calls over the
states registered at that moment, in registration order.  (With no state registered the wildcard
call still creates the — empty — event, the empty sequence does not; hence the hypothesis.) -/
theorem C13_wildcard_expand (F : Filter) (b : B) (ev : Nat) (dst : Dst) (cb : CbSpec)
    (hne : b.stateNames ≠ []) :
    applyOpF F b (.addTransition ev .all dst cb) =
      applyOpsF F b (singles ev b.stateNames (fun _ => dst) cb) := by
  cases hs : b.stateNames with
  | nil => exact absurd hs hne
  | cons s r =>
    rw [applyOps_singles_cons]
    simp [applyOpF, B.addTransition, B.sources, hs]

/-- **Source lists.** A call with a list of sources is the sequence of single-source calls. -/
theorem C13_source_list_expand (F : Filter) (b : B) (ev : Nat) (l : List Nat) (dst : Dst) (cb : CbSpec)
    (hne : l ≠ []) :
    applyOpF F b (.addTransition ev (.many l) dst cb) = applyOpsF F b (singles ev l (fun _ => dst) cb) := by
  cases l with
  | nil => exact absurd rfl hne
  | cons s r =>
    rw [applyOps_singles_cons]
    simp [applyOpF, B.addTransition, B.sources]

/-- … and any split of the list gives the same machine. -/
theorem C13_source_list_split (F : Filter) (b : B) (ev : Nat) (l1 l2 : List Nat) (dst : Dst) (cb : CbSpec) :
    applyOpF F b (.addTransition ev (.many (l1 ++ l2)) dst cb) =
      applyOpsF F b [.addTransition ev (.many l1) dst cb, .addTransition ev (.many l2) dst cb] := by
  simp [applyOpsF, applyOpF, B.addTransition, B.sources, addTrans_append]

/-- **`'='`.** A reflexive destination is the source spelled out, for every kind of source argument
(single, list, wildcard over the current states). -/
theorem C13_same_expand (F : Filter) (b : B) (ev : Nat) (src : Src) (cb : CbSpec)
    (hne : b.sources src ≠ []) :
    applyOpF F b (.addTransition ev src .same cb) =
      applyOpsF F b (singles ev (b.sources src) (fun s => .to s) cb) := by
  cases hs : b.sources src with
  | nil => exact absurd hs hne
  | cons s r =>
    rw [applyOps_singles_cons]
    simp only [applyOpF, B.addTransition, hs]
    rfl

/-- **Ordered helper.** `add_ordered_transitions` raises exactly when fewer than two states are
given or a callback argument has a wrong length; otherwise it is the explicit ring of single
`add_transition` calls along `orderedEdges` (rotation to the initial state, `loop`,
`loop_includes_initial`) with the per-edge callbacks of `_prep_ordered_arg`. -/
theorem C13_ordered_eq_ring (F : Filter) (b : B) (ev : Nat) (states : Option (List Nat)) (loop incl : Bool)
    (c u bf af pr : OArg) :
    applyOpF F b (.addOrdered ev states loop incl c u bf af pr) =
      (let sts := states.getD b.stateNames
       if sts.length < 2 then none else
       match orderedCbs (if loop then sts.length else sts.length - 1) c u bf af pr with
       | none => none
       | some cbs => applyOpsF F b (ringOps ev ((orderedEdges b.init sts loop incl).zip cbs))) := by
  simp only [applyOpF, B.addOrdered]
  split
  · rfl
  · cases orderedCbs _ c u bf af pr with
    | none => rfl
    | some cbs => simp only [applyOps_ringOps]

example : orderedEdges (some 2) [1, 2, 3] true true = [(2, 3), (3, 1), (1, 2)] := by decide
example : orderedEdges (some 2) [1, 2, 3] true false = [(2, 3), (3, 1), (1, 3)] := by decide
example : orderedEdges (some 7) [1, 2, 3] false true = [(1, 2), (2, 3)] := by decide
example : prepArg 3 (some [[4, 5]]) = some [[4, 5], [4, 5], [4, 5]] := by decide
example : prepArg 3 (some [[4], [5]]) = none := by decide

/-- **Batching.** Any split of a script into consecutive calls / batches gives the same machine
(and raises at the same point). -/
theorem C13_batching (F : Filter) (b : B) (ops1 ops2 : List Op) :
    applyOpsF F b (ops1 ++ ops2) = (applyOpsF F b ops1).bind fun b' => applyOpsF F b' ops2 :=
  applyOpsF_append F ops1 ops2 b

/-- `add_states([…] + […])` is two `add_states` calls. -/
theorem C13_batching_states (F : Filter) (b : B) (l1 l2 : List SSpec) (ci : Option Bool) :
    applyOpF F b (.addStates (l1 ++ l2) ci) = applyOpsF F b [.addStates l1 ci, .addStates l2 ci] := by
  simp [applyOpsF, applyOpF, addStates_append]

/-- **Constructor arguments ≡ later calls.** `Machine(states=S, initial=i, transitions=T,
ordered_transitions=…)` followed by further calls is the single script
`add_states(S); initial = i; add_transitions(T); add_ordered_transitions(); …`
(in the model the constructor *is* that script — `ctorOps` mirrors the tail of `__init__` —, so the
content of this theorem is the batching law; the correspondence harness checks the mirror). -/
theorem C13_ctor_eq_later_adds (F : Filter) (o : Opts) (S : Option (List SSpec)) (i : Option Nat)
    (T : List Op) (ord : Option Nat) (rest : List Op) :
    buildF F o (ctorOps S i T ord ++ rest) =
      (buildF F o (ctorOps S i T ord)).bind fun b => applyOpsF F b rest :=
  applyOpsF_append F _ _ _

/-- **Removal ≡ never added.** Let a script `ops` build `b` (no call raises).  Then for
`remove_transition(ev, S, D)` — `S`, `D` lists of names / Enum members / State objects or `'*'`:

1. for every machine `bs` that the *same script with the transitions of `ev` from a state in `S` to a
   state in `D` never created* (`buildF (suppress ev S D)`) builds: the call raises exactly when the event
   is unknown in `b`, and otherwise the machine after the call is `≈ bs`, where an event left without
   any transition does not exist (`dropEmptyEvent`), with the same `_initial` and flags.
   `ops` is arbitrary — it may contain earlier removals, also on `ev`.
2. the never-added script does build a machine whenever `ops` contains no earlier `remove_transition`
   on `ev`.  (With one, it can raise where the real script does not: `remove_transition` raises KeyError
   for a trigger that — without the never-added transitions — has already been deleted; see the
   `example` below.  That is the only thing the hypothesis excludes.) -/
theorem C13_remove_as_never_added (o : Opts) (ops : List Op) (ev : Nat) (S D : Option (List Nat)) (b : B)
    (hb : build o ops = some b) :
    (∀ bs, buildF (suppress ev S D) o ops = some bs → RemoveResult b bs ev S D) ∧
    ((∀ op ∈ ops, op.removesEvent ≠ some ev) → ∃ bs, buildF (suppress ev S D) o ops = some bs) :=
  remove_core o ops ev S D b hb

/-- two states, `e0: s0 → s1` and `e0: s1 → s0` (the witness of the former counterexample:
`remove_transition('e0', source=<Enum member / State object naming s0>)` used to remove nothing) -/
def C13_witness_ops : List Op :=
  [.addStates [{ name := 0 }, { name := 1 }] none,
   .addTransition 0 (.one 0) (.to 1) {}, .addTransition 0 (.one 1) (.to 0) {}]

/-- regression: on the witness the removal leaves exactly the machine on which `s0 → s1` was never added -/
example :
    (do let x ← build { auto := false } (C13_witness_ops ++ [.remove 0 (some [0]) none])
        let y ← build { auto := false } [.addStates [{ name := 0 }, { name := 1 }] none,
                                         .addTransition 0 (.one 1) (.to 0) {}]
        pure (equivCheck x.cfg y.cfg)) = some true := by decide

/-- necessity of the hypothesis in part 2: after an earlier removal on the same trigger the never-added
script raises (the trigger is already gone) although the real script does not -/
example :
    let ops := C13_witness_ops ++ [.remove 0 (some [1]) none, .remove 0 (some [1]) none]
    (build { auto := false } ops).isSome = true ∧
    (buildF (suppress 0 (some [0]) none) { auto := false } ops).isSome = false := by decide

/-- **Equivalent machines behave identically.** Whatever the callbacks do (raise, re-enter the
API, anything the script says), for every history, fuel and queue bound, started from any engine
state: the whole run — trace, model states, queue, counters — is the same. -/
theorem C13_equiv_behaviour {a b : Cfg} (h : a ≈ b) (sc : Script) (qmax fuel : Nat) (hist : List Cmd) (s : St) :
    runHistory sc a qmax fuel hist s = runHistory sc b qmax fuel hist s :=
  runHistory_congr h sc qmax fuel hist s

/-- … in particular from the initial engine state of the same models -/
theorem C13_equiv_behaviour_init {a b : Cfg} (h : a ≈ b) (sc : Script) (qmax fuel : Nat) (hist : List Cmd)
    (models : List Nat) :
    runHistory sc a qmax fuel hist (St.init a models) = runHistory sc b qmax fuel hist (St.init b models) := by
  have : St.init a models = St.init b models := by simp [St.init, h.initial]
  rw [this]
  exact runHistory_congr h sc qmax fuel hist _

/-- **Verified monitor.** The checker the driver runs on the structures introspected from two real
machines is sound: when it answers `ok` the two configurations are `≈`, hence (previous theorem)
indistinguishable by any history. -/
theorem C13_equivCheck_sound (a b : Cfg) (h : equivCheck a b = true) : a ≈ b :=
  equivCheck_sound a b h

/-- **Hierarchical names, joined ≡ nested.** On fresh ground (nothing registered at or below the first
segment) `add_states('a_b_c')` in any scope creates exactly the states the nested dict chain
`{'name': a, 'children': [{'name': b, 'children': ['c']}]}` creates — the parents on the fly, same order.
(Where a segment is registered the forms differ by design: the joined name reuses it / raises for the
last one, the dict silently replaces it; `Model/NestedNames.lean`.) -/
theorem C13_joined_names_eq_nested_dict (sc : NestedNames.Path) (a : Nat) (rest : List Nat)
    (s : List NestedNames.Path) (h : NestedNames.Fresh (sc ++ [a]) s) :
    NestedNames.addJoined sc (a :: rest) s = NestedNames.addChainDict sc (a :: rest) s :=
  NestedNames.addJoined_eq_chainDict rest sc a s h

/-- … and a joined name whose first segment is registered is the rest of the name in that scope -/
theorem C13_joined_name_existing_parent (sc : NestedNames.Path) (a b : Nat) (rest : List Nat)
    (s : List NestedNames.Path) (h : (sc ++ [a]) ∈ s) :
    NestedNames.addJoined sc (a :: b :: rest) s = NestedNames.addJoined (sc ++ [a]) (b :: rest) s :=
  NestedNames.addJoined_existing_parent sc a b rest s h

/-- non-vacuity: the wildcard script and its expansion (different `Op` lists, events created in a
different order) are accepted by the checker; a script with one transition less is not -/
example :
    (do let x ← build {} [.addStates [{ name := 0 }, { name := 1 }] none, .addTransition 0 .all (.to 1) {},
                          .addTransition 2 (.one 0) .same {}]
        let y ← build {} [.addStates [{ name := 0 }] none, .addStates [{ name := 1 }] none,
                          .addTransition 2 (.one 0) (.to 0) {}, .addTransition 0 (.one 0) (.to 1) {},
                          .addTransition 0 (.one 1) (.to 1) {}]
        pure (equivCheck x.cfg y.cfg)) = some true := by decide

example :
    (do let x ← build {} [.addStates [{ name := 0 }, { name := 1 }] none, .addTransition 0 .all (.to 1) {}]
        let y ← build {} [.addStates [{ name := 0 }, { name := 1 }] none, .addTransition 0 (.one 0) (.to 1) {}]
        pure (equivCheck x.cfg y.cfg)) = some false := by decide

end TM
