/-
  Props/C09Tables.lean — property C09, the factory clause: "the factory returns a class with exactly
  the requested features or raises ValueError for unsupported combinations", and the class
  compositions, constructor and method signatures.  Closed `decide` goals over `Generated/Tables.lean`, which `harness/extract_tables.py`
  rewrites from the LIVE classes before the C09 check builds this module.

  Deliberately NOT imported by `Props.lean`: a change of the library's classes that makes a `decide`
  fail must break this module's build only (a broken proof obligation of C09, which the check then
  turns into the offending tuple / class by evaluating the same predicates on the live classes),
  never the build other properties share.  Built and audited by harness/props/c09.py
  (`lake build Props.C09Tables`, `#print axioms`).
-/
import Generated.Tables

namespace TM
open Gen

/-- the supported combinations: everything but locked + asyncio -/
def Gen.supported (f : Feat) : Bool := !(f.locked && f.async)

/-- the family each composition needs.  State and event/transition classes follow `nested` and
`asyncio`; `LockedEvent` is used by the flat locked classes only (`LockedHierarchicalMachine` sets
`event_cls = NestedEvent` and locks through `_locked_method` on `trigger_event`);
`TransitionGraphSupport` is mixed into the synchronous graph classes only (the async transition
classes carry the graph hook inline: `if hasattr(machine, "model_graphs")`). -/
def Gen.expectedState (f : Feat) : Kind :=
  match f.nested, f.async with
  | false, false => ⟨"State", false, false, false⟩
  | true, false => ⟨"NestedState", true, false, false⟩
  | false, true => ⟨"AsyncState", false, true, false⟩
  | true, true => ⟨"NestedAsyncState", true, true, false⟩

def Gen.expectedEvent (f : Feat) : Kind :=
  match f.nested, f.async, f.locked with
  | false, false, false => ⟨"Event", false, false, false⟩
  | false, false, true => ⟨"LockedEvent", false, false, true⟩
  | true, false, _ => ⟨"NestedEvent", true, false, false⟩
  | false, true, _ => ⟨"AsyncEvent", false, true, false⟩
  | true, true, _ => ⟨"NestedAsyncEvent", true, true, false⟩

def Gen.expectedTrans (f : Feat) : Kind :=
  match f.nested, f.async, f.graph with
  | false, false, false => ⟨"Transition", false, false, false⟩
  | false, false, true => ⟨"TransitionGraphSupport", false, false, true⟩
  | true, false, false => ⟨"NestedTransition", true, false, false⟩
  | true, false, true => ⟨"NestedGraphTransition", true, false, true⟩
  | false, true, _ => ⟨"AsyncTransition", false, true, false⟩
  | true, true, _ => ⟨"NestedAsyncTransition", true, true, false⟩

/-- **The factory returns a class with exactly the requested features, or raises ValueError.**
For every feature tuple: when it is supported (not locked + asyncio) the factory's answer is a class
of the table whose `issubclass` flags against GraphMachine / HierarchicalMachine / LockedMachine /
AsyncMachine ARE the tuple; otherwise the answer is ValueError.  (16 rows, all distinct tuples; the
12 classes are pairwise distinct because their flags are.) -/
theorem C09_factory_exact :
    factory.length = 16 ∧ (factory.map (·.1)).Nodup ∧ (classes.map (·.name)).Nodup ∧
    ∀ f : Feat,
      (supported f = true → ∃ r ∈ classes, factory.lookup f = some (.cls r.name) ∧ r.feat = f) ∧
      (supported f = false → factory.lookup f = some .valueError) := by
  refine ⟨by decide, by decide, by decide, ?_⟩
  intro ⟨g, n, l, a⟩
  cases g <;> cases n <;> cases l <;> cases a <;> decide

/-- **Every class resolves its state / event / transition classes to the family its composition
needs** (name and `issubclass` flags), and is a MarkupMachine exactly when it has diagram support. -/
theorem C09_cls_triples :
    classes.length = 12 ∧
    ∀ r ∈ classes,
      r.stateCls = expectedState r.feat ∧ r.eventCls = expectedEvent r.feat ∧
      r.transCls = expectedTrans r.feat ∧ r.markup = r.feat.graph ∧ supported r.feat = true := by
  decide

/-- `Machine.__init__`'s parameters (without the trailing `**kwargs`) -/
def Gen.machineParams : List (String × String) :=
  match lookupClass classes "Machine" with
  | some r => r.ctor.dropLast
  | none => []

/-- **Every class accepts Machine's constructor parameters, in the same order, with the same
defaults**, and forwards unknown keywords (`**kwargs`). -/
theorem C09_ctor_compatible :
    machineParams.length = 18 ∧
    ∀ r ∈ classes, machineParams.isPrefixOf r.ctor = true ∧ r.ctor.getLast? = some ("**kwargs", "") := by
  decide

/-! ### overridden methods keep the base method's parameters -/

/-- the named parameters in front of the first `*args` / `**kwargs` -/
def Gen.namedPrefix (l : List Param) : List Param := l.takeWhile (·.kind == 0)

/-- same name; same default, or the base parameter is required (an override may add a default) -/
def Gen.paramOk (b p : Param) : Bool := p.name == b.name && (p.default == b.default || b.default == "")

/-- every call that is valid for the base method — positional, in the base order, or by keyword — means
the same for the override: the base's named parameters are, in order, the first named parameters of
the override (which may append more), unless the override swallows the rest with `*args` AND
`**kwargs`; a base `*args` / `**kwargs` is kept -/
def Gen.sigCompatible (b p : List Param) : Bool :=
  let bn := b.filter (·.kind == 0)
  let pn := namedPrefix p
  (List.zipWith paramOk bn pn).all id &&
  (bn.length ≤ pn.length || (p.any (·.kind == 1) && p.any (·.kind == 2))) &&
  b.all fun x => x.kind == 0 || p.any (·.kind == x.kind)

/-- **No override changes what a call of the base API means.**  Every function that replaces a method
of `Machine` (public or private), `State`, `Event` or `Transition` anywhere in the MRO of a predefined
class or of its resolved state / event / transition class takes the base method's parameters in the
base order with the base defaults.  (The library itself calls these methods positionally in the base
order — `add_transitions` expands a list-form transition with `add_transition(*entry)`,
`_create_transition(*args)`, … — so a drift here changes behaviour without any class noticing.)
The table is not empty: it covers the diagram, markup, hierarchy, locking and asyncio overrides of
`add_transition` and `add_model`. -/
theorem C09_override_signatures :
    (∀ r ∈ overrides, sigCompatible r.baseParams r.params = true) ∧
    (∀ o ∈ ["GraphMachine", "MarkupMachine", "HierarchicalMachine"],
      ∃ r ∈ overrides, r.owner = o ∧ r.method = "add_transition" ∧ r.base = "Machine") ∧
    (∀ o ∈ ["GraphMachine", "LockedMachine", "HierarchicalMachine", "AsyncMachine"],
      ∃ r ∈ overrides, r.owner = o ∧ r.method = "add_model" ∧ r.base = "Machine") := by
  decide

/-- the criterion rejects the drift it is meant for: `(…, conditions, unless, prepare, before, after)`
against `Machine.add_transition`'s `(…, conditions, unless, before, after, prepare)` -/
example :
    sigCompatible
      [⟨"dest", "", 0⟩, ⟨"unless", "None", 0⟩, ⟨"before", "None", 0⟩, ⟨"after", "None", 0⟩, ⟨"prepare", "None", 0⟩, ⟨"kwargs", "", 2⟩]
      [⟨"dest", "", 0⟩, ⟨"unless", "None", 0⟩, ⟨"prepare", "None", 0⟩, ⟨"before", "None", 0⟩, ⟨"after", "None", 0⟩, ⟨"kwargs", "", 2⟩]
      = false ∧
    sigCompatible [⟨"a", "", 0⟩, ⟨"b", "None", 0⟩] [⟨"args", "", 1⟩, ⟨"kwargs", "", 2⟩] = true ∧
    sigCompatible [⟨"a", "", 0⟩, ⟨"b", "None", 0⟩] [⟨"a", "None", 0⟩, ⟨"b", "None", 0⟩, ⟨"c", "1", 0⟩] = true ∧
    sigCompatible [⟨"a", "", 0⟩, ⟨"b", "None", 0⟩] [⟨"a", "", 0⟩, ⟨"b", "0", 0⟩] = false := by
  decide

end TM
