/-
  Props/C09Tables.lean — property C09, the factory clause: "the factory returns a class with exactly
  the requested features or raises ValueError for unsupported combinations", and the class
  compositions.  Closed `decide` goals over `Generated/Tables.lean`, which `harness/extract_tables.py`
  rewrites from the LIVE classes before the C09 check builds this module.

  Deliberately NOT imported by `Props.lean`: a change of the library's classes that makes a `decide`
  fail must break this module's build only (a broken proof obligation of C09, which the check then
  turns into the offending tuple / class by evaluating the same predicates on the live classes),
  never the build other properties share.  Built and audited by harness/props/c09.py
  (`lake build Props.C09Tables`, `#print axioms`).
-/
import Generated.Tables

namespace TM
open Gen

/-- the supported combinations: everything but locked + asyncio -/
def Gen.supported (f : Feat) : Bool := !(f.locked && f.async)

/-- the family each composition needs.  State and event/transition classes follow `nested` and
`asyncio`; `LockedEvent` is used by the flat locked classes only (`LockedHierarchicalMachine` sets
`event_cls = NestedEvent` and locks through `_locked_method` on `trigger_event`);
`TransitionGraphSupport` is mixed into the synchronous graph classes only (the async transition
classes carry the graph hook inline: `if hasattr(machine, "model_graphs")`). -/
def Gen.expectedState (f : Feat) : Kind :=
  match f.nested, f.async with
  | false, false => ⟨"State", false, false, false⟩
  | true, false => ⟨"NestedState", true, false, false⟩
  | false, true => ⟨"AsyncState", false, true, false⟩
  | true, true => ⟨"NestedAsyncState", true, true, false⟩

def Gen.expectedEvent (f : Feat) : Kind :=
  match f.nested, f.async, f.locked with
  | false, false, false => ⟨"Event", false, false, false⟩
  | false, false, true => ⟨"LockedEvent", false, false, true⟩
  | true, false, _ => ⟨"NestedEvent", true, false, false⟩
  | false, true, _ => ⟨"AsyncEvent", false, true, false⟩
  | true, true, _ => ⟨"NestedAsyncEvent", true, true, false⟩

def Gen.expectedTrans (f : Feat) : Kind :=
  match f.nested, f.async, f.graph with
  | false, false, false => ⟨"Transition", false, false, false⟩
  | false, false, true => ⟨"TransitionGraphSupport", false, false, true⟩
  | true, false, false => ⟨"NestedTransition", true, false, false⟩
  | true, false, true => ⟨"NestedGraphTransition", true, false, true⟩
  | false, true, _ => ⟨"AsyncTransition", false, true, false⟩
  | true, true, _ => ⟨"NestedAsyncTransition", true, true, false⟩

/-- **The factory returns a class with exactly the requested features, or raises ValueError.**
For every feature tuple: when it is supported (not locked + asyncio) the factory's answer is a class
of the table whose `issubclass` flags against GraphMachine / HierarchicalMachine / LockedMachine /
AsyncMachine ARE the tuple; otherwise the answer is ValueError.  (16 rows, all distinct tuples; the
12 classes are pairwise distinct because their flags are.) -/
theorem C09_factory_exact :
    factory.length = 16 ∧ (factory.map (·.1)).Nodup ∧ (classes.map (·.name)).Nodup ∧
    ∀ f : Feat,
      (supported f = true → ∃ r ∈ classes, factory.lookup f = some (.cls r.name) ∧ r.feat = f) ∧
      (supported f = false → factory.lookup f = some .valueError) := by
  refine ⟨by decide, by decide, by decide, ?_⟩
  intro ⟨g, n, l, a⟩
  cases g <;> cases n <;> cases l <;> cases a <;> decide

/-- **Every class resolves its state / event / transition classes to the family its composition
needs** (name and `issubclass` flags), and is a MarkupMachine exactly when it has diagram support. -/
theorem C09_cls_triples :
    classes.length = 12 ∧
    ∀ r ∈ classes,
      r.stateCls = expectedState r.feat ∧ r.eventCls = expectedEvent r.feat ∧
      r.transCls = expectedTrans r.feat ∧ r.markup = r.feat.graph ∧ supported r.feat = true := by
  decide

/-- `Machine.__init__`'s parameters (without the trailing `**kwargs`) -/
def Gen.machineParams : List (String × String) :=
  match lookupClass classes "Machine" with
  | some r => r.ctor.dropLast
  | none => []

/-- **Every class accepts Machine's constructor parameters, in the same order, with the same
defaults**, and forwards unknown keywords (`**kwargs`). -/
theorem C09_ctor_compatible :
    machineParams.length = 18 ∧
    ∀ r ∈ classes, machineParams.isPrefixOf r.ctor = true ∧ r.ctor.getLast? = some ("**kwargs", "") := by
  decide

end TM
