/-
  Props/C18.lean — property C18: "on_final fires exactly when a state - or a whole compound - becomes
  final".  Statements and non-vacuity examples only (lemmas in `Proofs/C18.lean`).

  FLAT (core.Machine, `Model/Core.lean`).  `C18.view seg` is the subsequence of an event's callback
  starts in the slots on_enter / on_final / after.  For every configuration, every script that neither
  raises nor re-enters the API (condition outcomes arbitrary), every history of trigger calls:
  in an event that executes transition `t` the view is the destination's on_enter callbacks, then — iff
  the destination is flagged final, reflexive re-entry included — the machine's on_final callbacks once
  each in list order, then `t.after`; for an internal transition just `t.after`; for an event that
  executes nothing, no such call; nothing lies between events.  (`C18_flat_exact`, `C18_flat_history`.)

  NESTED (`_final_check` of nesting.py, `Model/Final.lean` = the code after fix: commits 919a36b and
  576f1fd, 56c10cf, 4b253dd; spec `Model/Spec/C18.lean`).  `C18_nested_exact`: for every state tree, every placement of final
  flags and callbacks, every configuration and every entered set a transition can produce, the owners
  whose on_final lists the transition runs are exactly the states that `fires`, children first, the
  machine last, and the check never raises.
  The defects of the tree before the fixes (DESIGN 6
  items 10, 11, 18, object-identity of "just entered", `final` read from the machine object) are kept as regression examples: the model of the repaired code gives the specified
  answer on their witnesses; a return of any of them is a VIOLATION (monitor) of the check.
-/
import Proofs.C18
import Proofs.C18Reentrant
import Props.C01

namespace TM
open C18 Final

/-! ## flat machines -/

/-- **C18, flat, one event.**  On an idle unqueued machine a trigger call appends `api … :: seg`, the
state afterwards is `st'`, and `seg` obeys `FlatFinalEvent` (see `Model/Spec/C18.lean`): some `w`
(the executed transition of the event from the source state, whose destination is the state
afterwards and which makes the call return True — or nothing, state kept, call returns False / raises
MachineError) has `view seg = eventView cfg w`. -/
theorem C18_flat_exact (sub : Sub) (sc : Script) (cfg : Cfg)
    (hR : NoRaise sc) (hC : NoCmds sc) (hWF : cfg.WF) (hq : cfg.queued = false)
    (qmax m ev : Nat) (s : St) (src : Nat) (ts : List Trans)
    (hev : cfg.event? ev = some ts) (hm : alookup m s.mstate = some src) (hreg : (cfg.state? src).isSome)
    (hidle : s.queue = []) :
    ∃ (s' : St) (st' : Nat) (seg : List Item),
      (apiTrigger sub sc cfg qmax m ev s).state? = some s' ∧
      s'.log = s.log ++ .api 0 s.nextTag m ev :: seg ∧
      s'.mstate = aset m st' s.mstate ∧
      FlatFinalEvent cfg s.nextTag src ev seg st' := by
  obtain ⟨s', st', seg, e, l, ms, _, _, _, _, a⟩ :=
    C01_step sub sc cfg hR hC hWF hq qmax m ev s src ts hev hm hreg hidle
  have h := a []
  simp only [List.append_nil] at h
  obtain ⟨seg', e', hf⟩ := flatFinalEvent_of_expectEvent cfg m s.nextTag src ev seg [] st' h
  simp only [List.append_nil] at e'
  subst e'
  exact ⟨s', st', seg, e, l, ms, hf⟩

/-- **C18, flat, every history**: the trace a history appends is a sequence of events each obeying
`FlatFinalEvent`, with nothing in between — on_final runs at no other time. -/
theorem C18_flat_history (sc : Script) (cfg : Cfg)
    (hR : NoRaise sc) (hC : NoCmds sc) (hWF : cfg.WF) (hq : cfg.queued = false) (qmax fuel : Nat)
    (h : List Cmd) (s : St) (hidle : s.queue = []) (hreg : StatesRegistered cfg s) (hh : TriggerHistory cfg s h) :
    ∃ (s' : St) (tr : List Item),
      runHistory sc cfg qmax (fuel + 1) h s = some s' ∧ s'.log = s.log ++ tr ∧
      FlatFinalTrace cfg s.mstate tr := by
  obtain ⟨s', tr, e, l, _, _, c⟩ := C01_history sc cfg hR hC hWF hq qmax fuel h s hidle hreg hh
  exact ⟨s', tr, e, l, flatFinalTrace_of_checkTrace cfg h.length s.mstate tr (c h.length (Nat.le_refl _))⟩

/-- spelled out: a transition into a final state shows the machine's on_final callbacks once each, in
list order, after all on_enter callbacks of the destination and before all after callbacks -/
theorem C18_flat_final_position (cfg : Cfg) (t : Trans) (d : Nat) (dd : StateDef)
    (hd : t.dest = some d) (hs : cfg.state? d = some dd) (hf : dd.final = true) :
    transView cfg t = dd.onEnter.map (Slot.onEnter, ·) ++ cfg.onFinal.map (Slot.onFinal, ·) ++ t.after.map (Slot.after, ·) := by
  simp [transView, hd, hs, hf, stage, watched]

/-- spelled out: no on_final call when the destination is not final, when the transition is internal,
and when nothing executes -/
theorem C18_flat_no_final_otherwise (cfg : Cfg) (w : Option Trans)
    (h : ∀ t d dd, w = some t → t.dest = some d → cfg.state? d = some dd → dd.final = false) :
    ∀ p ∈ eventView cfg w, p.1 ≠ Slot.onFinal := by
  intro p hp
  cases w with
  | none => simp [eventView] at hp
  | some t =>
    simp only [eventView, transView] at hp
    cases hd : t.dest with
    | none =>
      simp only [hd, stage, watched, if_true, List.mem_map] at hp
      obtain ⟨_, _, rfl⟩ := hp
      simp
    | some d =>
      simp only [hd] at hp
      cases hs : cfg.state? d with
      | none => simp [hs] at hp
      | some dd =>
        have := h t d dd rfl hd hs
        simp only [hs, this, Bool.false_eq_true, if_false, List.append_nil, stage, watched, if_true,
          List.mem_append, List.mem_map] at hp
        rcases hp with ⟨_, _, rfl⟩ | ⟨_, _, rfl⟩ <;> simp

/-! ## flat machines, re-entrant events: EVERY script

Callbacks may trigger further events (processed at once on an unqueued machine, enqueued on a queued one),
remove / add models, raise.  Every callback start carries the tag of the trigger call whose event it runs for;
`ownView tag` keeps the on_enter / on_final / after starts of that event only. -/

/-- tags are fresh: whatever commands callbacks issue, at every fuel, nothing below a callback of the event
`tag` starts a callback under that tag again (`nextTag` only grows; a queued machine drains only what it
received itself) -/
theorem C18_flat_tags_fresh (tag : Nat) (sc : Script) (cfg : Cfg) (qmax fuel : Nat) :
    SubForeign tag (runCmd sc cfg qmax fuel) :=
  runCmd_foreign tag sc cfg qmax fuel

/-- **C18, flat, re-entrant, one transition.**  For every script, configuration, fuel and engine state:
a transition that executes for the event with tag `x.tag` starts under that tag exactly
`transView cfg t` — its destination's on_enter callbacks, the machine's on_final callbacks once each iff
THAT destination is final, its after callbacks — whatever events ran inside those callbacks and wherever
they left the model; a candidate that is blocked starts none of them. -/
theorem C18_flat_reentrant_exact (sc : Script) (cfg : Cfg) (qmax fuel : Nat) (x : Ctx) (t : Trans) (s s' : St)
    (b : Bool) (hn : x.tag < s.nextTag)
    (h : execute (runCmd sc cfg qmax fuel) sc cfg x t s = .ok b s') :
    ∃ seg, s'.log = s.log ++ seg ∧ ownView x.tag seg = (if b then transView cfg t else []) :=
  (execute_own (runCmd_foreign x.tag sc cfg qmax fuel) sc cfg x rfl t s hn b s' h).2

/-- **… one event**: the candidate loop of the event with tag `x.tag` starts under that tag
`eventView cfg w` for the candidate `w` that executed (`none`: all blocked). -/
theorem C18_flat_reentrant_event (sc : Script) (cfg : Cfg) (qmax fuel : Nat) (x : Ctx) (ts : List Trans) (s s' : St)
    (b : Bool) (hn : x.tag < s.nextTag)
    (h : tryTransitions (runCmd sc cfg qmax fuel) sc cfg x ts s = .ok b s') :
    ∃ (w : Option Trans) (seg : List Item), s'.log = s.log ++ seg ∧ ownView x.tag seg = eventView cfg w ∧
      w.isSome = b ∧ ∀ t, w = some t → t ∈ ts := by
  obtain ⟨w, o, hw, hin⟩ := tryTransitions_own (runCmd_foreign x.tag sc cfg qmax fuel) sc cfg x rfl ts s hn b s' h
  obtain ⟨_, seg, hl, hv⟩ := o
  exact ⟨w, seg, hl, hv, hw, hin⟩

/-! non-vacuity: the two histories of the seeded change (/tmp/seed/out2_C18): states 0 = A, 1 = B, 2 = C;
on_enter callback 11 of state 1 fires event 1 (1 → 2) while event 0 (0 → 1) is still running -/

def reCfg (finals : List Nat) : Cfg :=
  { states := [{ name := 0 }, { name := 1, onEnter := [11], final := finals.contains 1 },
               { name := 2, onEnter := [12], final := finals.contains 2 }],
    events := [(0, [{ source := 0, dest := some 1, after := [20] }]), (1, [{ source := 1, dest := some 2, after := [21] }])],
    onFinal := [3], initial := 0 }

def reScript : Script := fun c k => if c = 11 ∧ k = 0 then { cmds := [.trigger 0 1] } else {}

/-- final B whose on_enter moves on to non-final C: on_final still runs once for the entry of B (tag 0),
after B's on_enter callback — i.e. after the whole inner event — and before `after` 20; none under tag 1 -/
example : ((runHistory reScript (reCfg [1]) 8 3 [.trigger 0 0] (St.init (reCfg [1]) [0])).map
    fun s => (s.stateOf 0, ownView 0 s.log, ownView 1 s.log)) =
    some (2, [(Slot.onEnter, 11), (Slot.onFinal, 3), (Slot.after, 20)], [(Slot.onEnter, 12), (Slot.after, 21)]) := by decide

/-- non-final B whose on_enter moves on to final C: on_final runs once, for the inner event (tag 1) only -/
example : ((runHistory reScript (reCfg [2]) 8 3 [.trigger 0 0] (St.init (reCfg [2]) [0])).map
    fun s => (s.stateOf 0, ownView 0 s.log, ownView 1 s.log)) =
    some (2, [(Slot.onEnter, 11), (Slot.after, 20)], [(Slot.onEnter, 12), (Slot.onFinal, 3), (Slot.after, 21)]) := by decide

/-! ## hierarchical machines -/

/-- **C18, nested, full strength**: for every state tree, every placement of final flags and
callbacks, every configuration and every entered set a transition can produce (`enteredWF`: the
entered states are active afterwards, and below an entered state everything active was entered),
`_final_check` returns — without raising — exactly the owners that fire, children first, the machine
last.  States are paths: two copies of an embedded child machine's state are two states.  The machine
object is not an input: the root scope never reads its attributes (fix 4b253dd). -/
theorem C18_nested_exact (D : Defs) (E : List Nat) (roots : List Tree)
    (hW : enteredWF E roots = true) :
    finalCheckRoot D E roots = .ok (expected D E roots) :=
  finalCheckRoot_spec D E roots hW

/-- regression witness of finding F-C18-root-reads-machine-final (fixed by 4b253dd; corpus
`self_model_event_named_final_*.json`): flat states 1 → 2 (2 not final) on a machine that is its own model and
has an event named `final`: nothing fires, nothing is raised -/
example : finalCheckRoot { final := fun _ => false, onFinal := fun _ => [], machineOnFinal := [100] } [2] [.node 2 []]
    = .ok [] := by decide

/-- the callbacks run are those of the owners that fire, in that order -/
theorem C18_nested_calls (D : Defs) (E : List Nat) (roots : List Tree) (hW : enteredWF E roots = true) :
    ∃ os, finalCheckRoot D E roots = .ok os ∧ runCalls D os = (expected D E roots).flatMap D.cbsOf :=
  ⟨_, C18_nested_exact D E roots hW, rfl⟩

/-- `expected` is `[s | fires s]`: a state's on_final list is scheduled iff the state is active and fires -/
theorem C18_nested_owner_iff (D : Defs) (E : List Nat) (roots : List Tree) (i : Nat) :
    Owner.state i ∈ expected D E roots ↔ ∃ x ∈ subtreesL roots, x.id = i ∧ fires D E x = true := by
  simp only [expected, List.mem_append, mem_firingL_iff]
  constructor
  · rintro (⟨x, hx, e, hf⟩ | h)
    · cases e; exact ⟨x, hx, rfl, hf⟩
    · split at h <;> simp at h
  · rintro ⟨x, hx, rfl, hf⟩
    exact Or.inl ⟨x, hx, rfl, hf⟩

/-- … and the machine's own list iff `machineFires`, as the last owner -/
theorem C18_nested_machine_last (D : Defs) (E : List Nat) (roots : List Tree) :
    expected D E roots = firingL D E roots ++ (if machineFires D E roots = true then [Owner.machine] else []) ∧
    Owner.machine ∉ firingL D E roots := by
  refine ⟨rfl, ?_⟩
  intro h
  obtain ⟨i, _, e⟩ := firingL_sub_ids D E _ roots h
  cases e

/-- children first: the owners scheduled for a subtree are those of its children's subtrees followed by
the state's own entry -/
theorem C18_nested_children_first (D : Defs) (E : List Nat) (s : Nat) (kids : List Tree) :
    firing D E (.node s kids) =
      firingL D E kids ++ (if fires D E (.node s kids) = true then [Owner.state s] else []) ∧
    ∀ o ∈ firingL D E kids, ∃ i ∈ idsL kids, o = .state i :=
  ⟨by simp only [firing], fun o ho => firingL_sub_ids D E o kids ho⟩

/-- once: no owner is scheduled twice (states are identified by distinct numbers) -/
theorem C18_nested_once (D : Defs) (E : List Nat) (roots : List Tree) (h : (idsL roots).Nodup) :
    (expected D E roots).Nodup :=
  expected_nodup D E roots h

/-! ### regression witnesses of the three repaired defects (corpus/C18/*.json), decided by evaluation -/

def defsOf (finals : List Nat) : Defs :=
  { final := fun s => finals.contains s, onFinal := fun s => [100 + s], machineOnFinal := [100] }

/-- item 10: parallel state 1 with children 2 (not final) and 3 (final), all just entered (`to_P`):
only 3 fires, whatever the order of the children -/
def witnessLeak : List Tree := [.node 1 [.node 2 [], .node 3 []]]
example : enteredWF [1, 2, 3] witnessLeak = true := by decide
example : finalCheckRoot (defsOf [3]) [1, 2, 3] witnessLeak = .ok [.state 3] := by decide
example : finalCheckRoot (defsOf [3]) [1, 3, 2] [.node 1 [.node 3 [], .node 2 []]] = .ok [.state 3] := by decide

/-- item 18: regions 2 = {4} and 3 = {5 final} of parallel state 1; only 4 was entered (4 not final):
nothing fires and nothing is raised -/
def witnessAttr : List Tree := [.node 1 [.node 2 [.node 4 []], .node 3 [.node 5 []]]]
example : enteredWF [4] witnessAttr = true := by decide
example : finalCheckRoot (defsOf [5]) [4] witnessAttr = .ok [] := by decide

/-- item 11: final-flagged compound 1 entered together with its non-final initial child 2: 1 fires,
its parent (the machine) does not -/
def witnessCompound : List Tree := [.node 1 [.node 2 []]]
example : enteredWF [1, 2] witnessCompound = true := by decide
example : finalCheckRoot (defsOf [1]) [1, 2] witnessCompound = .ok [.state 1] := by decide

/-- a later region completes while an earlier one is still not final (regions 2 = {5}, 3 = {6 final},
4 = {7 final} of parallel 1; 7 just entered): 7 and its region fire although region 2 comes first -/
example : finalCheckRoot (defsOf [6, 7]) [7] [.node 1 [.node 2 [.node 5 []], .node 3 [.node 6 []], .node 4 [.node 7 []]]]
    = .ok [.state 7, .state 4] := by decide

/-- regression witness of finding F-C18-shared-state-object (fixed by 56c10cf; corpus
`shared_state_object_*.json`): one child machine {work, done (final)} under both regions 2, 3 of parallel 1;
4 = P_a_done and 5 = P_b_done are the same OBJECT but different paths, hence different states here.  b is
already in `done`; `to_P_a_done` enters 4 only: `done`-under-b and region b are NOT notified again -/
example : finalCheckRoot (defsOf [4, 5]) [4] [.node 1 [.node 2 [.node 4 []], .node 3 [.node 5 []]]]
    = .ok [.state 4, .state 2, .state 1, .machine] := by decide

/-! ### non-vacuity -/

/-- the README example (A -> B with regions X [final], Y = {yI, yII final}, Z = {zI, zII final}):
B=1, X=2, Y=3, Z=4, yII=5, zII=6; after `final_Z` (enters zII only) Z, B and the machine fire, in
this order; the hypotheses of the theorems hold -/
def readme : List Tree := [.node 1 [.node 2 [], .node 3 [.node 5 []], .node 4 [.node 6 []]]]

example : enteredWF [6] readme = true ∧ (idsL readme).Nodup := by decide
example : finalCheckRoot (defsOf [2, 5, 6]) [6] readme = .ok [.state 6, .state 4, .state 1, .machine] := by decide
example : runCalls (defsOf [2, 5, 6]) [.state 6, .state 4, .state 1, .machine] = [106, 104, 101, 100] := by decide
/-- one step earlier (`final_Y`, zI = 7 still active in Z): only yII and Y fire -/
example : finalCheckRoot (defsOf [2, 5, 6]) [5] [.node 1 [.node 2 [], .node 3 [.node 5 []], .node 4 [.node 7 []]]]
    = .ok [.state 5, .state 3] := by decide

/-- flat: the machine of `Props/C01.lean` (`exCfg`: state 1 final, on_enter [11], machine on_final [3],
second candidate with after [23]) — the first trigger enters the final state, the second is invalid -/
example : ((runHistory exScript exCfg 4 2 [.trigger 0 0, .trigger 0 0] (St.init exCfg [0])).map
    fun s => view s.log) = some [(Slot.onEnter, 11), (Slot.onFinal, 3), (Slot.after, 23)] := by decide

end TM
