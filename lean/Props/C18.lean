/-
  Props/C18.lean — property C18: "on_final fires exactly when a state - or a whole compound - becomes
  final".  Statements and non-vacuity examples only (lemmas in `Proofs/C18.lean`).

  FLAT (core.Machine, `Model/Core.lean`).  `C18.view seg` is the subsequence of an event's callback
  starts in the slots on_enter / on_final / after.  For every configuration, every script that neither
  raises nor re-enters the API (condition outcomes arbitrary), every history of trigger calls:
  in an event that executes transition `t` the view is the destination's on_enter callbacks, then — iff
  the destination is flagged final, reflexive re-entry included — the machine's on_final callbacks once
  each in list order, then `t.after`; for an internal transition just `t.after`; for an event that
  executes nothing, no such call; nothing lies between events.  (`C18_flat_exact`, `C18_flat_history`.)

  NESTED (`_final_check` of nesting.py, `Model/Final.lean` = the code after fix: commits 919a36b and
  576f1fd; spec `Model/Spec/C18.lean`).  `C18_nested_exact`: for every state tree, every placement of final
  flags and callbacks, every configuration and every entered set a transition can produce, the owners
  whose on_final lists the transition runs are exactly the states that `fires`, children first, the
  machine last, and the check never raises.  The three defects of the tree before the fixes (DESIGN 6
  items 10, 11, 18) are kept as regression examples: the model of the repaired code gives the specified
  answer on their witnesses; a return of any of them is a VIOLATION (monitor) of the check.
-/
import Proofs.C18
import Props.C01

namespace TM
open C18 Final

/-! ## flat machines -/

/-- **C18, flat, one event.**  On an idle unqueued machine a trigger call appends `api … :: seg`, the
state afterwards is `st'`, and `seg` obeys `FlatFinalEvent` (see `Model/Spec/C18.lean`): some `w`
(the executed transition of the event from the source state, whose destination is the state
afterwards and which makes the call return True — or nothing, state kept, call returns False / raises
MachineError) has `view seg = eventView cfg w`. -/
theorem C18_flat_exact (sub : Sub) (sc : Script) (cfg : Cfg)
    (hR : NoRaise sc) (hC : NoCmds sc) (hWF : cfg.WF) (hq : cfg.queued = false)
    (qmax m ev : Nat) (s : St) (src : Nat) (ts : List Trans)
    (hev : cfg.event? ev = some ts) (hm : alookup m s.mstate = some src) (hreg : (cfg.state? src).isSome)
    (hidle : s.queue = []) :
    ∃ (s' : St) (st' : Nat) (seg : List Item),
      (apiTrigger sub sc cfg qmax m ev s).state? = some s' ∧
      s'.log = s.log ++ .api 0 s.nextTag m ev :: seg ∧
      s'.mstate = aset m st' s.mstate ∧
      FlatFinalEvent cfg s.nextTag src ev seg st' := by
  obtain ⟨s', st', seg, e, l, ms, _, _, _, _, a⟩ :=
    C01_step sub sc cfg hR hC hWF hq qmax m ev s src ts hev hm hreg hidle
  have h := a []
  simp only [List.append_nil] at h
  obtain ⟨seg', e', hf⟩ := flatFinalEvent_of_expectEvent cfg m s.nextTag src ev seg [] st' h
  simp only [List.append_nil] at e'
  subst e'
  exact ⟨s', st', seg, e, l, ms, hf⟩

/-- **C18, flat, every history**: the trace a history appends is a sequence of events each obeying
`FlatFinalEvent`, with nothing in between — on_final runs at no other time. -/
theorem C18_flat_history (sc : Script) (cfg : Cfg)
    (hR : NoRaise sc) (hC : NoCmds sc) (hWF : cfg.WF) (hq : cfg.queued = false) (qmax fuel : Nat)
    (h : List Cmd) (s : St) (hidle : s.queue = []) (hreg : StatesRegistered cfg s) (hh : TriggerHistory cfg s h) :
    ∃ (s' : St) (tr : List Item),
      runHistory sc cfg qmax (fuel + 1) h s = some s' ∧ s'.log = s.log ++ tr ∧
      FlatFinalTrace cfg s.mstate tr := by
  obtain ⟨s', tr, e, l, _, _, c⟩ := C01_history sc cfg hR hC hWF hq qmax fuel h s hidle hreg hh
  exact ⟨s', tr, e, l, flatFinalTrace_of_checkTrace cfg h.length s.mstate tr (c h.length (Nat.le_refl _))⟩

/-- spelled out: a transition into a final state shows the machine's on_final callbacks once each, in
list order, after all on_enter callbacks of the destination and before all after callbacks -/
theorem C18_flat_final_position (cfg : Cfg) (t : Trans) (d : Nat) (dd : StateDef)
    (hd : t.dest = some d) (hs : cfg.state? d = some dd) (hf : dd.final = true) :
    transView cfg t = dd.onEnter.map (Slot.onEnter, ·) ++ cfg.onFinal.map (Slot.onFinal, ·) ++ t.after.map (Slot.after, ·) := by
  simp [transView, hd, hs, hf, stage, watched]

/-- spelled out: no on_final call when the destination is not final, when the transition is internal,
and when nothing executes -/
theorem C18_flat_no_final_otherwise (cfg : Cfg) (w : Option Trans)
    (h : ∀ t d dd, w = some t → t.dest = some d → cfg.state? d = some dd → dd.final = false) :
    ∀ p ∈ eventView cfg w, p.1 ≠ Slot.onFinal := by
  intro p hp
  cases w with
  | none => simp [eventView] at hp
  | some t =>
    simp only [eventView, transView] at hp
    cases hd : t.dest with
    | none =>
      simp only [hd, stage, watched, if_true, List.mem_map] at hp
      obtain ⟨_, _, rfl⟩ := hp
      simp
    | some d =>
      simp only [hd] at hp
      cases hs : cfg.state? d with
      | none => simp [hs] at hp
      | some dd =>
        have := h t d dd rfl hd hs
        simp only [hs, this, Bool.false_eq_true, if_false, List.append_nil, stage, watched, if_true,
          List.mem_append, List.mem_map] at hp
        rcases hp with ⟨_, _, rfl⟩ | ⟨_, _, rfl⟩ <;> simp

/-! ## hierarchical machines -/

/-- **C18, nested, full strength**: for every state tree, every placement of final flags and
callbacks, every configuration and every entered set a transition can produce (`enteredWF`: the
entered states are active afterwards, and below an entered state everything active was entered),
`_final_check` returns — without raising — exactly the owners that fire, children first, the machine
last. -/
theorem C18_nested_exact (D : Defs) (E : List Nat) (roots : List Tree)
    (hW : enteredWF E roots = true) :
    finalCheckRoot D E roots = .ok (expected D E roots) :=
  finalCheckRoot_spec D E roots hW

/-- the callbacks run are those of the owners that fire, in that order -/
theorem C18_nested_calls (D : Defs) (E : List Nat) (roots : List Tree) (hW : enteredWF E roots = true) :
    ∃ os, finalCheckRoot D E roots = .ok os ∧ runCalls D os = (expected D E roots).flatMap D.cbsOf :=
  ⟨_, C18_nested_exact D E roots hW, rfl⟩

/-- `expected` is `[s | fires s]`: a state's on_final list is scheduled iff the state is active and fires -/
theorem C18_nested_owner_iff (D : Defs) (E : List Nat) (roots : List Tree) (i : Nat) :
    Owner.state i ∈ expected D E roots ↔ ∃ x ∈ subtreesL roots, x.id = i ∧ fires D E x = true := by
  simp only [expected, List.mem_append, mem_firingL_iff]
  constructor
  · rintro (⟨x, hx, e, hf⟩ | h)
    · cases e; exact ⟨x, hx, rfl, hf⟩
    · split at h <;> simp at h
  · rintro ⟨x, hx, rfl, hf⟩
    exact Or.inl ⟨x, hx, rfl, hf⟩

/-- … and the machine's own list iff `machineFires`, as the last owner -/
theorem C18_nested_machine_last (D : Defs) (E : List Nat) (roots : List Tree) :
    expected D E roots = firingL D E roots ++ (if machineFires D E roots = true then [Owner.machine] else []) ∧
    Owner.machine ∉ firingL D E roots := by
  refine ⟨rfl, ?_⟩
  intro h
  obtain ⟨i, _, e⟩ := firingL_sub_ids D E _ roots h
  cases e

/-- children first: the owners scheduled for a subtree are those of its children's subtrees followed by
the state's own entry -/
theorem C18_nested_children_first (D : Defs) (E : List Nat) (s : Nat) (kids : List Tree) :
    firing D E (.node s kids) =
      firingL D E kids ++ (if fires D E (.node s kids) = true then [Owner.state s] else []) ∧
    ∀ o ∈ firingL D E kids, ∃ i ∈ idsL kids, o = .state i :=
  ⟨by simp only [firing], fun o ho => firingL_sub_ids D E o kids ho⟩

/-- once: no owner is scheduled twice (states are identified by distinct numbers) -/
theorem C18_nested_once (D : Defs) (E : List Nat) (roots : List Tree) (h : (idsL roots).Nodup) :
    (expected D E roots).Nodup :=
  expected_nodup D E roots h

/-! ### regression witnesses of the three repaired defects (corpus/C18/*.json), decided by evaluation -/

def defsOf (finals : List Nat) : Defs :=
  { final := fun s => finals.contains s, onFinal := fun s => [100 + s], machineOnFinal := [100] }

/-- item 10: parallel state 1 with children 2 (not final) and 3 (final), all just entered (`to_P`):
only 3 fires, whatever the order of the children -/
def witnessLeak : List Tree := [.node 1 [.node 2 [], .node 3 []]]
example : enteredWF [1, 2, 3] witnessLeak = true := by decide
example : finalCheckRoot (defsOf [3]) [1, 2, 3] witnessLeak = .ok [.state 3] := by decide
example : finalCheckRoot (defsOf [3]) [1, 3, 2] [.node 1 [.node 3 [], .node 2 []]] = .ok [.state 3] := by decide

/-- item 18: regions 2 = {4} and 3 = {5 final} of parallel state 1; only 4 was entered (4 not final):
nothing fires and nothing is raised -/
def witnessAttr : List Tree := [.node 1 [.node 2 [.node 4 []], .node 3 [.node 5 []]]]
example : enteredWF [4] witnessAttr = true := by decide
example : finalCheckRoot (defsOf [5]) [4] witnessAttr = .ok [] := by decide

/-- item 11: final-flagged compound 1 entered together with its non-final initial child 2: 1 fires,
its parent (the machine) does not -/
def witnessCompound : List Tree := [.node 1 [.node 2 []]]
example : enteredWF [1, 2] witnessCompound = true := by decide
example : finalCheckRoot (defsOf [1]) [1, 2] witnessCompound = .ok [.state 1] := by decide

/-- a later region completes while an earlier one is still not final (regions 2 = {5}, 3 = {6 final},
4 = {7 final} of parallel 1; 7 just entered): 7 and its region fire although region 2 comes first -/
example : finalCheckRoot (defsOf [6, 7]) [7] [.node 1 [.node 2 [.node 5 []], .node 3 [.node 6 []], .node 4 [.node 7 []]]]
    = .ok [.state 7, .state 4] := by decide

/-! ### non-vacuity -/

/-- the README example (A -> B with regions X [final], Y = {yI, yII final}, Z = {zI, zII final}):
B=1, X=2, Y=3, Z=4, yII=5, zII=6; after `final_Z` (enters zII only) Z, B and the machine fire, in
this order; the hypotheses of the theorems hold -/
def readme : List Tree := [.node 1 [.node 2 [], .node 3 [.node 5 []], .node 4 [.node 6 []]]]

example : enteredWF [6] readme = true ∧ (idsL readme).Nodup := by decide
example : finalCheckRoot (defsOf [2, 5, 6]) [6] readme = .ok [.state 6, .state 4, .state 1, .machine] := by decide
example : runCalls (defsOf [2, 5, 6]) [.state 6, .state 4, .state 1, .machine] = [106, 104, 101, 100] := by decide
/-- one step earlier (`final_Y`, zI = 7 still active in Z): only yII and Y fire -/
example : finalCheckRoot (defsOf [2, 5, 6]) [5] [.node 1 [.node 2 [], .node 3 [.node 5 []], .node 4 [.node 7 []]]]
    = .ok [.state 5, .state 3] := by decide

/-- flat: the machine of `Props/C01.lean` (`exCfg`: state 1 final, on_enter [11], machine on_final [3],
second candidate with after [23]) — the first trigger enters the final state, the second is invalid -/
example : ((runHistory exScript exCfg 4 2 [.trigger 0 0, .trigger 0 0] (St.init exCfg [0])).map
    fun s => view s.log) = some [(Slot.onEnter, 11), (Slot.onFinal, 3), (Slot.after, 23)] := by decide

end TM
