/-
  Props/C01.lean — property C01: "Flat machine: every event step follows the documented execution order".

  Statements only (helper lemmas live in `Proofs/C01.lean`).  The documented order is the acceptor
  `C01.expectEvent` / `C01.checkTrace` of `Model/Spec/C01.lean`; the engine model is `Model/Core.lean`.

  Quantifiers: every configuration `cfg` (any number of states, any multiset of transitions per event
  incl. reflexive and internal ones — wildcards are expanded at construction time, see C13 —,
  any callback lists, final flags, ignore flags), every script `sc` whose invocations neither raise nor
  re-enter the API (condition outcomes are *arbitrary*: the valuation is the script), every history.
-/
import Proofs.C01

namespace TM
open C01

/-- Hypotheses of C01 on a history: top-level trigger calls on models the machine has initialised,
for events the machine knows (unknown names are C03/C11's business). -/
def TriggerHistory (cfg : Cfg) (s : St) (h : List Cmd) : Prop :=
  ∀ c ∈ h, ∃ m ev, c = .trigger m ev ∧ (alookup m s.mstate).isSome ∧ (cfg.event? ev).isSome

/-- **C01, one step.** On an idle unqueued machine, a trigger call for a known event on a model in a
registered state appends `api … :: seg` to the trace, where `seg` is accepted by the documented-order
acceptor (which also fixes the returned value / MachineError and the state afterwards);
nothing else of the engine state changes. Holds for every interpreter `sub` of re-entrant commands
(there are none to run) and every queue bound. -/
theorem C01_step (sub : Sub) (sc : Script) (cfg : Cfg)
    (hR : NoRaise sc) (hC : NoCmds sc) (hWF : cfg.WF) (hq : cfg.queued = false)
    (qmax m ev : Nat) (s : St) (src : Nat) (ts : List Trans)
    (hev : cfg.event? ev = some ts) (hm : alookup m s.mstate = some src) (hreg : (cfg.state? src).isSome)
    (hidle : s.queue = []) :
    ∃ (s' : St) (st' : Nat) (seg : List Item),
      (apiTrigger sub sc cfg qmax m ev s).state? = some s' ∧
      s'.log = s.log ++ .api 0 s.nextTag m ev :: seg ∧
      s'.mstate = aset m st' s.mstate ∧ s'.queue = [] ∧ s'.models = s.models ∧
      s'.nextTag = s.nextTag + 1 ∧ (cfg.state? st').isSome ∧
      Accepts (expectEvent cfg m s.nextTag src ev) seg st' :=
  apiTrigger_ok sub sc cfg hR hC hWF hq qmax m ev s src ts hev hm hreg hidle

/-- **C01, every history.** Any mix of valid, blocked and invalid triggers, any condition valuation:
the run never gets stuck and the trace it appends is accepted by `checkTrace` started from the
model states before the history. -/
theorem C01_history (sc : Script) (cfg : Cfg)
    (hR : NoRaise sc) (hC : NoCmds sc) (hWF : cfg.WF) (hq : cfg.queued = false) (qmax fuel : Nat) :
    ∀ (h : List Cmd) (s : St), s.queue = [] → StatesRegistered cfg s → TriggerHistory cfg s h →
    ∃ (s' : St) (tr : List Item),
      runHistory sc cfg qmax (fuel + 1) h s = some s' ∧ s'.log = s.log ++ tr ∧
      s'.queue = [] ∧ StatesRegistered cfg s' ∧
      ∀ n, h.length ≤ n → checkTrace cfg n s.mstate tr = true := by
  intro h
  induction h with
  | nil =>
    intro s hq0 hreg _
    exact ⟨s, [], rfl, by simp, hq0, hreg, fun n _ => by cases n <;> rfl⟩
  | cons c cs ih =>
    intro s hq0 hreg hh
    obtain ⟨m, ev, rfl, hmS, hevS⟩ := hh _ (List.mem_cons_self ..)
    obtain ⟨src, hm⟩ := Option.isSome_iff_exists.mp hmS
    obtain ⟨ts, hev⟩ := Option.isSome_iff_exists.mp hevS
    obtain ⟨s1, st', seg, e1, l1, m1, q1, _, _, reg1, a1⟩ :=
      C01_step (runCmd sc cfg qmax fuel) sc cfg hR hC hWF hq qmax m ev s src ts hev hm (hreg m src hm) hq0
    have hreg1 : StatesRegistered cfg s1 := by
      intro m' st hl
      rw [m1] at hl
      by_cases hmm : m' = m
      · subst hmm; rw [alookup_aset_self] at hl; cases hl; exact reg1
      · rw [alookup_aset_ne _ _ _ hmm] at hl; exact hreg m' st hl
    have hh1 : TriggerHistory cfg s1 cs := by
      intro c hc
      obtain ⟨m', ev', rfl, h1, h2⟩ := hh c (List.mem_cons_of_mem _ hc)
      refine ⟨m', ev', rfl, ?_, h2⟩
      rw [m1]
      by_cases hmm : m' = m
      · subst hmm; simp [alookup_aset_self]
      · rw [alookup_aset_ne _ _ _ hmm]; exact h1
    obtain ⟨s2, tr2, e2, l2, q2, reg2, c2⟩ := ih s1 q1 hreg1 hh1
    refine ⟨s2, .api 0 s.nextTag m ev :: seg ++ tr2, ?_, ?_, q2, reg2, ?_⟩
    · have : runCmd sc cfg qmax (fuel + 1) (.trigger m ev) s =
          (apiTrigger (runCmd sc cfg qmax fuel) sc cfg qmax m ev s).map fun _ => () := rfl
      simp only [runHistory, this]
      cases hr : apiTrigger (runCmd sc cfg qmax fuel) sc cfg qmax m ev s with
      | ok b sx => simp [hr, Res.state?] at e1; subst e1; simpa [Res.map] using e2
      | err e sx => simp [hr, Res.state?] at e1; subst e1; simpa [Res.map] using e2
      | oof => simp [hr, Res.state?] at e1
    · rw [l2, l1]; simp
    · intro n hn
      cases n with
      | zero => simp at hn
      | succ n =>
        have := a1 tr2
        simp only [List.cons_append, checkTrace, hm, this]
        rw [← m1]
        exact c2 n (by simpa using hn)

/-! ### non-vacuity: a concrete machine, script and history meeting every hypothesis, whose trace is
non-trivial (a blocked first candidate, a winning second one, an invalid trigger) -/

def exCfg : Cfg :=
  { states := [{ name := 0, onExit := [10] }, { name := 1, onEnter := [11], final := true }],
    events := [(0, [{ source := 0, dest := some 1, conds := [⟨20, true⟩] },
                    { source := 0, dest := some 1, prepare := [21], before := [22], after := [23] }])],
    prepareEvent := [1], finalize := [2], onFinal := [3], initial := 0 }

def exScript : Script := fun c _ => if c = 20 then { out := .ret false } else {}

example : NoRaise exScript := by intro c k; unfold exScript; split <;> exact ⟨_, rfl⟩
example : NoCmds exScript := by intro c k; unfold exScript; split <;> rfl
example : exCfg.WF := by
  intro ev ts h t ht
  simp [Cfg.event?, exCfg, alookup] at h
  obtain ⟨_, rfl⟩ := h
  simp at ht
  rcases ht with rfl | rfl <;> (constructor <;> simp [Cfg.state?, exCfg])
example : TriggerHistory exCfg (St.init exCfg [0]) [.trigger 0 0, .trigger 0 0] := by
  intro c hc
  simp at hc
  subst hc
  exact ⟨0, 0, rfl, by decide, by decide⟩
example : ((runHistory exScript exCfg 4 2 [.trigger 0 0, .trigger 0 0] (St.init exCfg [0])).map
    fun s => (s.log.length, s.stateOf 0, checkTrace exCfg 2 (St.init exCfg [0]).mstate s.log)) = some (24, 1, true) := by
  decide

end TM
