/-
  Props/C05N.lean — property C05 ("queued processing is run-to-completion, FIFO and exactly-once; without a queue a
  nested trigger is processed immediately and completely") on the HIERARCHICAL engine.

  The engine is `Model/NestedDispatch.lean` (`nmachineProcess`, `ndrain`, `napiTrigger`, `nrunCmd`, written after
  `HierarchicalMachine.trigger_event` / `_trigger_event` and the inherited `Machine._process`).  Its observable
  log consists of the same `Item`s as the flat engine's (the single model is model `0`), so the abstract queue
  acceptor of the flat case, `C05.busy` / `C05.idle` (Model/Spec/C05.lean), is used UNCHANGED — no projection is
  needed: a callback may only belong to the head of the pending list; the head completes (first finalize callback)
  before the next pending entry starts; entries start in arrival order, each at most once; a trigger issued while
  the queue is busy returns True at once; an escaping exception discards what is pending; the draining call
  returns only when nothing is pending.

  Quantifiers: EVERY state tree (compound, parallel, any depth), every set of transitions declared on the machine or
  inside states, every configuration with `queued = True` and a distinguished first finalize callback (visibility,
  as in the flat case), EVERY script — callbacks at any stage (prepare, conditions, before, on_exit, on_enter,
  after, on_exception, finalize) issue any number of re-entrant commands and return or raise anything — and every
  history of trigger calls.  No hypothesis on the script at all: commands other than `trigger` are refused by the
  interpreter `nrunCmd` without a trace (the hierarchical model has ONE model, so the `remove_model` clause of C05
  cannot be expressed on it; it is covered on the flat engine, Props/C05.lean, and by the class streams of
  harness/props/c05.py).  Fuel: the statements hold for every fuel / queue bound for which the run completes.
-/
import Proofs.C05N
import Props.C05

namespace TM
open C05 N5

/-- **a trigger issued while an event is in progress is deferred and returns True**: on a queued hierarchical
machine whose queue is busy, `model.trigger(ev)` — from any callback, at any nesting depth, for any interpreter
`sub` — runs no callback, appends exactly one entry at the END of the queue, logs `api`, `ret True`, leaves the
configuration alone and returns True. -/
theorem C05N_deferred_trigger (cfg : NCfg) (sub : NSub) (sc : Script) (qmax ev : Nat) (s : NSt)
    (hq : cfg.queued = true) (hb : s.queue ≠ []) :
    ∃ s', napiTrigger sub sc cfg qmax ev s = .ok true s' ∧
      s'.queue = s.queue ++ [(ev, s.nextTag)] ∧
      s'.log = s.log ++ [.api 0 s.nextTag 0 ev, .ret s.nextTag true] ∧
      s'.conf = s.conf ∧ s'.counts = s.counts :=
  ⟨busyTrigger ev s, napiTrigger_busy cfg sub sc qmax ev s hq hb, rfl, rfl, rfl, rfl⟩

/-- a top-level trigger call on an idle queued hierarchical machine: the caller drains the queue; the trace of the
call is one complete session of the abstract queue -/
theorem C05N_top_trigger (fin0 : Nat) (sc : Script) (cfg : NCfg) (qmax n : Nat)
    (hq : cfg.queued = true)
    (rest : List Nat) (hfin : cfg.finalize = fin0 :: rest) (hnot : fin0 ∉ rest)
    (ev : Nat) (s : NSt) (hidle : s.queue = []) :
    ∀ s', (napiTrigger (nrunCmd sc cfg qmax n) sc cfg qmax ev s).state? = some s' →
      s'.queue = [] ∧ ∃ seg, s'.log = s.log ++ .api 0 s.nextTag 0 ev :: seg ∧
        ∀ tl k, idle fin0 (k + 1) (.api 0 s.nextTag 0 ev :: (seg ++ tl)) = idle fin0 k tl := by
  intro s' hs'
  let s1 : NSt := (({ s with nextTag := s.nextTag + 1 } : NSt).emit (.api 0 s.nextTag 0 ev)).emitG (.api s.nextTag ev)
  let s2 : NSt := { s1 with queue := [(ev, s.nextTag)] }
  let σ0 : Q := { owner := s.nextTag, q := [(s.nextTag, 0)], fin := false }
  have hpre : NDrainPre σ0 s2 :=
    ⟨⟨by simp [s2], by intro e he; simp [s2] at he; subst he; exact Nat.lt_succ_self _⟩,
      Or.inl ⟨rfl, rfl, by simp [s2]⟩⟩
  have hd := ndrain_post fin0 sc cfg (nrunCmd sc cfg qmax n) rest hfin hnot qmax σ0 s2
    (nsubOK_nrunCmd fin0 s.nextTag sc cfg qmax hq n) hpre
  have hmp : nmachineProcess (nrunCmd sc cfg qmax n) sc cfg qmax ev s.nextTag s1 =
      (ndrain (nrunCmd sc cfg qmax n) sc cfg qmax s2).bind fun _ s' => .ok true s' := by
    have hs1q : s1.queue = [] := hidle
    simp only [nmachineProcess, hq, Bool.not_true, Bool.false_eq_true, if_false, hs1q, List.nil_append,
      List.length_singleton, gt_iff_lt, Nat.lt_irrefl]
    rfl
  have hs2log : s2.log = s.log ++ [.api 0 s.nextTag 0 ev] := rfl
  unfold napiTrigger at hs'
  change (match nmachineProcess (nrunCmd sc cfg qmax n) sc cfg qmax ev s.nextTag s1 with
      | .ok b s' => (.ok b { ((s'.emit (.ret s.nextTag b)).emitG (.ret s.nextTag b)) with
          result := s.result, exited := s.exited } : NR Bool)
      | .err e s' => .err e { ((s'.emit (.raised s.nextTag e)).emitG (.raised s.nextTag e)) with
          result := s.result, exited := s.exited }
      | .oof => .oof).state? = some s' at hs'
  rw [hmp] at hs'
  cases hr : ndrain (nrunCmd sc cfg qmax n) sc cfg qmax s2 with
  | oof => simp [hr, Res.bind, Res.state?] at hs'
  | ok u s3 =>
    rw [hr] at hd
    obtain ⟨σ3, seg, l3, a3, hq3, hf3, hl3, o3⟩ := hd
    simp only [hr, Res.bind, Res.state?, Option.some.injEq] at hs'
    subst hs'
    refine ⟨hq3, seg ++ [.ret s.nextTag true], by simp [NSt.emit, NSt.emitG, l3, hs2log], ?_⟩
    intro tl k
    have hb : busy fin0 { owner := s.nextTag, q := [(s.nextTag, 0)], fin := false }
        (seg ++ [.ret s.nextTag true] ++ tl) = some tl := by
      have := a3 (.ret s.nextTag true :: tl)
      rw [List.append_assoc, List.singleton_append, this]
      simp [busy, o3, σ0, hl3, hf3]
    exact idle_busy fin0 k _ _ _ _ _ hb
  | err e s3 =>
    rw [hr] at hd
    obtain ⟨σ3, seg, l3, a3, hq3, o3⟩ := hd
    simp only [hr, Res.bind, Res.state?, Option.some.injEq] at hs'
    subst hs'
    refine ⟨hq3, seg ++ [.raised s.nextTag e], by simp [NSt.emit, NSt.emitG, l3, hs2log], ?_⟩
    intro tl k
    have hb : busy fin0 { owner := s.nextTag, q := [(s.nextTag, 0)], fin := false }
        (seg ++ [.raised s.nextTag e] ++ tl) = some tl := by
      have := a3 (.raised s.nextTag e :: tl)
      rw [List.append_assoc, List.singleton_append, this]
      simp [busy, o3, σ0]
    exact idle_busy fin0 k _ _ _ _ _ hb

/-- **C05 (queued) on the hierarchical engine.**  Every trace of a history of trigger calls on a queued
hierarchical machine — any state tree, any transitions, callbacks that trigger further events and raise
arbitrarily, nested to any depth through the queue — follows the abstract queue: run-to-completion including the
finalize callbacks, FIFO, at most once, deferred calls return True, an escaping exception discards what is pending
(it is never run later: the next call starts from an empty queue), the draining call returns only when nothing is
pending; and the queue is empty again after every top-level call. -/
theorem C05N_queued_history (fin0 : Nat) (sc : Script) (cfg : NCfg) (qmax fuel : Nat)
    (hq : cfg.queued = true)
    (rest : List Nat) (hfin : cfg.finalize = fin0 :: rest) (hnot : fin0 ∉ rest) :
    ∀ (h : List Nat) (s : NSt), s.queue = [] →
    ∀ s', nrunHistory sc cfg qmax fuel h s = some s' →
      s'.queue = [] ∧ ∃ tr, s'.log = s.log ++ tr ∧ ∀ n, h.length ≤ n → idle fin0 n tr = true := by
  intro h
  induction h with
  | nil =>
    intro s hq0 s' hs'
    simp only [nrunHistory, Option.some.injEq] at hs'
    subst hs'
    exact ⟨hq0, [], by simp, fun n _ => by cases n <;> rfl⟩
  | cons ev evs ih =>
    intro s hq0 s' hs'
    cases fuel with
    | zero => simp [nrunHistory, nrunCmd] at hs'
    | succ f =>
      have step : ∀ s1, (nrunCmd sc cfg qmax (f + 1) (.trigger 0 ev) s).state? = some s1 →
          s1.queue = [] ∧ ∃ seg, s1.log = s.log ++ seg ∧
            ∀ tl k, idle fin0 (k + 1) (seg ++ tl) = idle fin0 k tl := by
        intro s1 h1
        have h1' : (napiTrigger (nrunCmd sc cfg qmax f) sc cfg qmax ev s).state? = some s1 := by
          have : nrunCmd sc cfg qmax (f + 1) (.trigger 0 ev) s =
            (napiTrigger (nrunCmd sc cfg qmax f) sc cfg qmax ev s).map fun _ => () := rfl
          rw [this] at h1
          cases hr : napiTrigger (nrunCmd sc cfg qmax f) sc cfg qmax ev s <;>
            simp [hr, Res.map, Res.state?] at h1 ⊢ <;> exact h1
        obtain ⟨q1, seg, l1, a1⟩ := C05N_top_trigger fin0 sc cfg qmax f hq rest hfin hnot ev s hq0 s1 h1'
        exact ⟨q1, _, l1, fun tl k => by simpa using a1 tl k⟩
      simp only [nrunHistory] at hs'
      cases hr : nrunCmd sc cfg qmax (f + 1) (.trigger 0 ev) s with
      | oof => simp [hr] at hs'
      | ok u s1 =>
        simp only [hr] at hs'
        obtain ⟨q1, seg, l1, a1⟩ := step s1 (by simp [hr, Res.state?])
        obtain ⟨q2, tr, l2, a2⟩ := ih s1 q1 s' hs'
        refine ⟨q2, seg ++ tr, by rw [l2, l1, List.append_assoc], ?_⟩
        intro n hn
        cases n with
        | zero => simp at hn
        | succ n => rw [a1]; exact a2 n (by simpa using hn)
      | err e s1 =>
        simp only [hr] at hs'
        obtain ⟨q1, seg, l1, a1⟩ := step s1 (by simp [hr, Res.state?])
        obtain ⟨q2, tr, l2, a2⟩ := ih s1 q1 s' hs'
        refine ⟨q2, seg ++ tr, by rw [l2, l1, List.append_assoc], ?_⟩
        intro n hn
        cases n with
        | zero => simp at hn
        | succ n => rw [a1]; exact a2 n (by simpa using hn)

/-- **C05 (no queue) on the hierarchical engine: an event triggered from a callback is processed immediately and
completely before the triggering callback returns.**  For EVERY script, configuration, state tree, fuel and
engine state: if the `k`-th invocation of callback `c` is scripted to trigger event `ev` (alone), then in the trace
of that invocation the `call` item of `c` is followed by the WHOLE trace of the nested trigger — its `api` item
first, its own outcome item (`ret` / `raised` with the nested call's tag) last — and only then by the `done` item of
`c`.  (On a queued machine the nested call's segment is just `api, ret True`: `C05N_deferred_trigger`; on an unqueued
one it contains the complete processing of the nested event: `C05N_unqueued_nested_complete`.) -/
theorem C05N_unqueued_nested_immediate (sc : Script) (cfg : NCfg) (qmax f : Nat) (slot : Slot) (x : Ctx) (c : Nat)
    (s : NSt) (m ev : Nat) (hcmd : (sc c (s.count c)).cmds = [.trigger m ev]) :
    ∀ s', (ninvoke (nrunCmd sc cfg qmax (f + 1)) sc cfg slot x c s).state? = some s' →
      ∃ (mid : List Item) (out : Item) (o : Out),
        s'.log = s.log ++ [.call slot c x.model x.tag (confMask cfg s.conf)] ++
          (.api 0 s.nextTag 0 ev :: mid ++ [out]) ++ [.done c o] ∧
        ((∃ b, out = .ret s.nextTag b) ∨ ∃ e, out = .raised s.nextTag e) := by
  intro s' h
  unfold ninvoke at h
  simp only [hcmd, nrunCmds] at h
  generalize hs2 : (({ s with counts := aset c (s.count c + 1) s.counts } : NSt).emit
      (.call slot c x.model x.tag (confMask cfg ({ s with counts := aset c (s.count c + 1) s.counts } : NSt).conf))) = s2 at h
  have hs2log : s2.log = s.log ++ [.call slot c x.model x.tag (confMask cfg s.conf)] := by
    rw [← hs2]; rfl
  have hs2tag : s2.nextTag = s.nextTag := by rw [← hs2]; rfl
  have hstep : nrunCmd sc cfg qmax (f + 1) (.trigger m ev) s2 =
      (napiTrigger (nrunCmd sc cfg qmax f) sc cfg qmax ev s2).map fun _ => () := rfl
  rw [hstep] at h
  have hshape := napiTrigger_shape _ (nrunCmd_grows sc cfg qmax f) sc cfg qmax ev s2
  cases hr : napiTrigger (nrunCmd sc cfg qmax f) sc cfg qmax ev s2 with
  | oof => simp [hr, Res.map, Res.bind, Res.state?] at h
  | ok b s3 =>
    obtain ⟨mid, out, hl, ho⟩ := hshape s3 (by simp [hr, Res.state?])
    simp only [hr, Res.map, Res.bind] at h
    rw [hs2tag] at hl ho
    cases hout : (sc c (s.count c)).out with
    | ret bb =>
      simp [hout, Res.state?] at h; subst h
      exact ⟨mid, out, .ret bb, by simp [NSt.emit, hl, hs2log], ho⟩
    | raise e =>
      simp [hout, Res.state?] at h; subst h
      exact ⟨mid, out, .raise e, by simp [NSt.emit, hl, hs2log], ho⟩
  | err e s3 =>
    obtain ⟨mid, out, hl, ho⟩ := hshape s3 (by simp [hr, Res.state?])
    simp only [hr, Res.map, Res.bind, Res.state?] at h
    rw [hs2tag] at hl ho
    simp at h; subst h
    exact ⟨mid, out, .raise e, by simp [NSt.emit, hl, hs2log], ho⟩

/-- **C05 (no queue) on the hierarchical engine: "… and completely".**  On a machine WITHOUT a queue (`queued = False`,
so the queue is empty at all times) a trigger call — issued by the caller or by a callback at any depth, for any
interpreter level `f` — is `_trigger_event` run on the spot: the trace of the call, between its `api` item and its own
outcome item, contains the start of the first finalize callback (the visibility marker `fin0`) of THAT event (tag
`s.nextTag`); finalize callbacks run last (`finally:`), so the whole event has been processed when the call returns.
Together with `C05N_unqueued_nested_immediate`: call of `c`, `api`, …, `call finalize fin0` of the nested event, …,
outcome of the nested call, `done` of `c`. -/
theorem C05N_unqueued_nested_complete (fin0 : Nat) (sc : Script) (cfg : NCfg) (qmax f : Nat)
    (hq : cfg.queued = false) (rest : List Nat) (hfin : cfg.finalize = fin0 :: rest)
    (ev : Nat) (s : NSt) (hidle : s.queue = []) :
    ∀ s', (napiTrigger (nrunCmd sc cfg qmax f) sc cfg qmax ev s).state? = some s' →
      ∃ (pre post : List Item) (mask : Nat) (out : Item),
        s'.log = s.log ++ (.api 0 s.nextTag 0 ev :: pre ++ .call .finalize fin0 0 s.nextTag mask :: post ++ [out]) ∧
        ((∃ b, out = .ret s.nextTag b) ∨ ∃ e, out = .raised s.nextTag e) := by
  intro s' h
  let s1 : NSt := (({ s with nextTag := s.nextTag + 1 } : NSt).emit (.api 0 s.nextTag 0 ev)).emitG (.api s.nextTag ev)
  have hs1log : s1.log = s.log ++ [.api 0 s.nextTag 0 ev] := rfl
  have hmp : nmachineProcess (nrunCmd sc cfg qmax f) sc cfg qmax ev s.nextTag s1 =
      ntriggerEvent (nrunCmd sc cfg qmax f) sc cfg ⟨0, s.nextTag⟩ ev s1 := by
    have hs1q : s1.queue = [] := hidle
    simp only [nmachineProcess, hq, Bool.not_false, if_true, hs1q]
  have hc := ntriggerEvent_complete (nrunCmd sc cfg qmax f) (nrunCmd_grows sc cfg qmax f) sc cfg fin0 rest hfin
    ⟨0, s.nextTag⟩ ev s1
  unfold napiTrigger at h
  change (match nmachineProcess (nrunCmd sc cfg qmax f) sc cfg qmax ev s.nextTag s1 with
      | .ok b s' => (.ok b { ((s'.emit (.ret s.nextTag b)).emitG (.ret s.nextTag b)) with
          result := s.result, exited := s.exited } : NR Bool)
      | .err e s' => .err e { ((s'.emit (.raised s.nextTag e)).emitG (.raised s.nextTag e)) with
          result := s.result, exited := s.exited }
      | .oof => .oof).state? = some s' at h
  rw [hmp] at h
  cases hr : ntriggerEvent (nrunCmd sc cfg qmax f) sc cfg ⟨0, s.nextTag⟩ ev s1 with
  | oof => simp [hr, Res.state?] at h
  | ok b s2 =>
    obtain ⟨pre, mask, post, hl⟩ := hc s2 (by simp [hr, Res.state?])
    simp only [hr, Res.state?, Option.some.injEq] at h; subst h
    exact ⟨pre, post, mask, .ret s.nextTag b, by simp [NSt.emit, NSt.emitG, hl, hs1log], Or.inl ⟨b, rfl⟩⟩
  | err e s2 =>
    obtain ⟨pre, mask, post, hl⟩ := hc s2 (by simp [hr, Res.state?])
    simp only [hr, Res.state?, Option.some.injEq] at h; subst h
    exact ⟨pre, post, mask, .raised s.nextTag e, by simp [NSt.emit, NSt.emitG, hl, hs1log], Or.inr ⟨e, rfl⟩⟩

/-! ### non-vacuity

`P`(1) parallel [`a`(2) ⊃ `a1`(3);  `b`(4) ⊃ `b1`(5), `b2`(6)], `Q`(7); two finalize callbacks (90 = the visibility
marker).  Event 0 moves region `b`; its `before` callback 10 triggers events 1 and 2, the `on_enter` callback 21 of
`b2` triggers event 0 again: three deferred calls (tags 1, 2, 3), each returning True.  Event 1 (tag 1) leaves `P` for
`Q`; event 2 (tag 2) has a `prepare` callback 12 that raises at its first invocation: the exception escapes the
draining call (tag 0), and the pending call of tag 3 is discarded — none of its callbacks ever runs.  The second
top-level call (tag 4) starts from an empty queue. -/

def exCfg5N : NCfg :=
  { states := .cons { name := 1, initial := [2, 4] }
      (.cons { name := 2, initial := [3], onExit := [20] } (.cons { name := 3 } .nil .nil)
        (.cons { name := 4, initial := [5] } (.cons { name := 5 } .nil (.cons { name := 6, onEnter := [21] } .nil .nil)) .nil))
      (.cons { name := 7 } .nil .nil),
    events := [(0, [{ source := [1, 4, 5], dest := some [1, 4, 6], before := [10] }]),
               (1, [{ source := [1, 2, 3], dest := some [7], after := [11] }]),
               (2, [{ source := [7], dest := some [1], prepare := [12] }])],
    finalize := [90, 91], queued := true, initial := [1] }

def exScript5N : Script := fun c k =>
  if c = 10 then { cmds := [.trigger 0 1, .trigger 0 2] }
  else if c = 21 then { cmds := [.trigger 0 0] }
  else if c = 12 ∧ k = 0 then { out := .raise (.user 7) }
  else {}

/-- `(callback, tag)` of the callback starts of a trace -/
def callsOf5N (l : List Item) : List (Nat × Nat) :=
  l.filterMap fun i => match i with
    | .call _ c _ t _ => some (c, t)
    | _ => none

/-- `(tag, outcome)` of the call outcomes of a trace: 1 = returned True, 0 = returned False, 2 = raised -/
def outsOf5N (l : List Item) : List (Nat × Nat) :=
  l.filterMap fun i => match i with
    | .ret t b => some (t, if b then 1 else 0)
    | .raised t _ => some (t, 2)
    | _ => none

-- the hypotheses of `C05N_queued_history` / `C05N_top_trigger` hold for it
example : exCfg5N.queued = true ∧ exCfg5N.finalize = 90 :: [91] ∧ 90 ∉ [91] := by decide

/-- the run completes (38 items, queue empty); callbacks in arrival order of their events (tags 0, 1, 2, then 4 —
nothing of tag 3); the deferred calls 1, 2, 3 returned True, call 0 raised; the acceptor accepts -/
example :
    ((NSt.init exCfg5N).bind fun s0 => (nrunHistory exScript5N exCfg5N 16 3 [0, 2] s0).map fun s =>
      (s.log.length, s.queue.length, idle 90 2 s.log)) = some (38, 0, true) ∧
    ((NSt.init exCfg5N).bind fun s0 => (nrunHistory exScript5N exCfg5N 16 3 [0, 2] s0).map fun s =>
      callsOf5N s.log) =
      some [(10, 0), (21, 0), (90, 0), (91, 0), (20, 1), (11, 1), (90, 1), (91, 1), (12, 2), (90, 2), (91, 2),
            (12, 4), (90, 4), (91, 4)] ∧
    ((NSt.init exCfg5N).bind fun s0 => (nrunHistory exScript5N exCfg5N 16 3 [0, 2] s0).map fun s =>
      outsOf5N s.log) = some [(1, 1), (2, 1), (3, 1), (0, 2), (4, 1)] := by
  decide

/-- the same machine without a queue, callback 10 triggering event 1: the nested event (tag 1) is processed at once
and completely — exit of `a`, `after`, both finalize callbacks — between the start of callback 10 and the rest of
event 0 (hypotheses of `C05N_unqueued_nested_immediate` / `_complete`: `(sc 10 0).cmds = [.trigger 0 1]`,
`queued = false`, empty queue) -/
def exCfg5U : NCfg := { exCfg5N with queued := false }
def exScript5U : Script := fun c _ => if c = 10 then { cmds := [.trigger 0 1] } else {}

example : (exScript5U 10 0).cmds = [.trigger 0 1] ∧ exCfg5U.queued = false := by decide

example :
    ((NSt.init exCfg5U).bind fun s0 => (nrunHistory exScript5U exCfg5U 16 3 [0] s0).map fun s =>
      (s.log.length, callsOf5N s.log, outsOf5N s.log)) =
    some (20, [(10, 0), (20, 1), (11, 1), (90, 1), (91, 1), (21, 0), (90, 0), (91, 0)],
      [(1, 1), (0, 1)]) := by
  decide

end TM
