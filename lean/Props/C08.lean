/-
  Props/C08.lean — property C08: "Async concurrency: queue modes serialize, cancellation hits only
  its targets".

  The model is the labelled transition system `AS.step` of Model/AsyncSched.lean; a *schedule* is the
  order of the labels of a trace, `AS.run c (St.init c) ls = some s` says that `ls` is a trace of the
  model (any number of tasks, any nesting of trigger calls, any interleaving).  All theorems quantify
  over every configuration `c` and every such trace.
-/
import Proofs.C08

namespace TM
open AS

/-- **queue order** (both queue modes): for every queue key, processings never overlap
(`alternates`) and events start in arrival order (`fifo`). -/
theorem C08_queue_order (c : Cfg) (hq : c.queued ≠ 0) (ls : List Label) (s : St)
    (h : run c (St.init c) ls = some s) : ∀ k, serialKey c k ls = true := by
  intro k
  obtain ⟨ha, o, hi⟩ := qinv_run hq ls _ _ [] [] none (qinv_init c k) h
  simp only [List.nil_append] at hi
  simp only [serialKey, ha, fifo, Bool.true_and]
  exact List.isSublist_iff_sublist.2 hi.fifo

/-- `queued=True`: one key for all models — processing never overlaps and follows arrival order
across all models. -/
theorem C08_queue_serial (c : Cfg) (hq : c.queued = 1) (ls : List Label) (s : St)
    (h : run c (St.init c) ls = some s) :
    (∀ m, c.key m = 0) ∧ serialKey c 0 ls = true ∧ serialOK c ls = true := by
  have hne : c.queued ≠ 0 := by omega
  refine ⟨fun m => by simp [Cfg.key, hq], C08_queue_order c hne ls s h 0, ?_⟩
  simp only [serialOK, List.all_eq_true]
  exact fun k _ => C08_queue_order c hne ls s h k

/-- `queued='model'`: the same per model (different models have different keys, so they may overlap). -/
theorem C08_model_queue (c : Cfg) (hq : c.queued = 2) (ls : List Label) (s : St)
    (h : run c (St.init c) ls = some s) :
    (∀ m, c.key m = m) ∧ (∀ m, serialKey c m ls = true) ∧ serialOK c ls = true := by
  have hne : c.queued ≠ 0 := by omega
  refine ⟨fun m => by simp [Cfg.key, hq], fun m => C08_queue_order c hne ls s h m, ?_⟩
  simp only [serialOK, List.all_eq_true]
  exact fun k _ => C08_queue_order c hne ls s h k

/-- a failing event (raised, or cancelled) discards the pending events of its own queue and of no other;
an event that returns pops only itself. -/
theorem C08_fail_clears_own_queue (c : Cfg) (hq : c.queued ≠ 0) (s s' : St) (t m o : Nat)
    (h : step c s (.evend t m o) = some s') :
    (∀ k, k ≠ c.key m → s'.queue k = s.queue k) ∧
    (o ≠ 0 → s'.queue (c.key m) = []) ∧
    (o = 0 → s.queue (c.key m) = t :: s'.queue (c.key m)) := by
  simp only [step] at h
  obtain ⟨f1, f2, _, _⟩ := finished_fields s t
  unfold stepEvend at h
  split at h
  next hg =>
    try rw [if_neg hq] at h
    cases hqq : s.queue (c.key m) with
    | nil => simp only [hqq] at h; cases h
    | cons t' rest =>
      simp only [hqq] at h
      split at h
      next htt =>
        subst htt
        step_split h
        · next ho hr =>
          subst hr
          exact ⟨fun k hk => by simp [upd_ne _ _ _ _ hk], fun x => absurd ho x, fun _ => by simp⟩
        · next ho hr =>
          exact ⟨fun k hk => by simp [upd_ne _ _ _ _ hk], fun x => absurd ho x, fun _ => by simp⟩
        · next ho =>
          exact ⟨fun k hk => by simp [upd_ne _ _ _ _ hk], fun _ => by simp, fun x => absurd x ho⟩
      · cases h
  · cases h

/-- **cancel targets**: the tasks cancelled by a transition whose conditions passed are exactly the
in-flight root tasks (`call r = active ∧ chain r = r`: begun, not returned) of the same model, minus
the task of its own call chain, minus the protected tasks. -/
theorem C08_cancel_targets (c : Cfg) (ls : List Label) (s s' : St) (t : Nat) (cs : List Nat)
    (h : run c (St.init c) ls = some s) (hd : step c s (.decide t cs) = some s') :
    ∀ r, r ∈ cs ↔ (s.call r = .active ∧ s.chain r = r ∧ s.emodel r = s.emodel t ∧
                   r ≠ s.chain (s.host t) ∧ r ∉ c.prot) := by
  have hi := regInv_run h
  simp only [step] at hd
  unfold stepDecide at hd
  split at hd
  next hg =>
    intro r
    rw [hg.2.2]
    simp only [targets, List.mem_map, List.mem_filter, Bool.and_eq_true, decide_eq_true_eq, bne_iff_ne, ne_eq,
      Bool.not_eq_true', beq_iff_eq, List.contains_eq_mem, decide_eq_false_iff_not]
    constructor
    · rintro ⟨⟨m, r'⟩, ⟨hm, ⟨⟨h1, h2⟩, h3⟩, h4⟩, rfl⟩
      have := (hi.exact m r').1 hm
      exact ⟨this.1, this.2.1, by rw [this.2.2]; exact h1, h2, h3⟩
    · rintro ⟨h1, h2, h3, h4, h5⟩
      exact ⟨(s.emodel t, r), ⟨(hi.exact _ _).2 ⟨h1, h2, h3⟩, ⟨⟨rfl, h4⟩, h5⟩, h1⟩, rfl⟩
  · cases hd

/-- **cleanup**: the registry holds exactly the in-flight root tasks — in particular no finished task —
and is empty once no trigger call is active. -/
theorem C08_cleanup (c : Cfg) (ls : List Label) (s : St) (h : run c (St.init c) ls = some s) :
    (∀ m r, (m, r) ∈ s.reg → s.call r = .active) ∧ ((∀ t, s.call t ≠ .active) → s.reg = []) := by
  have hi := regInv_run h
  refine ⟨fun m r hm => ((hi.exact m r).1 hm).1, fun hq => ?_⟩
  cases hr : s.reg with
  | nil => rfl
  | cons p rest =>
    have : (p.1, p.2) ∈ s.reg := by rw [hr]; exact List.mem_cons_self ..
    exact absurd ((hi.exact _ _).1 this).1 (hq p.2)

/-- **registered state**: every model's state is a registered state, at every point of every schedule. -/
theorem C08_registered_state (c : Cfg) (hinit : c.initial ∈ c.states) (ls : List Label) (s : St)
    (h : run c (St.init c) ls = some s) : ∀ m, s.mstate m ∈ c.states :=
  run_invariant (fun s => ∀ m, s.mstate m ∈ c.states) (fun _ _ _ hp hs => mstate_step hp hs) ls _ _
    (fun _ => hinit) h

/-- **cancelled behaviour**: let a transition's `cancel_running_transitions` (`decide t cs`) cancel task `r`,
and let `e` be an event that a trigger call `h` of that task is processing at that moment
(`started`: `evstart` has happened).  Then `e` is past its transition stages from then on — it is in its
exception / finalize stage (so the finalize stage is still run through before `evend`) — and along every
continuation of the schedule no transition-stage callback of `e` starts, `e` never decides and never
writes the state. -/
theorem C08_cancelled_behaviour (c : Cfg) (s1 s2 s3 : St) (t : Nat) (cs : List Nat) (ls2 : List Label)
    (r h e : Nat) (hd : step c s1 (.decide t cs) = some s2) (hr : r ∈ cs) (hh : h ∈ s1.stack r)
    (hcur : s1.cur h = some e) (hs : started (s1.phase e)) (hrun : run c s2 ls2 = some s3) :
    5 ≤ (s2.phase e).rank ∧ (∀ l ∈ ls2, isTransitional e l = false) := by
  simp only [step] at hd
  have h5 := decide_doom hd hr hh hcur hs
  exact ⟨h5, run_no_transitional ls2 s2 s3 h5 hrun⟩

/-- **state not overwritten**: after a transition cancelled task `r`, no event that `r` was processing
writes any model state — in particular not the state the cancelling transition sets. -/
theorem C08_state_not_overwritten (c : Cfg) (s1 s2 s3 : St) (t : Nat) (cs : List Nat) (ls2 : List Label)
    (r h e : Nat) (hd : step c s1 (.decide t cs) = some s2) (hr : r ∈ cs) (hh : h ∈ s1.stack r)
    (hcur : s1.cur h = some e) (hs : started (s1.phase e)) (hrun : run c s2 ls2 = some s3) :
    ∀ v, Label.set e v ∉ ls2 := by
  intro v hv
  have := (C08_cancelled_behaviour c s1 s2 s3 t cs ls2 r h e hd hr hh hcur hs hrun).2 _ hv
  simp [isTransitional] at this

/-- `process_context`: a root task whose `_process_async` ends with CancelledError returns False and
never raises; only a nested call lets the CancelledError through (to the awaiting callback). -/
theorem C08_cancelled_returns_false (s s' : St) (t : Nat) (hc : s.outc t = some .cancelled)
    (hnd : s.deferred t = false) :
    (∀ b, stepRet s t b = some s' → b = false ∧ s.chain t = t) ∧
    (∀ x, stepRaised s t x = some s' → s.chain t ≠ t) := by
  constructor
  · intro b h
    unfold stepRet at h
    split at h
    next hg =>
      rcases hg.2.2.2 with h1 | h1 | h1
      · rw [hnd] at h1; cases h1.1
      · rw [hc] at h1; cases h1
      · exact ⟨h1.2.2, h1.2.1⟩
    · cases h
  · intro x h
    unfold stepRaised at h
    split at h
    next hg =>
      rcases hg.2.2.2 with h1 | h1
      · rw [hc] at h1; cases h1.1
      · exact h1.2.1
    · cases h

/-! ### finding: a cancellation that arrives in the finalize stage is swallowed

`_trigger` runs the finalize callbacks inside `try … except BaseException`; a task cancelled while it
is in that stage has its finalize callbacks interrupted (or never started) and the CancelledError is
swallowed, so the trigger returns the event's own result.  The model mirrors this (`deliver` leaves an
event in phase `fin` alone).  Full-strength statement, witness of its failure, and the part that holds. -/

/-- full strength (does NOT hold): the trigger of every cancelled task returns False -/
def CancelledReturnsFalse (c : Cfg) : Prop :=
  ∀ (ls1 ls2 : List Label) (t : Nat) (cs : List Nat) (r : Nat) (b : Bool),
    (run c (St.init c) (ls1 ++ .decide t cs :: ls2 ++ [.ret r b])).isSome = true → r ∈ cs → b = false

def witnessCfg : Cfg := { queued := 0, onExc := false, prot := [1], states := [0, 1], initial := 0 }

/-- task 0 completes its transition and is in its finalize stage when the (protected) task 1 decides -/
def witnessTrace : List Label :=
  [.begin 0 0 0, .evstart 0 0, .begin 1 1 0, .evstart 1 0, .decide 0 [], .set 0 1, .cb 0 2, .cb 0 4,
   .decide 1 [0], .evend 0 0 0, .ret 0 true]

theorem C08_cancelled_returns_false_counterexample : ¬ CancelledReturnsFalse witnessCfg := by
  intro h
  have := h [.begin 0 0 0, .evstart 0 0, .begin 1 1 0, .evstart 1 0, .decide 0 [], .set 0 1, .cb 0 2, .cb 0 4]
    [.evend 0 0 0] 1 [0] 0 true (by decide) (by decide)
  cases this

/-- the part that holds (`…_partial`): unless the event is already in its finalize stage (`phase = fin`
is the only phase `deliver` leaves untouched), the cancellation takes effect: the event is moved to its
exception / finalize stage with the cancellation recorded, or — with `on_exception` handlers — to the
handler stage with a result that is still False. -/
theorem C08_cancel_takes_effect_partial (c : Cfg) (s : St) (e : Nat) (hs : started (s.phase e))
    (hnf : s.phase e ≠ .fin) (hno : s.phase e ≠ .over) :
    ((deliver c s e).phase e = .exc ∧ c.onExc = true ∧ s.phase e ≠ .exc) ∨
    ((deliver c s e).phase e = .fin ∧ (deliver c s e).flag e = .cancelling) := by
  unfold deliver
  cases hp : s.phase e <;> simp_all [started, Phase.rank]
  all_goals (cases c.onExc <;> simp [upd])

/-! ### non-vacuity: traces the model accepts -/

/-- shared queue: the call for model 1 is deferred behind model 0's event and processed by task 0 -/
example : (run { queued := 1, onExc := false, prot := [], states := [0, 1], initial := 0 }
    (St.init { queued := 1, onExc := false, prot := [], states := [0, 1], initial := 0 })
    [.begin 0 0 0, .evstart 0 0, .begin 1 1 1, .ret 1 true, .cb 0 0, .decide 0 [], .set 0 1, .evend 0 0 0,
     .evstart 1 1, .fail 1, .evend 1 1 1, .raised 0 false]).isSome = true := by decide

/-- no queue: task 1's transition cancels task 0, which runs its finalize stage and returns False -/
example : (run { queued := 0, onExc := false, prot := [], states := [0, 1], initial := 0 }
    (St.init { queued := 0, onExc := false, prot := [], states := [0, 1], initial := 0 })
    [.begin 0 0 0, .evstart 0 0, .begin 1 1 0, .evstart 1 0, .cb 0 0, .decide 1 [0], .set 1 1, .cb 0 4,
     .evend 0 0 2, .ret 0 false, .evend 1 0 0, .ret 1 true]).isSome = true := by decide

/-- … and the cancelled task may not go on: a transition-stage callback of event 0 is rejected -/
example : (run { queued := 0, onExc := false, prot := [], states := [0, 1], initial := 0 }
    (St.init { queued := 0, onExc := false, prot := [], states := [0, 1], initial := 0 })
    [.begin 0 0 0, .evstart 0 0, .begin 1 1 0, .evstart 1 0, .cb 0 0, .decide 1 [0], .cb 0 0]).isSome = false := by
  decide

/-! ### dispatch: events started together are independent root tasks

`machine.dispatch(ev)` gathers `model.ev()` for every model; started outside any event, every gathered call
runs in its own task with an empty `current_context`, i.e. each is a root call (`begin t t m`).  The gather
itself keeps no machine state, so in the model a dispatch is just its per-model `begin` labels, and what one
child does when it ends — in particular when it raises — is the `ret` / `raised` step below: it touches
nothing of the other children. -/

/-- **a raising (or returning) sibling leaves the others alone**: when trigger call `t` ends — with a result
or an exception — no event changes phase or flag (nothing is cancelled, nothing is aborted), no queue changes
(no pending event of any model is discarded), every other call keeps its status, and the registry loses at
most the entry of `t` itself. -/
theorem C08_sibling_end_isolated (c : Cfg) (s s' : St) (t : Nat) (l : Label)
    (hl : (∃ b, l = .ret t b) ∨ (∃ x, l = .raised t x)) (h : step c s l = some s') :
    s'.phase = s.phase ∧ s'.flag = s.flag ∧ s'.queue = s.queue ∧ s'.drainer = s.drainer ∧
    s'.cur = s.cur ∧ s'.mstate = s.mstate ∧
    (∀ r, r ≠ t → s'.call r = s.call r) ∧
    (∀ m r, r ≠ t → ((m, r) ∈ s'.reg ↔ (m, r) ∈ s.reg)) := by
  have key : s' = endCall s t := by
    rcases hl with ⟨b, rfl⟩ | ⟨x, rfl⟩
    · simp only [step] at h; unfold stepRet at h; split at h
      · cases h; rfl
      · cases h
    · simp only [step] at h; unfold stepRaised at h; split at h
      · cases h; rfl
      · cases h
  subst key
  refine ⟨rfl, rfl, rfl, rfl, rfl, rfl, fun r hr => by simp [endCall, upd_ne _ _ _ _ hr], ?_⟩
  intro m r hr
  simp only [endCall]
  split
  · constructor
    · exact fun hm => List.mem_of_mem_erase hm
    · intro hm
      exact (List.mem_erase_of_ne (by intro e; exact hr (by cases e; rfl))).2 hm
  · exact Iff.rfl

/-- … and the failing event itself (`evend` with outcome ≠ 0) changes the phase of no other event and, by
`C08_fail_clears_own_queue`, no other queue: only a `decide` step ever delivers a cancellation. -/
theorem C08_fail_touches_own_event_only (c : Cfg) (s s' : St) (t m o : Nat)
    (h : step c s (.evend t m o) = some s') : ∀ e, e ≠ t → s'.phase e = s.phase e ∧ s'.flag e = s.flag e := by
  simp only [step] at h
  intro e he
  have hf : (finished s t).phase e = s.phase e ∧ (finished s t).flag e = s.flag e := by
    refine ⟨(finished_fields s t).2.2.1 e he, ?_⟩
    unfold finished; simp only; split <;> rfl
  unfold stepEvend at h
  step_split h <;> exact hf

end TM
