/-
  Props/C08.lean — property C08: "Async concurrency: queue modes serialize, cancellation hits only
  its targets".

  The model is the labelled transition system `AS.step` of Model/AsyncSched.lean; a *schedule* is the
  order of the labels of a trace, `AS.run c (St.init c) ls = some s` says that `ls` is a trace of the
  model (any number of tasks, any nesting of trigger calls, any interleaving).  All theorems quantify
  over every configuration `c` and every such trace.
-/
import Proofs.C08

namespace TM
open AS

/-- **queue order** (both queue modes): for every queue key, processings never overlap
(`alternates`) and events start in arrival order (`fifo`). -/
theorem C08_queue_order (c : Cfg) (hq : c.queued ≠ 0) (ls : List Label) (s : St)
    (h : run c (St.init c) ls = some s) : ∀ k, serialKey c k ls = true := by
  intro k
  obtain ⟨ha, o, hi⟩ := qinv_run hq ls _ _ [] [] none (qinv_init c k) h
  simp only [List.nil_append] at hi
  simp only [serialKey, ha, fifo, Bool.true_and]
  exact List.isSublist_iff_sublist.2 hi.fifo

/-- `queued=True`: one key for all models — processing never overlaps and follows arrival order
across all models. -/
theorem C08_queue_serial (c : Cfg) (hq : c.queued = 1) (ls : List Label) (s : St)
    (h : run c (St.init c) ls = some s) :
    (∀ m, c.key m = 0) ∧ serialKey c 0 ls = true ∧ serialOK c ls = true := by
  have hne : c.queued ≠ 0 := by omega
  refine ⟨fun m => by simp [Cfg.key, hq], C08_queue_order c hne ls s h 0, ?_⟩
  simp only [serialOK, List.all_eq_true]
  exact fun k _ => C08_queue_order c hne ls s h k

/-- `queued='model'`: the same per model (different models have different keys, so they may overlap). -/
theorem C08_model_queue (c : Cfg) (hq : c.queued = 2) (ls : List Label) (s : St)
    (h : run c (St.init c) ls = some s) :
    (∀ m, c.key m = m) ∧ (∀ m, serialKey c m ls = true) ∧ serialOK c ls = true := by
  have hne : c.queued ≠ 0 := by omega
  refine ⟨fun m => by simp [Cfg.key, hq], fun m => C08_queue_order c hne ls s h m, ?_⟩
  simp only [serialOK, List.all_eq_true]
  exact fun k _ => C08_queue_order c hne ls s h k

/-- a failing event (raised, or cancelled) discards the pending events of its own queue and of no other;
an event that returns pops only itself. -/
theorem C08_fail_clears_own_queue (c : Cfg) (hq : c.queued ≠ 0) (s s' : St) (t m o : Nat)
    (h : step c s (.evend t m o) = some s') :
    (∀ k, k ≠ c.key m → s'.queue k = s.queue k) ∧
    (o ≠ 0 → s'.queue (c.key m) = []) ∧
    (o = 0 → s.queue (c.key m) = t :: s'.queue (c.key m)) := by
  simp only [step] at h
  obtain ⟨f1, f2, _, _⟩ := finished_fields s t
  unfold stepEvend at h
  split at h
  next hg =>
    try rw [if_neg hq] at h
    cases hqq : s.queue (c.key m) with
    | nil => simp only [hqq] at h; cases h
    | cons t' rest =>
      simp only [hqq] at h
      split at h
      next htt =>
        subst htt
        step_split h
        · next ho hr =>
          subst hr
          exact ⟨fun k hk => by simp [upd_ne _ _ _ _ hk], fun x => absurd ho x, fun _ => by simp⟩
        · next ho hr =>
          exact ⟨fun k hk => by simp [upd_ne _ _ _ _ hk], fun x => absurd ho x, fun _ => by simp⟩
        · next ho =>
          exact ⟨fun k hk => by simp [upd_ne _ _ _ _ hk], fun _ => by simp, fun x => absurd x ho⟩
      · cases h
  · cases h

/-- **cancel targets**: the tasks cancelled by a transition whose conditions passed are exactly the
in-flight root tasks (`call r = active ∧ chain r = r`: begun, not returned) of the same model, minus
the task of its own call chain, minus the protected tasks. -/
theorem C08_cancel_targets (c : Cfg) (ls : List Label) (s s' : St) (t : Nat) (cs : List Nat)
    (h : run c (St.init c) ls = some s) (hd : step c s (.decide t cs) = some s') :
    ∀ r, r ∈ cs ↔ (s.call r = .active ∧ s.chain r = r ∧ s.emodel r = s.emodel t ∧
                   r ≠ s.chain (s.host t) ∧ r ∉ c.prot) := by
  have hi := regInv_run h
  simp only [step] at hd
  unfold stepDecide at hd
  split at hd
  next hg =>
    intro r
    rw [hg.2.2]
    simp only [targets, List.mem_map, List.mem_filter, Bool.and_eq_true, decide_eq_true_eq, bne_iff_ne, ne_eq,
      Bool.not_eq_true', beq_iff_eq, List.contains_eq_mem, decide_eq_false_iff_not]
    constructor
    · rintro ⟨⟨m, r'⟩, ⟨hm, ⟨⟨h1, h2⟩, h3⟩, h4⟩, rfl⟩
      have := (hi.exact m r').1 hm
      exact ⟨this.1, this.2.1, by rw [this.2.2]; exact h1, h2, h3⟩
    · rintro ⟨h1, h2, h3, h4, h5⟩
      exact ⟨(s.emodel t, r), ⟨(hi.exact _ _).2 ⟨h1, h2, h3⟩, ⟨⟨rfl, h4⟩, h5⟩, h1⟩, rfl⟩
  · cases hd

/-- **cleanup**: the registry holds exactly the in-flight root tasks — in particular no finished task —
and is empty once no trigger call is active. -/
theorem C08_cleanup (c : Cfg) (ls : List Label) (s : St) (h : run c (St.init c) ls = some s) :
    (∀ m r, (m, r) ∈ s.reg → s.call r = .active) ∧ ((∀ t, s.call t ≠ .active) → s.reg = []) := by
  have hi := regInv_run h
  refine ⟨fun m r hm => ((hi.exact m r).1 hm).1, fun hq => ?_⟩
  cases hr : s.reg with
  | nil => rfl
  | cons p rest =>
    have : (p.1, p.2) ∈ s.reg := by rw [hr]; exact List.mem_cons_self ..
    exact absurd ((hi.exact _ _).1 this).1 (hq p.2)

/-- **registered state**: every model's state is a registered state, at every point of every schedule. -/
theorem C08_registered_state (c : Cfg) (hinit : c.initial ∈ c.states) (ls : List Label) (s : St)
    (h : run c (St.init c) ls = some s) : ∀ m, s.mstate m ∈ c.states :=
  run_invariant (fun s => ∀ m, s.mstate m ∈ c.states) (fun _ _ _ hp hs => mstate_step hp hs) ls _ _
    (fun _ => hinit) h

end TM
