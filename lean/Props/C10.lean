/-
  Props/C10.lean — property C10: "Models of one machine are independent; dispatch reaches each
  exactly once" — flat synchronous engine (`Model/Core.lean`: `triggerByName`, `dispatchLoop`,
  `addModel`, `removeModel`).

  Quantifiers: every configuration, every engine state (any number of models in any states), EVERY
  script without re-entrant commands (callbacks may return anything and raise anything).
-/
import Proofs.Frame

namespace TM

/-- what `dispatch` is documented to do: trigger the event on each model of the list, in order,
each exactly once, with the dispatch call's arguments; the result is the conjunction; an exception
that escapes one trigger ends the walk (the list comprehension propagates it). -/
def dispatchSeq (sub : Sub) (sc : Script) (cfg : Cfg) (qmax ev tag : Nat) : List Nat → Bool → St → R Bool
  | [], acc, s => .ok acc s
  | m :: ms, acc, s =>
    (triggerByName sub sc cfg qmax m ev tag s).bind fun b s' => dispatchSeq sub sc cfg qmax ev tag ms (acc && b) s'

/-- **C10, dispatch.** The walk over the *live* model list (`dispatchLoop`, what the code does)
equals the sequential specification over the models registered when the call was made: every
registered model, registration order, exactly once, conjunction of the results. -/
theorem C10_dispatch_each_once_in_order (sub : Sub) (sc : Script) (cfg : Cfg) (hC : NoCmds sc)
    (hq : cfg.queued = false) (qmax ev tag : Nat) :
    ∀ (n i : Nat) (acc : Bool) (s : St), s.models.length - i < n →
      dispatchLoop sub sc cfg qmax ev tag n i acc s = dispatchSeq sub sc cfg qmax ev tag (s.models.drop i) acc s := by
  intro n
  induction n with
  | zero => intro i acc s h; omega
  | succ n ih =>
    intro i acc s h
    unfold dispatchLoop
    cases hi : s.models[i]? with
    | none =>
      have : s.models.length ≤ i := by
        rcases Nat.lt_or_ge i s.models.length with hlt | hge
        · rw [List.getElem?_eq_getElem hlt] at hi; cases hi
        · exact hge
      simp [List.drop_eq_nil_of_le this, dispatchSeq]
    | some m =>
      have hlt : i < s.models.length := by
        rcases Nat.lt_or_ge i s.models.length with hlt | hge
        · exact hlt
        · rw [List.getElem?_eq_none hge] at hi; cases hi
      have hd : s.models.drop i = m :: s.models.drop (i + 1) := by
        rw [List.drop_eq_getElem_cons hlt]
        rw [List.getElem?_eq_getElem hlt] at hi
        cases hi; rfl
      simp only [hd, dispatchSeq]
      have hp := triggerByName_pres sub sc cfg hC hq qmax m ev tag s
      cases hr : triggerByName sub sc cfg qmax m ev tag s with
      | ok b s1 =>
        have hm : s1.models = s.models := (hp s1 (by simp [hr, Res.state?])).frame.models
        simp only [Res.bind]
        rw [ih (i + 1) (acc && b) s1 (by rw [hm]; omega), hm]
      | err e s1 => simp [Res.bind]
      | oof => simp [Res.bind]

/-- **C10, locality of an event.** A trigger on model `m` (unqueued, any outcome) leaves the model
list untouched, invokes callbacks only on behalf of `m`, and changes no other model's state. -/
theorem C10_trigger_local (sub : Sub) (sc : Script) (cfg : Cfg) (hC : NoCmds sc) (hWF : cfg.WF)
    (hq : cfg.queued = false) (qmax m ev : Nat) (s : St) (src : Nat) (ts : List Trans)
    (hev : cfg.event? ev = some ts) (hm : alookup m s.mstate = some src) (hreg : (cfg.state? src).isSome)
    (hidle : s.queue = []) :
    ∃ (s' : St) (seg : List Item),
      (apiTrigger sub sc cfg qmax m ev s).state? = some s' ∧ s'.models = s.models ∧
      s'.log = s.log ++ .api 0 s.nextTag m ev :: seg ∧
      (∀ it ∈ seg, ∀ sl c m' t st, it = Item.call sl c m' t st → m' = m) ∧
      ∀ m', m' ≠ m → alookup m' s'.mstate = alookup m' s.mstate := by
  obtain ⟨s', st', seg, e, l, ms, _, md, _, _, _⟩ :=
    apiTrigger_any sub sc cfg hC hWF hq qmax m ev s src ts hev hm hreg hidle
  refine ⟨s', seg, e, md, l, ?_, ?_⟩
  · -- callbacks only on behalf of `m`: from the extension lemma of the engine
    let s1 : St := ({ s with nextTag := s.nextTag + 1 }).emit (.api 0 s.nextTag m ev)
    have hp := triggerByName_pres sub sc cfg hC hq qmax m ev s.nextTag s1
    -- the state reached by `apiTrigger` is the state reached by `triggerByName` plus the outcome item
    have : ∃ s2 it, (triggerByName sub sc cfg qmax m ev s.nextTag s1).state? = some s2 ∧ s' = s2.emit it ∧
        (∀ sl c m' t st, it ≠ Item.call sl c m' t st) := by
      unfold apiTrigger at e
      cases hr : triggerByName sub sc cfg qmax m ev s.nextTag s1 with
      | ok b s2 =>
        have e' : (Res.ok b (s2.emit (.ret s.nextTag b)) : R Bool).state? = some s' := by simpa [s1, hr] using e
        exact ⟨s2, .ret s.nextTag b, rfl, by simpa [Res.state?] using e'.symm, by intros; simp⟩
      | err ex s2 =>
        have e' : (Res.err ex (s2.emit (.raised s.nextTag ex)) : R Bool).state? = some s' := by simpa [s1, hr] using e
        exact ⟨s2, .raised s.nextTag ex, rfl, by simpa [Res.state?] using e'.symm, by intros; simp⟩
      | oof =>
        have e' : (Res.oof : R Bool).state? = some s' := by simpa [s1, hr] using e
        simp [Res.state?] at e'
    obtain ⟨s2, it0, h2, rfl, hit0⟩ := this
    obtain ⟨g, lg, og⟩ := (hp s2 h2).log
    have hlog : s.log ++ .api 0 s.nextTag m ev :: seg = s.log ++ [.api 0 s.nextTag m ev] ++ g ++ [it0] := by
      rw [← l]; simp [St.emit, lg, s1]
    have hseg : seg = g ++ [it0] := by
      have := hlog
      simp only [List.append_assoc, List.singleton_append, List.cons_append] at this
      have h3 := List.append_cancel_left this
      simpa using h3
    intro it hit sl c m' t st heq
    rw [hseg] at hit
    rcases List.mem_append.mp hit with h | h
    · exact og it h sl c m' t st heq
    · simp at h; subst h; exact absurd heq (hit0 sl c m' t st)
  · intro m' hne
    rw [ms, alookup_aset_ne _ _ _ hne]

/-- adding a registered model again has no effect whatsoever -/
theorem C10_add_twice_noop (cfg : Cfg) (m : Nat) (s : St) (h : m ∈ s.models) : addModel cfg m s = .ok () s := by
  simp [addModel, h]

/-- a model added later is registered last and starts in the machine's initial state -/
theorem C10_add_later (cfg : Cfg) (m : Nat) (s : St) (h : m ∉ s.models) (hi : (cfg.state? cfg.initial).isSome) :
    ∃ s', addModel cfg m s = .ok () s' ∧ s'.models = s.models ++ [m] ∧ s'.stateOf m = cfg.initial ∧
      ∀ m', m' ≠ m → alookup m' s'.mstate = alookup m' s.mstate := by
  obtain ⟨d, hd⟩ := Option.isSome_iff_exists.mp hi
  refine ⟨{ (s.setState m cfg.initial) with models := s.models ++ [m] }, by simp [addModel, h, hd], rfl, ?_, ?_⟩
  · simp [St.stateOf, St.setState, alookup_aset_self]
  · intro m' hne; simp [St.setState, alookup_aset_ne _ _ _ hne]

/-- a removed model is no longer in the list, nothing of it stays in the queue behind the event in
progress, every other model keeps its place, and no model's state is touched -/
theorem C10_removed_untouched (m : Nat) (s : St) (h : m ∈ s.models) :
    ∃ s', removeModel m s = .ok () s' ∧ s'.models = s.models.erase m ∧ s'.mstate = s.mstate ∧
      (∀ e ∈ s'.queue.drop 1, e.1 ≠ m) ∧ s'.queue.take 1 = s.queue.take 1 := by
  unfold removeModel
  simp only [h, if_true]
  cases hq : s.queue with
  | nil => exact ⟨_, rfl, rfl, rfl, by simp [hq], by simp [hq]⟩
  | cons hd rest =>
    refine ⟨_, rfl, rfl, rfl, ?_, by simp⟩
    intro e he
    simp only [List.drop_succ_cons, List.drop_zero, List.mem_filter] at he
    simpa using he.2

/-- hence a dispatch after the removal does not reach it: `dispatchSeq` walks exactly `models` -/
theorem C10_removed_not_dispatched (m : Nat) (s : St) (hnd : s.models.Nodup) :
    m ∉ s.models.erase m := by
  exact fun hmem => (List.Nodup.mem_erase_iff hnd).mp hmem |>.1 rfl

/-! ### non-vacuity -/

def exCfg10 : Cfg :=
  { states := [{ name := 0 }, { name := 1, onEnter := [11] }],
    events := [(0, [{ source := 0, dest := some 1, conds := [⟨20, true⟩] }])], initial := 0 }
/-- condition 20 fails on its second invocation: the second model is blocked, the third is still reached -/
def exScript10 : Script := fun c k => if c = 20 ∧ k = 1 then { out := .ret false } else {}
example : NoCmds exScript10 := by intro c k; unfold exScript10; split <;> rfl
example : ((runHistory exScript10 exCfg10 8 2 [.dispatch 0] (St.init exCfg10 [0, 1, 2])).map
    fun s => (s.log.getLast?, s.stateOf 0, s.stateOf 1, s.stateOf 2)) = some (some (.ret 0 false), 1, 0, 1) := by decide

end TM
