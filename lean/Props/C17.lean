/-
  Props/C17.lean — property C17: "State timeouts fire once, on time, and only while the state is
  still active".

  Model: Model/Timeout.lean (timer objects, runner slot per state and model, cancel-if-alive on exit,
  firing under a virtual clock, handlers that trigger an event or raise; `Cfg.resolve` — which states
  an event exits and enters — is an arbitrary function, so every statement below holds for every
  engine, flat or hierarchical).  Property predicate: the acceptor `C17.accepts` of
  Model/Spec/C17.lean; it is the function the compiled driver runs on the implementation's traces.

  Quantifiers: every configuration (timeouts, handlers, raising handlers, on_exception or not, async or
  threaded), every engine function, every initial assignment of states to models, every timed history
  (ticks with early events, events) of any length.  Hypothesis of the main theorems: the run never
  enters an armed state without leaving it first (`leaked = false`, a ghost flag computed by the model;
  `C17_unbracketed_counterexample` shows the property fails without it — the code overwrites the slot
  and the older timer keeps running).
-/
import Proofs.C17

namespace TM
open Timeout C17

/-- (A) every trace of the model is accepted by the property acceptor -/
theorem C17_model_accepted (cfg : Cfg) (hk : ∀ m, cfg.key m = m) (cur : Nat → Nat) (h : List Op)
    (hb : (run cfg h (St.init cur)).leaked = false) :
    accepts (specOf cfg) (run cfg h (St.init cur)).log = true := by
  obtain ⟨q, g⟩ := run_inv cfg hk h (St.init cur) (init_quiet cur) (fun _ => init_good cfg hk cur)
  have g' := g hb
  simp only [accepts, g'.ok, quiet_of cfg hk _ g' q, Bool.and_self]

/-- what acceptance means, direction "fires ⟹": a firing of (m, s) in an accepted trace is preceded
by an entry of (m, s) exactly `timeout s` ticks earlier with no entry, exit or firing of (m, s) in
between (on time; only while still active; once per entry; the *latest* entry counts, so re-entry
restarts the period) -/
theorem C17_fired_only_when_due (sp : Spec) (m s : Nat) (pre post : List Rec)
    (h : accepts sp (pre ++ .fired m s :: post) = true) :
    ∃ pre1 mid, pre = pre1 ++ .enter m s :: mid ∧ 0 < sp.timeout s ∧ Clean m s mid ∧ ticks mid = sp.timeout s := by
  simp only [accepts, Bool.and_eq_true] at h
  exact fired_origin sp m s pre post h.1

/-- direction "⟸ fires": after an entry of a state with a positive timeout, as long as nothing about
(m, s) happens, an accepted trace contains at most `timeout s` ticks — the clock cannot pass the
deadline without the firing — and a complete accepted observation that ends there has not reached it -/
theorem C17_due_must_fire (sp : Spec) (m s : Nat) (pre mid post : List Rec) (hT : 0 < sp.timeout s)
    (hc : Clean m s mid) (h : accepts sp (pre ++ .enter m s :: (mid ++ post)) = true) :
    ticks mid ≤ sp.timeout s ∧ (post = [] → ticks mid < sp.timeout s) := by
  simp only [accepts, Bool.and_eq_true] at h
  obtain ⟨a, b⟩ := must_fire sp m s pre mid post hT hc h.1
  refine ⟨a, fun hp => b hp ?_⟩
  subst hp
  simpa using h.2

/-- both directions for the model's own traces: a timeout of (s, m) fires at time t iff the state was
entered at t − timeout and not left (nor fired) in between -/
theorem C17_fires_iff (cfg : Cfg) (hk : ∀ m, cfg.key m = m) (cur : Nat → Nat) (h : List Op)
    (hb : (run cfg h (St.init cur)).leaked = false) :
    (∀ pre m s post, (run cfg h (St.init cur)).log = pre ++ .fired m s :: post →
      ∃ pre1 mid, pre = pre1 ++ .enter m s :: mid ∧ 0 < cfg.timeout s ∧ Clean m s mid ∧ ticks mid = cfg.timeout s) ∧
    (∀ pre m s mid post, (run cfg h (St.init cur)).log = pre ++ .enter m s :: (mid ++ post) →
      0 < cfg.timeout s → Clean m s mid → ticks mid ≤ cfg.timeout s ∧ (post = [] → ticks mid < cfg.timeout s)) := by
  have hacc := C17_model_accepted cfg hk cur h hb
  constructor
  · intro pre m s post e
    rw [e] at hacc
    exact C17_fired_only_when_due (specOf cfg) m s pre post hacc
  · intro pre m s mid post e hT hc
    rw [e] at hacc
    exact C17_due_must_fire (specOf cfg) m s pre mid post hT hc hacc

/-- at most once per entry: between two firings of (m, s) the state has been entered again -/
theorem C17_once (sp : Spec) (m s : Nat) (pre mid post : List Rec)
    (h : accepts sp (pre ++ .fired m s :: (mid ++ .fired m s :: post)) = true) : .enter m s ∈ mid := by
  simp only [accepts, Bool.and_eq_true] at h
  exact fired_needs_enter sp m s pre mid post _ (Or.inr rfl) h.1

/-- never after the state was left: between an exit and a firing of (m, s) lies a new entry -/
theorem C17_never_after_exit (sp : Spec) (m s : Nat) (pre mid post : List Rec)
    (h : accepts sp (pre ++ .exit m s :: (mid ++ .fired m s :: post)) = true) : .enter m s ∈ mid := by
  simp only [accepts, Bool.and_eq_true] at h
  exact fired_needs_enter sp m s pre mid post _ (Or.inl rfl) h.1

/-- re-entering restarts the period: whatever the slot held, after `exit` + `enter` (and after a bare
`enter`) it holds a fresh waiting timer due `timeout` from now -/
theorem C17_restart_on_reenter (cfg : Cfg) (hk : ∀ m, cfg.key m = m) (m s : Nat) (st : St) (hT : 0 < cfg.timeout s) :
    slot (tEnter cfg m s (tExit cfg m s st)) s m
      = some { deadline := st.now + cfg.timeout s, m := m, s := s, phase := .waiting } ∧
    slot (tEnter cfg m s st) s m
      = some { deadline := st.now + cfg.timeout s, m := m, s := s, phase := .waiting } := by
  have hn := (tExit_fields cfg hk m s st).2.1
  constructor
  · simp [slot, tEnter, hT, hn, hk m]
  · simp [slot, tEnter, hT, hk m]

/-- timers of different models are independent: an event on model m leaves the state of every other
model, the timer in each of its runner slots (deadline and phase) and its records untouched — also
for two models in the same state -/
theorem C17_models_independent (cfg : Cfg) (hk : ∀ m, cfg.key m = m) (m m' e : Nat) (st : St) (hne : m ≠ m') (hty : Typed st) :
    (trigger cfg m e st).cur m' = st.cur m' ∧
    (∀ s, slot (trigger cfg m e st) s m' = slot st s m') ∧
    (∃ seg, (trigger cfg m e st).log = st.log ++ seg ∧ ∀ r ∈ seg, recModel r ≠ some m') ∧
    Typed (trigger cfg m e st) := by
  have f := trigger_frame cfg hk m m' e st hne hty
  exact ⟨f.cur, f.slot, f.log, f.typed⟩

/-- the typing hypothesis of the frame theorem holds in every reachable state -/
theorem C17_typed_reachable (cfg : Cfg) (hk : ∀ m, cfg.key m = m) (cur : Nat → Nat) (h : List Op)
    (hb : (run cfg h (St.init cur)).leaked = false) : Typed (run cfg h (St.init cur)) :=
  ((run_inv cfg hk h (St.init cur) (init_quiet cur) (fun _ => init_good cfg hk cur)).2 hb).typed

/-- internal transitions keep the timer: nothing at all changes -/
theorem C17_internal_keeps_timer (cfg : Cfg) (m e : Nat) (st : St)
    (h : cfg.resolve (st.cur m) e = some .stay) : trigger cfg m e st = st := by
  simp [trigger, h]

/-- a positive timeout without an on_timeout handler is rejected at construction — and nothing else is -/
theorem C17_reject_missing_handler (timeout : Nat) (onTimeout : Option Nat) :
    mkState timeout onTimeout = .attributeError ↔ (0 < timeout ∧ onTimeout = none) := by
  unfold mkState
  by_cases hT : 0 < timeout
  · cases onTimeout <;> simp [hT]
  · simp [hT]

/-- a handler that has started is not cancelled by the transition it triggers: whatever its event
exits — including its own state, whose `exit` calls `cancel()` on the running timer — the handler
runs to its end (`firedEnd` closes the firing), and that `cancel()` is without effect.  `hq`: no
callback of the triggered transitions lets an exception escape into the handler -/
theorem C17_async_started_handler_survives (cfg : Cfg) (hk : ∀ m, cfg.key m = m) (i : Nat) (st : St) (t : Timer)
    (hi : st.timers[i]? = some t) (hw : t.phase = .waiting) (hr : cfg.raises t.s = false)
    (hq : ∀ s e prog d, cfg.resolve s e ≠ some (.move prog d true)) :
    (∃ mid, (fire cfg i st).log = st.log ++ .fired t.m t.s :: mid ++ [.firedEnd t.m t.s]) ∧
    (∀ (st' : St) (t' : Timer), st'.runner t.s t.m = some i → st'.timers[i]? = some t' → t'.phase = .running →
      (tExit cfg t.m t.s st').timers = st'.timers) := by
  constructor
  · obtain ⟨mid, h⟩ := fire_log cfg hk i st t hi hw
    have hnr : handlerRaises cfg st i t = false := by
      unfold handlerRaises
      cases cfg.action t.s with
      | none => rfl
      | some e =>
        simp only [triggerRaises]
        split
        · rename_i prog d r heq
          cases r with
          | false => rfl
          | true => exact absurd heq (hq _ _ _ _)
        · rfl
    exact ⟨mid, by rw [h, hnr, hr]; simp⟩
  · intro st' t' h1 h2 h3
    exact tExit_running cfg hk t.m t.s i st' t' h1 h2 h3

/-- a failing handler is routed to on_exception (async class, machine with on_exception callbacks):
the firing closes with `raised` immediately followed by `routed` -/
theorem C17_async_error_routed (cfg : Cfg) (hk : ∀ m, cfg.key m = m) (i : Nat) (st : St) (t : Timer)
    (hi : st.timers[i]? = some t) (hw : t.phase = .waiting) (hr : cfg.raises t.s = true)
    (ha : cfg.async = true) (he : cfg.onExc = true) :
    ∃ mid, (fire cfg i st).log = st.log ++ .fired t.m t.s :: mid ++ [.raised t.m t.s, .routed t.m t.s] := by
  obtain ⟨mid, h⟩ := fire_log cfg hk i st t hi hw
  exact ⟨mid, by rw [h]; simp [hr, ha, he]⟩

/-! ### non-vacuity and the counterexample -/

/-- two states; state 1 has timeout 2 and a handler that triggers event 0; event 0 toggles 1 ↔ 2 -/
def c17Cfg : Cfg :=
  { timeout := fun s => if s = 1 then 2 else 0
    action := fun s => if s = 1 then some 0 else none
    raises := fun _ => false, onExc := false, async := false
    resolve := fun s e =>
      if e = 0 then (if s = 1 then some (.move [(false, 1), (true, 2)] 2 false) else some (.move [(false, 2), (true, 1)] 1 false))
      else if e = 1 then some .stay else none }

/-- an on_enter callback of state 1 that moves the model on at once (re-entrant trigger): the engine's
calls are enter 1, exit 1, enter 2 within one event; the timer started by `enter 1` is cancelled by the
`exit 1` that follows, so nothing fires (the order timer-start / callbacks matters exactly here) -/
def c17ReentrantCfg : Cfg :=
  { c17Cfg with action := fun _ => none,
                resolve := fun _ e => if e = 0 then some (.move [(false, 2), (true, 1), (false, 1), (true, 2)] 2 false) else none }

example : (run c17ReentrantCfg [.ev 0 0, .tick [], .tick [], .tick []] (St.init fun _ => 2)).log =
    [.exit 0 2, .enter 0 1, .exit 0 1, .enter 0 2, .tick, .tick, .tick] := by decide

/-- what the acceptor says about the other order (timer started after the callbacks returned) -/
example : accepts (specOf c17ReentrantCfg)
    [.exit 0 2, .enter 0 1, .exit 0 1, .enter 0 2, .tick, .tick, .fired 0 1, .firedEnd 0 1, .tick] = false := by decide

/-- enter 1, leave it after one tick (timer cancelled), enter it again, an internal event, wait two ticks: fires -/
def c17Hist : List Op := [.ev 0 0, .tick [], .ev 0 0, .ev 0 0, .ev 0 1, .tick [], .tick [], .tick []]

example : (run c17Cfg c17Hist (St.init fun _ => 2)).leaked = false := by decide

example : (run c17Cfg c17Hist (St.init fun _ => 2)).log =
    [.exit 0 2, .enter 0 1, .tick, .exit 0 1, .enter 0 2, .exit 0 2, .enter 0 1, .tick, .tick,
     .fired 0 1, .exit 0 1, .enter 0 2, .firedEnd 0 1, .tick] := by decide

example : accepts (specOf c17Cfg) (run c17Cfg c17Hist (St.init fun _ => 2)).log = true :=
  C17_model_accepted c17Cfg (fun _ => rfl) _ c17Hist (by decide)

/-- the acceptor is not trivial: a late firing, a firing after the exit, a second firing, a missed
firing and an unfinished handler are all rejected -/
example : accepts (specOf c17Cfg) [.enter 0 1, .tick, .tick, .tick, .fired 0 1, .firedEnd 0 1] = false := by decide
example : accepts (specOf c17Cfg) [.enter 0 1, .tick, .exit 0 1, .tick, .fired 0 1, .firedEnd 0 1] = false := by decide
example : accepts (specOf c17Cfg) [.enter 0 1, .tick, .tick, .fired 0 1, .firedEnd 0 1, .fired 0 1, .firedEnd 0 1] = false := by
  decide
example : accepts (specOf c17Cfg) [.enter 0 1, .tick, .tick, .tick] = false := by decide
example : accepts (specOf c17Cfg) [.enter 0 1, .tick, .tick, .fired 0 1, .exit 0 1, .tick] = false := by decide
example : accepts (specOf c17Cfg) [.enter 0 1, .enter 1 1, .tick, .exit 1 1, .tick, .fired 0 1, .firedEnd 0 1] = true := by
  decide

/-- an engine that enters state 1 again without leaving it -/
def c17LeakCfg : Cfg :=
  { c17Cfg with action := fun _ => none, resolve := fun _ e => if e = 0 then some (.move [(true, 1)] 1 false) else some (.move [(false, 1), (true, 2)] 2 false) }

/-- without the bracketing hypothesis the property is false of the code as modelled: the second
`enter` overwrites the runner slot, the first timer can no longer be cancelled and fires after the
state has been left -/
theorem C17_unbracketed_counterexample :
    (run c17LeakCfg [.ev 0 0, .tick [], .ev 0 0, .ev 0 1, .tick [], .tick []] (St.init fun _ => 2)).leaked = true ∧
    accepts (specOf c17LeakCfg)
      (run c17LeakCfg [.ev 0 0, .tick [], .ev 0 0, .ev 0 1, .tick [], .tick []] (St.init fun _ => 2)).log = false := by
  decide


/-! ### `state.timeout` assigned at runtime -/

/-- one segment: `acceptsV` is `accepts` -/
theorem C17_acceptsV_single (sp : Spec) (recs : List Rec) : acceptsV [(sp, recs)] = accepts sp recs := rfl

/-- a history without assignments to `timeout` runs as before, so every theorem above applies to it -/
theorem C17_runV_const (cfg : Cfg) (h : List Op) (st : St) :
    runV cfg (h.map .op) st = (cfg, run cfg h st) := by
  induction h generalizing st with
  | nil => rfl
  | cons o rest ih =>
    simp only [List.map_cons, runV, List.foldl_cons, stepV]
    exact ih (step cfg st o)

/-- the reading of `Timeout.exit`: it cancels whatever is armed in the model's slot and does not
consult `timeout` — the result is the same under every assignment of timeouts (in particular after the
state's timeout has been set to 0 while a timer is pending), and afterwards nothing is armed for
(state, model).  The deadline a timer was armed with is its own (`Timer.deadline`), no later
assignment to `timeout` touches it (`setTimeout` does not change the state at all). -/
theorem C17_exit_cancels_whatever_is_armed (cfg : Cfg) (hk : ∀ m, cfg.key m = m) (m s s' v : Nat) (st : St)
    (hty : Typed st) :
    tExit (cfg.setTimeout s' v) m s st = tExit cfg m s st ∧ armedOf (tExit cfg m s st) s m = none := by
  constructor
  · rfl
  · cases hr : st.runner s m with
    | none =>
      obtain ⟨h1, _, _, _, _⟩ := tExit_fields cfg hk m s st
      simp [armedOf, h1, hr]
    | some i =>
      have q := tExit_quench cfg hk m s st i hr
      rw [q.armedOf hty]
      simp [hr]

/-- two models 0 and 1 … the timeout of state 1 is switched off while model 0's timer is pending; model 0
leaves before its deadline: nothing fires (the exit cancels the pending timer although `timeout` is 0 now) -/
example : (runV c17Cfg [.op (.ev 0 0), .op (.tick []), .setT 1 0, .op (.ev 0 0), .op (.tick []), .op (.tick [])]
    (St.init fun _ => 2)).2.log = [.exit 0 2, .enter 0 1, .tick, .exit 0 1, .enter 0 2, .tick, .tick] := by decide

/-- what the acceptor says when the handler runs anyway -/
example : acceptsV [(specOf c17Cfg, [.exit 0 2, .enter 0 1, .tick]),
    (specOf (c17Cfg.setTimeout 1 0), [.exit 0 1, .enter 0 2, .tick, .fired 0 1, .firedEnd 0 1, .tick])] = false := by decide

/-! ### the runner key

`Cfg.key` is the key under which a state's `runner` dict files a model's timer; the code uses
`id(model)`, i.e. the identity (hypothesis `hk` of the theorems above; it is the default of the
structure, so every configuration built without naming `key` has it). -/

/-- two models 0 and 1, one state 1 with timeout 2; event 0 enters it, event 1 leaves it -/
def c17TwoCfg (key : Nat → Nat) : Cfg :=
  { timeout := fun s => if s = 1 then 2 else 0, action := fun _ => none, raises := fun _ => false,
    onExc := false, async := true, key := key,
    resolve := fun s e => if e = 0 ∧ s = 2 then some (.move [(false, 2), (true, 1)] 1 false)
                          else if e = 1 ∧ s = 1 then some (.move [(false, 1), (true, 2)] 2 false) else none }

/-- model 0 enters at 0, model 1 enters at 1, model 0 leaves at 1 (before its timeout), then time passes:
each model enters and leaves on its own, strictly alternating -/
def c17TwoHist : List Op := [.ev 0 0, .tick [], .ev 1 0, .ev 0 1, .tick [], .tick [], .tick []]

/-- with the identity key the two models do not interfere: model 0 never times out, model 1 does, on time -/
example : (run (c17TwoCfg id) c17TwoHist (St.init fun _ => 2)).log =
    [.exit 0 2, .enter 0 1, .tick, .exit 1 2, .enter 1 1, .exit 0 1, .enter 0 2, .tick, .tick,
     .fired 1 1, .firedEnd 1 1, .tick] := by decide

example : accepts (specOf (c17TwoCfg id)) (run (c17TwoCfg id) c17TwoHist (St.init fun _ => 2)).log = true :=
  C17_model_accepted (c17TwoCfg id) (fun _ => rfl) _ c17TwoHist (by decide)

/-- a coarser key (two distinct models that compare equal share one runner slot: a dict keyed by the
model object instead of `id(model)`) breaks independence: model 1's entry overwrites the slot, model
0's exit cancels model 1's timer, model 0's orphaned timer fires after model 0 has left the state and
model 1 never times out — the acceptor rejects the trace although every model enters and leaves the
state strictly alternately -/
theorem C17_coarse_key_counterexample :
    (run (c17TwoCfg fun _ => 0) c17TwoHist (St.init fun _ => 2)).log =
      [.exit 0 2, .enter 0 1, .tick, .exit 1 2, .enter 1 1, .exit 0 1, .enter 0 2, .tick,
       .fired 0 1, .firedEnd 0 1, .tick, .tick] ∧
    accepts (specOf (c17TwoCfg fun _ => 0)) (run (c17TwoCfg fun _ => 0) c17TwoHist (St.init fun _ => 2)).log = false := by
  decide

end TM
