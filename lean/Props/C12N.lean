/-
  Props/C12N.lean — property C12 on the HIERARCHICAL engine: "may_<event>() / may_trigger(name) return True exactly
  when triggering that event right away would execute a transition — for every active configuration, including parallel
  states and transitions inherited from ancestors.  Evaluating it runs only prepare-stage and condition callbacks, never
  changes any model's state and never runs before/exit/enter/after/finalize callbacks; transitions whose destination is
  not a registered state count as impossible; exceptions from the evaluated callbacks are routed to on_exception handlers
  when present and raised otherwise."

  Model: `Model/NestedMay.lean` (`ncanTrigger` / `ncanTriggerNested` / `nmayLoop`, after
  `HierarchicalMachine._can_trigger` / `_can_trigger_nested`) against `Model/NestedDispatch.lean` (`ntriggerEvent`, after
  `_trigger_event` / `_trigger_event_nested` / `NestedEvent.trigger_nested`).  Lemmas: `Proofs/C12N.lean` (evaluation
  side, purity), `Proofs/C12NPairs.lean` (which (scope, source) pairs each side looks at), `Proofs/C12NTrig.lean`
  (dispatch side), `Proofs/C12NMore.lean`.

  The subtlety.  The two sides walk the configuration in different orders: `may_` starts at the machine's scope for every
  active state (children before parents) and descends along the state's own path; the trigger recurses into the scopes
  of the active compound states FIRST (`ten`), offers the event to every scope once (`offered`), and inside a scope visits
  `resolve_order` of the scope's sub-tree, skipping states in `done` / `exited_states` and scopes whose `res[key]` is
  already True.  The equivalence is about the EXISTENCE of a passing candidate among the same SET of (scope, source)
  pairs (`C12_nested_pairs`): as long as nothing has executed, none of the trigger's skipping rules withholds a pair
  (`ten_spec`), so the trigger reaches its first passing candidate iff `may_` finds one.

  "Executes" (`NExecutes`): some `nexecute` of the call got past its conditions — the ghost event `exec` is appended
  while the call is processed, whatever the call then returns or raises.
-/
import Proofs.C12NMore
import Props.C02

namespace TM
open C02 Enter

/-! ### the well-formedness hypothesis: C02's invariant, decidable -/

/-- the configuration is admissible for the state definitions (every active state registered, sibling keys distinct,
one or all children of an active compound active, leaves declare no `initial`) and has a single active root: the
configuration part of C02's invariant `GI` (`C02.invOK`) -/
def nestedWF (cfg : NCfg) (conf : Forest) : Bool := ConfOK cfg.states conf && conf.len == 1

theorem nestedWF_iff (cfg : NCfg) (conf : Forest) :
    nestedWF cfg conf = true ↔ ConfOK cfg.states conf = true ∧ conf.len = 1 := by
  simp [nestedWF]

/-- the configuration `add_model` produces is well-formed -/
theorem C12_nested_wf_init (cfg : NCfg) (hwf : cfg.states.WF = true) (s : NSt) (h : NSt.init cfg = some s) :
    nestedWF cfg s.conf = true :=
  (nestedWF_iff cfg s.conf).mpr (init_confOK cfg hwf s h)

/-- every trigger call (direct or queued) keeps it (C02) -/
theorem C12_nested_wf_trigger (cfg : NCfg) (hwf : cfg.states.WF = true) (sub : NSub) (sc : Script)
    (hR : NoRaise sc) (hC : NoCmds sc) (qmax ev : Nat) (s s' : NSt) (hI : nestedWF cfg s.conf = true)
    (h : (napiTrigger sub sc cfg qmax ev s).state? = some s') : nestedWF cfg s'.conf = true := by
  obtain ⟨hc, hl⟩ := (nestedWF_iff cfg s.conf).mp hI
  have hnd : s.conf.nodes.Nodup := Forest.nodes_nodup (ConfOK_WF hc)
  have hGI : GI cfg (G.init cfg s.conf) s.conf :=
    ⟨hc, hl, hnd, fun _ => Iff.rfl, rfl, fun h => absurd rfl h, Nat.le_refl _⟩
  obtain ⟨seg, _, hi, _⟩ := C02_step_partial cfg hwf sub sc hR hC qmax ev s s' (G.init cfg s.conf) hGI h
  exact (nestedWF_iff cfg s'.conf).mpr ⟨hi.conf_ok, hi.root1⟩

/-- a `may_` call does not touch the configuration at all (any script without re-entrant commands) -/
theorem C12_nested_wf_may (cfg : NCfg) (sub : NSub) (sc : Script) (hC : NoCmds sc) (ev : Nat) (s s' : NSt)
    (h : (napiMay sub sc cfg ev s).state? = some s') : s'.conf = s.conf := by
  unfold napiMay at h
  simp only [] at h
  have hp := ncanTrigger_nmay sub sc cfg hC ⟨0, s.nextTag⟩ ev
    (({ s with nextTag := s.nextTag + 1 } : NSt).emit (.api 1 s.nextTag 0 ev))
  split at h
  · rename_i b s1 hc
    simp only [Res.state?, Option.some.injEq] at h
    subst h
    exact (hp s1 (by rw [hc]; rfl)).1.conf
  · rename_i e s1 hc
    simp only [Res.state?, Option.some.injEq] at h
    subst h
    exact (hp s1 (by rw [hc]; rfl)).1.conf
  · simp [Res.state?] at h

/-- **every reachable configuration is well-formed**: histories mixing `trigger` and `may_` calls from the initial
configuration (callbacks without re-entrant commands) -/
theorem C12_nested_wf_history (cfg : NCfg) (hwf : cfg.states.WF = true) (sc : Script) (hR : NoRaise sc) (hC : NoCmds sc)
    (qmax fuel : Nat) : ∀ (cmds : List Cmd) (s s' : NSt), nestedWF cfg s.conf = true →
    nrunHistoryM sc cfg qmax fuel cmds s = some s' → nestedWF cfg s'.conf = true := by
  have hstep : ∀ (c : Cmd) (s s1 : NSt), nestedWF cfg s.conf = true →
      (nrunCmdM sc cfg qmax fuel c s).state? = some s1 → nestedWF cfg s1.conf = true := by
    intro c s s1 hI h
    cases fuel with
    | zero => simp [nrunCmdM, Res.state?] at h
    | succ f =>
      unfold nrunCmdM at h
      cases c with
      | trigger m ev =>
        simp only [] at h
        have h' : (napiTrigger (nrunCmdM sc cfg qmax f) sc cfg qmax ev s).state? = some s1 := by
          cases hr : napiTrigger (nrunCmdM sc cfg qmax f) sc cfg qmax ev s <;> rw [hr] at h <;>
            simpa [Res.map, Res.state?] using h
        exact C12_nested_wf_trigger cfg hwf _ sc hR hC qmax ev s s1 hI h'
      | may m ev =>
        simp only [] at h
        have h' : (napiMay (nrunCmdM sc cfg qmax f) sc cfg ev s).state? = some s1 := by
          cases hr : napiMay (nrunCmdM sc cfg qmax f) sc cfg ev s <;> rw [hr] at h <;>
            simpa [Res.map, Res.state?] using h
        rw [C12_nested_wf_may cfg _ sc hC ev s s1 h']
        exact hI
      | removeModel m => simp only [Res.state?, Option.some.injEq] at h; subst h; exact hI
      | addModel m => simp only [Res.state?, Option.some.injEq] at h; subst h; exact hI
      | dispatch ev => simp only [Res.state?, Option.some.injEq] at h; subst h; exact hI
  intro cmds
  induction cmds with
  | nil => intro s s' hI h; simp only [nrunHistoryM, Option.some.injEq] at h; subst h; exact hI
  | cons c cs ih =>
    intro s s' hI h
    unfold nrunHistoryM at h
    split at h
    · rename_i u s1 hc
      exact ih s1 s' (hstep c s s1 hI (by rw [hc]; rfl)) h
    · rename_i e s1 hc
      exact ih s1 s' (hstep c s s1 hI (by rw [hc]; rfl)) h
    · cases h

/-! ### the same set of (scope, source) pairs -/

/-- **`may_` and the trigger look at the same set of (scope, source) pairs**: for ANY configuration tree, a pair
`(a, b)` — `a` the global path of the scope whose event table is consulted (`[]` = the machine), `b` the scope-relative
source — is visited by `_can_trigger` iff it is visited by a trigger call in which nothing executes, iff `b` is not
empty and `a ++ b` is an active state (or an ancestor of one): every way of splitting the path of an active state
into a declaring scope and a source.  The orders differ (`may_`: machine scope first, with repetitions; the trigger:
innermost scope first, each pair once). -/
theorem C12_nested_pairs (conf : Forest) (pr : SPath × SPath) :
    (pr ∈ mayPairs conf ↔ pr ∈ trigPairs conf) ∧
    (pr ∈ trigPairs conf ↔ pr.2 ≠ [] ∧ pr.1 ++ pr.2 ∈ conf.nodes) :=
  ⟨pairs_same_set conf pr, mem_trigPairs conf pr⟩

/-! ### prediction -/

/-- **what `may_` computes** (admissible configuration; deterministic non-raising script without re-entrant commands;
ANY transition set, resolvable destinations or not, any handlers / ignore flags): a Boolean — it never raises — namely
whether some pair of the trigger's list has a candidate whose destination resolves and whose conditions pass; and
nothing but the log and the invocation counters changes -/
theorem C12_nested_may_spec (sub : NSub) (sc : Script) (cfg : NCfg) (hR : NoRaise sc) (hC : NoCmds sc)
    (hD : Deterministic sc) (x : Ctx) (ev : Nat) (s : NSt) (hc : ConfOK cfg.states s.conf = true) :
    ∃ sa, ncanTrigger sub sc cfg x ev s = .ok ((trigPairs s.conf).any (mayP sc cfg ev)) sa ∧ NFrame s sa := by
  obtain ⟨sa, e, f⟩ := ncanTrigger_det sub sc cfg hR hC hD x ev s hc
  refine ⟨sa, ?_, f⟩
  rw [e]
  congr 1
  cases h : (trigPairs s.conf).any (mayP sc cfg ev) with
  | true =>
    obtain ⟨pr, hm, hp⟩ := List.any_eq_true.mp h
    exact List.any_eq_true.mpr ⟨pr, (pairs_same_set _ pr).mpr hm, hp⟩
  | false =>
    rw [List.any_eq_false] at h ⊢
    exact fun pr hm => h pr ((pairs_same_set _ pr).mp hm)

/-- **what the trigger does** (same hypotheses + well-formed state definitions): it never runs out of fuel, and it
executes a transition iff some pair of its list has a candidate whose conditions pass -/
theorem C12_nested_trigger_spec (sub : NSub) (sc : Script) (cfg : NCfg) (hR : NoRaise sc) (hC : NoCmds sc)
    (hD : Deterministic sc) (hwf : cfg.states.WF = true) (x : Ctx) (ev : Nat) (s : NSt)
    (hc : ConfOK cfg.states s.conf = true) :
    ntriggerEvent sub sc cfg x ev s ≠ .oof ∧
    (NExecutes (ntriggerEvent sub sc cfg x ev s) s ↔ (trigPairs s.conf).any (trigP sc cfg ev) = true) :=
  ntriggerEvent_spec sub sc cfg hR hC hD hwf x ev s hc

/-- **C12, prediction, hierarchical engine.**  For every machine configuration `cfg` with well-formed state definitions,
every admissible active configuration (`nestedWF`: reachable or not — `C12_nested_wf_history` shows every reachable one
is), every deterministic non-raising script, every event whose candidates' destinations resolve (`DestsResolve`; decidable
sufficient condition `cfg.destsOK`), any on_exception handlers, ignore flags, queue contents:
`may_<event>` returns a Boolean, changes nothing but the log, and it is True EXACTLY WHEN `_trigger_event`, issued in
the same state, executes a transition.  The two calls may carry different arguments (`x`, `x'`). -/
theorem C12_nested (sub : NSub) (sc : Script) (cfg : NCfg) (hR : NoRaise sc) (hC : NoCmds sc) (hD : Deterministic sc)
    (hwf : cfg.states.WF = true) (x x' : Ctx) (ev : Nat) (s : NSt) (hI : nestedWF cfg s.conf = true)
    (hdest : DestsResolve cfg ev) :
    ∃ (b : Bool) (sa : NSt), ncanTrigger sub sc cfg x ev s = .ok b sa ∧ NFrame s sa ∧
      ntriggerEvent sub sc cfg x' ev s ≠ .oof ∧
      (b = true ↔ NExecutes (ntriggerEvent sub sc cfg x' ev s) s) := by
  have hc := ((nestedWF_iff cfg s.conf).mp hI).1
  obtain ⟨sa, e, f⟩ := C12_nested_may_spec sub sc cfg hR hC hD x ev s hc
  obtain ⟨hno, hex⟩ := C12_nested_trigger_spec sub sc cfg hR hC hD hwf x' ev s hc
  refine ⟨_, sa, e, f, hno, ?_⟩
  rw [hex]
  have : (trigPairs s.conf).any (mayP sc cfg ev) = (trigPairs s.conf).any (trigP sc cfg ev) := by
    congr 1
    funext pr
    exact mayP_eq_trigP sc cfg ev hdest pr
  rw [this]

/-- … and WITHOUT any hypothesis on the destinations: whenever `may_` says True the trigger executes a transition
(the converse fails exactly for candidates with an unresolvable destination, which "count as impossible":
`C12_nested_baddest`, witness `exBad` below) -/
theorem C12_nested_sound (sub : NSub) (sc : Script) (cfg : NCfg) (hR : NoRaise sc) (hC : NoCmds sc)
    (hD : Deterministic sc) (hwf : cfg.states.WF = true) (x x' : Ctx) (ev : Nat) (s sa : NSt)
    (hI : nestedWF cfg s.conf = true) (h : ncanTrigger sub sc cfg x ev s = .ok true sa) :
    NExecutes (ntriggerEvent sub sc cfg x' ev s) s := by
  have hc := ((nestedWF_iff cfg s.conf).mp hI).1
  obtain ⟨sa', e, _⟩ := C12_nested_may_spec sub sc cfg hR hC hD x ev s hc
  rw [h] at e
  have hb : (trigPairs s.conf).any (mayP sc cfg ev) = true := by
    injection e with e1 _
    exact e1.symm
  obtain ⟨pr, hm, hp⟩ := List.any_eq_true.mp hb
  exact (C12_nested_trigger_spec sub sc cfg hR hC hD hwf x' ev s hc).2.mpr
    (List.any_eq_true.mpr ⟨pr, hm, mayP_imp_trigP sc cfg ev pr hp⟩)

/-- **… at the API level**: on an idle machine that is not queued, `model.may_<event>()` (= `may_trigger(name)`) returns
a Boolean, leaves the configuration alone, and it is True exactly when `model.<event>()` (= `trigger(name)`), issued
instead, executes a transition -/
theorem C12_nested_api (sub : NSub) (sc : Script) (cfg : NCfg) (hR : NoRaise sc) (hC : NoCmds sc) (hD : Deterministic sc)
    (hwf : cfg.states.WF = true) (hq : cfg.queued = false) (qmax ev : Nat) (s : NSt)
    (hI : nestedWF cfg s.conf = true) (hidle : s.queue = []) (hdest : DestsResolve cfg ev) :
    ∃ (b : Bool) (sa : NSt), napiMay sub sc cfg ev s = .ok b sa ∧ sa.conf = s.conf ∧
      napiTrigger sub sc cfg qmax ev s ≠ .oof ∧
      (b = true ↔ NExecutes (napiTrigger sub sc cfg qmax ev s) s) := by
  have hc := ((nestedWF_iff cfg s.conf).mp hI).1
  obtain ⟨sa, e, f⟩ := C12_nested_may_spec sub sc cfg hR hC hD ⟨0, s.nextTag⟩ ev
    (({ s with nextTag := s.nextTag + 1 } : NSt).emit (.api 1 s.nextTag 0 ev)) hc
  obtain ⟨hno, hiff⟩ := napiTrigger_executes sub sc cfg hC hwf hq qmax ev s hidle
  obtain ⟨_, hex⟩ := C12_nested_trigger_spec sub sc cfg hR hC hD hwf ⟨0, s.nextTag⟩ ev
    ((({ s with nextTag := s.nextTag + 1 } : NSt).emit (.api 0 s.nextTag 0 ev)).emitG (.api s.nextTag ev)) hc
  refine ⟨(trigPairs s.conf).any (mayP sc cfg ev),
    sa.emit (.ret s.nextTag ((trigPairs s.conf).any (mayP sc cfg ev))), ?_, f.conf, hno, ?_⟩
  · simp only [napiMay]
    rw [e]
    rfl
  · rw [hiff, hex]
    have : (trigPairs s.conf).any (mayP sc cfg ev) = (trigPairs s.conf).any (trigP sc cfg ev) := by
      congr 1
      funext pr
      exact mayP_eq_trigP sc cfg ev hdest pr
    rw [this]
    rfl

/-- the decidable condition on the transition set implies `DestsResolve` for every event -/
theorem C12_nested_destsOK (cfg : NCfg) (h : cfg.destsOK = true) (ev : Nat) : DestsResolve cfg ev :=
  destsOK_sound cfg h ev

/-! ### purity -/

/-- **C12, purity, hierarchical engine** (ANY script without re-entrant commands, raising or not; any configuration,
well-formed or not): whatever `_can_trigger` does — return, raise — the configuration (the model's state), the queue, the
`event_data` bookkeeping of a running event (`result`, `exited_states`), the tag counter and the ghost log (no state is
entered or exited, nothing executes) are unchanged, and the callbacks it ran are only prepare_event / prepare /
conditions / unless (and on_exception handlers), with the call's arguments -/
theorem C12_nested_pure (sub : NSub) (sc : Script) (cfg : NCfg) (hC : NoCmds sc) (x : Ctx) (ev : Nat) (s : NSt) :
    ∀ s', (ncanTrigger sub sc cfg x ev s).state? = some s' →
      s'.conf = s.conf ∧ s'.queue = s.queue ∧ s'.result = s.result ∧ s'.exited = s.exited ∧
      s'.nextTag = s.nextTag ∧ s'.glog = s.glog ∧
      ∃ seg, s'.log = s.log ++ seg ∧ MaySeg x.model x.tag seg := by
  intro s' h
  obtain ⟨f, seg, l, o⟩ := ncanTrigger_nmay sub sc cfg hC x ev s s' h
  exact ⟨f.conf, f.queue, f.result, f.exited, f.nextTag, f.glog, seg, l, o⟩

/-! ### unresolvable destinations -/

/-- **C12, unregistered destinations count as impossible**: the candidate loop behaves exactly as if the candidates
whose destination does not resolve (from the scope the machine is in) were not there — they never make the answer
True, never run a callback, never raise -/
theorem C12_nested_baddest (sub : NSub) (sc : Script) (cfg : NCfg) (scope : Scope) (x : Ctx) (ts : List NTrans)
    (s : NSt) :
    nmayLoop sub sc cfg scope x ts s = nmayLoop sub sc cfg scope x (ts.filter (ndestOk cfg scope)) s :=
  nmayLoop_filter sub sc cfg scope x ts s

/-- in particular: only such candidates → False, nothing ran -/
theorem C12_nested_baddest_all (sub : NSub) (sc : Script) (cfg : NCfg) (scope : Scope) (x : Ctx) (ts : List NTrans)
    (s : NSt) (h : ∀ t ∈ ts, ndestOk cfg scope t = false) : nmayLoop sub sc cfg scope x ts s = .ok false s := by
  rw [C12_nested_baddest]
  have : ts.filter (ndestOk cfg scope) = [] := by
    rw [List.filter_eq_nil_iff]
    intro t ht
    rw [h t ht]; simp
  rw [this]
  rfl

/-! ### routing of exceptions -/

/-- **raised without handlers**: an exception in the evaluated callbacks of a candidate leaves the loop as it is -/
theorem C12_nested_raised_without_handlers (sub : NSub) (sc : Script) (cfg : NCfg) (scope : Scope) (x : Ctx)
    (t : NTrans) (ts : List NTrans) (s sa : NSt) (e : Exc) (hd : ndestOk cfg scope t = true)
    (hex : cfg.onException = [])
    (hatt : ((ncallbacks sub sc cfg .prepareEvent x cfg.prepareEvent s).bind fun _ s1 =>
      (ncallbacks sub sc cfg .prepare x t.prepare s1).bind fun _ s2 => nevalConds sub sc cfg x t.conds s2) = .err e sa) :
    nmayLoop sub sc cfg scope x (t :: ts) s = .err e sa := by
  unfold nmayLoop
  simp only [hd, Bool.not_true, Bool.false_eq_true, if_false, hatt, hex]
  rfl

/-- **routed with handlers**: every handler is called (`ncallbacks` over the whole list; a handler that raises itself
propagates) and the evaluation continues with the NEXT candidate, exactly as the code does -/
theorem C12_nested_routed_with_handlers (sub : NSub) (sc : Script) (cfg : NCfg) (scope : Scope) (x : Ctx)
    (t : NTrans) (ts : List NTrans) (s sa : NSt) (e : Exc) (hd : ndestOk cfg scope t = true) (h0 : Nat) (hs : List Nat)
    (hex : cfg.onException = h0 :: hs)
    (hatt : ((ncallbacks sub sc cfg .prepareEvent x cfg.prepareEvent s).bind fun _ s1 =>
      (ncallbacks sub sc cfg .prepare x t.prepare s1).bind fun _ s2 => nevalConds sub sc cfg x t.conds s2) = .err e sa) :
    nmayLoop sub sc cfg scope x (t :: ts) s =
      (ncallbacks sub sc cfg .onException x (h0 :: hs) sa).bind fun _ s'' => nmayLoop sub sc cfg scope x ts s'' := by
  conv => lhs; unfold nmayLoop
  simp only [hd, Bool.not_true, Bool.false_eq_true, if_false, hatt, hex]

/-- **nothing above the candidate loop catches**: an exception that leaves the loop of the deepest active state's own
candidates (declared on the machine) is what `may_` raises — the walk over ancestors, the scope recursion and the
`any(...)` over the active states are plain sequencing (`nmayWalk_err`, `nmayHere_err`, `ncanTriggerNested_err`,
`nmayAny_err` give the same for every other position) -/
theorem C12_nested_raise_reaches_caller (sub : NSub) (sc : Script) (cfg : NCfg) (x : Ctx) (ev : Nat) (s s' : NSt)
    (e : Exc) (p : SPath) (ps : List SPath) (n : Nat) (ts : List NTrans)
    (ho : resolveOrder s.conf = some (p :: ps)) (hn : p.length = n + 1)
    (hev : alookup ev cfg.events = some ts) (hreg : (getState cfg.root cfg.root p).isSome = true)
    (h : nmayLoop sub sc cfg cfg.root x (nmayCands ts p) s = .err e s') :
    ncanTrigger sub sc cfg x ev s = .err e s' := by
  have hp : p.take (n + 1) = p := by rw [← hn]; exact List.take_length
  have h1 := nmayWalk_err sub sc cfg cfg.root x ts p n s s' e (by rw [hp]; exact hreg) (by rw [hp]; exact h)
  have h2 := nmayHere_err sub sc cfg x ev cfg.root p ts s s' e hev (by rw [hn]; exact h1)
  have h3 := ncanTriggerNested_err sub sc cfg x ev cfg.root p s s' e h2
  simp only [ncanTrigger, ho]
  exact nmayAny_err sub sc cfg x ev p ps s s' e h3

/-! ### non-vacuity -/

/-- `P`(1) parallel [`a`(2) ⊃ `a1`(3), `a2`(4);  `b`(5) ⊃ `b1`(6)], `Q`(7).
  event 0: declared INSIDE `a` (local): `a1 → a2` guarded by condition 20;
  event 1: declared on the machine on the ANCESTOR `P_b` of the active leaf `P_b_b1`: `P_b → Q`, `unless` 21;
  event 2: declared on the machine: `P_a_a1 → Q` guarded by condition 22 (False) and `P_b_b1 → P_b` (no condition);
  event 3: `P_a_a1 → <unregistered>`. -/
def exCfg12N : NCfg :=
  { states := .cons { name := 1, initial := [2, 5] }
      (.cons { name := 2, initial := [3],
               events := [(0, [{ source := [3], dest := some [4], conds := [⟨20, true⟩] }])] }
        (.cons { name := 3 } .nil (.cons { name := 4 } .nil .nil))
        (.cons { name := 5, initial := [6] } (.cons { name := 6 } .nil .nil) .nil))
      (.cons { name := 7 } .nil .nil),
    events := [(1, [{ source := [1, 5], dest := some [7], conds := [⟨21, false⟩] }]),
               (2, [{ source := [1, 2, 3], dest := some [7], conds := [⟨22, true⟩] },
                    { source := [1, 5, 6], dest := some [1, 5] }])],
    prepareEvent := [1], initial := [1] }

/-- the same with an unresolvable destination for event 3 -/
def exBad : NCfg :=
  { exCfg12N with events := exCfg12N.events ++ [(3, [{ source := [1, 2, 3], dest := some [9] }])] }

def exScript12N : Script := fun c _ => if c = 22 then { out := .ret false } else if c = 21 then { out := .ret false } else {}

example : exCfg12N.states.WF = true := by decide
example : exCfg12N.destsOK = true := by decide
example : exBad.destsOK = false := by decide
example : Deterministic exScript12N := by intro c j k; rfl
example : NoRaise exScript12N := by intro c k; unfold exScript12N; split <;> (try split) <;> exact ⟨_, rfl⟩
example : NoCmds exScript12N := by intro c k; unfold exScript12N; split <;> (try split) <;> rfl
/-- the initial configuration `[P_a_a1, P_b_b1]` is well-formed and both lists hold the same 11 pairs (5 active states
and ancestors, one pair for every way of splitting such a path into scope and source: 5 pairs at the machine scope,
4 in the scope of `P`, 1 each in the scopes of `P_a` and `P_b`; `mayPairs` lists some of them repeatedly) -/
example : ((NSt.init exCfg12N).map fun s => (nestedWF exCfg12N s.conf, (trigPairs s.conf).length,
      (mayPairs s.conf).all (trigPairs s.conf).contains, (trigPairs s.conf).all (mayPairs s.conf).contains))
    = some (true, 11, true, true) := by decide

def exSub12N : NSub := fun _ s => .ok () s

/-- events 0 (local), 1 (inherited from an ancestor, `unless` False), 2 (first region blocked, second passes): `may_`
says True, and the trigger executes; event 3 (unresolvable destination): `may_` says False without raising although the
trigger gets past the conditions (and then raises ValueError) — such candidates "count as impossible"; event 4 (unknown):
False -/
example : ((NSt.init exBad).map fun s => [0, 1, 2, 3, 4].map fun ev =>
      (match ncanTrigger exSub12N exScript12N exBad ⟨0, 0⟩ ev s with | .ok b _ => some b | _ => none,
       match ntriggerEvent exSub12N exScript12N exBad ⟨0, 1⟩ ev s with
        | .ok b s' => (some b, hasExec (s'.glog.drop s.glog.length))
        | .err _ s' => (none, hasExec (s'.glog.drop s.glog.length))
        | .oof => (none, false)))
    = some [(some true, some true, true), (some true, some true, true), (some true, some true, true),
            (some false, none, true), (some false, none, false)] := by decide


/-! ### a locally declared transition naming a GLOBAL destination (known finding F-C12-local-global-dest)

`A` (1) with children `1` (3, initial) and `2` (4) declares, INSIDE its own definition, event 0: `1 → B_x`
(`[2, 5]`, a registered global name that does not resolve relative to `A`); `B` (2) has the child `x` (5).
`get_state` falls back to global names, so the destination "resolves" (`destsOK`), `may_` answers True, and the trigger
runs the transition's stage (`before` …: `hasExec`) and then fails inside `_resolve_transition` / `_enter_nested`
(KeyError = `.other`) with the configuration unchanged. -/
def exGlobalDest : NCfg :=
  { states := .cons { name := 1, initial := [3],
                      events := [(0, [{ source := [3], dest := some [2, 5] }])] }
      (.cons { name := 3 } .nil (.cons { name := 4 } .nil .nil))
      (.cons { name := 2, initial := [5] } (.cons { name := 5 } .nil .nil) .nil),
    initial := [1] }

/-- **counterexample to "may_ True ⇒ the trigger COMPLETES a transition"** (the model follows the code): well-formed
definitions, every destination resolves in the sense of `get_state`, `may_` is True, and the trigger raises from the
library's own resolution, leaving the configuration as it was.  `C12_nested` is not contradicted: its `NExecutes`
means "the transition stage was entered" (a `before`-stage record exists), which is the case here. -/
theorem C12_nested_global_dest_counterexample :
    exGlobalDest.states.WF = true ∧ exGlobalDest.destsOK = true ∧
    ((NSt.init exGlobalDest).map fun s =>
      (nestedWF exGlobalDest s.conf,
       match ncanTrigger exSub12N (fun _ _ => {}) exGlobalDest ⟨0, 0⟩ 0 s with | .ok b _ => some b | _ => none,
       match ntriggerEvent exSub12N (fun _ _ => {}) exGlobalDest ⟨0, 1⟩ 0 s with
        | .err e s' => some (e, s'.conf == s.conf, hasExec (s'.glog.drop s.glog.length))
        | _ => none))
    = some (true, some true, some (Exc.other, true, true)) := by decide

end TM
