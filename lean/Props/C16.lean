/-
  Props/C16.lean — property C16: "Diagrams depict the machine: states, nesting, transitions and
  activity" for the Mermaid backend (graphviz / pygraphviz are not importable in this sandbox).

  The model is `Model/Diagram.lean` (`_get_elements`, `_transition_label`, flat `Graph` and
  `NestedGraph` node / edge generation, the region-of-interest filter, the style bookkeeping of
  `_change_state` and `_get_graph(force_new=True)`).  Statements only; lemmas in `Proofs/C16.lean`.

  Quantifiers: every state tree (any depth and width, `wfList`: sibling names distinct — states live
  in a dict), every list of transitions in every scope, every display option, every styles value,
  every history of graph operations (`Step`s: executed state changes with arbitrary recorded names and
  arbitrary resulting model state, and regenerations), every region of interest.
  Which transitions the machine has (automatic ones only when shown) is the model's *input*; that
  the input equals the live machine's table is checked by the harness against the Event objects.

  The model follows the repaired tree (fix: commits d4cb904, 043c146, 84b14cc, 47dcba3 in /repo);
  the statements that were `_partial` on the pinned tree (flat final markers, previous = global source,
  ROI view always defined) hold at full strength.  The former counterexamples are kept as `example`s of
  the repaired behaviour and as regression cases in corpus/C16/.
-/
import Proofs.C16

namespace TM
open Diagram

/-- **States once, nested.** Hierarchical diagrams declare exactly the states of the tree, in
pre-order (children where the "children" key is), none twice, and every state declared inside the
block of `n` is named `n ++ [c]` (top-level names have length 1). -/
theorem C16_states_once_nested (o : Opts) (st : Styles) (states : List MState)
    (hn : o.nested = true) (hwf : wfList states = true) :
    dnamesL (nodesOf o st states) = pathsL [] states ∧
    (dnamesL (nodesOf o st states)).Nodup ∧
    nestedOKL [] (nodesOf o st states) = true := by
  simp only [nodesOf, hn, if_true]
  refine ⟨dnamesL_render o st [] states, ?_, nestedOKL_render o st [] states⟩
  rw [dnamesL_render]
  exact pathsL_nodup [] states hwf

theorem wf_names_nodup : ∀ l : List MState, wfList l = true → (l.map (fun s => [s.name])).Nodup
  | [], _ => by simp
  | s :: r, h => by
    simp only [wfList, Bool.and_eq_true, Bool.not_eq_true'] at h
    simp only [List.map_cons, List.nodup_cons]
    refine ⟨?_, wf_names_nodup r h.2⟩
    have hn := h.1.1
    simp at hn
    simp only [List.mem_map, not_exists, not_and]
    intro x hx e
    simp at e
    exact hn x hx e

theorem dnamesL_flat (o : Opts) (st : Styles) : ∀ l : List MState,
    dnamesL (l.map (renderFlat o st)) = l.map (fun s => [s.name])
  | [] => by simp [dnamesL]
  | s :: r => by simp [dnamesL, dnames, renderFlat, dnamesL_flat o st r]

/-- **States once, flat.** A flat diagram declares exactly the machine's states, none twice. -/
theorem C16_states_once_flat (o : Opts) (st : Styles) (states : List MState)
    (hn : o.nested = false) (hwf : wfList states = true) :
    dnamesL (nodesOf o st states) = states.map (fun s => [s.name]) ∧
    (dnamesL (nodesOf o st states)).Nodup := by
  simp only [nodesOf, hn, Bool.false_eq_true, if_false, dnamesL_flat]
  exact ⟨trivial, wf_names_nodup states hwf⟩

/-- **Edges.** For every list of (global) transitions: at most one edge line per (source,
destination) pair, and the labels on the line for `k` are exactly the labels of the transitions
between that pair, in order (`shown`: the nested backend drops a line consisting of one empty label,
i.e. a lone initial pseudo-transition). A label carries the transition's label or trigger, is marked
internal iff the transition has no destination, and shows conditions / unless iff requested. -/
theorem C16_edges_exact (o : Opts) (ts : List MTrans) :
    (keys (edgesOf o ts)).Nodup ∧
    (∀ k, labelsAt (edgesOf o ts) k = shown o ((ts.filter (fun t => edgeKey t = k)).map (tlabel o))) ∧
    (∀ t, (tlabel o t).text = t.label.getD t.trigger ∧ (tlabel o t).internal = t.dest.isNone ∧
      (tlabel o t).conds = (if o.showConds then t.conds else []) ∧
      (tlabel o t).unl = (if o.showConds then t.unl else [])) := by
  refine ⟨?_, edgesOf_labelsAt o ts, fun t => ⟨rfl, rfl, rfl, rfl⟩⟩
  have hn : (keys (groupEdges o ts)).Nodup := groupFrom_nodup o ts [] (by simp [keys])
  unfold edgesOf
  split
  · exact List.Nodup.sublist (List.Sublist.map _ List.filter_sublist) hn
  · exact hn

/-- every visible transition is named on the line of its (source, destination) pair -/
theorem C16_edges_present (o : Opts) (ts : List MTrans) (t : MTrans) (ht : t ∈ ts)
    (hv : (tlabel o t).isEmpty = false) :
    tlabel o t ∈ labelsAt (edgesOf o ts) (edgeKey t) := by
  rw [edgesOf_labelsAt]
  have hm : tlabel o t ∈ (ts.filter (fun x => edgeKey x = edgeKey t)).map (tlabel o) :=
    List.mem_map_of_mem (List.mem_filter.mpr ⟨ht, by simp⟩)
  unfold shown
  by_cases hb : (o.nested && blankLabels ((ts.filter (fun x => edgeKey x = edgeKey t)).map (tlabel o))) = true
  · exfalso
    simp only [Bool.and_eq_true] at hb
    generalize (ts.filter (fun x => edgeKey x = edgeKey t)).map (tlabel o) = ls at hm hb
    rcases ls with _ | ⟨l, _ | ⟨l2, r2⟩⟩
    · simp at hm
    · simp only [List.mem_singleton] at hm
      subst hm
      simp [blankLabels, hv] at hb
    · simp [blankLabels] at hb
  · simp only [hb]
    exact hm

/-- **`_get_elements` reaches every scope.** Root transitions are taken as they are; a transition
listed in the scope of the compound state with global name `p` appears with `p` prefixed to source
and destination; an `initial` child yields the pseudo transition with the empty trigger. -/
theorem C16_elements_cover (m : Mach) :
    (∀ t ∈ m.trans, t ∈ elements m) ∧
    (∀ p s, findStateL [] p m.states = some s → s.kids ≠ [] →
      ∀ t ∈ s.trans, globalise p t ∈ elements m) ∧
    (∀ p s i, findStateL [] p m.states = some s → s.init = .one i →
      ({ trigger := [], source := p, dest := some (p ++ [i]) } : MTrans) ∈ elements m) := by
  refine ⟨fun t ht => by simp [elements, ht], ?_, ?_⟩
  · intro p s hf hk t ht
    simp [elements, (elemsL_cover [] p m.states s hf).1 hk t ht]
  · intro p s i hf hi
    simp [elements, (elemsL_cover [] p m.states s hf).2 i hi]

/-- **Final and initial markers (hierarchical).** The node declared under the name of a state carries
the final marker iff the state is final, has a block iff the state has the "children" key, the
`[*] -->` marker of the block points to the initial child, and the children are separated into regions
iff the state is parallel. -/
theorem C16_final_initial_marked (o : Opts) (st : Styles) (states : List MState) (hn : o.nested = true)
    (p : Path) (s : MState) (hf : findStateL [] p states = some s) :
    ∃ n, findNodeL p (nodesOf o st states) = some n ∧ n.name = p ∧ n.final = s.final ∧
      n.block = s.block ∧
      n.init = (if s.block then (match s.init with | .one i => some (p ++ [i]) | _ => none) else none) ∧
      n.par = (s.block && s.init == .par) := by
  obtain ⟨pre', h1, h2⟩ := findNodeL_render o st [] p states s hf
  refine ⟨renderState o st pre' s, by simpa [nodesOf, hn] using h2, ?_⟩
  cases s with
  | mk name label final enter exit init block kids trans =>
    simp only [MState.name] at h1
    subst h1
    cases block <;> cases init <;>
      simp [renderState, DNode.name, DNode.final, DNode.block, DNode.init, DNode.par, MState.final,
        MState.block, MState.init]

/-- **Final markers (flat).** Every node of a flat diagram is named after its state and carries the
final marker iff the state is final. -/
theorem C16_final_marked_flat (o : Opts) (st : Styles) (s : MState) :
    (renderFlat o st s).final = s.final ∧ (renderFlat o st s).name = [s.name] := by
  simp [renderFlat, DNode.final, DNode.name]

/-- the former witness (flat machine, state 1 final): marked -/
example :
    let o : Opts := { nested := false, showConds := false, showAttrs := false }
    let s : MState := .mk 1 none true [] [] .none false [] []
    s.final = true ∧ (renderFlat o {} s).final = true := by
  decide

/-- **Activity.** A history is any sequence of graph events in the order they happen: `begin` (reset +
previous, at the start of a state change), `finish cur` (active, when the engine's state change has
returned), `regen cur`; events fired from callbacks nest (`begin A; begin B; finish C; finish C`).
After ANY such sequence, in the full diagram of any machine: a top-level state styled `active` was
marked active since the last reset; a top-level state styled `previous` is the (global) source of the
last `begin` — the last executed transition — and was not marked since; every marked top-level state
is styled `active`; the last source, when top-level and not marked, is styled `previous`. -/
theorem C16_activity (o : Opts) (m : Mach) (init : List Path) (h : List Step) :
    let d := diagram o m (stylesAfter init h) none
    (∀ p ∈ styledTop d 1, p ∈ marked init h) ∧
    (∀ p ∈ styledTop d 2, lastSource init h = some p ∧ p ∉ marked init h) ∧
    (∀ s ∈ m.states, [s.name] ∈ marked init h → [s.name] ∈ styledTop d 1) ∧
    (∀ s ∈ m.states, lastSource init h = some [s.name] → [s.name] ∉ marked init h →
      [s.name] ∈ styledTop d 2) := by
  simp only [diagram, styledTop, List.mem_map, List.mem_filter, beq_iff_eq]
  refine ⟨?_, ?_, ?_, ?_⟩
  · rintro p ⟨n, ⟨hn, hc⟩, rfl⟩
    obtain ⟨s, _, h1, h2⟩ := nodesOf_top o _ m.states n hn
    rw [h2, Option.some.injEq, styleOf_after] at hc
    rw [h1]
    by_cases hm : [s.name] ∈ marked init h
    · exact hm
    · simp only [hm, if_false] at hc; split at hc <;> simp at hc
  · rintro p ⟨n, ⟨hn, hc⟩, rfl⟩
    obtain ⟨s, _, h1, h2⟩ := nodesOf_top o _ m.states n hn
    rw [h2, Option.some.injEq, styleOf_after] at hc
    rw [h1]
    by_cases hm : [s.name] ∈ marked init h
    · simp [hm] at hc
    · simp only [hm, if_false] at hc
      by_cases hr : lastSource init h = some [s.name]
      · exact ⟨hr, hm⟩
      · simp [hr] at hc
  · intro s hs hm
    obtain ⟨n, hn, h1, h2⟩ := nodesOf_top' o (stylesAfter init h) m.states s hs
    exact ⟨n, ⟨hn, by rw [h2, styleOf_after]; simp [hm]⟩, h1⟩
  · intro s hs hr hm
    obtain ⟨n, hn, h1, h2⟩ := nodesOf_top' o (stylesAfter init h) m.states s hs
    exact ⟨n, ⟨hn, by rw [h2, styleOf_after]; simp [hm, hr]⟩, h1⟩

/-- a history is settled when everything marked active since the last reset belongs to the model
state the graph was last told about (true for straight histories and for events fired from on_enter
/ after callbacks or through the queue, see the examples below) -/
def Settled (init : List Path) (h : List Step) : Prop := ∀ p ∈ marked init h, p ∈ curOf init h

/-- **Active = current.** After a settled history, styled-active ⊆ the current model state and every
top-level current state is styled active. -/
theorem C16_activity_current (o : Opts) (m : Mach) (init : List Path) (h : List Step) (hs : Settled init h) :
    let d := diagram o m (stylesAfter init h) none
    (∀ p ∈ styledTop d 1, p ∈ curOf init h) ∧
    (∀ s ∈ m.states, [s.name] ∈ curOf init h → [s.name] ∈ styledTop d 1) :=
  ⟨fun p hp => hs p ((C16_activity o m init h).1 p hp),
   fun s hm hc => (C16_activity o m init h).2.2.1 s hm (curOf_marked init h _ hc)⟩

/-- OPEN FINDING (F-C16-regenerated-during-state-change). A callback that adds a transition while the
state change `0 → 1` is in progress regenerates the graph for the state of that moment (`regen [[0]]`
between `begin` and `finish`): the history is not `Settled` and the diagram shows the source `[0]`
active next to the destination, nothing previous. `C16_activity_current` is the statement with the
explicit exclusion (`Settled`); the engine-level repair is proposed_fixes/C16_6.diff. -/
theorem C16_activity_regen_during_change_counterexample :
    let o : Opts := { nested := false, showConds := false, showAttrs := false }
    let leaf : Nat → MState := fun n => .mk n none false [] [] .none false [] []
    let m : Mach := { states := [leaf 0, leaf 1], trans := [], initial := some [0] }
    let h : List Step := [.begin [] [0] [1], .regen [[0]], .finish [[1]]]
    let d := diagram o m (stylesAfter [[0]] h) none
    curOf [[0]] h = [[1]] ∧ styledTop d 1 = [[0], [1]] ∧ styledTop d 2 = [] ∧ ¬ Settled [[0]] h := by
  refine ⟨by decide, by decide, by decide, ?_⟩
  intro hs
  have := hs [0] (by decide)
  revert this
  decide

/-- **Previous = source of the last executed transition**, at full strength: whatever scope the
transition is listed in and however events nest, only the state whose *global* name is the source of
the last `begin` can be styled previous (nothing is after a regeneration or before the first
transition). -/
theorem C16_activity_previous (o : Opts) (m : Mach) (init : List Path) (h : List Step) :
    ∀ p ∈ styledTop (diagram o m (stylesAfter init h) none) 2, lastSource init h = some p :=
  fun p hp => ((C16_activity o m init h).2.1 p hp).1

/-- the former witness: after the transition `0 → 2` listed in the scope of the compound state `1`
(global source `[1, 0]`) the unrelated top-level state `[0]` is no longer styled previous -/
example :
    let o : Opts := { nested := true, showConds := false, showAttrs := false }
    let leaf : Nat → MState := fun n => .mk n none false [] [] .none false [] []
    let m : Mach := { states := [leaf 0, .mk 1 none false [] [] (.one 0) true [leaf 0, leaf 2]
                        [{ trigger := [0, 0], source := [0], dest := some [2] }]],
                      trans := [], initial := some [1] }
    let h : List Step := [.begin [1] [0] [2], .finish [[1, 2]]]
    styledTop (diagram o m (stylesAfter [[1, 0]] h) none) 2 = [] ∧ lastSource [[1, 0]] h = some [1, 0] := by
  decide

/-- a re-entrant history (on_enter of 1 fires the event that takes 1 to 2 while 0 → 1 is still in
progress) is settled; the last executed transition is 1 → 2 -/
example :
    let h : List Step := [.begin [] [0] [1], .begin [] [1] [2], .finish [[2]], .finish [[2]]]
    marked [[0]] h = [[2], [2]] ∧ curOf [[0]] h = [[2]] ∧ lastSource [[0]] h = some [1] := by
  decide

/-- an event fired from an on_exit callback leaves an unsettled history (the inner transition marks 2,
then the outer one moves the model to 1): this is why the harness fires events from on_enter / after only -/
example :
    let h : List Step := [.begin [] [0] [1], .begin [] [0] [2], .finish [[2]], .finish [[1]]]
    marked [[0]] h = [[2], [1]] ∧ curOf [[0]] h = [[1]] := by
  decide

/-- **The configured attribute is the one that counts.** The code holds model objects; what ends up
styled depends on a model only through the value of `machine.model_attribute` at the moments the
graph is told (`finish`, `regen`, registration): histories over objects that agree on that attribute
give the same diagram, whatever else the models carry (e.g. an own `state` attribute while the machine
uses `status`) — and the diagram is the one of the resolved history, to which `C16_activity`,
`C16_activity_current` and `C16_activity_previous` apply. -/
theorem C16_activity_attribute (o : Opts) (m : Mach) (init init' : Obj) (h h' : List ObjStep)
    (hi : readState o.modelAttr init = readState o.modelAttr init')
    (hh : h.map (ObjStep.resolve o.modelAttr) = h'.map (ObjStep.resolve o.modelAttr)) :
    diagramObj o m init h none = diagramObj o m init' h' none ∧
    diagramObj o m init h none =
      diagram o m (stylesAfter (readState o.modelAttr init) (h.map (ObjStep.resolve o.modelAttr))) none := by
  simp [diagramObj, stylesAfterObj, hi, hh]

/-- a model that uses `state` (attribute 0) for its own data while the machine keeps its state in
`status` (attribute 1): freshly registered in state `[0]`, the diagram styles `[0]` active -/
example :
    let o : Opts := { nested := false, showConds := false, showAttrs := false, modelAttr := 1 }
    let leaf : Nat → MState := fun n => .mk n none false [] [] .none false [] []
    let m : Mach := { states := [leaf 0, leaf 1], trans := [], initial := some [0] }
    styledTop (diagramObj o m [(0, [[99]]), (1, [[0]])] [.regen [(0, [[99]]), (1, [[0]])]] none) 1 = [[0]] := by
  decide

/-- **Region of interest (hierarchical).** In the ROI view: every active state and every ancestor of
one (`roiActive`) that is a state of the machine is declared; every transition whose source is
active is named on its edge line; and its source and target are declared when they are states of the
machine. -/
theorem C16_roi (o : Opts) (m : Mach) (st : Styles) (cur : List Path) (hn : o.nested = true) :
    let d := diagram o m st (some cur)
    (∀ p ∈ roiActive o cur, p ∈ pathsL [] m.states → p ∈ dnamesL d.nodes) ∧
    (∀ t ∈ elements m, t.source ∈ roiActive o cur →
      ((tlabel o t).isEmpty = false → tlabel o t ∈ labelsAt d.edges (edgeKey t)) ∧
      (t.source ∈ pathsL [] m.states → t.source ∈ dnamesL d.nodes) ∧
      ((t.dest.getD t.source) ∈ pathsL [] m.states → (t.dest.getD t.source) ∈ dnamesL d.nodes)) := by
  simp only [diagram, nodesOf, hn, if_true, dnamesL_render]
  generalize hts : roiTrans st (roiActive o cur) (elements m) = ts'
  have keepOK : ∀ p, p ∈ roiStates st (roiActive o cur) ts' → p ∈ pathsL [] m.states →
      p ∈ pathsL [] (filterList (roiStates st (roiActive o cur) ts') [] m.states) :=
    fun p hp hm => pathsL_filter _ [] m.states p hm (by simpa using hp)
  refine ⟨fun p hp hm => keepOK p (by simp [roiStates, hp]) hm, ?_⟩
  intro t ht hs
  have hin : t ∈ ts' := by
    rw [← hts, roiTrans_mem]; exact ⟨ht, Or.inl hs⟩
  refine ⟨fun hv => C16_edges_present o ts' t hin hv, fun hm => keepOK _ ?_ hm, fun hm => keepOK _ ?_ hm⟩
  · simp only [roiStates, List.mem_append, List.mem_flatMap]
    exact Or.inl (Or.inr ⟨t, hin, by simp⟩)
  · simp only [roiStates, List.mem_append, List.mem_flatMap]
    exact Or.inl (Or.inr ⟨t, hin, by simp⟩)

/-- **The ROI view is defined for every machine, flat or hierarchical.** `diagram` is a total function
(no case of the filter raises); the transitions it keeps are exactly those whose source is active or
whose (source, destination) edge is styled — an internal transition (no destination) on an inactive
state is simply left out — and all of them reach the edge lines. -/
theorem C16_roi_defined (o : Opts) (m : Mach) (st : Styles) (cur : List Path) :
    (∀ t, t ∈ roiTrans st (roiActive o cur) (elements m) ↔
      t ∈ elements m ∧ (t.source ∈ roiActive o cur ∨ st.edgeStyled t.source t.dest = true)) ∧
    (diagram o m st (some cur)).edges = edgesOf o (roiTrans st (roiActive o cur) (elements m)) :=
  ⟨fun t => roiTrans_mem st _ _ t, rfl⟩

/-- the former witness (flat machine, states 0 and 1, internal transition on 1, model in 0): the ROI
view is the active state alone -/
example :
    let o : Opts := { nested := false, showConds := false, showAttrs := false }
    let leaf : Nat → MState := fun n => .mk n none false [] [] .none false [] []
    let m : Mach := { states := [leaf 0, leaf 1],
                      trans := [{ trigger := [0, 0], source := [1], dest := none }], initial := some [0] }
    let d := diagram o m (stylesAfter [[0]] []) (some [[0]])
    dnamesL d.nodes = [[0]] ∧ d.edges = [] ∧ styledTop d 1 = [[0]] := by
  decide

/-- **No cache.** Whatever happened before a diagram is read — graph events, display options set on the
machine, states / transitions / callbacks added or removed, in any interleaving (the model attribute is
fixed at construction) — the diagram read is the one of the LATEST options and the LATEST machine
description with the styles left by the graph events alone: it equals what a machine freshly built with
those options and that description shows for the same graph history. -/
theorem C16_no_cache (s : Session) (evs : List Event) (roi : Option Obj)
    (hattr : ∀ o, Event.options o ∈ evs → o.modelAttr = s.opts.modelAttr) :
    (evs.foldl Session.apply s).view roi =
      diagram (lastOpts s.opts evs) (lastMach s.mach evs)
        ((graphSteps s.opts.modelAttr evs).foldl applyStep s.styles)
        (roi.map (readState s.opts.modelAttr)) := by
  have hl : (lastOpts s.opts evs).modelAttr = s.opts.modelAttr := by
    clear roi
    induction evs generalizing s with
    | nil => rfl
    | cons e r ih =>
      cases e with
      | graph g => exact ih s (fun o ho => hattr o (List.mem_cons_of_mem _ ho))
      | machine m => exact ih s (fun o ho => hattr o (List.mem_cons_of_mem _ ho))
      | options o =>
        have ho : o.modelAttr = s.opts.modelAttr := hattr o (List.mem_cons_self ..)
        have := ih { s with opts := o } (fun o' ho' => by
          simpa [ho] using hattr o' (List.mem_cons_of_mem _ ho'))
        simpa [lastOpts, ho] using this
  rw [session_foldl evs s hattr]
  simp [Session.view, hl]

/-- switching conditions on after a transition was executed: the labels are those of the new option -/
example :
    let leaf : Nat → MState := fun n => .mk n none false [] [] .none false [] []
    let m : Mach := { states := [leaf 0, leaf 1],
                      trans := [{ trigger := [0, 0], source := [0], dest := some [1], conds := [2] }],
                      initial := some [0] }
    let s0 : Session := { opts := { nested := false, showConds := false, showAttrs := false }, mach := m,
                          styles := ({} : Styles).setNodes [[0]] 1 }
    let evs : List Event := [.graph (.begin [] [0] [1]), .graph (.finish [(0, [[1]])]),
                             .options { nested := false, showConds := true, showAttrs := false }]
    labelsAt ((evs.foldl Session.apply s0).view none).edges ([0], [1]) =
      [{ text := [0, 0], internal := false, conds := [2], unl := [] }] := by
  decide

/-- **A model added to the machine starts with a fresh graph.** Whatever `model_graphs` holds —
including an entry left under the same `id` by a model that was removed earlier (the same object
re-attached, or a new object at a recycled address) — after `add_model` the graph of that id styles
exactly the names of the model's state active and nothing previous; the graphs of all other ids are
untouched; `remove_model` changes no graph. -/
theorem C16_add_model_fresh (attr : Nat) (st : Store) (id : Nat) (m : Obj) :
    (∀ p, ((storeStep attr st (.addModel id m)).get id).styleOf p = (if p ∈ readState attr m then 1 else 0)) ∧
    (∀ id', id' ≠ id → (storeStep attr st (.addModel id m)).get id' = st.get id') ∧
    (∀ id', storeStep attr st (.removeModel id') = st) := by
  refine ⟨fun p => ?_, fun id' h => ?_, fun _ => rfl⟩
  · simp [storeStep, store_get_set, styleOf_setNodes, styleOf_empty]
  · have h' : ¬ id = id' := fun e => h e.symm
    simp [storeStep, store_get_set, h']

/-- a model (id 7) moved from 0 to 1, was removed, and an object with the same id is added in state 0:
state 0 active, nothing previous -/
example :
    let evs : List MEvent := [.addModel 7 [(0, [[0]])], .graph 7 (.begin [] [0] [1]), .graph 7 (.finish [(0, [[1]])]),
                              .removeModel 7, .addModel 7 [(0, [[0]])]]
    let g := (evs.foldl (storeStep 0) []).get 7
    g.styleOf [0] = 1 ∧ g.styleOf [1] = 0 := by
  decide

/-- **Regeneration.** After add_states / add_transition / remove_transition (`regen cur`) — whatever
happened before — exactly the names of the model's state are styled active and nothing is styled
previous; the diagram itself is a function of the current description (`diagram o m …`), so added or
removed states and transitions appear or disappear by `C16_states_once_*` / `C16_edges_exact` applied
to the new description. -/
theorem C16_regenerated (init : List Path) (h : List Step) (cur : List Path) (p : Path) :
    (stylesAfter init (h ++ [.regen cur])).styleOf p = (if p ∈ cur then 1 else 0) := by
  rw [styleOf_after]
  simp [marked, lastSource, summary_snoc, sumStep]

/-! ### non-vacuity -/

/-- a well-formed three-level tree with a parallel state and colliding names -/
example : wfList [.mk 0 none false [] [] .none false [] [],
    .mk 1 none true [] [] .par true
      [.mk 0 none false [] [] (.one 2) true [.mk 2 none true [] [] .none false [] []] [],
       .mk 1 none false [] [] .none false [] []] []] = true := by decide

/-- an edge line with two labels, one internal with conditions shown -/
example :
    labelsAt (edgesOf { nested := true, showConds := true, showAttrs := false }
      [{ trigger := [0, 0], source := [1], dest := some [1] },
       { trigger := [0, 1], source := [1], dest := none, conds := [0], unl := [2] }]) ([1], [1]) =
    [{ text := [0, 0], internal := false, conds := [], unl := [] },
     { text := [0, 1], internal := true, conds := [0], unl := [2] }] := by decide

end TM
