/-
  Props/C16.lean — property C16: "Diagrams depict the machine: states, nesting, transitions and
  activity" for the Mermaid backend (graphviz / pygraphviz are not importable in this sandbox).

  The model is `Model/Diagram.lean` (`_get_elements`, `_transition_label`, flat `Graph` and
  `NestedGraph` node / edge generation, the region-of-interest filter, the style bookkeeping of
  `_change_state` and `_get_graph(force_new=True)`).  Statements only; lemmas in `Proofs/C16.lean`.

  Quantifiers: every state tree (any depth and width, `wfList`: sibling names distinct — states live
  in a dict), every list of transitions in every scope, every display option, every styles value,
  every history of graph operations (`Step`s: executed state changes with arbitrary recorded names and
  arbitrary resulting model state, and regenerations), every region of interest.
  Which transitions the machine has (automatic ones only when shown) is the model's *input*; that
  the input equals the live machine's table is checked by the harness against the Event objects.

  Three places where the pinned code violates C16 have a switch in `Opts` (`false` = the code as it
  is); each has the full-strength statement for the repaired switch, a `_partial` theorem with the
  explicit exclusion, and a `_counterexample`.
-/
import Proofs.C16

namespace TM
open Diagram

/-- **States once, nested.** Hierarchical diagrams declare exactly the states of the tree, in
pre-order (children where the "children" key is), none twice, and every state declared inside the
block of `n` is named `n ++ [c]` (top-level names have length 1). -/
theorem C16_states_once_nested (o : Opts) (st : Styles) (states : List MState)
    (hn : o.nested = true) (hwf : wfList states = true) :
    dnamesL (nodesOf o st states) = pathsL [] states ∧
    (dnamesL (nodesOf o st states)).Nodup ∧
    nestedOKL [] (nodesOf o st states) = true := by
  simp only [nodesOf, hn, if_true]
  refine ⟨dnamesL_render o st [] states, ?_, nestedOKL_render o st [] states⟩
  rw [dnamesL_render]
  exact pathsL_nodup [] states hwf

theorem wf_names_nodup : ∀ l : List MState, wfList l = true → (l.map (fun s => [s.name])).Nodup
  | [], _ => by simp
  | s :: r, h => by
    simp only [wfList, Bool.and_eq_true, Bool.not_eq_true'] at h
    simp only [List.map_cons, List.nodup_cons]
    refine ⟨?_, wf_names_nodup r h.2⟩
    have hn := h.1.1
    simp at hn
    simp only [List.mem_map, not_exists, not_and]
    intro x hx e
    simp at e
    exact hn x hx e

theorem dnamesL_flat (o : Opts) (st : Styles) : ∀ l : List MState,
    dnamesL (l.map (renderFlat o st)) = l.map (fun s => [s.name])
  | [] => by simp [dnamesL]
  | s :: r => by simp [dnamesL, dnames, renderFlat, dnamesL_flat o st r]

/-- **States once, flat.** A flat diagram declares exactly the machine's states, none twice. -/
theorem C16_states_once_flat (o : Opts) (st : Styles) (states : List MState)
    (hn : o.nested = false) (hwf : wfList states = true) :
    dnamesL (nodesOf o st states) = states.map (fun s => [s.name]) ∧
    (dnamesL (nodesOf o st states)).Nodup := by
  simp only [nodesOf, hn, Bool.false_eq_true, if_false, dnamesL_flat]
  exact ⟨trivial, wf_names_nodup states hwf⟩

/-- **Edges.** For every list of (global) transitions: at most one edge line per (source,
destination) pair, and the labels on the line for `k` are exactly the labels of the transitions
between that pair, in order (`shown`: the nested backend drops a line consisting of one empty label,
i.e. a lone initial pseudo-transition). A label carries the transition's label or trigger, is marked
internal iff the transition has no destination, and shows conditions / unless iff requested. -/
theorem C16_edges_exact (o : Opts) (ts : List MTrans) :
    (keys (edgesOf o ts)).Nodup ∧
    (∀ k, labelsAt (edgesOf o ts) k = shown o ((ts.filter (fun t => edgeKey t = k)).map (tlabel o))) ∧
    (∀ t, (tlabel o t).text = t.label.getD t.trigger ∧ (tlabel o t).internal = t.dest.isNone ∧
      (tlabel o t).conds = (if o.showConds then t.conds else []) ∧
      (tlabel o t).unl = (if o.showConds then t.unl else [])) := by
  refine ⟨?_, edgesOf_labelsAt o ts, fun t => ⟨rfl, rfl, rfl, rfl⟩⟩
  have hn : (keys (groupEdges o ts)).Nodup := groupFrom_nodup o ts [] (by simp [keys])
  unfold edgesOf
  split
  · exact List.Nodup.sublist (List.Sublist.map _ List.filter_sublist) hn
  · exact hn

/-- every visible transition is named on the line of its (source, destination) pair -/
theorem C16_edges_present (o : Opts) (ts : List MTrans) (t : MTrans) (ht : t ∈ ts)
    (hv : (tlabel o t).isEmpty = false) :
    tlabel o t ∈ labelsAt (edgesOf o ts) (edgeKey t) := by
  rw [edgesOf_labelsAt]
  have hm : tlabel o t ∈ (ts.filter (fun x => edgeKey x = edgeKey t)).map (tlabel o) :=
    List.mem_map_of_mem (List.mem_filter.mpr ⟨ht, by simp⟩)
  unfold shown
  by_cases hb : (o.nested && blankLabels ((ts.filter (fun x => edgeKey x = edgeKey t)).map (tlabel o))) = true
  · exfalso
    simp only [Bool.and_eq_true] at hb
    generalize (ts.filter (fun x => edgeKey x = edgeKey t)).map (tlabel o) = ls at hm hb
    rcases ls with _ | ⟨l, _ | ⟨l2, r2⟩⟩
    · simp at hm
    · simp only [List.mem_singleton] at hm
      subst hm
      simp [blankLabels, hv] at hb
    · simp [blankLabels] at hb
  · simp only [hb]
    exact hm

/-- **`_get_elements` reaches every scope.** Root transitions are taken as they are; a transition
listed in the scope of the compound state with global name `p` appears with `p` prefixed to source
and destination; an `initial` child yields the pseudo transition with the empty trigger. -/
theorem C16_elements_cover (m : Mach) :
    (∀ t ∈ m.trans, t ∈ elements m) ∧
    (∀ p s, findStateL [] p m.states = some s → s.kids ≠ [] →
      ∀ t ∈ s.trans, globalise p t ∈ elements m) ∧
    (∀ p s i, findStateL [] p m.states = some s → s.init = .one i →
      ({ trigger := [], source := p, dest := some (p ++ [i]) } : MTrans) ∈ elements m) := by
  refine ⟨fun t ht => by simp [elements, ht], ?_, ?_⟩
  · intro p s hf hk t ht
    simp [elements, (elemsL_cover [] p m.states s hf).1 hk t ht]
  · intro p s i hf hi
    simp [elements, (elemsL_cover [] p m.states s hf).2 i hi]

/-- **Final and initial markers (hierarchical).** The node declared under the name of a state carries
the final marker iff the state is final, has a block iff the state has the "children" key, the
`[*] -->` marker of the block points to the initial child, and the children are separated into regions
iff the state is parallel. -/
theorem C16_final_initial_marked (o : Opts) (st : Styles) (states : List MState) (hn : o.nested = true)
    (p : Path) (s : MState) (hf : findStateL [] p states = some s) :
    ∃ n, findNodeL p (nodesOf o st states) = some n ∧ n.name = p ∧ n.final = s.final ∧
      n.block = s.block ∧
      n.init = (if s.block then (match s.init with | .one i => some (p ++ [i]) | _ => none) else none) ∧
      n.par = (s.block && s.init == .par) := by
  obtain ⟨pre', h1, h2⟩ := findNodeL_render o st [] p states s hf
  refine ⟨renderState o st pre' s, by simpa [nodesOf, hn] using h2, ?_⟩
  cases s with
  | mk name label final enter exit init block kids trans =>
    simp only [MState.name] at h1
    subst h1
    cases block <;> cases init <;>
      simp [renderState, DNode.name, DNode.final, DNode.block, DNode.init, DNode.par, MState.final,
        MState.block, MState.init]

/-- flat diagrams: every declared node carries the final marker iff the state is final — holds for the
repaired backend only -/
theorem C16_final_marked_flat_partial (o : Opts) (st : Styles) (s : MState) (hfix : o.fixFlatFinal = true) :
    (renderFlat o st s).final = s.final ∧ (renderFlat o st s).name = [s.name] := by
  simp [renderFlat, DNode.final, DNode.name, hfix]

/-- the flat Mermaid backend as it is drops the final flag: state 1 is final and not marked -/
theorem C16_final_marked_flat_counterexample :
    let o : Opts := { nested := false, showConds := false, showAttrs := false }
    let s : MState := .mk 1 none true [] [] .none false [] []
    s.final = true ∧ (renderFlat o {} s).final = false := by
  decide

/-- **Activity.** After any history of graph operations on a model's graph (created for the model
state `init`), in the full diagram of any machine: a top-level state styled `active` is one of the
model's current states; a top-level state styled `previous` is the recorded source of the last
executed transition and not current; every top-level current state is styled `active`; the recorded
source, when top-level and not current, is styled `previous`. -/
theorem C16_activity (o : Opts) (m : Mach) (init : List Path) (h : List Step) (d : Diagram)
    (hd : diagram o m (stylesAfter o init h) none = some d) :
    (∀ p ∈ styledTop d 1, p ∈ curOf init h) ∧
    (∀ p ∈ styledTop d 2, recordedSource o h = some p ∧ p ∉ curOf init h) ∧
    (∀ s ∈ m.states, [s.name] ∈ curOf init h → [s.name] ∈ styledTop d 1) ∧
    (∀ s ∈ m.states, recordedSource o h = some [s.name] → [s.name] ∉ curOf init h →
      [s.name] ∈ styledTop d 2) := by
  simp only [diagram, Option.some.injEq] at hd
  subst hd
  simp only [styledTop, List.mem_map, List.mem_filter, beq_iff_eq]
  refine ⟨?_, ?_, ?_, ?_⟩
  · rintro p ⟨n, ⟨hn, hc⟩, rfl⟩
    obtain ⟨s, _, h1, h2⟩ := nodesOf_top o _ m.states n hn
    rw [h2, Option.some.injEq, styleOf_after] at hc
    rw [h1]
    by_cases hm : [s.name] ∈ curOf init h
    · exact hm
    · simp only [hm, if_false] at hc; split at hc <;> simp at hc
  · rintro p ⟨n, ⟨hn, hc⟩, rfl⟩
    obtain ⟨s, _, h1, h2⟩ := nodesOf_top o _ m.states n hn
    rw [h2, Option.some.injEq, styleOf_after] at hc
    rw [h1]
    by_cases hm : [s.name] ∈ curOf init h
    · simp [hm] at hc
    · simp only [hm, if_false] at hc
      by_cases hr : recordedSource o h = some [s.name]
      · exact ⟨hr, hm⟩
      · simp [hr] at hc
  · intro s hs hm
    obtain ⟨n, hn, h1, h2⟩ := nodesOf_top' o (stylesAfter o init h) m.states s hs
    exact ⟨n, ⟨hn, by rw [h2, styleOf_after]; simp [hm]⟩, h1⟩
  · intro s hs hr hm
    obtain ⟨n, hn, h1, h2⟩ := nodesOf_top' o (stylesAfter o init h) m.states s hs
    exact ⟨n, ⟨hn, by rw [h2, styleOf_after]; simp [hm, hr]⟩, h1⟩

/-- the recorded source is the global name of the last executed transition's source when the
backend globalises (repaired) or the transition is listed at the root (always so on flat machines);
then "styled previous ⊆ {source of the last executed transition}" holds at full strength -/
theorem C16_activity_previous_partial (o : Opts) (m : Mach) (init : List Path) (h : List Step) (d : Diagram)
    (hd : diagram o m (stylesAfter o init h) none = some d)
    (hx : o.fixPrev = true ∨ ∀ pre src dst c, h.getLast? = some (.change pre src dst c) → pre = []) :
    ∀ p ∈ styledTop d 2, lastSource h = some p := by
  intro p hp
  have hr := ((C16_activity o m init h d hd).2.1 p hp).1
  unfold recordedSource at hr
  unfold lastSource
  cases hl : h.getLast? with
  | none => simp [hl] at hr
  | some s =>
    cases s with
    | regen c => simp [hl] at hr
    | change pre src dst c =>
      simp only [hl, Option.some.injEq] at hr ⊢
      rcases hx with hx | hx
      · simpa [prevKey, hx] using hr
      · have := hx pre src dst c hl
        subst this
        simpa [prevKey] using hr

/-- the nested Mermaid backend as it is records the scope-relative name: after the transition
`0 → 2` listed in the scope of the compound state `1` (global source `[1, 0]`), the unrelated
top-level state `[0]` is styled previous -/
theorem C16_activity_previous_counterexample :
    let o : Opts := { nested := true, showConds := false, showAttrs := false }
    let leaf : Nat → MState := fun n => .mk n none false [] [] .none false [] []
    let m : Mach := { states := [leaf 0, .mk 1 none false [] [] (.one 0) true [leaf 0, leaf 2]
                        [{ trigger := [0, 0], source := [0], dest := some [2] }]],
                      trans := [], initial := some [1] }
    let h : List Step := [.change [1] [0] [2] [[1, 2]]]
    (diagram o m (stylesAfter o [[1, 0]] h) none).map (fun d => styledTop d 2) = some [[0]] ∧
      lastSource h = some [1, 0] := by
  decide

/-- **Region of interest (hierarchical).** When the ROI view is produced: every active state and
every ancestor of one (`roiActive`) that is a state of the machine is declared; every transition
whose source is active is named on its edge line; and its source and target are declared when they
are states of the machine. -/
theorem C16_roi (o : Opts) (m : Mach) (st : Styles) (cur : List Path) (d : Diagram)
    (hn : o.nested = true) (hd : diagram o m st (some cur) = some d) :
    (∀ p ∈ roiActive o cur, p ∈ pathsL [] m.states → p ∈ dnamesL d.nodes) ∧
    (∀ t ∈ elements m, t.source ∈ roiActive o cur →
      ((tlabel o t).isEmpty = false → tlabel o t ∈ labelsAt d.edges (edgeKey t)) ∧
      (t.source ∈ pathsL [] m.states → t.source ∈ dnamesL d.nodes) ∧
      ((t.dest.getD t.source) ∈ pathsL [] m.states → (t.dest.getD t.source) ∈ dnamesL d.nodes)) := by
  simp only [diagram] at hd
  cases hr : roiTrans o st (roiActive o cur) (elements m) with
  | none => simp [hr] at hd
  | some ts' =>
    simp only [hr, Option.some.injEq] at hd
    subst hd
    simp only [nodesOf, hn, if_true, dnamesL_render]
    have keepOK : ∀ p, p ∈ roiStates st (roiActive o cur) ts' → p ∈ pathsL [] m.states →
        p ∈ pathsL [] (filterList (roiStates st (roiActive o cur) ts') [] m.states) :=
      fun p hp hm => pathsL_filter _ [] m.states p hm (by simpa using hp)
    refine ⟨fun p hp hm => keepOK p (by simp [roiStates, hp]) hm, ?_⟩
    intro t ht hs
    have hin : t ∈ ts' := roiTrans_keeps o st _ _ ts' hr t ht (by simpa using hs)
    refine ⟨fun hv => C16_edges_present o ts' t hin hv, fun hm => keepOK _ ?_ hm, fun hm => keepOK _ ?_ hm⟩
    · simp only [roiStates, List.mem_append, List.mem_flatMap]
      exact Or.inl (Or.inr ⟨t, hin, by simp⟩)
    · simp only [roiStates, List.mem_append, List.mem_flatMap]
      exact Or.inl (Or.inr ⟨t, hin, by simp⟩)

/-- the ROI view exists for every machine and state — holds for the repaired filter only -/
theorem C16_roi_defined_partial (o : Opts) (m : Mach) (st : Styles) (cur : List Path) (hfix : o.fixRoi = true) :
    (diagram o m st (some cur)).isSome = true := by
  simp only [diagram]
  obtain ⟨ts', hr⟩ := Option.isSome_iff_exists.mp (roiTrans_fixed o st (roiActive o cur) hfix (elements m))
  simp [hr]

/-- the ROI filter as it is raises (KeyError: 'dest') as soon as the machine has an internal
transition whose source is not active: flat machine, states 0 and 1, internal transition on 1, model in 0 -/
theorem C16_roi_counterexample :
    let o : Opts := { nested := false, showConds := false, showAttrs := false }
    let leaf : Nat → MState := fun n => .mk n none false [] [] .none false [] []
    let m : Mach := { states := [leaf 0, leaf 1],
                      trans := [{ trigger := [0, 0], source := [1], dest := none }], initial := some [0] }
    (diagram o m (stylesAfter o [[0]] []) (some [[0]])).isSome = false := by
  decide

/-- **Regeneration.** After add_states / add_transition / remove_transition (`regen cur`) — whatever
happened before — exactly the names of the model's state are styled active and nothing is styled
previous; the diagram itself is a function of the current description (`diagram o m …`), so added or
removed states and transitions appear or disappear by `C16_states_once_*` / `C16_edges_exact` applied
to the new description. -/
theorem C16_regenerated (o : Opts) (init : List Path) (h : List Step) (cur : List Path) (p : Path) :
    (stylesAfter o init (h ++ [.regen cur])).styleOf p = (if p ∈ cur then 1 else 0) := by
  rw [styleOf_after]
  simp [curOf, recordedSource]

/-! ### non-vacuity -/

/-- a well-formed three-level tree with a parallel state and colliding names -/
example : wfList [.mk 0 none false [] [] .none false [] [],
    .mk 1 none true [] [] .par true
      [.mk 0 none false [] [] (.one 2) true [.mk 2 none true [] [] .none false [] []] [],
       .mk 1 none false [] [] .none false [] []] []] = true := by decide

/-- an edge line with two labels, one internal with conditions shown -/
example :
    labelsAt (edgesOf { nested := true, showConds := true, showAttrs := false }
      [{ trigger := [0, 0], source := [1], dest := some [1] },
       { trigger := [0, 1], source := [1], dest := none, conds := [0], unl := [2] }]) ([1], [1]) =
    [{ text := [0, 0], internal := false, conds := [], unl := [] },
     { text := [0, 1], internal := true, conds := [0], unl := [2] }] := by decide

/-- a history whose last step is a root-level change satisfies the hypothesis of the partial theorem -/
example : ∀ pre src dst c, ([Step.regen [[0]], .change [] [0] [1] [[1]]] : List Step).getLast? =
    some (.change pre src dst c) → pre = [] := by
  intro pre src dst c h
  simp at h
  exact h.1

end TM
