/-
  Props/C12.lean — property C12: "may_<event> predicts the trigger and has no side effects" —
  flat synchronous engine (`Model/Core.lean`: `canTrigger` / `mayLoop` after `Machine._can_trigger`).
-/
import Proofs.C12
import Props.C01

namespace TM

/-- the trigger call executed a transition -/
def Executes (r : R Bool) : Prop := ∃ s', r = .ok true s'

/-- the `try/except/finally` skeleton never turns a failed or blocked body into a success -/
theorem guarded_ok_true (sub : Sub) (sc : Script) (cfg : Cfg) (x : Ctx) (body : R Bool) (s' : St)
    (h : guarded sub sc cfg x body = .ok true s') : ∃ s0, body = .ok true s0 := by
  unfold guarded at h
  cases body with
  | ok b s0 =>
    simp only [exceptClause, finallyClause] at h
    cases hf : runFinalize sub sc cfg x s0 with
    | none => simp [hf] at h
    | some sb => simp [hf] at h; exact ⟨s0, by rw [h.1]⟩
  | oof => simp [exceptClause, finallyClause] at h
  | err e s0 =>
    simp only [exceptClause] at h
    cases hex : cfg.onException with
    | nil =>
      simp only [hex, finallyClause] at h
      cases hf : runFinalize sub sc cfg x s0 <;> simp [hf] at h
    | cons h0 hs =>
      simp only [hex] at h
      cases hcb : callbacks sub sc .onException x (h0 :: hs) s0 with
      | ok u s1 =>
        simp only [hcb, Res.bind, finallyClause] at h
        cases hf : runFinalize sub sc cfg x s1 <;> simp [hf] at h
      | err e1 s1 =>
        simp only [hcb, Res.bind, finallyClause] at h
        cases hf : runFinalize sub sc cfg x s1 <;> simp [hf] at h
      | oof => simp [hcb, Res.bind, finallyClause] at h

/-- **C12, prediction.** Deterministic, non-raising conditions; registered sources/destinations;
idle unqueued machine; model in a registered state; known event.  Then `may_<event>` returns a
Boolean, and it is True exactly when triggering the event right away executes a transition. -/
theorem C12_flat (sub : Sub) (sc : Script) (cfg : Cfg)
    (hR : NoRaise sc) (hC : NoCmds sc) (hD : Deterministic sc) (hWF : cfg.WF) (hq : cfg.queued = false)
    (qmax m ev tag : Nat) (s : St) (src : Nat) (ts : List Trans)
    (hev : cfg.event? ev = some ts) (hm : alookup m s.mstate = some src) (hreg : (cfg.state? src).isSome)
    (hidle : s.queue = []) :
    ∃ (b : Bool) (sa : St), canTrigger sub sc cfg m ev tag s = .ok b sa ∧
      (b = true ↔ Executes (triggerByName sub sc cfg qmax m ev tag s)) := by
  have hmN : (alookup m s.mstate).isNone = false := by simp [hm]
  have hst : s.stateOf m = src := stateOf_of_lookup hm
  obtain ⟨sd, hsd⟩ := Option.isSome_iff_exists.mp hreg
  cases hc : candidates ts src with
  | none =>
    refine ⟨false, s, by simp [canTrigger, hmN, hst, hsd, hev, hc], ?_⟩
    constructor
    · intro h; cases h
    · rintro ⟨s', h⟩
      exfalso
      have htr0 : triggerByName sub sc cfg qmax m ev tag s = guarded sub sc cfg ⟨m, tag⟩
          (if ignoreInvalid cfg src then (.ok false s : R Bool) else .err .machineError s) := by
        simp [triggerByName, hmN, hev, machineProcess, hq, hidle, eventTrigger, hst, hsd, hc]
      rw [htr0] at h
      obtain ⟨s0, h0⟩ := guarded_ok_true sub sc cfg ⟨m, tag⟩ _ s' h
      split at h0 <;> cases h0
  | some cs =>
    have hcs := candidates_spec hc
    have hok : ∀ t ∈ cs, cfg.TransOK t := fun t ht => hWF ev ts hev t (hcs t ht).2
    obtain ⟨sa, ea, _⟩ := mayLoop_det sub sc cfg hR hC hD ⟨m, tag⟩ cs s hok
    refine ⟨cs.any (passes sc), sa, by simp [canTrigger, hmN, hst, hsd, hev, hc, ea], ?_⟩
    -- the trigger: prepare_event, the candidate loop, finalize
    obtain ⟨s1, e1, f01⟩ := callbacks_frame sub sc hR hC .prepareEvent ⟨m, tag⟩ cfg.prepareEvent s
    obtain ⟨s2, e2⟩ := tryTransitions_det sub sc cfg hR hC hD ⟨m, tag⟩ cs s1 hok
      (by rw [‹Frame s s1›.stateOf]; show (cfg.state? (s.stateOf m)).isSome; rw [hst]; exact hreg)
    obtain ⟨s3, e3, _⟩ := callbacks_frame sub sc hR hC .finalize ⟨m, tag⟩ cfg.finalize s2
    have htr : triggerByName sub sc cfg qmax m ev tag s = .ok (cs.any (passes sc)) s3 := by
      simp [triggerByName, hmN, hev, machineProcess, hq, hidle, eventTrigger, hst, hsd, hc, eventProcess, e1,
        Res.bind, e2, guarded, exceptClause, finallyClause, runFinalize, e3]
    rw [htr]
    constructor
    · intro h; exact ⟨s3, by rw [h]⟩
    · rintro ⟨s', h⟩; simp at h; exact List.any_eq_true.mpr (by simpa using h.1)

/-- **C12, purity** (any script without re-entrant commands, raising or not): whatever `may_` does,
the model list, EVERY model's state, the queue and the tag counter are unchanged, and the callbacks
it ran are only prepare_event / prepare / conditions / unless (and on_exception handlers), on behalf
of that model, with the given arguments. -/
theorem C12_pure (sub : Sub) (sc : Script) (cfg : Cfg) (hC : NoCmds sc) (m ev tag : Nat) (s : St) :
    ∀ s', (canTrigger sub sc cfg m ev tag s).state? = some s' →
      s'.models = s.models ∧ s'.mstate = s.mstate ∧ s'.queue = s.queue ∧
      ∃ seg, s'.log = s.log ++ seg ∧ MaySeg m tag seg := by
  intro s' h
  have triv : ∀ r : R Bool, r.state? = some s → r.state? = some s' →
      (s'.models = s.models ∧ s'.mstate = s.mstate ∧ s'.queue = s.queue ∧ ∃ seg, s'.log = s.log ++ seg ∧ MaySeg m tag seg) := by
    intro r hr h'
    rw [hr] at h'; injection h' with h'; subst h'
    exact ⟨rfl, rfl, rfl, [], by simp, by intro it hit; cases hit⟩
  unfold canTrigger at h
  split at h
  · exact triv _ rfl h
  · cases hsd : cfg.state? (s.stateOf m) with
    | none => simp only [hsd] at h; exact triv _ rfl h
    | some sd =>
      simp only [hsd] at h
      cases hev : cfg.event? ev with
      | none => simp only [hev] at h; exact triv _ rfl h
      | some ts =>
        simp only [hev] at h
        cases hc : candidates ts (s.stateOf m) with
        | none => simp only [hc] at h; exact triv _ rfl h
        | some cs =>
          simp only [hc] at h
          obtain ⟨f, seg, l, o⟩ := mayLoop_may sub sc cfg hC ⟨m, tag⟩ cs s s' h
          exact ⟨f.models, f.mstate, f.queue, seg, l, o⟩

/-- **C12, unregistered destinations count as impossible:** candidates whose destination is not a
registered state are skipped without running any callback. -/
theorem C12_unregistered_dest_impossible (sub : Sub) (sc : Script) (cfg : Cfg) (x : Ctx) :
    ∀ (ts : List Trans) (s : St), (∀ t ∈ ts, destOk cfg t = false) → mayLoop sub sc cfg x ts s = .ok false s
  | [], s, _ => rfl
  | t :: ts, s, h => by
    unfold mayLoop
    simp only [h t (List.mem_cons_self ..), Bool.not_false, if_true]
    exact C12_unregistered_dest_impossible sub sc cfg x ts s (fun t' ht' => h t' (List.mem_cons_of_mem _ ht'))

/-- **C12, exceptions are routed:** an exception in the evaluated callbacks of a candidate goes to
the on_exception handlers when there are any (and the loop continues), and is raised otherwise. -/
theorem C12_exception_raised_without_handlers (sub : Sub) (sc : Script) (cfg : Cfg) (x : Ctx)
    (t : Trans) (ts : List Trans) (s sa : St) (e : Exc) (hd : destOk cfg t = true) (hex : cfg.onException = [])
    (hatt : ((callbacks sub sc .prepareEvent x cfg.prepareEvent s).bind fun _ s1 =>
      (callbacks sub sc .prepare x t.prepare s1).bind fun _ s2 => evalConds sub sc x t.conds s2) = .err e sa) :
    mayLoop sub sc cfg x (t :: ts) s = .err e sa := by
  unfold mayLoop
  simp only [hd, Bool.not_true, Bool.false_eq_true, if_false, hatt, hex]
  rfl

theorem C12_exception_routed_with_handlers (sub : Sub) (sc : Script) (cfg : Cfg) (x : Ctx)
    (t : Trans) (ts : List Trans) (s sa : St) (e : Exc) (hd : destOk cfg t = true) (h0 : Nat) (hs : List Nat)
    (hex : cfg.onException = h0 :: hs)
    (hatt : ((callbacks sub sc .prepareEvent x cfg.prepareEvent s).bind fun _ s1 =>
      (callbacks sub sc .prepare x t.prepare s1).bind fun _ s2 => evalConds sub sc x t.conds s2) = .err e sa) :
    mayLoop sub sc cfg x (t :: ts) s =
      (callbacks sub sc .onException x (h0 :: hs) sa).bind fun _ s'' => mayLoop sub sc cfg x ts s'' := by
  conv => lhs; unfold mayLoop
  simp only [hd, Bool.not_true, Bool.false_eq_true, if_false, hatt, hex]

/-! ### non-vacuity -/

def exCfg12 : Cfg :=
  { states := [{ name := 0 }, { name := 1 }],
    events := [(0, [{ source := 0, dest := some 1, conds := [⟨20, true⟩] },
                    { source := 0, dest := some 1, conds := [⟨21, false⟩] }])], prepareEvent := [1], initial := 0 }
def exScript12 : Script := fun c _ => if c = 20 then { out := .ret false } else if c = 21 then { out := .ret false } else {}
example : Deterministic exScript12 := by intro c j k; rfl
example : NoRaise exScript12 := by intro c k; unfold exScript12; split <;> (try split) <;> exact ⟨_, rfl⟩
/-- first candidate blocked, second passes (`unless` false): `may` says True and the trigger executes -/
example : ((runHistory exScript12 exCfg12 4 2 [.may 0 0, .trigger 0 0] (St.init exCfg12 [0])).map
    fun s => (s.log.filter (fun i => match i with | .ret _ _ => true | _ => false), s.stateOf 0))
    = some ([.ret 0 true, .ret 1 true], 1) := by decide

end TM
