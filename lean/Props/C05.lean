/-
  Props/C05.lean — property C05: "Queued processing is run-to-completion, FIFO and exactly-once".

  The abstract queue discipline is the acceptor `C05.busy` / `C05.idle` (Model/Spec/C05.lean): a
  callback may only belong to the head of the pending list; the head completes (finalize) before
  the next pending entry starts, entries start in arrival order, each at most once, a deferred
  trigger returns True at once, an escaping exception discards what is pending, `remove_model`
  discards exactly that model's pending entries and never the head, and the draining call returns
  only when nothing is pending.

  Quantifiers: every configuration with `queued = True` and a distinguished first finalize callback
  (visibility, see the spec file), EVERY script whose re-entrant commands are triggers and
  remove_model calls — any model, any event name, at any stage, any number, raising or not — and every
  history of such calls from outside.  Fuel: the statement holds for every fuel / queue bound for
  which the run completes (`runHistory … = some _`).
-/
import Proofs.C05
import Proofs.LogMono

namespace TM
open C05

theorem idle_busy (fin0 k d m ev : Nat) (l rest : List Item)
    (h : busy fin0 { owner := d, q := [(d, m)], fin := false } l = some rest) :
    idle fin0 (k + 1) (.api 0 d m ev :: l) = idle fin0 k rest := by
  conv => lhs; unfold idle
  simp only [h]

/-- a top-level trigger call on an idle queued machine -/
theorem C05_top_trigger (fin0 : Nat) (sc : Script) (cfg : Cfg) (qmax n : Nat)
    (hq : cfg.queued = true) (hcmds : CmdsOK sc)
    (rest : List Nat) (hfin : cfg.finalize = fin0 :: rest) (hnot : fin0 ∉ rest)
    (m ev : Nat) (s : St) (hidle : s.queue = []) :
    ∀ s', (apiTrigger (runCmd sc cfg qmax n) sc cfg qmax m ev s).state? = some s' →
      s'.queue = [] ∧ ∃ seg, s'.log = s.log ++ .api 0 s.nextTag m ev :: seg ∧
        ∀ tl k, idle fin0 (k + 1) (.api 0 s.nextTag m ev :: (seg ++ tl)) = idle fin0 k tl := by
  intro s' hs'
  let s1 : St := ({ s with nextTag := s.nextTag + 1 }).emit (.api 0 s.nextTag m ev)
  have hs1q : s1.queue = [] := hidle
  -- the three ways a call is refused
  have refuse_exc : ∀ e, s' = s1.emit (.raised s.nextTag e) →
      s'.queue = [] ∧ ∃ seg, s'.log = s.log ++ .api 0 s.nextTag m ev :: seg ∧
        ∀ tl k, idle fin0 (k + 1) (.api 0 s.nextTag m ev :: (seg ++ tl)) = idle fin0 k tl := by
    intro e h; subst h
    exact ⟨hidle, [.raised s.nextTag e], by simp [St.emit, s1], fun tl k => by simp [idle, busy]⟩
  have refuse : s' = s1.emit (.ret s.nextTag false) →
      s'.queue = [] ∧ ∃ seg, s'.log = s.log ++ .api 0 s.nextTag m ev :: seg ∧
        ∀ tl k, idle fin0 (k + 1) (.api 0 s.nextTag m ev :: (seg ++ tl)) = idle fin0 k tl := by
    intro h; subst h
    exact ⟨hidle, [.ret s.nextTag false], by simp [St.emit, s1], fun tl k => by simp [idle, busy]⟩
  unfold apiTrigger at hs'
  change (match triggerByName _ sc cfg qmax m ev s.nextTag s1 with
        | .ok b s' => (.ok b (s'.emit (.ret s.nextTag b)) : R Bool)
        | .err e s' => .err e (s'.emit (.raised s.nextTag e))
        | .oof => .oof).state? = some s' at hs'
  unfold triggerByName at hs'
  by_cases hmod : (alookup m s1.mstate).isNone = true
  · simp only [hmod, if_true, Res.state?, Option.some.injEq] at hs'
    exact refuse_exc _ hs'.symm
  · simp only [hmod] at hs'
    cases hev : cfg.event? ev with
    | none =>
      simp only [hev, Bool.false_eq_true, if_false] at hs'
      cases hst : cfg.state? (s1.stateOf m) with
      | none => simp only [hst, Res.state?, Option.some.injEq] at hs'; exact refuse_exc _ hs'.symm
      | some _ =>
        simp only [hst] at hs'
        by_cases hig : ignoreInvalid cfg (s1.stateOf m) = true
        · simp only [hig, if_true, Res.state?, Option.some.injEq] at hs'; exact refuse hs'.symm
        · simp only [hig, Bool.false_eq_true, if_false, Res.state?, Option.some.injEq] at hs'
          exact refuse_exc _ hs'.symm
    | some ts =>
      simp only [hev, Bool.false_eq_true, if_false, machineProcess, hq, Bool.not_true, hs1q, List.nil_append,
        List.length_singleton, gt_iff_lt, Nat.lt_irrefl] at hs'
      -- the caller drains
      let s2 : St := { s1 with queue := [(m, ev, s.nextTag)] }
      let σ0 : Q := { owner := s.nextTag, q := [(s.nextTag, m)], fin := false }
      have hpre : DrainPre σ0 s2 :=
        ⟨⟨by simp [s2], by intro e he; simp [s2] at he; subst he; exact Nat.lt_succ_self _⟩,
          Or.inl ⟨rfl, rfl, by simp [s2]⟩⟩
      have hd := drain_post fin0 sc cfg (runCmd sc cfg qmax n) (subOK_runCmd fin0 sc cfg qmax hq n) hcmds
        rest hfin hnot qmax σ0 s2 hpre
      change (match (drain (runCmd sc cfg qmax n) sc cfg qmax s2).bind fun _ s' => (.ok true s' : R Bool) with
        | .ok b s' => (.ok b (s'.emit (.ret s.nextTag b)) : R Bool)
        | .err e s' => .err e (s'.emit (.raised s.nextTag e))
        | .oof => .oof).state? = some s' at hs'
      cases hr : drain (runCmd sc cfg qmax n) sc cfg qmax s2 with
      | oof => simp [hr, Res.bind, Res.state?] at hs'
      | ok u s3 =>
        rw [hr] at hd
        obtain ⟨σ3, seg, l3, a3, o3, hq3, hf3, hl3⟩ := hd
        simp only [hr, Res.bind, Res.state?, Option.some.injEq] at hs'
        subst hs'
        refine ⟨hq3, seg ++ [.ret s.nextTag true], by simp [St.emit, l3, s2, s1], ?_⟩
        intro tl k
        have hb : busy fin0 { owner := s.nextTag, q := [(s.nextTag, m)], fin := false }
            (seg ++ [.ret s.nextTag true] ++ tl) = some tl := by
          have := a3 (.ret s.nextTag true :: tl)
          rw [List.append_assoc, List.singleton_append, this]
          simp [busy, o3, σ0, hl3, hf3]
        exact idle_busy fin0 k _ _ _ _ _ hb
      | err e s3 =>
        rw [hr] at hd
        obtain ⟨σ3, seg, l3, a3, o3, hq3⟩ := hd
        simp only [hr, Res.bind, Res.state?, Option.some.injEq] at hs'
        subst hs'
        refine ⟨hq3, seg ++ [.raised s.nextTag e], by simp [St.emit, l3, s2, s1], ?_⟩
        intro tl k
        have hb : busy fin0 { owner := s.nextTag, q := [(s.nextTag, m)], fin := false }
            (seg ++ [.raised s.nextTag e] ++ tl) = some tl := by
          have := a3 (.raised s.nextTag e :: tl)
          rw [List.append_assoc, List.singleton_append, this]
          simp [busy, o3, σ0]
        exact idle_busy fin0 k _ _ _ _ _ hb

/-- **C05 (queued).** Every trace of a history of trigger / remove_model calls on a queued machine,
with callbacks that re-enter the API arbitrarily and raise arbitrarily, follows the abstract queue. -/
theorem C05_queued_history (fin0 : Nat) (sc : Script) (cfg : Cfg) (qmax fuel : Nat)
    (hq : cfg.queued = true) (hcmds : CmdsOK sc)
    (rest : List Nat) (hfin : cfg.finalize = fin0 :: rest) (hnot : fin0 ∉ rest) :
    ∀ (h : List Cmd) (s : St), s.queue = [] → (∀ c ∈ h, CmdOK c) →
    ∀ s', runHistory sc cfg qmax fuel h s = some s' →
      s'.queue = [] ∧ ∃ tr, s'.log = s.log ++ tr ∧ ∀ n, h.length ≤ n → idle fin0 n tr = true := by
  intro h
  induction h with
  | nil =>
    intro s hq0 _ s' hs'
    simp only [runHistory, Option.some.injEq] at hs'
    subst hs'
    exact ⟨hq0, [], by simp, fun n _ => by cases n <;> rfl⟩
  | cons c cs ih =>
    intro s hq0 hc s' hs'
    cases fuel with
    | zero => simp [runHistory, runCmd] at hs'
    | succ f =>
      have hcs : ∀ c' ∈ cs, CmdOK c' := fun c' h' => hc c' (List.mem_cons_of_mem _ h')
      -- one top-level call: state afterwards idle, trace segment consumed by `idle`
      have step : ∀ s1, (runCmd sc cfg qmax (f + 1) c s).state? = some s1 →
          s1.queue = [] ∧ ∃ seg, s1.log = s.log ++ seg ∧
            ∀ tl k, idle fin0 (k + 1) (seg ++ tl) = idle fin0 k tl := by
        intro s1 h1
        cases c with
        | trigger m ev =>
          have h1' : (apiTrigger (runCmd sc cfg qmax f) sc cfg qmax m ev s).state? = some s1 := by
            have : runCmd sc cfg qmax (f + 1) (.trigger m ev) s =
              (apiTrigger (runCmd sc cfg qmax f) sc cfg qmax m ev s).map fun _ => () := rfl
            rw [this] at h1
            cases hr : apiTrigger (runCmd sc cfg qmax f) sc cfg qmax m ev s <;> simp [hr, Res.map, Res.state?] at h1 ⊢ <;> exact h1
          obtain ⟨q1, seg, l1, a1⟩ := C05_top_trigger fin0 sc cfg qmax f hq hcmds rest hfin hnot m ev s hq0 s1 h1'
          exact ⟨q1, _, l1, fun tl k => by simpa using a1 tl k⟩
        | removeModel m =>
          have : runCmd sc cfg qmax (f + 1) (.removeModel m) s = apiRemove m s := rfl
          rw [this] at h1
          unfold apiRemove removeModel at h1
          by_cases hmem : m ∈ s.models
          · have : m ∈ (({ s with nextTag := s.nextTag + 1 }).emit (.api 3 s.nextTag m 0)).models := hmem
            simp only [this, if_true] at h1
            have hqq : (({ s with nextTag := s.nextTag + 1 }).emit (.api 3 s.nextTag m 0)).queue = [] := hq0
            simp only [St.emit, hq0, Res.state?, Option.some.injEq] at h1
            subst h1
            exact ⟨rfl, [.api 3 s.nextTag m 0, .ret s.nextTag true], by simp, fun tl k => by simp [idle]⟩
          · have : ¬ m ∈ (({ s with nextTag := s.nextTag + 1 }).emit (.api 3 s.nextTag m 0)).models := hmem
            simp only [this, if_false, Res.state?, Option.some.injEq] at h1
            subst h1
            exact ⟨hq0, [.api 3 s.nextTag m 0, .raised s.nextTag .valueError], by simp [St.emit],
              fun tl k => by simp [idle]⟩
        | addModel _ => exact absurd (hc _ (List.mem_cons_self ..)) (by simp [CmdOK])
        | dispatch _ => exact absurd (hc _ (List.mem_cons_self ..)) (by simp [CmdOK])
        | may _ _ => exact absurd (hc _ (List.mem_cons_self ..)) (by simp [CmdOK])
      simp only [runHistory] at hs'
      cases hr : runCmd sc cfg qmax (f + 1) c s with
      | oof => simp [hr] at hs'
      | ok u s1 =>
        simp only [hr] at hs'
        obtain ⟨q1, seg, l1, a1⟩ := step s1 (by simp [hr, Res.state?])
        obtain ⟨q2, tr, l2, a2⟩ := ih s1 q1 hcs s' hs'
        refine ⟨q2, seg ++ tr, by rw [l2, l1, List.append_assoc], ?_⟩
        intro n hn
        cases n with
        | zero => simp at hn
        | succ n => rw [a1]; exact a2 n (by simpa using hn)
      | err e s1 =>
        simp only [hr] at hs'
        obtain ⟨q1, seg, l1, a1⟩ := step s1 (by simp [hr, Res.state?])
        obtain ⟨q2, tr, l2, a2⟩ := ih s1 q1 hcs s' hs'
        refine ⟨q2, seg ++ tr, by rw [l2, l1, List.append_assoc], ?_⟩
        intro n hn
        cases n with
        | zero => simp at hn
        | succ n => rw [a1]; exact a2 n (by simpa using hn)

/-- **C05 (no queue): an event triggered from a callback is processed immediately and completely before the
triggering callback returns.**  For EVERY script, configuration, fuel and engine state: if the `k`-th invocation of
callback `c` is scripted to trigger event `ev` on model `m` (alone), then in the trace of that invocation the `call`
item of `c` is followed by the WHOLE processing of the nested trigger — its `api` item first, its own outcome item
(`ret` / `raised` with the nested call's tag) last, everything the nested event does (including its finalize
callbacks) in between — and only then by the `done` item of `c`.  (On a queued machine the nested call's segment is
just `api, ret True`: C05_queued_history.) -/
theorem C05_unqueued_nested_immediate (sc : Script) (cfg : Cfg) (qmax f : Nat) (slot : Slot) (x : Ctx) (c : Nat) (s : St)
    (m ev : Nat) (hcmd : (sc c (s.count c)).cmds = [.trigger m ev]) :
    ∀ s', (invoke (runCmd sc cfg qmax (f + 1)) sc slot x c s).state? = some s' →
      ∃ (mid : List Item) (out : Item) (o : Out),
        s'.log = s.log ++ [.call slot c x.model x.tag (s.stateOf x.model)] ++
          (.api 0 s.nextTag m ev :: mid ++ [out]) ++ [.done c o] ∧
        ((∃ b, out = .ret s.nextTag b) ∨ ∃ e, out = .raised s.nextTag e) := by
  intro s' h
  unfold invoke at h
  simp only [hcmd, runCmds] at h
  -- the state in which the nested call is issued
  generalize hs2 : (({ s with counts := aset c (s.count c + 1) s.counts } : St).emit
      (.call slot c x.model x.tag (({ s with counts := aset c (s.count c + 1) s.counts } : St).stateOf x.model))) = s2 at h
  have hs2log : s2.log = s.log ++ [.call slot c x.model x.tag (s.stateOf x.model)] := by
    rw [← hs2]; rfl
  have hs2tag : s2.nextTag = s.nextTag := by rw [← hs2]; rfl
  have hstep : runCmd sc cfg qmax (f + 1) (.trigger m ev) s2 =
      (apiTrigger (runCmd sc cfg qmax f) sc cfg qmax m ev s2).map fun _ => () := rfl
  rw [hstep] at h
  have hshape := apiTrigger_shape (runCmd_grows sc cfg qmax f) sc cfg qmax m ev s2
  cases hr : apiTrigger (runCmd sc cfg qmax f) sc cfg qmax m ev s2 with
  | oof => simp [hr, Res.map, Res.bind, Res.state?] at h
  | ok b s3 =>
    obtain ⟨mid, out, hl, ho⟩ := hshape s3 (by simp [hr, Res.state?])
    simp only [hr, Res.map, Res.bind] at h
    rw [hs2tag] at hl ho
    cases hout : (sc c (s.count c)).out with
    | ret bb =>
      simp [hout, Res.state?] at h; subst h
      exact ⟨mid, out, .ret bb, by simp [St.emit, hl, hs2log], ho⟩
    | raise e =>
      simp [hout, Res.state?] at h; subst h
      exact ⟨mid, out, .raise e, by simp [St.emit, hl, hs2log], ho⟩
  | err e s3 =>
    obtain ⟨mid, out, hl, ho⟩ := hshape s3 (by simp [hr, Res.state?])
    simp only [hr, Res.map, Res.bind, Res.state?] at h
    rw [hs2tag] at hl ho
    simp at h; subst h
    exact ⟨mid, out, .raise e, by simp [St.emit, hl, hs2log], ho⟩

end TM
