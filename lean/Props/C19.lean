/-
  Props/C19.lean — property C19: "State feature mixins keep their contracts on every machine class".

  Statements only (helper lemmas live in `Proofs/C19.lean`); the model is `Model/Features.lean`:
  `enterChain`/`exitOp` are the `enter`/`exit` of the state class that `add_state_features` synthesises,
  composed in the decorator's (= MRO) order `c.feats`, over the mutable state the mixins keep
  (`retry_counts` per state keyed by model, hook attributes per model, objects numbered in creation order).

  Quantifiers: every feature list `c.feats` (any subset, any order — "composes in any order" is this
  quantifier; `Nodup` where a duplicated mixin would matter, which Python rejects anyway), every
  assignment of feature arguments `c.args`, every outgoing-transition table `c.hasOut`, every feature
  state `st` (so: after *any* history), every history `ops` of entries and exits, every number of models.
  The machine class only decides *which* ops occur (flat: `C19_flat_trigger`); nothing below depends on it.

  Left out on purpose (order-dependent in the code, the statement does not settle them; the `example`s
  at the end record what the code does): whether an entry refused by Retry, or rejected by Error, still
  creates the Volatile object.
-/
import Proofs.C19

namespace TM
open Feat

/-- **Tags.** `is_<t>` is True exactly for the tags the state was given, plus `'accepted'` (tag 0) when
`accepted=True` was passed. -/
theorem C19_tags (c : Cfg) (s t : Nat) :
    isTag c s t = true ↔ (t ∈ (c.args s).tags ∨ (t = 0 ∧ (c.args s).accepted = true)) :=
  isTag_iff c s t

/-- **Tags are live.** `tags` is a public attribute: after it has been edited (re-assigned, appended to,
removed from; `l` = the list afterwards) the state answers `is_<t>` exactly for `l` — nothing is remembered
from earlier queries or entries — and no other state is affected. (`Error.enter` reads `is_accepted`
through the same function, so `C19_error_iff` applies with the edited configuration.) -/
theorem C19_tags_mutable (c : Cfg) (s : Nat) (l : List Nat) (t : Nat) :
    (isTag (c.setTags s l) s t = true ↔ t ∈ l) ∧
    (∀ s', s' ≠ s → isTag (c.setTags s l) s' t = isTag c s' t) :=
  ⟨isTag_setTags c s l t, fun s' h => isTag_setTags_other c s s' l t h⟩

/-- **Tags on the built machine, full strength.** After `add_states`, every state answers `is_<t>`
exactly for the tags of its *own* definition (+ 'accepted' iff declared accepted) — for every list of
definitions and every heap of caller-side list objects, shared between definitions or not.
(Former finding F-C19-shared-tags-list, fixed in /repo 3389265: `Error.__init__` used to append to the
caller's list object, which made every state sharing it accepted.) -/
theorem C19_tags_built (defs : List SDef) (heap : Nat → List Nat) : TagsExact defs heap :=
  tagsExact defs heap

/-- … and construction leaves the caller's list objects as they were. -/
theorem C19_caller_lists_unchanged (defs : List SDef) (heap : Nat → List Nat) : initHeap defs heap = heap :=
  initHeap_eq defs heap

/-- **Error.** With `Error` anywhere in the decorator, entering `s` raises MachineError iff `s` has no
outgoing transition and is not accepted — in every feature state, whatever else is composed before or
after. (`hwf`: a self re-entry presupposes an outgoing transition, true of every engine.) -/
theorem C19_error_iff (c : Cfg) (hE : .error ∈ c.feats) (s m src : Nat) (st : FS)
    (hwf : src = s → c.hasOut s = true) :
    (enterOp c s m src st).2 = .raised ↔ (c.hasOut s = false ∧ isAccepted c s = false) := by
  have := enterChain_raised_iff c s m src hwf c.feats st
  simp only [enterOp, this, hE, true_and]

/-- **Volatile, entry.** With `Volatile` in the decorator, every completed entry binds, under the
state's hook name on that model, the object created by this very entry (number `st.fresh`), and by
`C19_volatile_history` that number was never used before. -/
theorem C19_volatile_fresh (c : Cfg) (hV : .volatile ∈ c.feats) (hnd : c.feats.Nodup) (s m src : Nat) (st : FS)
    (ho : (enterOp c s m src st).2 = .entered) :
    (enterOp c s m src st).1.hooks m (c.args s).hook = some st.fresh ∧
    (enterOp c s m src st).1.fresh = st.fresh + 1 :=
  enterChain_volatile_fresh c s m src c.feats st hV hnd ho

/-- **Volatile, exit.** Every exit removes the hook attribute. -/
theorem C19_volatile_removed (c : Cfg) (hV : .volatile ∈ c.feats) (s m : Nat) (st : FS) :
    (exitOp c s m st).hooks m (c.args s).hook = none :=
  exitOp_removed c hV s m st

/-- **Volatile, aborted exit.** When an on_exit callback of the state raises, the exit is aborted: the
model keeps its object (all hook attributes, counters and the object counter are untouched), and on the flat
machine the model is still in the state — "carries the object exactly while it is in the state". -/
theorem C19_volatile_kept (c : Cfg) (s m : Nat) (st : FS) :
    (step c (.exitFail s m) st).2 = .aborted ∧ (step c (.exitFail s m) st).1.hooks = st.hooks ∧
    (step c (.exitFail s m) st).1.counts = st.counts ∧ (step c (.exitFail s m) st).1.fresh = st.fresh :=
  ⟨rfl, rfl, rfl, rfl⟩

/-- … flat engine: a vetoed external transition leaves the model where it was, with its hooks. -/
theorem C19_flat_veto (F : Flat) (m ev : Nat) (ms : MS) (t : Feat.Trans) (d : Nat)
    (hf : F.trans.find? (fun t => t.ev = ev ∧ t.src = ms.cur m) = some t) (hd : t.dest = some d) :
    (trigger F m ev ms true).2 = .vetoed ∧ (trigger F m ev ms true).1.cur = ms.cur ∧
    (trigger F m ev ms true).1.fs.hooks = ms.fs.hooks := by
  have h := trigger_veto F m ev ms t d hf hd
  exact ⟨h.1, h.2.1, by rw [h.2.2]; rfl⟩

/-- **Volatile, histories.** After any history, the objects created so far are exactly `0 … fresh-1`,
each created once, and every object bound to any hook of any model is one of them — so the object
`st.fresh` bound by the next entry is different from everything any model has ever seen. -/
theorem C19_volatile_history (c : Cfg) (ops : List Op) :
    createdIds (runOps c ops FS.init).log = List.range (runOps c ops FS.init).fresh ∧
    (createdIds (runOps c ops FS.init).log).Nodup ∧
    ∀ m h id, (runOps c ops FS.init).hooks m h = some id → id < (runOps c ops FS.init).fresh := by
  have h := runOps_FreshInv c ops FS.init FreshInv_init
  exact ⟨h.1, by rw [h.1]; exact List.nodup_range, h.2⟩

/-- **Retry.** From *any* feature state: after model `m` enters `s` from another state, let `mid` be
any further history that contains no entry of `s` by `m` from another state — arbitrary exits, entries of
other states, anything other models do (to `s` too), and `k` self re-entries of `s` by `m`. Then the
entry from elsewhere is allowed, and the next, `(k+1)`-th, consecutive self re-entry runs the enter
callbacks iff `k + 1 ≤ retries`, and invokes `on_failure` instead iff `k + 1 > retries`.
(`hOk`: the entry is not one Error rejects.) -/
theorem C19_retry_exact (c : Cfg) (s m : Nat) (hR : .retry ∈ c.feats) (hnd : c.feats.Nodup)
    (hr : 0 < (c.args s).retries)
    (hOk : c.hasOut s = true ∨ isAccepted c s = true ∨ .error ∉ c.feats)
    (st : FS) (src0 : Nat) (h0 : src0 ≠ s) (mid : List Op) (hmid : ∀ o ∈ mid, isForeign s m o = false) :
    (enterOp c s m src0 st).2 = .entered ∧
    ((enterOp c s m s (runOps c (.enter s m src0 :: mid) st)).2 = .entered ↔
      (mid.filter (isSelf s m)).length + 1 ≤ (c.args s).retries) ∧
    ((enterOp c s m s (runOps c (.enter s m src0 :: mid) st)).2 = .failed ↔
      (c.args s).retries < (mid.filter (isSelf s m)).length + 1) := by
  have e0 := enterChain_retry c s m src0 c.feats st hR hnd hOk
  simp only [resetIf_counts_foreign s m src0 st h0] at e0
  have e0' := e0.2 (by omega)
  have hc := runOps_counts c s m hR hnd hOk hr mid (enterOp c s m src0 st).1 hmid
    (by simp only [enterOp]; rw [e0'.2]; omega)
  simp only [enterOp] at hc
  rw [e0'.2] at hc
  have e1 := enterChain_retry c s m s c.feats (runOps c (.enter s m src0 :: mid) st) hR hnd hOk
  simp only [resetIf_self, runOps, step, enterOp, hc] at e1
  refine ⟨e0'.1, ?_, ?_⟩
  · simp only [enterOp, runOps, step]
    constructor
    · intro h
      by_cases hk : (mid.filter (isSelf s m)).length + 1 ≤ (c.args s).retries
      · exact hk
      · have := (e1.1 (by omega)).1
        rw [this] at h
        cases h
    · intro hk
      exact (e1.2 (by omega)).1
  · simp only [enterOp, runOps, step]
    constructor
    · intro h
      by_cases hk : (c.args s).retries < (mid.filter (isSelf s m)).length + 1
      · exact hk
      · have := (e1.2 (by omega)).1
        rw [this] at h
        cases h
    · intro hk
      exact (e1.1 (by omega)).1

/-- **Retry counts first.** An entry whose on_enter callback raises (`enterFailOp`: the trigger ends with that
exception, the caller may catch it and try again) has been counted like any other: it leaves exactly the
counters, hook attributes and object number of the same entry with well-behaved callbacks, because
`Retry.enter` does `retry_counts.update` *before* `super().enter`.  `isSelf`/`isForeign` therefore treat
`Op.enterFail` like `Op.enter`, and `C19_retry_exact` above holds verbatim for histories `mid` in which any
number of the `k` self re-entries ended in a raising enter callback: they use up the limit all the same.
The same theorem covers re-entries fired from the state's own enter callback on an unqueued machine: the ops
of the nested trigger simply follow in the history, each seeing the count of the entry before it. -/
theorem C19_retry_counts_raising_entry (c : Cfg) (s m src : Nat) (st : FS) :
    (enterFailOp c s m src st).1.counts = (enterOp c s m src st).1.counts ∧
    (enterFailOp c s m src st).1.hooks = (enterOp c s m src st).1.hooks ∧
    (enterFailOp c s m src st).1.fresh = (enterOp c s m src st).1.fresh ∧
    ((enterOp c s m src st).2 = .entered → (enterFailOp c s m src st).2 = .aborted) ∧
    ((enterOp c s m src st).2 ≠ .entered → enterFailOp c s m src st = enterOp c s m src st) := by
  refine ⟨(enterFailOp_fields c s m src st).1, (enterFailOp_fields c s m src st).2.1,
    (enterFailOp_fields c s m src st).2.2, ?_, ?_⟩
  · intro h; simp [enterFailOp, h]
  · intro h; simp [enterFailOp, h]

/-- **Retry on hierarchical machines, full strength** — `RetryExactScoped` (Model/Features.lean): the clause
with the sources as `Retry.enter` reads them, i.e. the declared (possibly scope-relative) name made global with
the scope of the declaration, for every naming function `full`.  (Former finding F-C19-retry-local-source,
fixed in /repo 962fbf3: the relative name used to be compared with the scoped `self.name` as it stood, so a
self-transition declared inside the parent's state dict restarted the counter on every entry.) -/
theorem C19_retry_scoped (c : Cfg) (full : Nat → Nat → Nat) (s m : Nat) (hR : .retry ∈ c.feats)
    (hnd : c.feats.Nodup) (hr : 0 < (c.args s).retries)
    (hOk : c.hasOut s = true ∨ isAccepted c s = true ∨ .error ∉ c.feats) :
    RetryExactScoped c full s m := by
  intro st d0 h0 seen last hseen hlast
  have hmap : seen.map (fun d => Op.enter s m (full d.scope d.rel)) =
      (seen.map (fun d => full d.scope d.rel)).map (fun x => Op.enter s m x) := by
    simp [List.map_map, Function.comp_def]
  have h := map_self_noForeign s m (seen.map (fun d => full d.scope d.rel))
    (by intro x hx; obtain ⟨d, hd, rfl⟩ := List.mem_map.mp hx; exact hseen d hd)
  have := (C19_retry_exact c s m hR hnd hr hOk st (full d0.scope d0.rel) h0 _ h.1).2.1
  rw [h.2, List.length_map] at this
  simp only [enterDeclared, hlast, hmap]
  exact this

/-- **Retry, no limit.** `retries = 0` (or not passed) never invokes `on_failure`. -/
theorem C19_retry_unlimited (c : Cfg) (s m src : Nat) (st : FS) (h0 : (c.args s).retries = 0)
    (hOk : c.hasOut s = true ∨ isAccepted c s = true ∨ .error ∉ c.feats) :
    (enterOp c s m src st).2 = .entered :=
  (enterChain_feature_free c s m src h0 c.feats st hOk).1

/-- **Per-model bookkeeping, frame.** An entry or exit by another model never changes model `m`'s retry
counters, hook attributes, or what `m`'s recorders have seen. -/
theorem C19_per_model_frame (c : Cfg) (o : Op) (m : Nat) (hne : o.model ≠ m) (st : FS) :
    (∀ s, (step c o st).1.counts s m = st.counts s m) ∧
    (∀ h, (step c o st).1.hooks m h = st.hooks m h) ∧
    (plainLog (step c o st).1.log).filter (fun e => e.model = m) =
      (plainLog st.log).filter (fun e => e.model = m) :=
  step_frame c o m hne st

/-- **Per-model bookkeeping, histories.** What model `m` shows after a history (its counters, which hooks
are bound, its recorder log) is what it shows after *its own* ops alone: the other models' ops can be
deleted, i.e. arbitrarily interleaved, without effect. -/
theorem C19_per_model (c : Cfg) (m : Nat) (ops : List Op) (st : FS) :
    ViewEq m (runOps c ops st) (runOps c (ops.filter (fun o => o.model = m)) st) :=
  runOps_view c m ops st st (ViewEq.refl m st)

/-- **Everything else unchanged.** On states the features do not single out (no retry limit; not a
rejecting dead end of an Error machine) the decorated machine's recorders see, over any history and
from any feature states, exactly what the undecorated machine's recorders see. -/
theorem C19_feature_free_unchanged (c : Cfg) (ops : List Op) (a b : FS)
    (hab : plainLog a.log = plainLog b.log) (hff : ∀ o ∈ ops, FeatureFree c o.state) :
    plainLog (runOps c ops a).log = plainLog (runOps c.plain ops b).log :=
  runOps_feature_free c ops a b hab hff

/-- **Polls are queries.** `may_<event>()` / `may_trigger` polls interleaved anywhere in a flat history change
nothing: the run is the run with the polls deleted.  In particular the outgoing-transition table that
`Error.enter` consults (`F.cfg.hasOut`, a function of the declared transitions alone) is the same before
and after any number of polls, so `C19_error_iff` holds for entries after polls as for entries before. -/
theorem C19_polls_pure (F : Flat) (h : List FStep) (ms : MS) :
    runFlat F h ms = runFlat F (h.filter (fun x => !x.isPoll)) ms :=
  runFlat_polls F h ms

/-- **The decorator keeps the machine's dynamic methods.** `CustomState.dynamic_methods` is, as a set, the
machine's own state class's list (`base`; `on_final` of `NestedState` included) plus `on_enter`/`on_exit` —
for every feature list: the `on_<callback>_<state>` conventions (model methods, `machine.on_<cb>_<state>(f)`)
of the undecorated class all survive decoration, and none is invented. -/
theorem C19_dynamic_methods_kept (feats : List Mixin) (base : List Nat) (x : Nat) :
    x ∈ customMethods feats base ↔ (x ∈ base ∨ x = 0 ∨ x = 1) :=
  mem_customMethods feats base x

/-- **Flat engine.** A valid external transition of the flat machine is the op group
`[exit source, enter dest]` (stopped by a MachineError), and the model ends in `dest` either way. -/
theorem C19_flat_trigger (F : Flat) (m ev : Nat) (ms : MS) (t : Feat.Trans) (d : Nat)
    (hf : F.trans.find? (fun t => t.ev = ev ∧ t.src = ms.cur m) = some t) (hd : t.dest = some d) :
    (trigger F m ev ms).1.fs = (runGroup F.cfg [.exit t.src m, .enter d m t.src] ms.fs).1 ∧
    ((trigger F m ev ms).2 = .errorState ↔ (runGroup F.cfg [.exit t.src m, .enter d m t.src] ms.fs).2 = true) ∧
    (trigger F m ev ms).1.cur m = d :=
  trigger_ops F m ev ms t d hf hd

/-! ### non-vacuity and recorded order dependence -/

namespace C19ex

/-- state 1: retries = 2, hook 1, tags [2]; state 2: a dead end, not accepted; state 3: accepted dead end -/
def args : Nat → SArgs
  | 1 => { tags := [2], hook := 1, retries := 2 }
  | 3 => { accepted := true }
  | _ => {}

def cfg (feats : List Mixin) : Cfg :=
  { feats, args, hasOut := fun s => s ≠ 2 ∧ s ≠ 3, nhooks := 2 }

def all : List Mixin := [.volatile, .retry, .error, .tags]

/-- outcomes of a history, in order -/
def outcomes (c : Cfg) : List Op → FS → List Outcome
  | [], _ => []
  | o :: r, st => (step c o st).2 :: outcomes c r (step c o st).1

-- hypotheses of C19_retry_exact are met and both sides of the iff occur: 2 re-entries allowed, 3rd refused,
-- with another model's ops and an exit interleaved; counting restarts after an entry from elsewhere
example : (cfg all).feats.Nodup ∧ 0 < ((cfg all).args 1).retries ∧ (cfg all).hasOut 1 = true := by decide
example : outcomes (cfg all)
    [.enter 1 0 0, .enter 1 0 1, .enter 1 7 1, .exit 1 0, .enter 1 0 1, .enter 1 0 1, .enter 1 0 1,
     .enter 1 0 0, .enter 1 0 1] FS.init
    = [.entered, .entered, .entered, .entered, .entered, .failed, .failed, .entered, .entered] := by decide
-- Error: dead end raises, accepted dead end does not, in either order of the mixins
example : outcomes (cfg all) [.enter 2 0 0, .enter 3 0 0] FS.init = [.raised, .entered] := by decide
example : outcomes (cfg [.error, .retry]) [.enter 2 0 0, .enter 3 0 0] FS.init = [.raised, .entered] := by decide
-- Tags
example : isTag (cfg all) 1 2 = true ∧ isTag (cfg all) 1 3 = false ∧ isTag (cfg all) 3 0 = true ∧
    isTag (cfg all) 1 0 = false := by decide
-- Volatile: fresh object per entry under the state's hook, gone after exit
example : ((runOps (cfg all) [.enter 1 0 0] FS.init).hooks 0 1,
           (runOps (cfg all) [.enter 1 0 0, .exit 1 0] FS.init).hooks 0 1,
           (runOps (cfg all) [.enter 1 0 0, .exit 1 0, .enter 1 0 1] FS.init).hooks 0 1)
    = (some 0, none, some 1) := by decide
-- recorded, not judged: a refused retry still creates the object when Volatile precedes Retry …
example : (runOps (cfg [.volatile, .retry])
    [.enter 1 0 0, .exit 1 0, .enter 1 0 1, .exit 1 0, .enter 1 0 1, .exit 1 0, .enter 1 0 1] FS.init).hooks 0 1
    = some 3 := by decide
-- … and does not when Retry precedes Volatile
example : (runOps (cfg [.retry, .volatile])
    [.enter 1 0 0, .exit 1 0, .enter 1 0 1, .exit 1 0, .enter 1 0 1, .exit 1 0, .enter 1 0 1] FS.init).hooks 0 1
    = none := by decide
-- likewise an entry rejected by Error: object bound iff Volatile comes first
example : ((runOps (cfg [.volatile, .error]) [.enter 2 0 0] FS.init).hooks 0 0,
           (runOps (cfg [.error, .volatile]) [.enter 2 0 0] FS.init).hooks 0 0) = (some 0, none) := by decide
-- a model placed in a Retry state without an entry (initial state) gets one more allowed re-entry
example : outcomes (cfg all) [.enter 1 0 1, .enter 1 0 1, .enter 1 0 1, .enter 1 0 1] FS.init
    = [.entered, .entered, .entered, .failed] := by decide
-- regression of the former finding: list object 0 = ['t1'] handed to state 1 (accepted) and to state 2 (not):
-- state 2 is not accepted, and entering it as a dead end raises
example : isTag { feats := [.error], hasOut := fun _ => false,
                  args := builtArgs [{ name := 1, tagsRef := some 0, accepted := true }, { name := 2, tagsRef := some 0 }]
                            (fun _ => [1]) } 2 0 = false := by decide
example : (enterOp { feats := [.error], hasOut := fun _ => false,
                     args := builtArgs [{ name := 1, tagsRef := some 0, accepted := true }, { name := 2, tagsRef := some 0 }]
                               (fun _ => [1]) } 2 0 1 FS.init).2 = .raised := by decide
-- regression of former finding F-C19-retry-local-source: state 12 = `A_b` (scope 1 = `A`, relative name 2 = `b`,
-- `full` = the join), retries = 1, self-transition declared inside `A` as `['again', 'b', 'b']`:
-- the second consecutive re-entry is refused
example : let c : Cfg := { feats := [.retry], args := fun _ => { retries := 1 }, hasOut := fun _ => true }
    let full : Nat → Nat → Nat := fun p r => p * 10 + r
    ((enterDeclared c full 12 0 ⟨1, 2⟩ (runOps c [.enter 12 0 (full 0 3), .enter 12 0 (full 1 2)] FS.init)).2,
     (enterDeclared c full 12 0 ⟨1, 2⟩ (runOps c [.enter 12 0 (full 0 3)] FS.init)).2)
      = (.failed, .entered) := by decide
-- retries = 2: a re-entry whose enter callback raises uses up the limit like any other
example : outcomes (cfg all) [.enter 1 0 0, .enterFail 1 0 1, .enterFail 1 0 1, .enter 1 0 1] FS.init
    = [.entered, .aborted, .aborted, .failed] := by decide
-- FeatureFree is inhabited on a machine with every feature
example : FeatureFree (cfg all) 0 := ⟨rfl, fun _ => .inl (by decide)⟩

end C19ex

end TM
