/-
  Props/C05M.lean — property C05 ("queued processing is run-to-completion, FIFO and exactly-once; a raise discards
  what is pending") on the ASYNCHRONOUS flat engine `Model/Async.lean` with ONE QUEUE PER MODEL
  (`AsyncMachine(queued='model')`, qm = 2: `_transition_queue_dict[id(model)]` in `_process_async`).

  `C05M_permodel_history` — the trace of every history of awaited triggers is accepted by the per-model acceptor
  `C05M.accept` (Model/Spec/C05M.lean: a STACK of draining sessions, one per model whose queue is being drained), at
  FULL strength: every configuration, any number of models, every script (callbacks at any stage await further triggers
  on ANY model — a trigger on a model whose queue is empty runs a whole nested session inside the callback — and raise),
  every assignment of plain / coroutine / suspending kinds to the callbacks, every history, every fuel; NO staging
  hypothesis and no hypothesis on the script.  Proved by simulation (Proofs/C05AGen.lean skeleton, Proofs/C05M.lean).

  Only `trigger` is a command of the async model (`Async.runCmd` answers `oof` for everything else, and then
  `Async.runHistory` is `none`).
-/
import Proofs.C05M

namespace TM

/-- a top-level awaited trigger on model `m` of a queued='model' machine whose queues are all empty: whatever it
appends to the log takes the acceptor from the idle state back to the idle state (every session it opened — its own
and the nested ones — has ended), and all queues are empty again -/
theorem C05M_top_trigger (fin0 : Nat) (sc : Script) (kd : Async.Kinds) (cfg : Cfg) (qmax n : Nat)
    (rest : List Nat) (hfin : cfg.finalize = fin0 :: rest) (hnot : fin0 ∉ rest)
    (m ev : Nat) (s : St) (hidle : s.queue = []) :
    ∀ s', (Async.apiTrigger (Async.runCmd sc kd cfg 2 qmax n) sc kd cfg 2 qmax m ev s).state? = some s' →
      s'.queue = [] ∧ ∃ seg, s'.log = s.log ++ seg ∧ C05M.run fin0 {} seg = some {} :=
  M5.top_trigger fin0 sc kd cfg qmax n rest hfin hnot m ev s hidle

/-- **C05, per-model queues.**  Every trace of a history of awaited triggers on an async machine with one queue per
model follows the stack of per-model sessions: within a session run-to-completion including the finalize callbacks,
FIFO, at most once; a trigger on a model that has a session (the innermost or an enclosing one) returns True at once
and is deferred to THAT session; a trigger on a model without a session is processed at once and completely inside
the awaiting callback; an escaping exception discards what is pending of that session's model only; a session's call
returns only when nothing of its model is pending; and every queue is empty again after every top-level call. -/
theorem C05M_permodel_history (fin0 : Nat) (sc : Script) (kd : Async.Kinds) (cfg : Cfg) (qmax fuel : Nat)
    (rest : List Nat) (hfin : cfg.finalize = fin0 :: rest) (hnot : fin0 ∉ rest) :
    ∀ (h : List Cmd) (s : St), s.queue = [] →
    ∀ s', Async.runHistory sc kd cfg 2 qmax fuel h s = some s' →
      s'.queue = [] ∧ ∃ tr, s'.log = s.log ++ tr ∧ C05M.accept fin0 tr = true := by
  intro h s hq s' hs'
  obtain ⟨q1, tr, l1, a1⟩ := M5.permodel_history fin0 sc kd cfg qmax fuel rest hfin hnot h s hq s' hs'
  exact ⟨q1, tr, l1, by simp [C05M.accept, a1]⟩

/-! ### non-vacuity: a nested session, deferrals to two different sessions, a raise inside the nested session

Two models 0 and 1.  Event 0 on model 0: its `before` callback 10 (a suspending coroutine) awaits event 1 on model 1
— the queue of model 1 is empty, so that event is processed at once, inside callback 10 (nested session).  Callback
20 of THAT event awaits event 2 on model 0 (deferred to the outer session) and event 3 on model 1 (deferred to the
nested session).  Callback 30 of event 3 raises inside the nested session; the machine has an `on_exception`
handler (80), so the event ends normally and the nested session returns True.  Event 2 runs last, in the outer
session. -/

def exCfg5M : Cfg :=
  { states := [{ name := 0 }],
    events := [(0, [{ source := 0, dest := none, before := [10] }]),
               (1, [{ source := 0, dest := none, before := [20] }]),
               (2, [{ source := 0, dest := none, before := [40] }]),
               (3, [{ source := 0, dest := none, before := [30] }])],
    finalize := [90], onException := [80], initial := 0 }

def exScript5M : Script := fun c _ =>
  if c = 10 then { cmds := [.trigger 1 1] }
  else if c = 20 then { cmds := [.trigger 0 2, .trigger 1 3] }
  else if c = 30 then { out := .raise (.user 0) }
  else {}

def exKinds5M : Async.Kinds := fun c => if c = 10 ∨ c = 90 then 2 else 0

/-- `(callback, model, tag)` of the callback starts of a trace -/
def callsOf5M (l : List Item) : List (Nat × Nat × Nat) :=
  l.filterMap fun i => match i with
    | .call _ c m t _ => some (c, m, t)
    | _ => none

/-- the history completes (26 trace items, all queues empty), the nested session's events (tags 1 and 3, model 1)
run before the outer session's deferred event (tag 2, model 0), and the per-model acceptor accepts the trace -/
example :
    ((Async.runHistory exScript5M exKinds5M exCfg5M 2 8 4 [.trigger 0 0] (St.init exCfg5M [0, 1])).map fun s =>
      (s.log.length, s.queue.length, C05M.accept 90 s.log)) = some (26, 0, true) ∧
    ((Async.runHistory exScript5M exKinds5M exCfg5M 2 8 4 [.trigger 0 0] (St.init exCfg5M [0, 1])).map fun s =>
      callsOf5M s.log) =
      some [(10, 0, 0), (20, 1, 1), (90, 1, 1), (30, 1, 3), (80, 1, 3), (90, 1, 3), (90, 0, 0), (40, 0, 2), (90, 0, 2)] := by
  decide

/-- the machine-wide acceptor of queued=True REJECTS the same trace: the per-model discipline really differs (a
trigger awaited while an event is in progress is processed at once instead of being deferred) -/
example :
    ((Async.runHistory exScript5M exKinds5M exCfg5M 2 8 4 [.trigger 0 0] (St.init exCfg5M [0, 1])).map fun s =>
      C05.idle 90 s.log.length s.log) = some false := by
  decide

end TM
