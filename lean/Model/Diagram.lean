/-
  Model/Diagram.lean — the Mermaid diagram backend (property C16), written after
  `transitions/extensions/diagrams_base.py` (`BaseGraph._get_elements`, `_transition_label`),
  `diagrams_mermaid.py` (`Graph`, `NestedGraph`: `_add_nodes`, `_add_nested_nodes`, `_add_edges`,
  `get_graph` incl. the region-of-interest filter, `reset_styling`, `set_previous_transition`,
  `set_node_style`), `diagrams_graphviz.filter_states` and
  `diagrams.TransitionGraphSupport._change_state` / `GraphMachine._get_graph(force_new=True)`.

  Input: the machine description in the shape of the markup dictionary the graph is generated from
  (state tree with label / final / callbacks / initial / children / scope transitions, root
  transitions, root initial).  Output: an *abstract diagram* — declared states as a tree (a compound
  state's block contains its children, `par` = children separated by `--`), the `Class` assignment of
  top-level states, final / initial markers, edges grouped per (source, destination) with the list of
  labels that the text joins with " | ".

  Names are naturals; a state's global name is the path `List Nat` (the code joins with the
  separator; the harness splits it back).  Texts (triggers, labels) are token lists, `[]` = "".

  The model follows the repaired tree (fix: commits d4cb904 global `previous` names, 043c146 ROI
  filter tolerates internal transitions, 84b14cc flat final marker, 47dcba3 root-scoped markup); the
  witnesses of the former defects are regression cases in corpus/C16/.
  No imports outside Model.* (the driver links as a lean_exe).
-/
namespace TM
namespace Diagram

abbrev Path := List Nat
abbrev Text := List Nat

/-- `state.get("initial")`: absent, a single child name, or a list (parallel state) -/
inductive Init
  | none | one (n : Nat) | par
  deriving DecidableEq, Repr, Inhabited

/-- one entry of a `transitions` list of the markup (names relative to the scope it is listed in) -/
structure MTrans where
  trigger : Text
  label : Option Text := none
  source : Path
  dest : Option Path          -- `none`: internal transition (no "dest" key)
  conds : List Nat := []
  unl : List Nat := []
  deriving DecidableEq, Repr, Inhabited

/-- one state dictionary of the markup. `block` = the "children" key is present (always so when
there are children; the ROI filter can leave it present with an empty list). -/
inductive MState where
  | mk (name : Nat) (label : Option Text) (final : Bool) (enter exit : List Nat) (init : Init)
       (block : Bool) (kids : List MState) (trans : List MTrans)
  deriving Repr, Inhabited

def MState.name : MState → Nat | .mk n .. => n
def MState.final : MState → Bool | .mk _ _ f .. => f
def MState.init : MState → Init | .mk _ _ _ _ _ i .. => i
def MState.block : MState → Bool | .mk _ _ _ _ _ _ b .. => b
def MState.kids : MState → List MState | .mk _ _ _ _ _ _ _ k _ => k
def MState.trans : MState → List MTrans | .mk _ _ _ _ _ _ _ _ t => t

structure Mach where
  states : List MState
  trans : List MTrans
  initial : Option Path
  deriving Repr, Inhabited

structure Opts where
  nested : Bool               -- NestedGraph (HierarchicalGraphMachine) or Graph
  showConds : Bool
  showAttrs : Bool
  modelAttr : Nat := 0        -- `machine.model_attribute` (0 = 'state', the default)
  deriving DecidableEq, Repr, Inhabited

/-! ### abstract diagram -/

structure SLabel where
  text : Text
  enter : List Nat := []
  exit : List Nat := []
  deriving DecidableEq, Repr, Inhabited

/-- `state "<label>" as <name>` [+ `<name> --> [*]`] [+ `Class <name> s_<cls>`]
    [+ `state <name> {` [`[*] --> <init>`] kids (separated by `--` when `par`) `}`] -/
inductive DNode where
  | mk (name : Path) (label : SLabel) (final : Bool) (cls : Option Nat) (block : Bool)
       (init : Option Path) (par : Bool) (kids : List DNode)
  deriving Repr, Inhabited

def DNode.name : DNode → Path | .mk n .. => n
def DNode.final : DNode → Bool | .mk _ _ f .. => f
def DNode.cls : DNode → Option Nat | .mk _ _ _ c .. => c
def DNode.block : DNode → Bool | .mk _ _ _ _ b .. => b
def DNode.init : DNode → Option Path | .mk _ _ _ _ _ i .. => i
def DNode.par : DNode → Bool | .mk _ _ _ _ _ _ p _ => p
def DNode.kids : DNode → List DNode | .mk _ _ _ _ _ _ _ k => k

/-- one label of an edge: `<text>[ [internal]][ [c1 & c2 & !u1]]` -/
structure ELabel where
  text : Text
  internal : Bool
  conds : List Nat
  unl : List Nat
  deriving DecidableEq, Repr, Inhabited

/-- `<src> --> <dst>: l1 | l2 | …` -/
structure Edge where
  src : Path
  dst : Path
  labels : List ELabel
  deriving DecidableEq, Repr, Inhabited

structure Diagram where
  nodes : List DNode
  edges : List Edge
  rootInit : Option Path       -- `[*] --> <machine.initial>`
  deriving Repr, Inhabited

/-! ### styles (`custom_styles`) -/

/-- style codes: 0 = '' (→ `s_default`), 1 = active, 2 = previous -/
structure Styles where
  node : List (Path × Nat) := []                 -- dict: the first entry for a key is the current one
  edge : List (Path × Option Path) := []          -- keys (src, dst) whose style is 'previous'
  deriving DecidableEq, Repr, Inhabited

def alook (p : Path) : List (Path × Nat) → Nat
  | [] => 0
  | (q, v) :: r => if q = p then v else alook p r

def Styles.styleOf (s : Styles) (p : Path) : Nat := alook p s.node

/-- `Graph.set_node_style(name, style)` -/
def Styles.setNode (s : Styles) (p : Path) (v : Nat) : Styles := { s with node := (p, v) :: s.node }

/-- `NestedGraph.set_node_style(state, style)`: every name of the (possibly nested list) state -/
def Styles.setNodes (s : Styles) (ps : List Path) (v : Nat) : Styles :=
  ps.foldl (fun s p => s.setNode p v) s

/-- the name under which `set_previous_transition(src, dst)` records a transition listed in the scope
`pre`: `NestedGraph` globalises the stored (scope-relative) name with `_get_global_name`, i.e. enters
the name's segments from the current scope. Flat machines: `pre = []`. -/
def prevKey (pre p : Path) : Path := pre ++ p

/-- `reset_styling(); set_previous_transition(src, dst)` -/
def setPrevious (pre src dst : Path) : Styles :=
  ({ edge := [(prevKey pre src, some (prevKey pre dst))] } : Styles).setNode (prevKey pre src) 2

/-- what happens to a model's graph, in the order it happens.  `TransitionGraphSupport._change_state`
is two events with the engine's state change (and every callback it runs, which may fire further
events on the same model) in between. -/
inductive Step
  /-- `reset_styling(); set_previous_transition(src, dst)` of a transition listed in scope `pre` with
      the stored names `src`, `dst` -/
  | begin (pre src dst : Path)
  /-- `set_node_style(model.state, "active")` once the engine's `_change_state` has returned;
      `cur` = the names of `model.state` at that moment -/
  | finish (cur : List Path)
  /-- `_get_graph(model, force_new=True)`: add_model / add_states / add_transition / remove_transition -/
  | regen (cur : List Path)
  deriving DecidableEq, Repr, Inhabited

def applyStep : Styles → Step → Styles
  | _, .begin pre src dst => setPrevious pre src dst
  | s, .finish cur => s.setNodes cur 1
  | _, .regen cur => ({} : Styles).setNodes cur 1

/-- styles of a model's graph after its history (the graph is created with `regen init`) -/
def stylesAfter (init : List Path) (h : List Step) : Styles :=
  h.foldl applyStep (({} : Styles).setNodes init 1)

/-! ### the model object: the state is read from the configured attribute -/

/-- the attributes of a model object that hold (or look like) a state value: attribute name ↦ the
names of its value (`_get_state_names`); models may carry unrelated attributes, e.g. an own `state`
while the machine keeps its state in `status` -/
abbrev Obj := List (Nat × List Path)

/-- `getattr(model, machine.model_attribute)`; a missing attribute styles nothing (AttributeError is
swallowed by `_get_graph`) -/
def readState (attr : Nat) : Obj → List Path
  | [] => []
  | (a, v) :: r => if a = attr then v else readState attr r

/-- graph events as the code sees them: it holds the model object, not a state value -/
inductive ObjStep
  | begin (pre src dst : Path)
  | finish (m : Obj)      -- `set_node_style(getattr(event_data.model, machine.model_attribute), "active")`
  | regen (m : Obj)       -- `_get_graph(force_new=True)`: `set_node_style(getattr(model, self.model_attribute), "active")`
  deriving DecidableEq, Repr, Inhabited

def ObjStep.resolve (attr : Nat) : ObjStep → Step
  | .begin pre src dst => .begin pre src dst
  | .finish m => .finish (readState attr m)
  | .regen m => .regen (readState attr m)

/-- styles after an object-level history of a model registered as the object `init` -/
def stylesAfterObj (o : Opts) (init : Obj) (h : List ObjStep) : Styles :=
  stylesAfter (readState o.modelAttr init) (h.map (ObjStep.resolve o.modelAttr))

/-! ### `_get_elements` -/

def globalise (pre : Path) (t : MTrans) : MTrans :=
  { t with source := pre ++ t.source, dest := t.dest.map (pre ++ ·) }

/-- the pseudo transition `_get_elements` adds for `initial` (trigger "") -/
def initEdge (pre : Path) (name : Nat) : Init → List MTrans
  | .one i => [{ trigger := [], source := pre ++ [name], dest := some (pre ++ [name, i]) }]
  | _ => []

/- The code walks the scopes breadth-first (a queue), this walks them depth-first: the order of the
   resulting list only determines the order of edge lines and of labels within a line, neither of
   which the property constrains (the harness compares both as multisets). -/
mutual
def elemsState (pre : Path) : MState → List MTrans
  | .mk name _ _ _ _ init _ kids trans =>
    initEdge pre name init ++
      (if kids.isEmpty then [] else trans.map (globalise (pre ++ [name]))) ++ elemsList (pre ++ [name]) kids
def elemsList (pre : Path) : List MState → List MTrans
  | [] => []
  | s :: r => elemsState pre s ++ elemsList pre r
end

def elements (m : Mach) : List MTrans := m.trans ++ elemsList [] m.states

/-! ### labels and edges -/

/-- `_transition_label` -/
def tlabel (o : Opts) (t : MTrans) : ELabel :=
  { text := t.label.getD t.trigger
    internal := t.dest.isNone
    conds := if o.showConds then t.conds else []
    unl := if o.showConds then t.unl else [] }

def ELabel.isEmpty (l : ELabel) : Bool := l.text.isEmpty && !l.internal && l.conds.isEmpty && l.unl.isEmpty

def edgeKey (t : MTrans) : Path × Path := (t.source, t.dest.getD t.source)

/-- `edge_labels[src][dst].append(label)` -/
def addLabel (k : Path × Path) (l : ELabel) : List Edge → List Edge
  | [] => [{ src := k.1, dst := k.2, labels := [l] }]
  | e :: r => if (e.src, e.dst) = k then { e with labels := e.labels ++ [l] } :: r else e :: addLabel k l r

def groupFrom (o : Opts) (acc : List Edge) (ts : List MTrans) : List Edge :=
  ts.foldl (fun acc t => addLabel (edgeKey t) (tlabel o t) acc) acc

def groupEdges (o : Opts) (ts : List MTrans) : List Edge := groupFrom o [] ts

/-- the joined label " | ".join(labels) is the empty string -/
def blankLabels : List ELabel → Bool
  | [l] => l.isEmpty
  | _ => false

def Edge.blank (e : Edge) : Bool := blankLabels e.labels

/-- `_add_edges`: the nested variant skips edges whose label is empty (initial pseudo transitions;
the additional entries it creates for styled edges always have an empty label and are skipped too) -/
def edgesOf (o : Opts) (ts : List MTrans) : List Edge :=
  if o.nested then (groupEdges o ts).filter (fun e => !e.blank) else groupEdges o ts

/-! ### nodes -/

/-- `_convert_state_attributes` (tags / timeouts need state feature mixins and are not modelled) -/
def slabel (o : Opts) (name : Nat) (label : Option Text) (enter exit : List Nat) : SLabel :=
  { text := label.getD [3, name]
    enter := if o.showAttrs then enter else []
    exit := if o.showAttrs then exit else [] }

mutual
/-- `NestedGraph._add_nested_nodes` for one state below the prefix `pre` -/
def renderState (o : Opts) (st : Styles) (pre : Path) : MState → DNode
  | .mk name label final enter exit init block kids _ =>
    .mk (pre ++ [name]) (slabel o name label enter exit) final
      (if pre.isEmpty then some (st.styleOf [name]) else none)
      block
      (if block then (match init with | .one i => some (pre ++ [name, i]) | _ => none) else none)
      (block && init == .par)
      (if block then renderList o st (pre ++ [name]) kids else [])
def renderList (o : Opts) (st : Styles) (pre : Path) : List MState → List DNode
  | [] => []
  | s :: r => renderState o st pre s :: renderList o st pre r
end

/-- flat `Graph._add_nodes` -/
def renderFlat (o : Opts) (st : Styles) (s : MState) : DNode :=
  .mk [s.name] (match s with | .mk name label _ enter exit .. => slabel o name label enter exit)
    s.final (some (st.styleOf [s.name])) false none false []

def nodesOf (o : Opts) (st : Styles) (states : List MState) : List DNode :=
  if o.nested then renderList o st [] states else states.map (renderFlat o st)

/-! ### region of interest -/

/-- proper non-empty prefixes of a path (the `while state:` loop over `sep.join(split[:-1])`) -/
def ancestors : Path → List Path
  | [] => []
  | [_] => []
  | a :: b :: r => [a] :: (ancestors (b :: r)).map (a :: ·)

def roiActive (o : Opts) (cur : List Path) : List Path :=
  if o.nested then cur.flatMap (fun p => p :: ancestors p) else cur

mutual
/-- `filter_states` -/
def filterState (S : List Path) (pre : Path) : MState → Option MState
  | .mk name label final enter exit init block kids trans =>
    let inc := S.contains (pre ++ [name])
    if block then
      let k := filterList S (pre ++ [name]) kids
      if !k.isEmpty || inc then some (.mk name label final enter exit init block k trans) else none
    else if inc then some (.mk name label final enter exit init block kids trans) else none
def filterList (S : List Path) (pre : Path) : List MState → List MState
  | [] => []
  | s :: r => match filterState S pre s with
    | some s' => s' :: filterList S pre r
    | none => filterList S pre r
end

def Styles.edgeStyled (s : Styles) (src : Path) (dst : Option Path) : Bool := s.edge.contains (src, dst)

/-- the list comprehension over the transitions:
`t["source"] in active_states or custom_styles["edge"][t["source"]][t.get("dest")]`
(an internal transition has no "dest" key; `.get` yields None, which is never a styled key) -/
def roiTrans (st : Styles) (act : List Path) (ts : List MTrans) : List MTrans :=
  ts.filter (fun t => act.contains t.source || st.edgeStyled t.source t.dest)

def roiStates (st : Styles) (act : List Path) (ts : List MTrans) : List Path :=
  act ++ ts.flatMap (fun t => [t.source, t.dest.getD t.source]) ++
    (st.node.filter (fun kv => kv.2 != 0)).map (·.1)

/-- `Graph.get_graph(title, roi_state)`; `roi = some cur` for `show_roi=True` -/
def diagram (o : Opts) (m : Mach) (st : Styles) (roi : Option (List Path)) : Diagram :=
  let ts := elements m
  match roi with
  | none => { nodes := nodesOf o st m.states, edges := edgesOf o ts, rootInit := m.initial }
  | some cur =>
    let ts' := roiTrans st (roiActive o cur) ts
    let keep := roiStates st (roiActive o cur) ts'
    { nodes := nodesOf o st (filterList keep [] m.states), edges := edgesOf o ts',
      rootInit := match m.initial with
        | some i => if cur == [i] then some i else none
        | none => none }

/-- `_get_graph(model, show_roi)`: the ROI state is read from the configured attribute as well -/
def diagramObj (o : Opts) (m : Mach) (init : Obj) (h : List ObjStep) (roi : Option Obj) : Diagram :=
  diagram o m (stylesAfterObj o init h) (roi.map (readState o.modelAttr))

/-! ### a session: what the machine and a model's graph go through between diagram reads -/

/-- display options (`show_conditions`, `show_state_attributes`; `auto_transitions_markup` acts through the
description: which transitions are listed) and the machine description may change between two reads of
the diagram; the graph object only keeps styles -/
inductive Event
  | graph (s : ObjStep)        -- a graph event of this model
  | options (o : Opts)         -- an option attribute is set on the machine
  | machine (m : Mach)         -- add_states / add_transition / remove_transition / callbacks added / auto flag
  deriving Repr, Inhabited

structure Session where
  opts : Opts
  mach : Mach
  styles : Styles
  deriving Repr, Inhabited

def Session.apply (s : Session) : Event → Session
  | .graph g => { s with styles := applyStep s.styles (g.resolve s.opts.modelAttr) }
  | .options o => { s with opts := o }
  | .machine m => { s with mach := m }

/-- `model.get_graph(show_roi=…)` at this point of the session: computed from what the machine is NOW -/
def Session.view (s : Session) (roi : Option Obj) : Diagram :=
  diagram s.opts s.mach s.styles (roi.map (readState s.opts.modelAttr))

/-! ### `model_graphs`: one graph per model, keyed by `id(model)` -/

/-- `machine.model_graphs` (a dict keyed by `id(model)`): the first entry for a key is the current one -/
abbrev Store := List (Nat × Styles)

def Store.get (k : Nat) : Store → Styles
  | [] => {}
  | (k', s) :: r => if k' = k then s else Store.get k r

def Store.set (k : Nat) (s : Styles) (st : Store) : Store := (k, s) :: st

/-- machine-level events on the store. `id`s may be reused: the same object re-attached, or a new
object allocated at the address of a collected one. -/
inductive MEvent
  /-- `add_model(model)`: `get_graph(force_new=True)` — a NEW graph styled for the model's state -/
  | addModel (id : Nat) (m : Obj)
  /-- `remove_model(model)`: the entry of `model_graphs` is left where it is -/
  | removeModel (id : Nat)
  /-- a graph event of the model with this id -/
  | graph (id : Nat) (s : ObjStep)
  deriving Repr, Inhabited

def storeStep (attr : Nat) (st : Store) : MEvent → Store
  | .addModel id m => st.set id (({} : Styles).setNodes (readState attr m) 1)
  | .removeModel _ => st
  | .graph id g => st.set id (applyStep (st.get id) (g.resolve attr))

/-! ### observations on diagrams (used by the property statements) -/

mutual
/-- names of the declared states, in order of declaration -/
def dnames : DNode → List Path
  | .mk name _ _ _ _ _ _ kids => name :: dnamesL kids
def dnamesL : List DNode → List Path
  | [] => []
  | d :: r => dnames d ++ dnamesL r
end

mutual
/-- every state declared inside the block of `n` is named `n ++ [c]` (and so on downwards) -/
def nestedOK : DNode → Bool
  | .mk name _ _ _ _ _ _ kids => nestedOKL name kids
def nestedOKL (parent : Path) : List DNode → Bool
  | [] => true
  | d :: r => (d.name.dropLast == parent && d.name != parent) && nestedOK d && nestedOKL parent r
end

mutual
/-- global names of all states of a markup tree (pre-order); children exist where the "children" key does -/
def paths (pre : Path) : MState → List Path
  | .mk name _ _ _ _ _ block kids _ => (pre ++ [name]) :: (if block then pathsL (pre ++ [name]) kids else [])
def pathsL (pre : Path) : List MState → List Path
  | [] => []
  | s :: r => paths pre s ++ pathsL pre r
end

mutual
/-- sibling names are distinct (states live in a dict) and a block is present where there are children -/
def wfState : MState → Bool
  | .mk _ _ _ _ _ _ block kids _ => (block || kids.isEmpty) && wfList kids
def wfList : List MState → Bool
  | [] => true
  | s :: r => !(r.map MState.name).contains s.name && wfState s && wfList r
end

mutual
/-- the node declared under `p`, if any -/
def findNode (p : Path) : DNode → Option DNode
  | .mk name label final cls block init par kids =>
    if name = p then some (.mk name label final cls block init par kids) else findNodeL p kids
def findNodeL (p : Path) : List DNode → Option DNode
  | [] => none
  | d :: r => match findNode p d with
    | some x => some x
    | none => findNodeL p r
end

mutual
def findState (pre p : Path) : MState → Option MState
  | .mk name label final enter exit init block kids trans =>
    if pre ++ [name] = p then some (.mk name label final enter exit init block kids trans)
    else if block then findStateL (pre ++ [name]) p kids else none
def findStateL (pre p : Path) : List MState → Option MState
  | [] => none
  | s :: r => match findState pre p s with
    | some x => some x
    | none => findStateL pre p r
end

/-- top-level states carrying style class `v` -/
def styledTop (d : Diagram) (v : Nat) : List Path :=
  (d.nodes.filter (fun n => n.cls == some v)).map DNode.name

/-- labels shown on the edge from `src` to `dst` (`[]` when there is no such edge) -/
def labelsAt (es : List Edge) (k : Path × Path) : List ELabel :=
  match es.find? (fun e => (e.src, e.dst) = k) with
  | some e => e.labels
  | none => []

end Diagram
end TM
