/-
  Model/Features.lean — the state feature mixins of `transitions/extensions/states.py`
  (`Tags`, `Error`, `Volatile`, `Retry`, composed by `add_state_features`), written after the code.

  `add_state_features(A, B, …)` synthesises `class CustomState(type('CustomState', (A, B, …), {}), state_cls)`;
  Python's MRO of that class lists the mixins in the order given (`Error` drags its base `Tags` behind
  it; `Tags` *before* `Error` cannot be linearised and raises `TypeError` at decoration time), then the
  machine's own state class (`State` / `NestedState`).  `enter`/`exit` are cooperative `super()` chains
  along that order, so a decorated state's `enter` is the composition below, read left to right:

    Tags      no `enter`/`exit` of its own (only `__init__`/`__getattr__`)
    Error     `if not machine.get_triggers(self.name) and not self.is_accepted: raise MachineError`
              else continue
    Volatile  `setattr(model, hook, volatile_cls())`, continue;   exit: continue first, then `delattr`
    Retry     `if transition.source != self.name: retry_counts[id(model)] = 0`
              `if retry_counts[id(model)] > retries > 0: machine.callback(on_failure); return`
              else `retry_counts.update((id(model),))`, continue
    State     run the `on_enter` / `on_exit` callbacks

  The engine (which state is exited/entered for which model with which `transition.source`) is an
  *input*: a history is a list of `Op`s.  A thin flat-machine layer (`Flat`, `trigger`) produces the ops
  the way `Transition._change_state` does, for the correspondence on flat machines.

  Names (states, models, tags, hook names, events) are naturals; tag `0` is the string `'accepted'`,
  hook `0` is the default hook name `'scope'`.  Volatile objects are numbered in creation order.
  No imports: the driver must link as a `lean_exe`.
-/
namespace TM
namespace Feat

inductive Mixin
  | tags | error | volatile | retry
  deriving DecidableEq, Repr, Inhabited

/-- Feature arguments of one state definition (defaults = the keyword was not passed). -/
structure SArgs where
  tags : List Nat := []
  accepted : Bool := false     -- `accepted=True` (Error.__init__ appends the tag 'accepted')
  hook : Nat := 0              -- `hook=` of Volatile, default 'scope'
  retries : Nat := 0           -- `retries=` of Retry, default 0 (= no limit)
  deriving Repr, Inhabited, DecidableEq

structure Cfg where
  feats : List Mixin           -- decorator arguments = MRO order of the mixins
  args : Nat → SArgs
  hasOut : Nat → Bool          -- `bool(machine.get_triggers(<name of s>))`
  nhooks : Nat := 1            -- hook names a recorder looks at (observation only)

/-- `self.tags` after `Error.__init__` / `Tags.__init__`. -/
def effTags (a : SArgs) : List Nat :=
  if a.accepted then a.tags ++ [0] else a.tags

/-- `Tags.__getattr__('is_<t>')` -/
def isTag (c : Cfg) (s t : Nat) : Bool := (effTags (c.args s)).contains t

/-- `self.is_accepted` -/
def isAccepted (c : Cfg) (s : Nat) : Bool := isTag c s 0

/-- What a recorder / the harness can see. `snap` is the model's hook attributes at that moment. -/
inductive Obs
  | enterCbs (s m : Nat) (snap : List (Option Nat))   -- `State.enter` reached: the on_enter callbacks run
  | exitCbs (s m : Nat) (snap : List (Option Nat))    -- `State.exit` reached: the on_exit callbacks run
  | exitAbort (s m : Nat) (snap : List (Option Nat))  -- … and one of them raised: the exit (and the transition) is aborted
  | enterAbort (s m : Nat) (snap : List (Option Nat)) -- one of the on_enter callbacks raised (after `enterCbs`: they were reached)
  | failure (s m : Nat) (snap : List (Option Nat))    -- Retry invoked `on_failure`
  | raised (s m : Nat)                                  -- Error raised MachineError
  | created (id : Nat)                                  -- Volatile instantiated `volatile_cls()`
  deriving Repr, DecidableEq

/-- Mutable state the mixins keep: `retry_counts` (a `Counter` per state object, keyed by model),
the hook attributes of every model, the number of volatile objects created so far, the log. -/
structure FS where
  counts : Nat → Nat → Nat              -- state → model → count   (Counter: default 0)
  hooks : Nat → Nat → Option Nat        -- model → hook name → object
  fresh : Nat
  log : List Obs

def FS.init : FS := { counts := fun _ _ => 0, hooks := fun _ _ => none, fresh := 0, log := [] }

def set2 {α} (f : Nat → Nat → α) (a b : Nat) (v : α) : Nat → Nat → α :=
  fun x y => if x = a ∧ y = b then v else f x y

def snap (c : Cfg) (m : Nat) (st : FS) : List (Option Nat) := (List.range c.nhooks).map (st.hooks m)

def FS.push (st : FS) (o : Obs) : FS := { st with log := st.log ++ [o] }

inductive Outcome
  | entered | failed | raised | aborted
  deriving DecidableEq, Repr

/-- `if event_data.transition.source != self.name: self.retry_counts[k] = 0` -/
def resetIf (s m src : Nat) (st : FS) : FS :=
  if src ≠ s then { st with counts := set2 st.counts s m 0 } else st

/-- `CustomState.enter(event_data)` for state `s`, model `m`, `event_data.transition.source = src`,
along the remaining MRO `l`. -/
def enterChain (c : Cfg) (s m src : Nat) : List Mixin → FS → FS × Outcome
  | [], st => (st.push (.enterCbs s m (snap c m st)), .entered)
  | .tags :: r, st => enterChain c s m src r st
  | .error :: r, st =>
    if !c.hasOut s && !isAccepted c s then (st.push (.raised s m), .raised)
    else enterChain c s m src r st
  | .volatile :: r, st =>
    enterChain c s m src r
      { st with hooks := set2 st.hooks m (c.args s).hook (some st.fresh), fresh := st.fresh + 1,
                log := st.log ++ [.created st.fresh] }
  | .retry :: r, st =>
    let st1 : FS := resetIf s m src st
    let n := st1.counts s m
    let rt := (c.args s).retries
    if n > rt ∧ rt > 0 then (st1.push (.failure s m (snap c m st1)), .failed)
    else enterChain c s m src r { st1 with counts := set2 st1.counts s m (n + 1) }

def enterOp (c : Cfg) (s m src : Nat) (st : FS) : FS × Outcome := enterChain c s m src c.feats st

/-- `CustomState.exit(event_data)`: only Volatile overrides it (callbacks first, then `delattr`,
a missing attribute is ignored). -/
def exitOp (c : Cfg) (s m : Nat) (st : FS) : FS :=
  let st1 := st.push (.exitCbs s m (snap c m st))
  if c.feats.contains .volatile then { st1 with hooks := set2 st1.hooks m (c.args s).hook none } else st1

/-- `CustomState.exit(event_data)` when an on_exit callback raises: the exception leaves `State.exit` and
`Volatile.exit` (no `finally` there), so the hook attribute stays; `Transition._change_state` is left
before `set_state`: the model remains in the state, with its object. -/
def exitFailOp (c : Cfg) (s m : Nat) (st : FS) : FS :=
  st.push (.exitAbort s m (snap c m st))

/-- `CustomState.enter(event_data)` when an on_enter callback raises.  The callbacks are the *last* thing the
chain does: `Retry.enter` has already counted the attempt (`retry_counts.update` comes before
`super().enter`), `Volatile.enter` has already bound its object; the exception only ends the trigger. -/
def enterFailOp (c : Cfg) (s m src : Nat) (st : FS) : FS × Outcome :=
  let r := enterOp c s m src st
  if r.2 = .entered then (r.1.push (.enterAbort s m (snap c m r.1)), .aborted) else r

inductive Op
  | enter (s m src : Nat)
  | enterFail (s m src : Nat)   -- an entry whose on_enter callbacks raise
  | exit (s m : Nat)
  | exitFail (s m : Nat)        -- an exit whose callbacks raise
  deriving DecidableEq, Repr

def Op.model : Op → Nat
  | .enter _ m _ => m
  | .enterFail _ m _ => m
  | .exit _ m => m
  | .exitFail _ m => m

def Op.state : Op → Nat
  | .enter s _ _ => s
  | .enterFail s _ _ => s
  | .exit s _ => s
  | .exitFail s _ => s

def step (c : Cfg) : Op → FS → FS × Outcome
  | .enter s m src, st => enterOp c s m src st
  | .enterFail s m src, st => enterFailOp c s m src st
  | .exit s m, st => (exitOp c s m st, .entered)
  | .exitFail s m, st => (exitFailOp c s m st, .aborted)

/-- a history of entries and exits (a MachineError ends a *trigger*, not the history) -/
def runOps (c : Cfg) : List Op → FS → FS
  | [], st => st
  | o :: r, st => runOps c r (step c o st).1

/-- the ops of one trigger call: stops at a MachineError (flag) or at an aborted exit -/
def runGroup (c : Cfg) : List Op → FS → FS × Bool
  | [], st => (st, false)
  | o :: r, st =>
    match step c o st with
    | (st1, .raised) => (st1, true)
    | (st1, .aborted) => (st1, false)
    | (st1, _) => runGroup c r st1

/-! ### flat machine layer (`Event._trigger`, `Transition.execute/_change_state`, no conditions) -/

structure Trans where
  ev : Nat
  src : Nat
  dest : Option Nat            -- `none` = internal transition
  deriving Repr

structure Flat where
  feats : List Mixin
  args : Nat → SArgs
  nhooks : Nat
  trans : List Trans           -- in registration order (auto transitions expanded by the harness)
  ignoreInvalid : Bool

/-- `Machine.get_triggers(name)`: events that have a transition list for that source -/
def Flat.cfg (F : Flat) : Cfg :=
  { feats := F.feats, args := F.args, nhooks := F.nhooks, hasOut := fun s => F.trans.any (fun t => t.src = s) }

structure MS where
  fs : FS
  cur : Nat → Nat              -- model → state

inductive TRes
  | ok | ignored | invalid | errorState | vetoed | enterVetoed
  deriving DecidableEq, Repr

def TRes.code : TRes → Nat
  | .ok => 0 | .ignored => 1 | .invalid => 2 | .errorState => 3 | .vetoed => 4 | .enterVetoed => 5

/-- `veto`: an on_exit callback of the source state raises during this trigger -/
def trigger (F : Flat) (m ev : Nat) (ms : MS) (veto : Bool := false) (eveto : Bool := false) : MS × TRes :=
  match F.trans.find? (fun t => t.ev = ev ∧ t.src = ms.cur m) with
  | none => (ms, if F.ignoreInvalid then .ignored else .invalid)
  | some t =>
    match t.dest with
    | none => (ms, .ok)
    | some d =>
      if veto then ({ ms with fs := exitFailOp F.cfg t.src m ms.fs }, .vetoed) else
      let fs1 := exitOp F.cfg t.src m ms.fs
      let r := if eveto then enterFailOp F.cfg d m t.src fs1 else enterOp F.cfg d m t.src fs1
      ({ fs := r.1, cur := fun x => if x = m then d else ms.cur x },
        if r.2 = .raised then .errorState else if r.2 = .aborted then .enterVetoed else .ok)

/-- `model.may_<ev>()` / `may_trigger(ev)` (`Machine._can_trigger`, no conditions): is there a transition of
`ev` from the model's state?  A query: it returns a value and has no state to change — in particular the
transition table that `get_triggers` (hence `Error.enter`) reads stays as it is. -/
def may (F : Flat) (m ev : Nat) (ms : MS) : Bool :=
  (F.trans.find? (fun t => t.ev = ev ∧ t.src = ms.cur m)).isSome

/-- one step of a flat history: a trigger (does an on_exit callback raise?) or a `may_` poll -/
inductive FStep
  | trig (m ev : Nat) (veto : Bool)
  | poll (m ev : Nat)
  deriving Repr, DecidableEq

def FStep.isPoll : FStep → Bool
  | .poll _ _ => true
  | _ => false

def runFlat (F : Flat) : List FStep → MS → MS
  | [], ms => ms
  | .trig m ev veto :: r, ms => runFlat F r (trigger F m ev ms veto).1
  | .poll _ _ :: r, ms => runFlat F r ms

/-! ### `add_state_features`: merged `dynamic_methods`

`method_list = sum([c.dynamic_methods for c in inspect.getmro(CustomState) if hasattr(c, 'dynamic_methods')], [])`,
`CustomState.dynamic_methods = list(set(method_list))`: the MRO holds the mixins (each inherits `State`'s
`['on_enter', 'on_exit']`; method names as naturals: 0 `on_enter`, 1 `on_exit`, 2 `on_final`, 3 `on_timeout`) and
the machine's own state class (`State`, or `NestedState` with `on_final` in addition). -/

def Mixin.methods : Mixin → List Nat
  | _ => [0, 1]

/-- `CustomState.dynamic_methods` as a set; `base` = `dynamic_methods` of the machine's own state class -/
def customMethods (feats : List Mixin) (base : List Nat) : List Nat :=
  ((feats.map Mixin.methods).flatten ++ base ++ [0, 1]).eraseDups

/-! ### observation erasure used by the theorems -/

/-- an observation without object identities: (kind, state, model, hooks present?) -/
inductive ObsE
  | enterCbs (s m : Nat) | exitCbs (s m : Nat) | failure (s m : Nat) | raised (s m : Nat) | exitAbort (s m : Nat)
  | enterAbort (s m : Nat)
  deriving DecidableEq, Repr

/-- what a plain machine's recorders see of an observation (`created` is invisible) -/
def Obs.plain : Obs → Option ObsE
  | .enterCbs s m _ => some (.enterCbs s m)
  | .exitCbs s m _ => some (.exitCbs s m)
  | .exitAbort s m _ => some (.exitAbort s m)
  | .enterAbort s m _ => some (.enterAbort s m)
  | .failure s m _ => some (.failure s m)
  | .raised s m => some (.raised s m)
  | .created _ => none

def ObsE.model : ObsE → Nat
  | .enterCbs _ m => m | .exitCbs _ m => m | .failure _ m => m | .raised _ m => m | .exitAbort _ m => m
  | .enterAbort _ m => m

def plainLog (l : List Obs) : List ObsE := l.filterMap Obs.plain

def createdIds (l : List Obs) : List Nat :=
  l.filterMap fun | .created i => some i | _ => none

end Feat
end TM

namespace TM
namespace Feat

/-! ### vocabulary of the C19 statements -/

/-- `o` is a re-entry of `s` by model `m` from `s` itself (`transition.source == self.name`) -/
def isSelf (s m : Nat) : Op → Bool
  | .enter s' m' src => decide (s' = s ∧ m' = m ∧ src = s)
  | .enterFail s' m' src => decide (s' = s ∧ m' = m ∧ src = s)   -- an attempt whose enter callback raised is an attempt
  | _ => false

/-- `o` is an entry of `s` by model `m` from another state -/
def isForeign (s m : Nat) : Op → Bool
  | .enter s' m' src => decide (s' = s ∧ m' = m ∧ src ≠ s)
  | .enterFail s' m' src => decide (s' = s ∧ m' = m ∧ src ≠ s)
  | _ => false

/-- `state.tags = l` / in-place edits of the public `tags` list of a built state (`l` = the list afterwards) -/
def Cfg.setTags (c : Cfg) (s : Nat) (l : List Nat) : Cfg :=
  { c with args := fun x => if x = s then { c.args x with tags := l, accepted := false } else c.args x }

/-- A transition source as written in the declaration: the name `rel`, relative to the scope `scope` the
transition was declared in (the machine itself, or a parent's state dict: `'transitions': [['again', 'b', 'b']]`). -/
structure Declared where
  scope : Nat
  rel : Nat
  deriving Repr, DecidableEq

/-- `Retry.enter` (repaired, /repo 962fbf3) on a hierarchical machine:
`source = separator.join(machine.prefix_path + [transition.source])` — the declared source is made global with
the scope the transition is being processed in (`full scope rel` is that join) before it is compared with the
scoped `self.name`. -/
def enterDeclared (c : Cfg) (full : Nat → Nat → Nat) (s m : Nat) (d : Declared) (st : FS) : FS × Outcome :=
  enterOp c s m (full d.scope d.rel) st

/-- C19's Retry clause as the *hierarchical* engine exercises it, full strength.  After an entry of `s` by
`m` from another state come `seen.length` consecutive re-entries of `s` from `s` itself — transitions whose
declared source, wherever and however it was declared, *is* the state `s` (`full scope rel = s`) — and then
one more.  The clause: that last re-entry runs the enter callbacks iff it is at most the `retries`-th. -/
def RetryExactScoped (c : Cfg) (full : Nat → Nat → Nat) (s m : Nat) : Prop :=
  ∀ (st : FS) (d0 : Declared), full d0.scope d0.rel ≠ s →
    ∀ (seen : List Declared) (last : Declared),
      (∀ d ∈ seen, full d.scope d.rel = s) → full last.scope last.rel = s →
      ((enterDeclared c full s m last
          (runOps c (.enter s m (full d0.scope d0.rel) ::
            seen.map (fun d => Op.enter s m (full d.scope d.rel))) st)).2 = .entered ↔
        seen.length + 1 ≤ (c.args s).retries)

/-- the undecorated machine: no mixins in the state class -/
def Cfg.plain (c : Cfg) : Cfg := { c with feats := [] }

/-- a state the features do not single out: no retry limit, and not a rejecting dead end of an Error machine -/
def FeatureFree (c : Cfg) (s : Nat) : Prop :=
  (c.args s).retries = 0 ∧ (.error ∈ c.feats → c.hasOut s = true ∨ isAccepted c s = true)

/-- what one model's bookkeeping and recorders show, identities of volatile objects erased -/
def ViewEq (m : Nat) (a b : FS) : Prop :=
  (∀ s, a.counts s m = b.counts s m) ∧ (∀ h, (a.hooks m h).isSome = (b.hooks m h).isSome) ∧
  (plainLog a.log).filter (fun e => e.model = m) = (plainLog b.log).filter (fun e => e.model = m)

/-- invariant behind "fresh": objects are numbered in creation order, nothing bound is from the future -/
def FreshInv (st : FS) : Prop :=
  createdIds st.log = List.range st.fresh ∧ ∀ m h id, st.hooks m h = some id → id < st.fresh

end Feat
end TM

namespace TM
namespace Feat

/-! ### construction: `Machine.add_states` → `_create_state(**definition)` → `Error.__init__` → `Tags.__init__`

`Error.__init__` (repaired, /repo 3389265): `if accepted: kwargs['tags'] = list(kwargs.get('tags', [])) + ['accepted']`
— a *new* list; `Tags.__init__` keeps `self.tags = kwargs.pop('tags', [])`.  The caller's list objects are
modelled as references into a heap so that definitions which share one `tags=` list object can be expressed:
construction reads them and never writes them. -/

/-- a state definition as the caller writes it -/
structure SDef where
  name : Nat
  tagsRef : Option Nat := none   -- which list object is passed as `tags=` (`none`: keyword absent)
  accepted : Bool := false       -- `accepted=True` (valid with Error only)
  hook : Nat := 0
  retries : Nat := 0
  deriving Repr, DecidableEq

/-- the caller's list objects after all states have been constructed, in definition order:
no `__init__` writes to them -/
def initHeap : List SDef → (Nat → List Nat) → (Nat → List Nat)
  | [], h => h
  | _ :: r, h => initHeap r h

/-- the tags the definition gives the state -/
def givenTags (heap : Nat → List Nat) (d : SDef) : List Nat :=
  match d.tagsRef with
  | some ref => heap ref
  | none => []

/-- `state.tags` once the machine is built: the caller's object as it is then (not accepted), or a copy of
it with 'accepted' appended -/
def builtTags (defs : List SDef) (heap : Nat → List Nat) (d : SDef) : List Nat :=
  if d.accepted then givenTags (initHeap defs heap) d ++ [0] else givenTags (initHeap defs heap) d

/-- post-construction feature arguments (what `Cfg.args` holds) -/
def builtArgs (defs : List SDef) (heap : Nat → List Nat) (s : Nat) : SArgs :=
  match defs.find? (fun d => d.name = s) with
  | some d => { tags := builtTags defs heap d, accepted := false, hook := d.hook, retries := d.retries }
  | none => {}

/-- C19's tag clause on the built machine, full strength: every state answers `is_<t>` True exactly for
the tags its definition gives it (+ 'accepted' when it is declared accepted) — whatever list objects the
definitions share. -/
def TagsExact (defs : List SDef) (heap : Nat → List Nat) : Prop :=
  ∀ d ∈ defs, ∀ t, t ∈ builtTags defs heap d ↔ (t ∈ givenTags heap d ∨ (t = 0 ∧ d.accepted = true))

end Feat
end TM
