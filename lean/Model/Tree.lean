/-
  Model/Tree.lean — the tree layer of the hierarchical engine (`transitions/extensions/nesting.py`):

    OrderedDict state trees            `Forest`  (ordered forest in first-child / next-sibling form:
                                                  `cons key sub rest` = the entry `key ↦ sub` followed by `rest`)
    `_build_state_list`                `buildStateList`   (tree → nested list of joined names)
    `HierarchicalMachine.build_state_tree`  `buildStateTree`  (nested list → tree, `setdefault` along every path)
    `resolve_order`                    `resolveOrder`     (the queue loop of the code, fuelled)
    `reduce(dict.get, path, tree)`     `Forest.reduceGet`
    state definitions                  `SDef`, `SForest`  (the `states` OrderedDicts of machine and NestedStates,
                                                  every NestedState carrying its own `events` table and `initial`)
    `HierarchicalMachine.__call__/__enter__`  `Scope`, `Scope.enter`
    `HierarchicalMachine.get_state`    `getState`  (scope-relative walk, absolute retry for paths longer than one)
    `_resolve_initial`                 `resolveInitial`

  State names are paths `List Nat` (one natural per segment); the code's `split`/`join` on the separator is a
  bijection on such paths because no segment contains the separator.
  Import-free apart from `Model.Basic`/`Model.Core` (vocabulary of callbacks and conditions).
-/
import Model.Core

namespace TM

abbrev SPath := List Nat

/-- An `OrderedDict` tree: `cons key sub rest` is the first entry `key ↦ sub` followed by the entries `rest`.
The active configuration of a model (`build_state_tree(model.state)`) is such a tree. -/
inductive Forest
  | nil
  | cons (key : Nat) (sub : Forest) (rest : Forest)
  deriving DecidableEq, Repr, Inhabited

namespace Forest

def isEmpty : Forest → Bool
  | nil => true
  | cons .. => false

/-- `len(d)` -/
def len : Forest → Nat
  | nil => 0
  | cons _ _ r => r.len + 1

/-- `d.items()` in order -/
def items : Forest → List (Nat × Forest)
  | nil => []
  | cons k s r => (k, s) :: r.items

def keys : Forest → List Nat
  | nil => []
  | cons k _ r => k :: r.keys

/-- `d.get(k)` -/
def get? : Forest → Nat → Option Forest
  | nil, _ => none
  | cons k s r, x => if k = x then some s else r.get? x

/-- `d[k] = v`: an existing key keeps its position, a new key goes to the end -/
def set : Forest → Nat → Forest → Forest
  | nil, x, v => cons x v nil
  | cons k s r, x, v => if k = x then cons k v r else cons k s (r.set x v)

/-- `d.setdefault(k, OrderedDict())` (the dict afterwards) -/
def setDefault (f : Forest) (k : Nat) : Forest :=
  match f.get? k with
  | some _ => f
  | none => f.set k nil

/-- number of entries of the whole tree -/
def size : Forest → Nat
  | nil => 0
  | cons _ s r => s.size + r.size + 1

/-- all paths of the tree, every entry before the entries below it (pre-order) -/
def nodes : Forest → List SPath
  | nil => []
  | cons k s r => ([k] :: s.nodes.map (k :: ·)) ++ r.nodes

/-- paths of the entries without children (what the model's state value names) -/
def leaves : Forest → List SPath
  | nil => []
  | cons k s r => (if s.isEmpty then [[k]] else s.leaves.map (k :: ·)) ++ r.leaves

/-- the sub-dictionary reached by following `p` -/
def sub? : Forest → SPath → Option Forest
  | f, [] => some f
  | f, k :: p => match f.get? k with
    | some s => s.sub? p
    | none => none

/-- `reduce(dict.get, path, tree)`: `none` when only the last lookup misses (the result is Python's `None`),
`TypeError` (`dict.get` applied to `None`) when an earlier one does -/
def reduceGet : Forest → SPath → Except Exc (Option Forest)
  | f, [] => .ok (some f)
  | f, k :: p => match f.get? k with
    | some s => s.reduceGet p
    | none => if p.isEmpty then .ok none else .error .other

/-- in-place update of the sub-dictionary at `p` (identity if `p` is not in the tree) -/
def modifyAt : Forest → SPath → (Forest → Forest) → Forest
  | f, [], g => g f
  | nil, _ :: _, _ => nil
  | cons k s r, x :: p, g => if k = x then cons k (s.modifyAt p g) r else cons k s (r.modifyAt (x :: p) g)

end Forest

/-- the model's state value: a joined name, or a list of such values (`_build_state_list`).
`nil`/`cons` spell a Python list. -/
inductive SVal
  | name (p : SPath)
  | nil
  | cons (head : SVal) (tail : SVal)
  deriving DecidableEq, Repr, Inhabited

/-- `res if len(res) > 1 else res[0]` -/
def SVal.collapse : SVal → SVal
  | .cons h .nil => h
  | v => v

/-- the list `res` built by the loop of `_build_state_list(state_tree, separator, prefix)` -/
def buildStateItems (pre : SPath) : Forest → SVal
  | .nil => .nil
  | .cons k s r =>
    .cons (if s.isEmpty then .name (pre ++ [k]) else (buildStateItems (pre ++ [k]) s).collapse) (buildStateItems pre r)

/-- `_build_state_list(state_tree, separator, prefix)`: `res if len(res) > 1 else res[0]` -/
def buildStateList (pre : SPath) (f : Forest) : SVal := (buildStateItems pre f).collapse

/-- `tmp = tmp.setdefault(k, OrderedDict())` followed by what is done to `tmp` -/
def Forest.upsert (k : Nat) (g : Forest → Forest) : Forest → Forest
  | .nil => .cons k (g .nil) .nil
  | .cons k' s r => if k' = k then .cons k' (g s) r else .cons k' s (upsert k g r)

/-- `build_state_tree`: one path inserted with `setdefault` at every level -/
def Forest.insertPath : SPath → Forest → Forest
  | [], f => f
  | k :: p, f => f.upsert k (insertPath p)

/-- `HierarchicalMachine.build_state_tree(model_states, separator, tree)` -/
def buildStateTree : SVal → Forest → Forest
  | .name p, t => t.insertPath p
  | .nil, t => t
  | .cons h r, t => buildStateTree r (buildStateTree h t)

/-! ### `resolve_order` -/

/-- one pass of the `for state_name in reversed(list(state_tree.keys()))` loop: the names appended to
`res` and the entries appended to `queue` -/
def roVisit (pre : SPath) (f : Forest) : List SPath × List (SPath × Forest) :=
  let ks := f.items.reverse
  (ks.map (fun e => pre ++ [e.1]), (ks.filter (fun e => !e.2.isEmpty)).map (fun e => (pre ++ [e.1], e.2)))

/-- the `while True:` loop of `resolve_order`; the head of `queue` is the `(prefix, state_tree)` being
visited.  `none` = out of fuel (never with the fuel `resolveOrder` supplies). -/
def roLoop : Nat → List (SPath × Forest) → List SPath → Option (List SPath)
  | _, [], res => some res
  | 0, _ :: _, _ => none
  | n + 1, (pre, f) :: q, res =>
    let v := roVisit pre f
    roLoop n (q ++ v.2) (res ++ v.1)

/-- `resolve_order(state_tree)`: children before parents, deepest level first -/
def resolveOrder (f : Forest) : Option (List SPath) :=
  (roLoop (f.size + 1) [([], f)] []).map List.reverse

/-! ### state definitions and scopes -/

/-- a transition as stored in the `events` table of a scope: source and destination are
scope-relative names -/
structure NTrans where
  source : SPath
  dest : Option SPath          -- `none` = internal transition
  prepare : List Nat := []
  conds : List Cond := []
  before : List Nat := []
  after : List Nat := []
  deriving DecidableEq, Repr, Inhabited

/-- a `NestedState` without its children -/
structure SDef where
  name : Nat
  onEnter : List Nat := []
  onExit : List Nat := []
  ignore : Option Bool := none
  /-- `NestedState.initial`, listified -/
  initial : List Nat := []
  /-- `NestedState.events`: events declared inside this state's definition -/
  events : List (Nat × List NTrans) := []
  /-- `State.final` -/
  final : Bool := false
  /-- `NestedState.on_final` -/
  onFinal : List Nat := []
  deriving DecidableEq, Repr, Inhabited

/-- `states` of the machine / of a NestedState: ordered, `cons d kids rest` -/
inductive SForest
  | nil
  | cons (d : SDef) (kids : SForest) (rest : SForest)
  deriving DecidableEq, Repr, Inhabited

namespace SForest

/-- `states[name]` -/
def find : SForest → Nat → Option (SDef × SForest)
  | nil, _ => none
  | cons d kids rest, k => if d.name = k then some (d, kids) else rest.find k

def size : SForest → Nat
  | nil => 0
  | cons _ kids rest => kids.size + rest.size + 1

/-- follow a path of names down the definition tree -/
def walk : SForest → SPath → Option (SDef × SForest)
  | _, [] => none
  | f, [k] => f.find k
  | f, k :: p => match f.find k with
    | some (_, kids) => kids.walk p
    | none => none

/-- paths of all defined states (pre-order) -/
def paths : SForest → List SPath
  | nil => []
  | cons d kids rest => ([d.name] :: kids.paths.map (d.name :: ·)) ++ rest.paths

/-- `has_trigger(trigger, state)` over a `states` dictionary -/
def hasTrigger (ev : Nat) : SForest → Bool
  | nil => false
  | cons d kids rest => (alookup ev d.events).isSome || kids.hasTrigger ev || rest.hasTrigger ev

end SForest

/-- `(self.scoped, self.states, self.events, self.prefix_path)` -/
structure Scope where
  owner : Option SDef             -- `self.scoped`; `none` = the machine itself
  states : SForest
  events : List (Nat × List NTrans)
  pre : SPath
  deriving Repr, Inhabited

/-- `with self(name):` — `self.states[name]` raises KeyError for an unknown name -/
def Scope.enter (sc : Scope) (k : Nat) : Option Scope :=
  match sc.states.find k with
  | some (d, kids) => some { owner := some d, states := kids, events := d.events, pre := sc.pre ++ [k] }
  | none => none

/-- `scoped.initial` (the machine's own `initial` plays no role after construction) -/
def Scope.initial (sc : Scope) : List Nat :=
  match sc.owner with
  | some d => d.initial
  | none => []

/-- a state object together with the global path under which it is registered -/
structure Found where
  d : SDef
  kids : SForest
  path : SPath
  deriving Repr, Inhabited

/-- `get_state(path)` called while the machine is in scope `sc` (`root` = the machine's own scope):
the names are followed from the current scope; when that fails and the path has more than one
element it is looked up again from the root scope; otherwise ValueError. -/
def getState (root sc : Scope) (p : SPath) : Option Found :=
  match sc.states.walk p with
  | some (d, kids) => some ⟨d, kids, sc.pre ++ p⟩
  | none =>
    if p.length > 1 then
      match root.states.walk p with
      | some (d, kids) => some ⟨d, kids, p⟩
      | none => none
    else none

/-! ### `_resolve_initial` -/

/-- for every state of a `states` dictionary: its name and the configuration below it that
`_resolve_initial` builds (initial children, recursively; a name listed in `initial` that is not a
child raises KeyError → `none`) -/
def initTable : SForest → Option (List (Nat × Forest))
  | .nil => some []
  | .cons d kids rest =>
    match initTable kids, initTable rest with
    | some tk, some tr =>
      match d.initial.mapM (fun n => (alookup n tk).map fun f => (n, f)) with
      | some sel => some ((d.name, sel.foldl (fun acc e => acc.set e.1 e.2) Forest.nil) :: tr)
      | none => none
    | _, _ => none

/-- `_resolve_initial(models, path)` as a tree: the path followed by the initial descent below its end -/
def resolveInitial : SForest → SPath → Option Forest
  | _, [] => none
  | f, [k] => match initTable f with
    | some t => (alookup k t).map fun below => Forest.cons k below .nil
    | none => none
  | f, k :: p => match f.find k with
    | some (_, kids) => (resolveInitial kids p).map fun below => Forest.cons k below .nil
    | none => none

end TM
