/-
  Model/Timeout.lean — state timeouts (`transitions/extensions/states.py: Timeout`,
  `transitions/extensions/asyncio.py: AsyncTimeout`) as a timed transition system over a virtual
  clock.  Property C17.  No imports: core Lean only.

  What is modelled, after the code:

  * a `Timer` object per `Timeout.enter` with positive timeout (`threading.Timer(timeout, …).start()`
    / `asyncio.create_task(_timeout())`), kept for ever in `timers` (creation order) — the state's
    dict `runner[id(model)]` holds the *index* of the latest one, so an `enter` without a preceding
    `exit` overwrites the slot and the older timer keeps running un-cancellable, exactly as in the
    code (ghost flag `leaked` records that this happened);
  * `Timeout.exit`: `timer = runner.get(id(model)); if timer is not None and timer.is_alive():
    timer.cancel()` (`not timer_task.done()` / `.cancel()` in the async class).  A timer is alive
    from start until its function has returned or it was cancelled while waiting; `cancel()` only
    affects a timer that is still waiting: `threading.Timer.cancel` after the function has started
    does nothing, and in the async class the handler runs under `asyncio.shield`, so cancelling the
    outer task does not reach it;
  * firing: `_process_timeout` runs the `on_timeout` callbacks.  A handler is modelled by what the
    harness makes it do: record `fired`, optionally trigger one event on its own model, then either
    record `firedEnd` or raise (`raised`).  In the async class a raising handler is routed to the
    machine's `on_exception` callbacks when there are any (`routed`), and swallowed otherwise; in
    the threaded class the exception leaves through the timer thread;
  * the engine that calls `enter`/`exit` is abstract: `Cfg.resolve state event` is the sequence of
    `Timeout.exit` / `Timeout.enter` calls an event causes (reflexive = exit + enter, internal =
    nothing; re-entrant triggers from on_enter callbacks and callbacks that raise are part of that
    sequence).  `tEnter` starts the timer BEFORE anything an on_enter callback does, as the code
    does (`Timeout.enter` starts the timer, then `super().enter` runs the callbacks).  The theorems
    hold for EVERY such function;
  * time: a history is a list of `Op.tick early` (the clock moves by one unit; the events `early`
    arrive at that instant *before* the timers due at it fire — the "event wins the tie" order;
    then every waiting timer whose deadline is reached fires, in creation order, unless it has
    been cancelled by then) and `Op.ev m e` (an event at the current instant, after the timers).
-/
namespace TM
namespace Timeout

inductive Phase
  | waiting     -- started, function not yet called
  | running     -- the timer function (`_process_timeout`) has been entered
  | finished    -- function returned, or cancelled while waiting
  deriving DecidableEq, Repr, Inhabited

structure Timer where
  deadline : Nat
  m : Nat
  s : Nat
  phase : Phase
  deriving Repr, Inhabited

/-- observable records (recorder callbacks in on_enter / on_exit / on_timeout / on_exception, and the
clock) -/
inductive Rec
  | tick
  | enter (m s : Nat)
  | exit (m s : Nat)
  | fired (m s : Nat)       -- the on_timeout handler of state s starts for model m
  | firedEnd (m s : Nat)    -- … and runs to its end
  | raised (m s : Nat)      -- … or raises
  | routed (m s : Nat)      -- on_exception received that error
  deriving DecidableEq, Repr, Inhabited

/-- what the engine does with an event in a given (leaf) state -/
inductive Step
  | stay                                            -- internal transition: no exit, no enter
  /-- the `Timeout.exit` (false, s) / `Timeout.enter` (true, s) calls the engine makes for this event, in
  order — including those of events triggered re-entrantly by on_enter callbacks (they run, or are
  queued and run, right after the entry they belong to) and cut short where an on_enter / on_exit
  callback raises; `dest` the model's state afterwards; `raises`: an exception leaves the trigger call
  (a callback raised and the machine has no on_exception handler) -/
  | move (prog : List (Bool × Nat)) (dest : Nat) (raises : Bool)
  deriving Repr, Inhabited

structure Cfg where
  timeout : Nat → Nat              -- 0 = no timeout
  action : Nat → Option Nat        -- event the on_timeout handler of the state triggers on its model
  raises : Nat → Bool              -- the handler raises at its end
  onExc : Bool                     -- the machine has on_exception callbacks
  async : Bool                     -- AsyncTimeout (routing of handler errors) / Timeout
  resolve : Nat → Nat → Option Step
  /-- the key under which a state's `runner` dict files a model's timer.  The code uses `id(model)`:
  the identity function on models (distinct model objects never share a key).  A coarser function — a
  dict keyed by the model object itself looks it up by `__eq__`/`__hash__`, so two equal-comparing
  models share a key — is what `C17_coarse_key_counterexample` is about. -/
  key : Nat → Nat := id

structure St where
  now : Nat
  cur : Nat → Nat                       -- model ↦ current (leaf) state
  timers : List Timer                   -- every Timer object ever created, in creation order
  runner : Nat → Nat → Option Nat       -- state ↦ key of the model ↦ index of the timer in `state.runner[id(model)]`
  log : List Rec
  leaked : Bool                         -- ghost: some `enter` overwrote a timer that was still waiting
  tie : Bool                            -- ghost: some `exit` cancelled a timer at the very instant it was due

def St.init (cur : Nat → Nat) : St :=
  { now := 0, cur := cur, timers := [], runner := fun _ _ => none, log := [], leaked := false, tie := false }

def St.emit (st : St) (r : Rec) : St := { st with log := st.log ++ [r] }

def setPhase : List Timer → Nat → Phase → List Timer
  | [], _, _ => []
  | t :: ts, 0, p => { t with phase := p } :: ts
  | t :: ts, i + 1, p => t :: setPhase ts i p

/-- `Thread.is_alive()` / `not task.done()` -/
def Timer.isAlive (t : Timer) : Bool := t.phase != .finished

/-- `Timer.cancel()` / `task.cancel()`: only a waiting timer is stopped -/
def cancelTimer (ts : List Timer) (i : Nat) : List Timer :=
  match ts[i]? with
  | some t => if t.phase = .waiting then setPhase ts i .finished else ts
  | none => ts

/-- is the timer in `runner[s][m]` still waiting (ghost, for `leaked`) -/
def slotWaiting (st : St) (s m : Nat) : Bool :=
  match st.runner s m with
  | some j => match st.timers[j]? with
    | some t => t.phase == .waiting
    | none => false
  | none => false

/-- `Timeout.enter` (states.py:94-103, asyncio.py:645-656), then the on_enter recorder -/
def tEnter (cfg : Cfg) (m s : Nat) (st : St) : St :=
  if 0 < cfg.timeout s then
    { st with
      timers := st.timers ++ [{ deadline := st.now + cfg.timeout s, m := m, s := s, phase := .waiting }]
      runner := fun s' k' => if s' = s ∧ k' = cfg.key m then some st.timers.length else st.runner s' k'
      leaked := st.leaked || slotWaiting st s (cfg.key m)
      log := st.log ++ [.enter m s] }
  else st.emit (.enter m s)

/-- `Timeout.exit` (states.py:105-110, asyncio.py:658-672), then the on_exit recorder -/
def tExit (cfg : Cfg) (m s : Nat) (st : St) : St :=
  let st1 : St := match st.runner s (cfg.key m) with
    | some i =>
      match st.timers[i]? with
      | some t =>
        if t.isAlive then
          { st with timers := cancelTimer st.timers i
                    tie := st.tie || (t.phase == .waiting && decide (t.deadline ≤ st.now)) }
        else st
      | none => st
    | none => st
  st1.emit (.exit m s)

def act (cfg : Cfg) (m : Nat) (st : St) (a : Bool × Nat) : St :=
  if a.1 then tEnter cfg m a.2 st else tExit cfg m a.2 st

def acts (cfg : Cfg) (m : Nat) (prog : List (Bool × Nat)) (st : St) : St := prog.foldl (act cfg m) st

/-- one event on one model: the engine exits and enters what `resolve` says -/
def trigger (cfg : Cfg) (m e : Nat) (st : St) : St :=
  match cfg.resolve (st.cur m) e with
  | none => st
  | some .stay => st
  | some (.move prog d _) =>
    let st1 := acts cfg m prog st
    { st1 with cur := fun m' => if m' = m then d else st1.cur m' }

/-- does an exception leave that trigger call -/
def triggerRaises (cfg : Cfg) (m e : Nat) (st : St) : Bool :=
  match cfg.resolve (st.cur m) e with
  | some (.move _ _ r) => r
  | _ => false

/-- how the handler ends: `firedEnd`, or `raised` (+ `routed` under AsyncTimeout with on_exception) when it
raises itself or the event it triggered let an exception through (`r`) -/
def handlerEnd (cfg : Cfg) (m s : Nat) (r : Bool) (st : St) : St :=
  if cfg.raises s || r then
    if cfg.async && cfg.onExc then (st.emit (.raised m s)).emit (.routed m s) else st.emit (.raised m s)
  else st.emit (.firedEnd m s)

/-- the timer function of timer `i` runs (`_process_timeout`), if the timer is still waiting -/
def fire (cfg : Cfg) (i : Nat) (st : St) : St :=
  match st.timers[i]? with
  | some t =>
    if t.phase = .waiting then
      let st1 := ({ st with timers := setPhase st.timers i .running }).emit (.fired t.m t.s)
      let st2 := match cfg.action t.s with
        | some e => trigger cfg t.m e st1
        | none => st1
      let r := match cfg.action t.s with
        | some e => triggerRaises cfg t.m e st1
        | none => false
      let st3 := handlerEnd cfg t.m t.s r st2
      { st3 with timers := setPhase st3.timers i .finished }
    else st
  | none => st

def fireIfDue (cfg : Cfg) (i : Nat) (st : St) : St :=
  match st.timers[i]? with
  | some t => if t.phase = .waiting ∧ t.deadline ≤ st.now then fire cfg i st else st
  | none => st

def fireAll (cfg : Cfg) (idxs : List Nat) (st : St) : St := idxs.foldl (fun a i => fireIfDue cfg i a) st

def triggers (cfg : Cfg) (evs : List (Nat × Nat)) (st : St) : St :=
  evs.foldl (fun a me => trigger cfg me.1 me.2 a) st

inductive Op
  | tick (early : List (Nat × Nat))
  | ev (m e : Nat)
  deriving Repr, Inhabited

def tickOp (cfg : Cfg) (early : List (Nat × Nat)) (st : St) : St :=
  let st1 := triggers cfg early (({ st with now := st.now + 1 }).emit .tick)
  fireAll cfg (List.range st1.timers.length) st1

def step (cfg : Cfg) (st : St) : Op → St
  | .tick early => tickOp cfg early st
  | .ev m e => trigger cfg m e st

def run (cfg : Cfg) (h : List Op) (st : St) : St := h.foldl (step cfg) st

/-! ### `timeout` is a public, mutable attribute of the state

The timer carries the deadline it was armed with (`Timer.deadline`); `Timeout.exit` cancels whatever
is armed in the slot and does not look at `timeout` at all; `Timeout.enter` reads the value valid at
that moment.  A history may therefore assign `state.timeout` between entries and exits: -/

def Cfg.setTimeout (cfg : Cfg) (s v : Nat) : Cfg :=
  { cfg with timeout := fun s' => if s' = s then v else cfg.timeout s' }

inductive OpV
  | op (o : Op)
  | setT (s v : Nat)       -- `machine.get_state(s).timeout = v`
  deriving Repr, Inhabited

def stepV (x : Cfg × St) : OpV → Cfg × St
  | .op o => (x.1, step x.1 x.2 o)
  | .setT s v => (x.1.setTimeout s v, x.2)

def runV (cfg : Cfg) (h : List OpV) (st : St) : Cfg × St := h.foldl stepV (cfg, st)

/-! ### constructor validation (states.py:82-92, asyncio.py:633-643) -/

inductive CtorResult
  | ok (timeout : Nat) (nHandlers : Nat)
  | attributeError
  deriving DecidableEq, Repr

/-- `Timeout.__init__`: `timeout` defaults to 0; when positive, `on_timeout` must be passed
(`kwargs.pop('on_timeout')` → KeyError → AttributeError); otherwise it defaults to the empty list.
`onTimeout = none`: keyword absent; `some n`: passed, n handlers after `listify`. -/
def mkState (timeout : Nat) (onTimeout : Option Nat) : CtorResult :=
  if 0 < timeout then
    match onTimeout with
    | some n => .ok timeout n
    | none => .attributeError
  else .ok timeout (onTimeout.getD 0)

end Timeout
end TM
