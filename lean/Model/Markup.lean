/-
  Model/Markup.lean — `transitions/extensions/markup.py`, function by function.

  * `Cfg` is the *object state* `_convert*` reads: the tree of (Nested)State objects with their callback
    name lists, flags, `initial`, scoped `events` (event → source key → list of Transition objects, in
    dict insertion order), the constructor-time machine-level lists and options, the models.
  * `initMarkup` is the non-markup branch of `MarkupMachine.__init__` (copies the machine-level lists
    and options);
    `refresh` is `markup`/`get_markup_config` → `_convert_states_and_transitions` + `_convert_models`;
    `exportMk = refresh ∘ initMarkup`.
  * `importMk` is `MarkupMachine(markup=…)` / `HierarchicalMarkupMachine(markup=…)`:
    `Machine.__init__(model=None, **markup)` → `add_states` (dict states, recursively with their local
    `transitions`), `initial`, `add_transitions` (`add_transition(**t_def)`: `dest` defaults to `None`
    on `MarkupMachine.add_transition`; a definition without `source` is a `TypeError` → `none`), auto
    transitions as `add_states/_init_state` leave them,
    then `_add_markup_model` per model.
  * `MM` is the dirty flag (`_needs_update`) around the cached dict.

  Names are naturals (the harness interns strings).  State references (`source`, `dest`, the suffix of a
  `to_<state>` trigger) are *paths*: the harness splits at `NestedState.separator` for hierarchical
  machines and uses one-element paths for flat ones.  JSON values the code only copies (model state,
  `initial`, machine name, class path) are opaque tokens.  List-valued keys: absent ≙ `[]`.
  No imports: the driver links as a `lean_exe`.
-/
namespace TM
namespace Mk

abbrev Name := Nat
abbrev Path := List Name

/-- a Python flag that may be `None`, `False` or `True` -/
inductive Tri | none | no | yes
  deriving DecidableEq, Repr, Inhabited

def Tri.truthy : Tri → Bool
  | .yes => true
  | _ => false

/-- trigger names: plain, `"to_" ++ join p`, `"to_<model_attribute>_" ++ join p`
(the last form is what flat `add_states` uses when `model_attribute ≠ 'state'`) -/
inductive EvName
  | plain (n : Name)
  | to (p : Path)
  | toAttr (p : Path)
  deriving DecidableEq, Repr, Inhabited

/-- a `Transition` object; `conds` is `Transition.conditions` (`Condition(func, target)` in list order) -/
structure Trans where
  source : Path
  dest : Option Path
  prepare : List Name
  conds : List (Name × Bool)
  before : List Name
  after : List Name
  deriving DecidableEq, Repr, Inhabited

/-- an `Event`: `transitions` is a dict source ↦ list, kept in insertion order -/
structure Event where
  name : EvName
  trans : List (Path × List Trans)
  deriving DecidableEq, Repr, Inhabited

/-- a `State` / `NestedState` object -/
inductive St where
  | mk (name : Name) (onEnter onExit onFinal : List Name) (ignore : Tri) (final : Bool)
       (initial : Option Name) (events : List Event) (children : List St)
  deriving Repr, Inhabited

def St.name : St → Name | .mk n .. => n
def St.onEnter : St → List Name | .mk _ e .. => e
def St.onExit : St → List Name | .mk _ _ x .. => x
def St.onFinal : St → List Name | .mk _ _ _ f .. => f
def St.ignore : St → Tri | .mk _ _ _ _ i .. => i
def St.final : St → Bool | .mk _ _ _ _ _ f .. => f
def St.initial : St → Option Name | .mk _ _ _ _ _ _ i .. => i
def St.events : St → List Event | .mk _ _ _ _ _ _ _ e _ => e
def St.children : St → List St | .mk _ _ _ _ _ _ _ _ c => c

structure Opts where
  sendEvent : Bool
  autoTransitions : Bool
  queued : Bool
  modelOverride : Bool
  ignore : Tri
  /-- `none` = `'state'` -/
  modelAttribute : Option Name
  deriving DecidableEq, Repr, Inhabited

/-- one entry of `models`: class path token (`'self'` is a token too), `name` (`none`: the model has no
`name` attribute and the export prints `id(model)`), state value token -/
structure ModelC where
  cls : Name
  name : Option Name
  state : Name
  deriving DecidableEq, Repr, Inhabited

structure Cfg where
  hier : Bool
  name : Option Name
  initial : Option Name
  prepareEvent : List Name
  beforeSC : List Name
  afterSC : List Name
  finalize : List Name
  onException : List Name
  onFinal : List Name
  opts : Opts
  states : List St
  events : List Event
  models : List ModelC
  deriving Repr, Inhabited

/-! ### the markup dict -/

structure MTrans where
  trigger : EvName
  source : Option Path
  dest : Option Path
  prepare : List Name
  before : List Name
  after : List Name
  conditions : List Name
  unl : List Name
  deriving DecidableEq, Repr, Inhabited

inductive MState where
  | mk (name : Name) (onEnter onExit onFinal : List Name) (ignore : Option Tri) (final : Bool)
       (initial : Option Name) (transitions : List MTrans) (children : List MState)
  deriving Repr, Inhabited

def MState.name : MState → Name | .mk n .. => n
def MState.onEnter : MState → List Name | .mk _ e .. => e
def MState.onExit : MState → List Name | .mk _ _ x .. => x
def MState.onFinal : MState → List Name | .mk _ _ _ f .. => f
def MState.ignore : MState → Option Tri | .mk _ _ _ _ i .. => i
def MState.final : MState → Bool | .mk _ _ _ _ _ f .. => f
def MState.initial : MState → Option Name | .mk _ _ _ _ _ _ i .. => i
def MState.transitions : MState → List MTrans | .mk _ _ _ _ _ _ _ t _ => t
def MState.children : MState → List MState | .mk _ _ _ _ _ _ _ _ c => c

structure Markup where
  name : Option Name
  initial : Option Name
  prepareEvent : List Name
  beforeSC : List Name
  afterSC : List Name
  finalize : List Name
  onException : List Name
  onFinal : List Name
  opts : Opts
  states : List MState
  transitions : List MTrans
  models : List ModelC
  deriving Repr, Inhabited

/-! ### attribute whitelists (`MarkupMachine.state_attributes / transition_attributes`)

Codes — states: 0 `on_exit`, 1 `on_enter`, 2 `ignore_invalid_triggers`, 3 `final`, 4 `on_final`;
transitions: 0 `source`, 1 `dest`, 2 `prepare`, 3 `before`, 4 `after`.  Other attribute names
(`timeout`, `tags`, `label`, …) do not exist on the plain classes and get larger codes. -/
structure WL where
  st : List Nat
  tr : List Nat
  deriving DecidableEq, Repr, Inhabited

/-- the whitelists of the pinned tree -/
def WL.pinned : WL := ⟨[0, 1, 2, 5, 6, 7, 8, 3, 4], [0, 1, 2, 3, 4, 5]⟩
/-- whitelists that name every modelled attribute -/
def WL.full : WL := ⟨[0, 1, 2, 3, 4], [0, 1, 2, 3, 4]⟩

/-- `_convert` on a list-valued attribute: exported iff whitelisted (and non-empty; absent ≙ `[]`) -/
def keep (wl : List Nat) (code : Nat) (l : List Name) : List Name :=
  if wl.contains code then l else []

/-! ### export -/

/-- `_convert(trans, transition_attributes)` + trigger + conditions/unless split by `target` -/
def exportTrans (wl : WL) (n : EvName) (t : Trans) : MTrans :=
  { trigger := n
    source := if wl.tr.contains 0 then some t.source else none
    dest := if wl.tr.contains 1 then t.dest else none
    prepare := keep wl.tr 2 t.prepare
    before := keep wl.tr 3 t.before
    after := keep wl.tr 4 t.after
    conditions := (t.conds.filter (·.2)).map (·.1)
    unl := (t.conds.filter (fun c => !c.2)).map (·.1) }

def names (l : List St) : List Name := l.map St.name

/-- descend a path through a list of states (`state = state.states[elem]`) -/
def walk : List St → Path → Bool
  | _, [] => false
  | sts, [n] => (names sts).contains n
  | sts, n :: m :: r =>
    match sts.find? (fun s => s.name == n) with
    | some s => walk s.children (m :: r)
    | none => false

/-- `get_state(name)` succeeds, called in scope `scope` of a machine with top-level states `root`
(flat machines: one-element paths, `root = scope`): nested lookup from the scope, then the `hint`
fallback from the root for paths longer than one. -/
def hasState (scope root : List St) (p : Path) : Bool :=
  match p with
  | [] => false
  | [n] => (names scope).contains n
  | _ => walk scope p || walk root p

/-- `_is_auto_transition` in a scope: one source key per state of the scope, and the name is
`to_<state>` or `to_<model_attribute>_<state>` for a state `get_state` finds.  (The code also tries the
plain `to_` prefix on a `to_<model_attribute>_…` name, i.e. looks for a state called
`<model_attribute>_…`; the harness never names a state after the model attribute.) -/
def isAuto (scope root : List St) (e : Event) : Bool :=
  match e.name with
  | .to p => e.trans.length == scope.length && hasState scope root p
  | .toAttr p => e.trans.length == scope.length && hasState scope root p
  | .plain _ => false

def exportEvent (wl : WL) (e : Event) : List MTrans :=
  e.trans.flatMap fun kv => kv.2.map (exportTrans wl e.name)

/-- `_convert_transitions` (with `auto_transitions_markup = False`) -/
def exportEvents (wl : WL) (scope root : List St) (evs : List Event) : List MTrans :=
  (evs.filter fun e => !isAuto scope root e).flatMap (exportEvent wl)

mutual
/-- `_convert(state, state_attributes)` + the explicit falsy `ignore_invalid_triggers` when the machine's
flag `mi` is truthy + name + (for states with substates) the scoped `_convert_states_and_transitions` -/
def exportSt (wl : WL) (mi : Tri) (root : List St) : St → MState
  | .mk name onEnter onExit onFinal ignore final initial events children =>
    .mk name (keep wl.st 1 onEnter) (keep wl.st 0 onExit) (keep wl.st 4 onFinal)
      (if !ignore.truthy && mi.truthy then some ignore
       else if wl.st.contains 2 && ignore.truthy then some .yes else none)
      (wl.st.contains 3 && final)
      (if children.isEmpty then none else initial)
      (if children.isEmpty then [] else exportEvents wl children root events)
      (exportSts wl mi root children)
def exportSts (wl : WL) (mi : Tri) (root : List St) : List St → List MState
  | [] => []
  | s :: r => exportSt wl mi root s :: exportSts wl mi root r
end

/-- non-markup branch of `MarkupMachine.__init__`: machine-level lists and options, once -/
def initMarkup (c : Cfg) : Markup :=
  { name := none, initial := none
    prepareEvent := c.prepareEvent
    beforeSC := c.beforeSC
    afterSC := c.afterSC
    finalize := c.finalize
    onException := c.onException
    onFinal := c.onFinal
    opts := c.opts
    states := [], transitions := [], models := [] }

/-- `_convert_states_and_transitions(self._markup)`: `initial`/`name` are written only when truthy -/
def convert (wl : WL) (c : Cfg) (m : Markup) : Markup :=
  { m with
    initial := match c.initial with | some i => some i | none => m.initial
    name := match c.name with | some n => some n | none => m.name
    transitions := exportEvents wl c.states c.states c.events
    states := exportSts wl c.opts.ignore c.states c.states }

/-- the `markup` property on a machine whose cache is stale -/
def refresh (wl : WL) (c : Cfg) (m : Markup) : Markup :=
  { convert wl c m with models := c.models }

def exportMk (wl : WL) (c : Cfg) : Markup := refresh wl c (initMarkup c)

/-! ### import -/

/-- `add_transition(**t_def)` argument binding (`dest` defaults to `None`: internal transition);
`conditions` then `unless` (`Transition.__init__`) -/
def importTrans (m : MTrans) : Option (EvName × Trans) :=
  match m.source with
  | some s =>
    some (m.trigger, { source := s, dest := m.dest, prepare := m.prepare
                       conds := m.conditions.map (fun c => (c, true)) ++ m.unl.map (fun c => (c, false))
                       before := m.before, after := m.after })
  | none => none

def importTransL : List MTrans → Option (List (EvName × Trans))
  | [] => some []
  | m :: r =>
    match importTrans m, importTransL r with
    | some p, some ps => some (p :: ps)
    | _, _ => none

/-- `event.transitions[source].append(t)` on the insertion-ordered dict -/
def addKey (k : Path) (t : Trans) : List (Path × List Trans) → List (Path × List Trans)
  | [] => [(k, [t])]
  | kv :: r => if kv.1 = k then (kv.1, kv.2 ++ [t]) :: r else kv :: addKey k t r

/-- `Machine.add_transition` for one concrete source: create the event if missing, append -/
def addEv (n : EvName) (t : Trans) : List Event → List Event
  | [] => [⟨n, [(t.source, [t])]⟩]
  | e :: r => if e.name = n then ⟨e.name, addKey t.source t e.trans⟩ :: r else e :: addEv n t r

def addAll (evs : List Event) (l : List (EvName × Trans)) : List Event :=
  l.foldl (fun acc p => addEv p.1 p.2 acc) evs

def importEvents (evs : List Event) (ms : List MTrans) : Option (List Event) :=
  (importTransL ms).map (addAll evs)

mutual
/-- `add_states` on a dict: `ignore_invalid_triggers` defaults to the machine's flag `mi` -/
def importSt (mi : Tri) : MState → Option St
  | .mk name onEnter onExit onFinal ignore final initial trans children =>
    match importSts mi children, importEvents [] trans with
    | some ch, some evs => some (.mk name onEnter onExit onFinal (ignore.getD mi) final initial evs ch)
    | _, _ => none
def importSts (mi : Tri) : List MState → Option (List St)
  | [] => some []
  | m :: r =>
    match importSt mi m, importSts mi r with
    | some s, some ss => some (s :: ss)
    | _, _ => none
end

mutual
/-- `get_nested_state_names` (global paths, pre-order) -/
def nestedNamesSt (pre : Path) : St → List Path
  | .mk name _ _ _ _ _ _ _ children => (pre ++ [name]) :: nestedNamesSts (pre ++ [name]) children
def nestedNamesSts (pre : Path) : List St → List Path
  | [] => []
  | s :: r => nestedNamesSt pre s ++ nestedNamesSts pre r
end

def autoTrans (src : Name) (g : Path) : Trans :=
  { source := [src], dest := some g, prepare := [], conds := [], before := [], after := [] }

/-- what `add_states` (flat) / `_init_state` (hierarchical) leave behind after all states of the markup
were added: one event per state, one unconditional transition from every top-level state -/
def autoEvents (hier : Bool) (attr : Option Name) (sts : List St) : List Event :=
  (if hier then nestedNamesSts [] sts else (names sts).map fun n => [n]).map fun g =>
    { name := if !hier && attr.isSome then .toAttr g else .to g
      trans := (names sts).map fun s => ([s], [autoTrans s g]) }

/-- `MarkupMachine(markup=m)` (`hier = false`) / `HierarchicalMarkupMachine(markup=m)` (`hier = true`) -/
def importMk (hier : Bool) (m : Markup) : Option Cfg :=
  match importSts m.opts.ignore m.states with
  | none => none
  | some sts =>
    match importEvents (if m.opts.autoTransitions then autoEvents hier m.opts.modelAttribute sts else []) m.transitions with
    | none => none
    | some evs =>
      some { hier := hier, name := m.name, initial := m.initial
             prepareEvent := m.prepareEvent, beforeSC := m.beforeSC, afterSC := m.afterSC
             finalize := m.finalize, onException := m.onException, onFinal := m.onFinal
             opts := m.opts, states := sts, events := evs, models := m.models }

/-! ### the dirty flag -/

/-- a `MarkupMachine` instance: object state, cached dict, `_needs_update` -/
structure MM where
  cfg : Cfg
  cache : Markup
  dirty : Bool

/-- API calls that matter for the cache.  `f` is what the call does to the object state. -/
inductive Op
  /-- `add_transition` / `remove_transition` / `add_states` (super call, then `_needs_update = True`) -/
  | setter (f : Cfg → Cfg)
  /-- `machine.on_enter_<state>(cb)` / `before_<trigger>(cb)` …: `__getattr__` → `_identify_callback`
  sets the flag, the returned partial appends the callback -/
  | register (f : Cfg → Cfg)
  /-- a model changed state (no flag: `models` is recomputed on every read) -/
  | modelsChanged (f : List ModelC → List ModelC)
  /-- read `machine.markup` -/
  | read
  /-- a read-only observer (`get_graph()` in any variant incl. the region-of-interest rendering,
  `get_triggers`, `get_transitions`, `may_<trigger>` …): neither object state, cache nor flag change — in
  particular the diagram code must not write into the dicts of the cached markup it is handed -/
  | observe
  /-- the machine is replaced by `pickle.loads(pickle.dumps(machine))` / `copy.deepcopy(machine)`:
  `__getstate__/__setstate__` carry object state, cached dict and flag over unchanged (the machine-level
  part of the cache exists only there) -/
  | restore

def MM.new (c : Cfg) : MM := { cfg := c, cache := initMarkup c, dirty := true }

/-- `markup` property: models always, states/transitions when dirty -/
def MM.read (wl : WL) (m : MM) : MM :=
  let cache := { (if m.dirty then convert wl m.cfg m.cache else m.cache) with models := m.cfg.models }
  { m with cache := cache, dirty := false }

def MM.step (wl : WL) (m : MM) : Op → MM
  | .setter f => { m with cfg := f m.cfg, dirty := true }
  | .register f => { m with cfg := f m.cfg, dirty := true }
  | .modelsChanged f => { m with cfg := { m.cfg with models := f m.cfg.models } }
  | .read => m.read wl
  | .observe => m
  | .restore => m

def MM.run (wl : WL) (m : MM) (ops : List Op) : MM := ops.foldl (MM.step wl) m

end Mk
end TM
