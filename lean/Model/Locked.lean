/-
  Model/Locked.lean — the locking protocol of `transitions/extensions/locking.py` as a small-step
  labelled transition system at the granularity of the code's shared-memory actions.

  Code ↦ model
    LockedMachine.__init__      `machine_context = listify(arg) or [PicklableLock()]`, then
                                `.append(self._ident)`                          ↦ `Cfg.mctx`
    LockedMachine.add_model     `if not model_context_map[id(m)]: extend(machine_context);
                                extend(model_context)` — a registered model keeps its contexts
                                                                               ↦ `Op.reg`, `LState.cmap`
    LockedMachine.remove_model  `del model_context_map[id(m)]`                 ↦ `Op.unreg`
    model_context_map           a `defaultdict(list)`: reading a missing key yields (and stores) an
                                empty list.  Nothing in the code distinguishes "no entry" from "empty
                                entry" except `del` raising KeyError (the `ret` op of the program says
                                whether a call raises), so both are `cmap m = []`; in particular an
                                event on an unregistered model (which creates the empty entry) leaves
                                `cmap` unchanged                               ↦ `LState.cmap`
    LockedEvent.trigger         `if machine._ident.current != get_ident(): with nested(*cmap[m])`
    LockedMachine._locked_method `if _ident.current != get_ident(): with nested(*machine_context)`
                                                                               ↦ `Op.call`, `ctxsFor`
    LockedHierarchicalMachine   `event_cls = NestedEvent`; a model's trigger is
                                `partial(self.trigger_event, model, name)`, a *public method*;
                                `LockedHierarchicalMachine._locked_method` enters the model's
                                context list for it (machine contexts when the map has no entry)
                                                                               ↦ `Cfg.hsm`, `ctxsFor`
    nested()/ExitStack          enter in order, one `__enter__` per step; unwind in reverse order,
                                one `__exit__` per step, on return and on raise alike
                                                                               ↦ `pend`, `frames`
    PicklableLock               non re-entrant mutex: `__enter__` blocks while it is owned by ANY
                                thread (the caller included)                   ↦ `Ctx.lock`, `owner`
    IdentManager                `__enter__: current = get_ident()`, `__exit__: current = 0`
                                                                               ↦ `Ctx.ident`, `current`
    user supplied contexts      opaque enter / exit events                     ↦ `Ctx.user`

  A thread's program is a flat list of `Op`s: `call` … `ret` brackets (calls made from callbacks are
  brackets inside brackets), `cb a` an opaque engine step / callback marker whose effect on the
  shared machine state is an arbitrary function `eng a`.  A blocked or finished thread's step is a
  no-op (so is a malformed `cb`/`ret` outside any call).  Every other step appends exactly one event
  to the trace.

  The read of `_ident.current` is part of the `call` step: `current = t+1` holds exactly while `t`
  itself is inside the ident context (theorem `C06_mutex`), so the outcome of the comparison with
  `get_ident()` cannot be changed by another thread's step between the read and the next action.

  No imports: the driver links as a `lean_exe`.
-/
namespace TM
namespace Locked

inductive Ctx
  | lock (l : Nat)      -- PicklableLock / a user supplied non re-entrant mutex
  | ident               -- the machine's IdentManager
  | user (c : Nat)      -- an opaque user supplied context manager
  deriving DecidableEq, Repr, Inhabited

inductive Op
  /-- an API call starts: `tgt = 0` a public machine method (`add_transition`, `set_state`,
      `remove_model`, …), `tgt = m+1` an event on model `m` -/
  | call (tgt tag : Nat)
  /-- an opaque engine step / callback marker -/
  | cb (a : Nat)
  /-- the innermost open call ends (returns, or raises when `raised`) -/
  | ret (raised : Bool)
  /-- inside `machine.add_model(m, model_context=xs)`: the update of `model_context_map` -/
  | reg (m : Nat) (xs : List Ctx)
  /-- inside `machine.remove_model(m)`: `del model_context_map[id(m)]` -/
  | unreg (m : Nat)
  /-- a callback takes a snapshot of the machine (or of a model referencing it) while the event is
      processed: `pickle.dumps(machine)` / `copy.deepcopy(machine)`.  `LockedMachine.__getstate__`,
      `PicklableLock.__getstate__` and the default `__reduce_ex__` of `IdentManager` only READ the live
      objects: the step changes nothing but the program counter (theorem `C06_snapshot_frame`) -/
  | snap
  deriving DecidableEq, Repr, Inhabited

def alookupD (k : Nat) : List (Nat × List Ctx) → List Ctx
  | [] => []
  | (k', v) :: r => if k' = k then v else alookupD k r

structure Cfg where
  /-- `LockedHierarchicalMachine` (event_cls = NestedEvent) -/
  hsm : Bool
  /-- the `machine_context` argument, listified -/
  base : List Ctx
  /-- the `model_context` given to `add_model`, per model -/
  extra : List (Nat × List Ctx)
  /-- models that are NOT registered initially (every other model is) -/
  absent : List Nat := []

/-- `listify(machine_context) or [PicklableLock()]` -/
def Cfg.mbase (c : Cfg) : List Ctx := if c.base.isEmpty then [Ctx.lock 0] else c.base

/-- `self.machine_context` after `__init__` (`.append(self._ident)`) -/
def Cfg.mctx (c : Cfg) : List Ctx := c.mbase ++ [Ctx.ident]

/-- `self.model_context_map[id(m)]` after `add_model(m, model_context=extra m)` -/
def Cfg.cmap (c : Cfg) (m : Nat) : List Ctx := c.mctx ++ alookupD m c.extra

/-- the initial `model_context_map` -/
def Cfg.cmap0 (c : Cfg) (m : Nat) : List Ctx := if c.absent.contains m then [] else c.cmap m

/-- the machine contexts contain the mutex `L`; the machine's own IdentManager is not among the
user supplied contexts -/
def WF (c : Cfg) (L : Nat) : Prop :=
  Ctx.lock L ∈ c.mbase ∧ Ctx.ident ∉ c.base ∧ ∀ p ∈ c.extra, Ctx.ident ∉ p.2

instance (c : Cfg) (L : Nat) : Decidable (WF c L) := by unfold WF; infer_instance

/-- the contexts a non re-entrant call enters, given the current `model_context_map`.
  * public machine method: `_locked_method` → `machine_context`;
  * event on a flat machine: `LockedEvent.trigger` → `model_context_map[id(model)]` (empty for a
    model that is not registered: the event then runs without any context);
  * event on a hierarchical machine: the model's trigger is the public `trigger_event`, wrapped by
    `LockedHierarchicalMachine._locked_method`:
    `contexts = self.model_context_map.get(id(model)) or self.machine_context`. -/
def ctxsFor (c : Cfg) (cmap : Nat → List Ctx) (tgt : Nat) : List Ctx :=
  match tgt with
  | 0 => c.mctx
  | m + 1 => if c.hsm then (if (cmap m).isEmpty then c.mctx else cmap m) else cmap m

/-- `add_model(m, model_context=xs)` on the map: a registered model keeps its contexts -/
def regMap (c : Cfg) (cmap : Nat → List Ctx) (m : Nat) (xs : List Ctx) : Nat → List Ctx :=
  if (cmap m).isEmpty then fun i => if i = m then c.mctx ++ xs else cmap i else cmap

/-- `remove_model(m)` on the map -/
def unregMap (cmap : Nat → List Ctx) (m : Nat) : Nat → List Ctx :=
  fun i => if i = m then [] else cmap i

inductive Ev
  | callBegin (t tgt tag : Nat)
  | enter (t : Nat) (x : Ctx)
  | cb (t a : Nat)
  | exit (t : Nat) (x : Ctx)
  | callEnd (t : Nat) (raised : Bool)
  | reg (t m : Nat) (xs : List Ctx)
  | unreg (t m : Nat)
  | snap (t : Nat)
  deriving DecidableEq, Repr, Inhabited

structure Thread where
  /-- remaining program -/
  prog : List Op := []
  /-- open calls, innermost first; per call the contexts it has entered, most recent first -/
  frames : List (List Ctx) := []
  /-- ExitStack loop of the innermost call: contexts still to enter -/
  pend : List Ctx := []
  /-- ghost: the outermost call has started to unwind (no step branches on it) -/
  exiting : Bool := false
  deriving Inhabited

structure LState where
  th : Nat → Thread
  /-- lock id ↦ 0 (free) | t+1 (owned by thread t) -/
  owner : Nat → Nat
  /-- `IdentManager.current`: 0 | t+1 -/
  current : Nat
  /-- the shared machine state (opaque) -/
  mstate : Nat
  /-- `model_context_map` (`[]` = no / empty entry) -/
  cmap : Nat → List Ctx
  /-- ghost: some outermost call has entered NO context at all (an event on a model that was not
      registered at that moment, flat machine) — such runs are outside the property's statement -/
  ung : Bool := false
  trace : List Ev

def setTh (s : LState) (t : Nat) (x : Thread) : LState :=
  { s with th := fun i => if i = t then x else s.th i }

def emit (s : LState) (e : Ev) : LState := { s with trace := s.trace ++ [e] }

/-- `x.__enter__()` by thread `t`; `none` = blocked -/
def enterCtx (s : LState) (t : Nat) (x : Ctx) : Option LState :=
  match x with
  | .lock l => if s.owner l = 0 then some { s with owner := fun i => if i = l then t + 1 else s.owner i }
               else none
  | .ident => some { s with current := t + 1 }
  | .user _ => some s

/-- `x.__exit__(…)` by thread `t` -/
def exitCtx (s : LState) (x : Ctx) : LState :=
  match x with
  | .lock l => { s with owner := fun i => if i = l then 0 else s.owner i }
  | .ident => { s with current := 0 }
  | .user _ => s

/-- one step of thread `t` -/
def step (c : Cfg) (eng : Nat → Nat → Nat) (s : LState) (t : Nat) : LState :=
  let th := s.th t
  match th.pend with
  | x :: r =>
    -- ExitStack.enter_context(x)
    match enterCtx s t x with
    | none => s
    | some s' =>
      match th.frames with
      | [] => s     -- unreachable: `pend` is only set together with a frame
      | f :: fs => emit (setTh s' t { th with pend := r, frames := (x :: f) :: fs }) (.enter t x)
  | [] =>
    match th.prog with
    | [] => s
    | .call tgt tag :: p =>
      if s.current = t + 1 then
        emit (setTh s t { th with prog := p, frames := [] :: th.frames }) (.callBegin t tgt tag)
      else
        let l := ctxsFor c s.cmap tgt
        emit (setTh { s with ung := s.ung || l.isEmpty } t
          { th with prog := p, frames := [] :: th.frames, pend := l }) (.callBegin t tgt tag)
    | .cb a :: p =>
      match th.frames with
      | [] => s     -- malformed program (engine step outside any call): the thread is stuck
      | _ :: _ => emit (setTh { s with mstate := eng a s.mstate } t { th with prog := p }) (.cb t a)
    | .ret r :: p =>
      match th.frames with
      | [] => s     -- malformed program: stuck
      | [] :: fs => emit (setTh s t { th with prog := p, frames := fs, exiting := false }) (.callEnd t r)
      | (x :: f) :: fs =>
        emit (setTh (exitCtx s x) t { th with frames := f :: fs, exiting := true }) (.exit t x)
    | .reg m xs :: p =>
      match th.frames with
      | [] => s     -- malformed program: stuck
      | _ :: _ =>
        emit (setTh { s with cmap := regMap c s.cmap m xs } t { th with prog := p }) (.reg t m xs)
    | .unreg m :: p =>
      match th.frames with
      | [] => s     -- malformed program: stuck
      | _ :: _ => emit (setTh { s with cmap := unregMap s.cmap m } t { th with prog := p }) (.unreg t m)
    | .snap :: p =>
      match th.frames with
      | [] => s     -- malformed program: stuck
      | _ :: _ => emit (setTh s t { th with prog := p }) (.snap t)

def runSched (c : Cfg) (eng : Nat → Nat → Nat) (s : LState) (σ : List Nat) : LState :=
  σ.foldl (step c eng) s

def init (c : Cfg) (progs : Nat → List Op) (ms : Nat) : LState :=
  { th := fun t => { prog := progs t }, owner := fun _ => 0, current := 0, mstate := ms,
    cmap := c.cmap0, trace := [] }

/-- the user cannot hand the machine's own IdentManager to `add_model` -/
def ProgOK (progs : Nat → List Op) : Prop :=
  ∀ t m xs, Op.reg m xs ∈ progs t → Ctx.ident ∉ xs

/-- thread `t` cannot move: it waits for a lock -/
def blocked (s : LState) (t : Nat) : Bool :=
  match (s.th t).pend with
  | .lock l :: _ => s.owner l != 0
  | _ => false

/-- the contexts thread `t` is inside of -/
def held (th : Thread) : List Ctx := th.frames.flatten

/-! ## Monitors on observed traces (run on the implementation's traces through the driver) -/

/-- `noOverlap L`: windows of the machine lock `L` are disjoint and every engine step / callback
of a thread lies inside a window of that thread.  State: the window's owner (0 = none). -/
def noOverlapStep (L : Nat) (st : Option Nat) (e : Ev) : Option Nat :=
  match st with
  | none => none
  | some o =>
    match e with
    | .enter t (.lock l) => if l = L then (if o = 0 then some (t + 1) else none) else some o
    | .exit t (.lock l) => if l = L then (if o = t + 1 then some 0 else none) else some o
    | .cb t _ => if o = t + 1 then some o else none
    | .snap t => if o = t + 1 then some o else none
    | _ => some o

def noOverlapRun (L : Nat) (tr : List Ev) : Option Nat := tr.foldl (noOverlapStep L) (some 0)

def noOverlap (L : Nat) (tr : List Ev) : Bool := (noOverlapRun L tr).isSome

/-- per-thread state of the context-order monitor -/
structure MonSt where
  depth : Nat := 0
  pe : List Ctx := []      -- still to be entered, in order
  st : List Ctx := []      -- entered, most recent first
  ex : Bool := false       -- unwinding
  deriving DecidableEq, Repr, Inhabited

/-- the grammar of one thread's events:
    outermost call  = callBegin · enter x₁ … enter xₙ · body · exit xₙ … exit x₁ · callEnd
                      with x₁ … xₙ = the contexts configured for the call's target at that moment
                      (`exp`), in order
    body            = ( cb | reg | unreg | snap | callBegin · body · callEnd )*   (re-entrant calls enter nothing) -/
def ctxStep (exp : Nat → List Ctx) (m : MonSt) (e : Ev) : Option MonSt :=
  match e with
  | .callBegin _ tgt _ =>
    if m.depth = 0 then some { depth := 1, pe := exp tgt, st := [], ex := false }
    else if m.pe = [] ∧ m.ex = false then some { m with depth := m.depth + 1 } else none
  | .enter _ x =>
    match m.pe with
    | y :: r => if x = y ∧ m.depth = 1 then some { m with pe := r, st := x :: m.st } else none
    | [] => none
  | .cb _ _ => if m.depth ≥ 1 ∧ m.pe = [] ∧ m.ex = false then some m else none
  | .reg _ _ _ => if m.depth ≥ 1 ∧ m.pe = [] ∧ m.ex = false then some m else none
  | .unreg _ _ => if m.depth ≥ 1 ∧ m.pe = [] ∧ m.ex = false then some m else none
  | .snap _ => if m.depth ≥ 1 ∧ m.pe = [] ∧ m.ex = false then some m else none
  | .exit _ x =>
    match m.st with
    | y :: r => if x = y ∧ m.depth = 1 ∧ m.pe = [] then some { m with st := r, ex := true } else none
    | [] => none
  | .callEnd _ _ =>
    if m.pe ≠ [] then none
    else if m.depth ≥ 2 then (if m.ex = false then some { m with depth := m.depth - 1 } else none)
    else if m.depth = 1 ∧ m.st = [] then some {} else none

def Ev.tid : Ev → Nat
  | .callBegin t _ _ => t | .enter t _ => t | .cb t _ => t | .exit t _ => t | .callEnd t _ => t
  | .reg t _ _ => t | .unreg t _ => t | .snap t => t

/-- the monitor's own record of which contexts are configured per model: `add_model(m, xs)` of a
model that is not registered configures `machine contexts ++ xs`, of a registered one changes
nothing; `remove_model(m)` removes the configuration -/
def cfgStep (c : Cfg) (cm : Nat → List Ctx) (e : Ev) : Nat → List Ctx :=
  match e with
  | .reg _ m xs => regMap c cm m xs
  | .unreg _ m => unregMap cm m
  | _ => cm

/-- what the statement asks for: every machine context, and for an event every context configured
for its model, in that order.  (For a model that is not registered nothing is configured; such an
event is outside the statement and the monitor expects what the code does.) -/
def configured (c : Cfg) (cm : Nat → List Ctx) (tgt : Nat) : List Ctx :=
  match tgt with
  | 0 => c.mctx
  | m + 1 => if (cm m).isEmpty then (if c.hsm then c.mctx else []) else cm m

structure CtxMon where
  th : Nat → MonSt
  cm : Nat → List Ctx

def ctxMonStep (c : Cfg) (st : Option CtxMon) (e : Ev) : Option CtxMon :=
  match st with
  | none => none
  | some f =>
    match ctxStep (configured c f.cm) (f.th e.tid) e with
    | none => none
    | some m => some { th := fun i => if i = e.tid then m else f.th i, cm := cfgStep c f.cm e }

def ctxMonRun (c : Cfg) (tr : List Ev) : Option CtxMon :=
  tr.foldl (ctxMonStep c) (some { th := fun _ => {}, cm := c.cmap0 })

/-- every thread's events follow the grammar (prefix-closed) -/
def contextsOrder (c : Cfg) (tr : List Ev) : Bool := (ctxMonRun c tr).isSome

/-- … and no call is left open by any of the threads `< n` -/
def contextsOrderDone (c : Cfg) (n : Nat) (tr : List Ev) : Bool :=
  match ctxMonRun c tr with
  | none => false
  | some f => (List.range n).all fun t => f.th t == {}

/-! ## Sequential reference semantics (what "serial execution" means) -/

/-- run ops of thread `t` up to the end of the call that is open at depth `d` (`d = 0`: the next
outermost call), without any locking: the engine steps are applied to the machine state in program
order.  Returns machine state, log of engine steps, remaining program. -/
def runOps (eng : Nat → Nat → Nat) (t : Nat) : Nat → List Op → Nat → List (Nat × Nat) →
    Nat × List (Nat × Nat) × List Op
  | _, [], ms, log => (ms, log, [])
  | d, .call _ _ :: p, ms, log => runOps eng t (d + 1) p ms log
  | 0, .cb a :: p, ms, log => (ms, log, .cb a :: p)
  | d + 1, .cb a :: p, ms, log => runOps eng t (d + 1) p (eng a ms) (log ++ [(t, a)])
  | 0, .ret r :: p, ms, log => (ms, log, .ret r :: p)
  | 1, .ret _ :: p, ms, log => (ms, log, p)
  | d + 2, .ret _ :: p, ms, log => runOps eng t (d + 1) p ms log
  | 0, .reg m xs :: p, ms, log => (ms, log, .reg m xs :: p)
  | d + 1, .reg _ _ :: p, ms, log => runOps eng t (d + 1) p ms log
  | 0, .unreg m :: p, ms, log => (ms, log, .unreg m :: p)
  | d + 1, .unreg _ :: p, ms, log => runOps eng t (d + 1) p ms log
  | 0, .snap :: p, ms, log => (ms, log, .snap :: p)
  | d + 1, .snap :: p, ms, log => runOps eng t (d + 1) p ms log

structure Seq where
  progs : Nat → List Op
  ms : Nat
  log : List (Nat × Nat)

/-- thread `t` performs its next outermost call, alone -/
def seqCall (eng : Nat → Nat → Nat) (q : Seq) (t : Nat) : Seq :=
  let r := runOps eng t 0 (q.progs t) q.ms q.log
  { progs := fun i => if i = t then r.2.2 else q.progs i, ms := r.1, log := r.2.1 }

/-- serial execution: the threads in `order` perform one outermost call each, one after the other -/
def seqRun (eng : Nat → Nat → Nat) (progs : Nat → List Op) (ms : Nat) (order : List Nat) : Seq :=
  order.foldl (seqCall eng) { progs := progs, ms := ms, log := [] }

/-- the engine steps of a trace, in order -/
def cbLog : List Ev → List (Nat × Nat)
  | [] => []
  | .cb t a :: r => (t, a) :: cbLog r
  | _ :: r => cbLog r

end Locked
end TM
