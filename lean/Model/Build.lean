/-
  Model/Build.lean — how a flat machine is put together, written function by function after
  `transitions/core.py`:

    Machine.__init__ (the part after the attribute initialisation: add_states, initial setter,
                      add_transitions, add_ordered_transitions)
    Machine.add_states            (str / Enum / dict / State normalisation of `ignore_invalid_triggers`,
                                   `self.states[name] = state`, auto transitions `to_<state>`)
    Machine.initial (setter)      (adds the state when it is not registered)
    Machine.add_transition        (event creation, `wildcard_all` over the states existing NOW,
                                   `wildcard_same`, `dest=None`, one Transition per source)
    Transition.__init__           (`conditions` then `unless`)
    Machine.add_ordered_transitions / _prep_ordered_arg
    Machine.remove_transition
    Event.add_transition          (`transitions[source].append`)

  The target is `Cfg` of Model/Core.lean: `events` maps an event to all its transitions in
  definition order; `Event.transitions[src]` is the filter on `source` (`candidates`).

  Every transition the code creates goes through `B.addTrans`.  That function takes a filter
  `F : event → Trans → Bool` which the real construction instantiates with "keep everything"
  (`build := buildF allT`); the filter only exists so that "as if these transitions had never been
  added" (`C13_remove_as_never_added`) can be stated about the very same construction code.
-/
import Model.Core

namespace TM
namespace Build

/-- `source` argument of `add_transition` -/
inductive Src
  | one (s : Nat)            -- a single name / Enum member / State
  | many (l : List Nat)      -- a list of them
  | all                      -- `'*'`
  deriving DecidableEq, Repr, Inhabited

/-- `dest` argument of `add_transition` -/
inductive Dst
  | to (d : Nat)
  | same                     -- `'='`
  | internal                 -- `None`
  deriving DecidableEq, Repr, Inhabited

/-- the callback arguments of `add_transition` (each already `listify`ed) -/
structure CbSpec where
  conditions : List Nat := []
  unlss : List Nat := []
  before : List Nat := []
  after : List Nat := []
  prepare : List Nat := []
  deriving DecidableEq, Repr, Inhabited

/-- one element of the `states` argument of `add_states`.
`fill = true`: the element is a name / Enum member / a dict without the key
`ignore_invalid_triggers` — the call fills it in; `fill = false`: a dict with the key or a `State`
object — `ign` is what it carries. -/
structure SSpec where
  name : Nat
  onEnter : List Nat := []
  onExit : List Nat := []
  ign : Option Bool := none
  fill : Bool := true
  final : Bool := false
  deriving DecidableEq, Repr, Inhabited

/-- a callback argument of `add_ordered_transitions` after `listify`: `none` = not given;
outer list = per edge (or one element for all edges), inner list = the callbacks of that edge -/
abbrev OArg := Option (List (List Nat))

inductive Op
  | addStates (l : List SSpec) (callIgn : Option Bool)
  | addTransition (ev : Nat) (src : Src) (dst : Dst) (cb : CbSpec)
  | addOrdered (ev : Nat) (states : Option (List Nat)) (loop inclInit : Bool)
      (conditions unlss before after prepare : OArg)
  | remove (ev : Nat) (src dst : Option (List Nat))     -- `none` = `'*'`; names, Enum members or State objects
  | setInitial (s : Nat)
  deriving Repr, Inhabited

/-- name of the auto transition event `to_<state>`; user events are the even numbers -/
def autoEv (s : Nat) : Nat := 2 * s + 1

/-- the machine under construction -/
structure B where
  cfg : Cfg
  auto : Bool               -- `auto_transitions`
  mign : Option Bool        -- `machine.ignore_invalid_triggers` (tri-state)
  init : Option Nat         -- `machine._initial`
  deriving Repr, Inhabited

abbrev Filter := Nat → Trans → Bool
def allT : Filter := fun _ _ => true

/-- `Transition.__init__` for one source of `add_transition` -/
def mkTrans (cb : CbSpec) (dst : Dst) (s : Nat) : Trans :=
  { source := s
    dest := match dst with
      | .to d => some d
      | .same => some s
      | .internal => none
    prepare := cb.prepare
    conds := cb.conditions.map (fun c => ⟨c, true⟩) ++ cb.unlss.map (fun c => ⟨c, false⟩)
    before := cb.before
    after := cb.after }

/-- `if trigger not in self.events: self.events[trigger] = Event(...)` followed by
`Event.add_transition` for every new transition -/
def addTo (ev : Nat) (ts : List Trans) : List (Nat × List Trans) → List (Nat × List Trans)
  | [] => [(ev, ts)]
  | (k, l) :: r => if k = ev then (k, l ++ ts) :: r else (k, l) :: addTo ev ts r

def B.stateNames (b : B) : List Nat := b.cfg.states.map (·.name)

/-- the source list of `add_transition` -/
def B.sources (b : B) : Src → List Nat
  | .one s => [s]
  | .many l => l
  | .all => b.stateNames          -- `list(self.states.keys())`

def B.addTrans (F : Filter) (b : B) (ev : Nat) (ts : List Trans) : B :=
  { b with cfg := { b.cfg with events := addTo ev (ts.filter (F ev)) b.cfg.events } }

/-- `Machine.add_transition` -/
def B.addTransition (F : Filter) (b : B) (ev : Nat) (src : Src) (dst : Dst) (cb : CbSpec) : B :=
  b.addTrans F ev ((b.sources src).map (mkTrans cb dst))

/-- `self.states[state.name] = state` on an OrderedDict: in place when the key exists -/
def upsert (st : StateDef) : List StateDef → List StateDef
  | [] => [st]
  | x :: r => if x.name = st.name then st :: r else x :: upsert st r

/-- the `if self.auto_transitions:` block of `add_states` for the state just added -/
def B.autoTransitions (F : Filter) (b : B) (name : Nat) : B :=
  b.stateNames.foldl (fun acc a =>
    if a = name then acc.addTransition F (autoEv a) .all (.to a) {}
    else acc.addTransition F (autoEv a) (.one name) (.to a) {}) b

def fillIgnore (callIgn mign : Option Bool) (s : SSpec) : Option Bool :=
  if s.fill then (match callIgn with
    | some x => some x
    | none => mign)
  else s.ign

def mkState (callIgn mign : Option Bool) (s : SSpec) : StateDef :=
  { name := s.name, onEnter := s.onEnter, onExit := s.onExit, ignore := fillIgnore callIgn mign s,
    final := s.final }

def B.putState (b : B) (st : StateDef) : B := { b with cfg := { b.cfg with states := upsert st b.cfg.states } }

/-- one iteration of the loop of `Machine.add_states` -/
def B.addState (F : Filter) (b : B) (callIgn : Option Bool) (s : SSpec) : B :=
  if b.auto then (b.putState (mkState callIgn b.mign s)).autoTransitions F s.name
  else b.putState (mkState callIgn b.mign s)

def B.addStates (F : Filter) (b : B) (l : List SSpec) (callIgn : Option Bool) : B :=
  l.foldl (fun acc s => acc.addState F callIgn s) b

/-- `Machine.initial` setter for a name / Enum member -/
def B.setInitial (F : Filter) (b : B) (s : Nat) : B :=
  let b1 := if b.stateNames.contains s then b else b.addStates F [{ name := s }] none
  { b1 with init := some s, cfg := { b1.cfg with initial := s } }

/-- `_prep_ordered_arg` -/
def prepArg (n : Nat) : OArg → Option (List (List Nat))
  | none => some (List.replicate n [])
  | some [x] => some (List.replicate n x)
  | some l => if l.length = n then some l else none

def zipCbs : List (List Nat) → List (List Nat) → List (List Nat) → List (List Nat) → List (List Nat) →
    List CbSpec
  | c :: cs, u :: us, b :: bs, a :: as, p :: ps =>
    { conditions := c, unlss := u, before := b, after := a, prepare := p } :: zipCbs cs us bs as ps
  | _, _, _, _, _ => []

/-- the rotation `states[idx:] + states[:idx]` when the initial state is among `states` -/
def rotateToInitial (init : Option Nat) (sts : List Nat) : List Nat :=
  match init with
  | some i => if sts.contains i then sts.dropWhile (· != i) ++ sts.takeWhile (· != i) else sts
  | none => sts

def firstInLoop (init : Option Nat) (rot : List Nat) (inclInit : Bool) : Nat :=
  match init with
  | some i => if rot.contains i then (if inclInit then rot.getD 0 0 else rot.getD 1 0) else rot.getD 0 0
  | none => rot.getD 0 0

/-- the (source, dest) pairs `add_ordered_transitions` creates, in creation order -/
def orderedEdges (init : Option Nat) (sts : List Nat) (loop inclInit : Bool) : List (Nat × Nat) :=
  let rot := rotateToInitial init sts
  rot.zip (rot.drop 1) ++ (if loop then [(rot.getLastD 0, firstInLoop init rot inclInit)] else [])

/-- the per-edge callback specs of `add_ordered_transitions`, `none` = ValueError -/
def orderedCbs (n : Nat) (c u bf af pr : OArg) : Option (List CbSpec) :=
  match prepArg n c, prepArg n u, prepArg n bf, prepArg n af, prepArg n pr with
  | some c, some u, some bf, some af, some pr => some (zipCbs c u bf af pr)
  | _, _, _, _, _ => none

def B.addEdges (F : Filter) (b : B) (ev : Nat) (es : List ((Nat × Nat) × CbSpec)) : B :=
  es.foldl (fun acc e => acc.addTransition F ev (.one e.1.1) (.to e.1.2) e.2) b

/-- `Machine.add_ordered_transitions`; `none` = ValueError -/
def B.addOrdered (F : Filter) (b : B) (ev : Nat) (states : Option (List Nat)) (loop inclInit : Bool)
    (c u bf af pr : OArg) : Option B :=
  let sts := states.getD b.stateNames
  if sts.length < 2 then none else
  let n := if loop then sts.length else sts.length - 1
  match orderedCbs n c u bf af pr with
  | none => none
  | some cbs => some (b.addEdges F ev ((orderedEdges b.init sts loop inclInit).zip cbs))

/-- the keep-predicate of the comprehension in `remove_transition` (selectors are normalised to the
names they stand for: `s.name if hasattr(s, 'name') else s`) -/
def keepT (src dst : Option (List Nat)) (t : Trans) : Bool :=
  (match src with
    | some l => !l.contains t.source
    | none => false) ||
  (match dst with
    | some l => (match t.dest with
      | some d => !l.contains d
      | none => true)
    | none => false)

/-- `events[trigger].transitions = …` (a dict: every entry with that key, there is at most one) -/
def setKey (ev : Nat) (l : List Trans) (evs : List (Nat × List Trans)) : List (Nat × List Trans) :=
  evs.map fun e => if e.1 = ev then (e.1, l) else e

/-- `del self.events[trigger]` -/
def delKey (ev : Nat) (evs : List (Nat × List Trans)) : List (Nat × List Trans) :=
  evs.filter fun e => e.1 != ev

/-- `Machine.remove_transition`; `none` = KeyError (unknown trigger) -/
def B.remove (b : B) (ev : Nat) (src dst : Option (List Nat)) : Option B :=
  match alookup ev b.cfg.events with
  | none => none
  | some l =>
    let l' := l.filter (keepT src dst)
    some { b with cfg := { b.cfg with
      events := if l'.isEmpty then delKey ev b.cfg.events else setKey ev l' b.cfg.events } }

def applyOpF (F : Filter) (b : B) : Op → Option B
  | .addStates l ci => some (b.addStates F l ci)
  | .addTransition ev src dst cb => some (b.addTransition F ev src dst cb)
  | .addOrdered ev sts loop incl c u bf af pr => b.addOrdered F ev sts loop incl c u bf af pr
  | .remove ev s d => b.remove ev s d
  | .setInitial s => some (b.setInitial F s)

/-- a construction script: the calls one after the other; `none` = one of them raises -/
def applyOpsF (F : Filter) : B → List Op → Option B
  | b, [] => some b
  | b, op :: r =>
    match applyOpF F b op with
    | some b' => applyOpsF F b' r
    | none => none

abbrev applyOp := applyOpF allT
abbrev applyOps := applyOpsF allT

/-- constructor keyword arguments that are not construction steps -/
structure Opts where
  auto : Bool := true
  mign : Option Bool := none
  prepareEvent : List Nat := []
  beforeSC : List Nat := []
  afterSC : List Nat := []
  finalize : List Nat := []
  onException : List Nat := []
  onFinal : List Nat := []
  queued : Bool := false
  deriving Repr, Inhabited

/-- the machine right after the attribute initialisation of `Machine.__init__` -/
def start (o : Opts) : B :=
  { cfg := { states := [], events := [], prepareEvent := o.prepareEvent, beforeSC := o.beforeSC,
             afterSC := o.afterSC, finalize := o.finalize, onException := o.onException,
             onFinal := o.onFinal, ignore := o.mign.getD false, queued := o.queued, initial := 0 }
    auto := o.auto, mign := o.mign, init := none }

def buildF (F : Filter) (o : Opts) (ops : List Op) : Option B := applyOpsF F (start o) ops
abbrev build := buildF allT

/-- `Machine(states=S, initial=i, transitions=T, ordered_transitions=ord)`: the tail of `__init__`
is literally these calls, in this order -/
def ctorOps (states : Option (List SSpec)) (initial : Option Nat) (transitions : List Op) (ordered : Option Nat) :
    List Op :=
  (match states with
    | some l => [Op.addStates l none]
    | none => []) ++
  (match initial with
    | some i => [Op.setInitial i]
    | none => []) ++
  transitions ++
  (match ordered with
    | some ev => [Op.addOrdered ev none true true none none none none none]   -- ev = `next_state`
    | none => [])

end Build
end TM
