/-
  Model/Helpers.lean — the convenience helpers a machine puts on its models (property C11), written
  function by function after `transitions/core.py`

    Machine.add_model / _checked_assignment / _add_model_to_state / _add_trigger_to_model /
    _add_may_transition_func_for_trigger / _get_trigger / is_state / set_state /
    add_states (auto transitions `to_<state>`) / add_transition (trigger == model_attribute check) /
    remove_transition (incl. its `delattr` loop) / get_triggers / get_transitions / initial setter

  and, for hierarchical machines, after `transitions/extensions/nesting.py`

    HierarchicalMachine.is_state (tree walk over `build_state_tree`, `allow_substates`) /
    get_triggers / get_nested_triggers / trigger_nested + _trigger_event_nested (which sources fire) /
    _add_model_to_state + _add_trigger_to_model + FunctionWrapper.add (helper names, custom separators).

  Imports nothing (the driver links as a `lean_exe`).  A Python string is the list of its character
  codes (`Name`), so that the naming functions (`'is_%s' % name`, the `model_attribute` infix,
  `trigger.startswith('to_')`, `split(separator)`, the `'s'` prefix for digits) are the code's own
  string operations and the harness can compare the names letter by letter.

  The model object's namespace is a finite map `Name → Binding` in two layers like a Python object:
  the class attributes (never written by `setattr`) and the instance `__dict__`.
-/
namespace TM
namespace Helpers

abbrev Name := List Nat

/-! ### finite maps as association lists (insertion ordered, like `dict` / `OrderedDict`) -/

def kget {κ β : Type} [DecidableEq κ] (k : κ) : List (κ × β) → Option β
  | [] => none
  | (k', v) :: r => if k' = k then some v else kget k r

/-- `d[k] = v`: replace in place, append when missing -/
def kset {κ β : Type} [DecidableEq κ] (k : κ) (v : β) : List (κ × β) → List (κ × β)
  | [] => [(k, v)]
  | (k', v') :: r => if k' = k then (k, v) :: r else (k', v') :: kset k v r

def kdel {κ β : Type} [DecidableEq κ] (k : κ) : List (κ × β) → List (κ × β)
  | [] => []
  | (k', v') :: r => if k' = k then kdel k r else (k', v') :: kdel k r

/-! ### strings -/

def sIs : Name := [105, 115, 95]                              -- "is_"
def sTo : Name := [116, 111, 95]                              -- "to_"
def sMay : Name := [109, 97, 121, 95]                         -- "may_"
def sTrigger : Name := [116, 114, 105, 103, 103, 101, 114]    -- "trigger"
def sMayTrigger : Name := sMay ++ sTrigger                    -- "may_trigger"
def sState : Name := [115, 116, 97, 116, 101]                 -- "state"
def sToFn : Name := [116, 111]                                -- "to"
def cUnderscore : Nat := 95

/-- `'%s' % name` resp. `'%s_%s' % (model_attribute, name)`: the part after `is_` / `to_` -/
def infixed (attr s : Name) : Name := if attr = sState then s else attr ++ cUnderscore :: s
/-- `_add_model_to_state`: `is_<state>` / `is_<model_attribute>_<state>` -/
def isName (attr s : Name) : Name := sIs ++ infixed attr s
/-- `add_states`: `to_<state>` / `to_<model_attribute>_<state>` -/
def toName (attr s : Name) : Name := sTo ++ infixed attr s
/-- `_add_may_transition_func_for_trigger`: `"may_%s" % trigger` -/
def mayName (e : Name) : Name := sMay ++ e

/-! ### the model object -/

inductive Binding
  | user (id : Nat)          -- an attribute the model defined itself (`id` stands for the object's identity)
  | userNone                 -- … whose value is `None`: `getattr(model, name, None)` cannot tell it from a missing one
  | value (s : Name)         -- the state attribute's value
  | isState (s : Name)       -- `partial(machine.is_state, state.value, model)`
  | trigger (e : Name)       -- `partial(machine.events[e].trigger, model)`
  | may (e : Name)           -- `partial(machine._can_trigger, model, e)`
  | triggerFn                -- `partial(machine._get_trigger, model)`
  | mayTriggerFn             -- `partial(machine._can_trigger, model)`
  | toFn                     -- hierarchical machines: `partial(machine.to_state, model)`
  deriving DecidableEq, Repr, Inhabited

structure Obj where
  cls : List (Name × Binding) := []     -- class attributes (the user's; `setattr` on the instance never changes them)
  inst : List (Name × Binding) := []    -- the instance `__dict__`
  deriving DecidableEq, Repr, Inhabited

def Obj.getattr (o : Obj) (n : Name) : Option Binding :=
  match kget n o.inst with
  | some b => some b
  | none => kget n o.cls

def Obj.setattr (o : Obj) (n : Name) (b : Binding) : Obj := { o with inst := kset n b o.inst }

/-- `delattr(model, name)`: only the instance dict can lose an entry; `none` = AttributeError -/
def Obj.delattr (o : Obj) (n : Name) : Option Obj :=
  if (kget n o.inst).isSome then some { o with inst := kdel n o.inst } else none

/-- `getattr(model, name, None) is None` -/
def Obj.unbound (o : Obj) (n : Name) : Bool :=
  match o.getattr n with
  | none => true
  | some .userNone => true
  | _ => false

/-- `Machine._checked_assignment`: `if (bound_func is None) ^ self.model_override: setattr(...)` -/
def checkedAssign (override : Bool) (o : Obj) (n : Name) (b : Binding) : Obj :=
  if (o.unbound n) != override then o.setattr n b else o

/-- `Machine._add_trigger_to_model`: the event method, then `may_<event>` -/
def addTriggerToModel (override : Bool) (e : Name) (o : Obj) : Obj :=
  checkedAssign override (checkedAssign override o e (.trigger e)) (mayName e) (.may e)

/-- `Machine._add_model_to_state` (the `is_` helper; dynamic `on_enter_<state>` methods are C13's) -/
def addModelToState (override : Bool) (attr s : Name) (o : Obj) : Obj :=
  checkedAssign override o (isName attr s) (.isState s)

/-! ### the machine -/

structure Tr where
  source : Name
  dest : Option Name          -- `none` = internal transition
  pass : Bool := true         -- whether its (static) conditions pass
  deriving DecidableEq, Repr, Inhabited

inductive Err
  | valueError | attributeError | machineError | keyError
  deriving DecidableEq, Repr, Inhabited

/-- outcome of an event: returned truth value or exception -/
inductive FRes
  | ok (b : Bool)
  | error (e : Err)
  deriving DecidableEq, Repr, Inhabited

structure HM where
  attr : Name                               -- `model_attribute`
  override : Bool                           -- `model_override`
  auto : Bool                               -- `auto_transitions`
  states : List Name := []                  -- keys of `machine.states` (an OrderedDict)
  events : List (Name × List Tr) := []      -- `machine.events`: event ↦ its transitions in definition order
  initial : Option Name := none             -- `machine._initial`
  objs : List (Nat × Obj) := []             -- `machine.models` (registration order) with the objects
  deriving Repr, Inhabited

def HM.models (hm : HM) : List Nat := hm.objs.map (·.1)
def HM.onObjs (hm : HM) (f : Obj → Obj) : HM := { hm with objs := hm.objs.map fun (m, o) => (m, f o) }
def HM.eventNames (hm : HM) : List Name := hm.events.map (·.1)

inductive Src | all | one (s : Name)
  deriving DecidableEq, Repr, Inhabited
inductive Dst | to (d : Name) | same | internal
  deriving DecidableEq, Repr, Inhabited

def mkTr (dst : Dst) (pass : Bool) (s : Name) : Tr :=
  { source := s, dest := (match dst with | .to d => some d | .same => some s | .internal => none), pass }

/-- `'*'` is `list(self.states.keys())` at the time of the call -/
def Src.expand (states : List Name) : Src → List Name
  | .all => states
  | .one s => [s]

/-- `Machine.add_transition` -/
def addTransition (hm : HM) (e : Name) (src : Src) (dst : Dst) (pass : Bool) : HM × Option Err :=
  -- if trigger == self.model_attribute: raise ValueError
  if e = hm.attr then (hm, some .valueError) else
  -- if trigger not in self.events: create the event, bind it on every model
  let hm1 : HM := if (kget e hm.events).isSome then hm
    else { hm.onObjs (addTriggerToModel hm.override e) with events := hm.events ++ [(e, [])] }
  ({ hm1 with events := kset e ((kget e hm1.events).getD [] ++ (src.expand hm.states).map (mkTr dst pass)) hm1.events }, none)

/-- the auto-transition loop of `add_states`: `for a_state in self.states.keys(): …` -/
def autoLoop (s : Name) : List Name → HM → HM × Option Err
  | [], h => (h, none)
  | a :: r, h =>
    match addTransition h (toName h.attr a) (if a = s then .all else .one s) (.to a) true with
    | (h', none) => autoLoop s r h'
    | (h', some e) => (h', some e)

/-- `Machine.add_states` for one state given by name (or Enum member: its name) -/
def addState (hm : HM) (s : Name) : HM × Option Err :=
  let hm1 : HM := { hm.onObjs (addModelToState hm.override hm.attr s) with
    states := if s ∈ hm.states then hm.states else hm.states ++ [s] }
  if hm.auto then autoLoop s hm1.states hm1 else (hm1, none)

/-- the `initial` setter: a missing state is added first -/
def setInitial (hm : HM) (s : Name) : HM × Option Err :=
  if s ∈ hm.states then ({ hm with initial := some s }, none)
  else match addState hm s with
    | (h, none) => ({ h with initial := some s }, none)
    | (h, some e) => (h, some e)

/-- the binding part of `Machine.add_model` for a new model -/
def bindModel (hm : HM) (o : Obj) : Obj :=
  let o1 := checkedAssign hm.override o sTrigger .triggerFn
  let o2 := checkedAssign hm.override o1 sMayTrigger .mayTriggerFn
  let o3 := hm.events.foldl (fun o ev => addTriggerToModel hm.override ev.1 o) o2
  hm.states.foldl (fun o s => addModelToState hm.override hm.attr s o) o3

/-- `Machine.add_model` for one model object -/
def addModel (hm : HM) (m : Nat) (o : Obj) : HM × Option Err :=
  match hm.initial with
  | none => (hm, some .valueError)           -- "No initial state configured for machine"
  | some i =>
    if (kget m hm.objs).isSome then (hm, none)    -- `if mod not in self.models`
    else if i ∈ hm.states then
      -- set_state(initial, model=mod): an unconditional setattr of the state attribute
      ({ hm with objs := hm.objs ++ [(m, (bindModel hm o).setattr hm.attr (.value i))] }, none)
    else (hm, some .valueError)              -- get_state raises (never reached: `initial_registered`)

/-- the comprehension of `remove_transition`: a transition is kept iff a given selector does not match -/
def keepTr (src dst : Option Name) (t : Tr) : Bool :=
  (match src with | some s => t.source != s | none => false) ||
  (match dst with | some d => t.dest != some d | none => false)

/-- is the instance attribute a partial whose function belongs to this machine or to the event `e`?
(`isinstance(bound_func, partial) and bound_func.func.__self__ in (self, self.events.get(trigger))`:
`is_state`, `_can_trigger`, `_get_trigger`, `to_state` are methods of the machine, an event method is a
method of its event) -/
def machineOwned (e : Name) : Binding → Bool
  | .trigger e' => e' == e
  | .isState _ => true
  | .may _ => true
  | .triggerFn => true
  | .mayTriggerFn => true
  | .toFn => true
  | _ => false

def Obj.dropInst (o : Obj) (e : Name) : Obj := { o with inst := kdel e o.inst }

/-- `Machine._remove_trigger_from_model`: only what the machine bound itself is deleted, and only from
the instance dict -/
def removeTriggerFromModel (e : Name) (o : Obj) : Obj :=
  match kget e o.inst with
  | some b => if machineOwned e b then o.dropInst e else o
  | none => o

/-- `Machine.remove_transition` (string selectors; `none` = `"*"`) -/
def removeTransition (hm : HM) (e : Name) (src dst : Option Name) : HM × Option Err :=
  match kget e hm.events with
  | none => (hm, some .keyError)
  | some ts =>
    match ts.filter (keepTr src dst) with
    | [] =>
      -- no transition is left: remove the trigger from all models, then from the machine
      ({ hm.onObjs (removeTriggerFromModel e) with events := kdel e hm.events }, none)
    | keep => ({ hm with events := kset e keep hm.events }, none)

def Obj.stateOf (attr : Name) (o : Obj) : Option Name :=
  match o.getattr attr with
  | some (.value s) => some s
  | _ => none

def HM.stateOf (hm : HM) (m : Nat) : Option Name :=
  match kget m hm.objs with
  | some o => o.stateOf hm.attr
  | none => none

/-- `Machine._get_trigger(model, name)` → `Event.trigger` → `_trigger` → `_process` → `Transition.execute`
for a machine whose callbacks are the static conditions only (`ignore_invalid_triggers` off). -/
def fire (hm : HM) (m : Nat) (e : Name) : HM × FRes :=
  match kget m hm.objs with
  | none => (hm, .error .attributeError)
  | some o =>
    match o.stateOf hm.attr with
    | none => (hm, .error .valueError)
    | some s =>
      if s ∉ hm.states then (hm, .error .valueError) else      -- get_model_state → get_state raises
      match kget e hm.events with
      | none => (hm, .error .attributeError)                  -- "Do not know event named …"
      | some ts =>
        match ts.filter (fun t => t.source = s) with
        | [] => (hm, .error .machineError)                     -- "Can't trigger event … from state …"
        | c :: cs =>
          match (c :: cs).find? (·.pass) with
          | none => (hm, .ok false)
          | some t =>
            match t.dest with
            | none => (hm, .ok true)
            | some d =>
              if d ∈ hm.states then ({ hm with objs := kset m (o.setattr hm.attr (.value d)) hm.objs }, .ok true)
              else (hm, .error .valueError)                    -- set_state → get_state raises

/-- what calling an attribute of the model does -/
inductive Call
  | fired (r : FRes)     -- a machine-bound callable ran the event
  | answer (b : Bool)               -- `is_<state>()`
  | users                           -- the model's own attribute: not the machine's business
  | missing                         -- AttributeError: no such attribute
  deriving DecidableEq, Repr, Inhabited

/-- `model.<name>()` for an event method -/
def callEvent (hm : HM) (m : Nat) (n : Name) : HM × Call :=
  match kget m hm.objs with
  | none => (hm, .missing)
  | some o =>
    match o.getattr n with
    | some (.trigger e) => let p := fire hm m e; (p.1, .fired p.2)
    | none => (hm, .missing)
    | _ => (hm, .users)

/-- `model.trigger(name)` -/
def callTrigger (hm : HM) (m : Nat) (e : Name) : HM × Call :=
  match kget m hm.objs with
  | none => (hm, .missing)
  | some o =>
    match o.getattr sTrigger with
    | some .triggerFn => let p := fire hm m e; (p.1, .fired p.2)
    | none => (hm, .missing)
    | _ => (hm, .users)

/-- `Machine.is_state(state, model)`: `getattr(model, self.model_attribute) == state` -/
def isStateEval (hm : HM) (o : Obj) (s : Name) : Bool := o.stateOf hm.attr == some s

/-- `model.<name>()` for an `is_` helper -/
def callIs (hm : HM) (m : Nat) (n : Name) : Call :=
  match kget m hm.objs with
  | none => .missing
  | some o =>
    match o.getattr n with
    | some (.isState s) => .answer (isStateEval hm o s)
    | none => .missing
    | _ => .users

/-- `Machine.get_triggers(*states)` -/
def getTriggers (hm : HM) (names : List Name) : List Name :=
  hm.events.filterMap fun ev => if ev.2.any (fun t => names.contains t.source) then some ev.1 else none

/-- the comprehension of `get_transitions`: `(t.source, t.dest) == (target_source or t.source, target_dest or t.dest)` -/
def selMatch (src dst : Option Name) (t : Tr) : Bool :=
  (match src with | some s => t.source == s | none => true) &&
  (match dst with | some d => t.dest == some d | none => true)

/-- `Machine.get_transitions(trigger, source, dest)`; `none` = the falsy defaults `""` / `"*"` -/
def getTransitions (hm : HM) (trigger src dst : Option Name) : List (Name × Tr) :=
  let evs : List (Name × List Tr) := match trigger with
    | some e => (match kget e hm.events with | some ts => [(e, ts)] | none => [])     -- KeyError → []
    | none => hm.events
  (evs.flatMap fun ev => ev.2.map fun t => (ev.1, t)).filter fun p => selMatch src dst p.2

/-! ### histories of events and reconfigurations -/

inductive Op
  | setInitial (s : Name)
  | addState (s : Name)
  | addTransition (e : Name) (src : Src) (dst : Dst) (pass : Bool)
  | removeTransition (e : Name) (src dst : Option Name)
  | addModel (m : Nat) (o : Obj)
  | failing (e : Err)                  -- a call that must raise `e` and change nothing: `add_model(model, initial=<unknown
                                       -- state>)` (ValueError), `remove_model(<unregistered model>)` (ValueError)
  | fire (m : Nat) (e : Name)          -- `model.trigger(e)` ≡ `model.<e>()` (C11_event_method_eq_trigger)
  deriving Repr, Inhabited

def applyOp (hm : HM) : Op → HM × Option Err
  | .setInitial s => setInitial hm s
  | .addState s => addState hm s
  | .addTransition e src dst pass => addTransition hm e src dst pass
  | .removeTransition e src dst => removeTransition hm e src dst
  | .addModel m o => addModel hm m o
  | .failing e => (hm, some e)
  | .fire m e => let p := fire hm m e; (p.1, match p.2 with | .ok _ => none | .error x => some x)

/-- a history: an exception reaches the caller (the harness catches it) and the history goes on -/
def run (hm : HM) : List Op → HM
  | [] => hm
  | op :: r => run (applyOp hm op).1 r

/-- `Machine(model=None, states=None, initial=None, …)` -/
def HM.new (attr : Name) (override auto : Bool) : HM := { attr, override, auto }

/-! ### hierarchical machines -/

abbrev Path := List Name

/-- A hierarchical machine as its scopes: the global paths of all states and, per scope (the root `[]`
or the path of a state), the events declared there with the source keys of their transitions
(a source key is the name relative to the scope: the string `'a_1'` is the path `[a, 1]`). -/
structure HSM where
  states : List Path := []
  scopes : List (Path × List (Name × List Path)) := []
  deriving Repr, Inhabited

def HSM.scopeEvents (h : HSM) (pre : Path) : List (Name × List Path) := (kget pre h.scopes).getD []

/-- `Machine.get_triggers(name)` inside one scope: events that have the key `name` -/
def scopeTriggers (evs : List (Name × List Path)) (p : Path) : List Name :=
  evs.filterMap fun ev => if ev.2.contains p then some ev.1 else none

/-- the non-empty prefixes of a path, longest first (`while state_path: …; state_path.pop()`) -/
def prefixesDesc : Path → List Path
  | [] => []
  | x :: tl => (prefixesDesc tl).map (x :: ·) ++ [[x]]

/-- `HierarchicalMachine._get_scoped_triggers(src_path)` called in the scope `pre`: the scope is asked for
the state and its parents inside the scope, then the scope of the first segment for the rest -/
def scopedTriggers (h : HSM) : Path → Path → List Name
  | _, [] => []
  | pre, x :: tl =>
    (prefixesDesc (x :: tl)).flatMap (scopeTriggers (h.scopeEvents pre)) ++
      (if tl ≠ [] ∧ (pre ++ [x]) ∈ h.states then scopedTriggers h (pre ++ [x]) tl else [])

/-- `HierarchicalMachine.get_triggers(state)` -/
def getTriggersH (h : HSM) (p : Path) : List Name :=
  (match p with
    | x :: y :: tl => scopedTriggers h [x] (y :: tl)
    | _ => []) ++
  (prefixesDesc p).flatMap (scopeTriggers (h.scopeEvents []))

/-- the triggers the machine knows in ANY scope (root events and the events declared inside states): the event
methods a model must carry — `HierarchicalMachine.remove_transition` takes a method off the models only when
`get_transitions(trigger)` finds nothing in any scope -/
def HSM.knownEvents (h : HSM) : List Name := h.scopes.flatMap fun sc => sc.2.map (·.1)

def declared (evs : List (Name × List Path)) (e : Name) (q : Path) : Bool :=
  match kget e evs with
  | some srcs => srcs.contains q
  | none => false

/-- `separator.join(path)` -/
def joinSep (sep : Nat) : Path → Name
  | [] => []
  | [x] => x
  | x :: y :: r => x ++ sep :: joinSep sep (y :: r)

/-- the auto transition event of a state: `'to_%s' % <global name>` (`HierarchicalMachine._init_state`) -/
def toEventH (sep : Nat) (p : Path) : Name := sTo ++ joinSep sep p

def HSM.topStates (h : HSM) : List Name :=
  h.states.filterMap fun p => match p with | [x] => some x | _ => none

/-- what `_init_state` establishes with auto transitions on (for states added by name, as dict, as ready-made
NestedState objects with substates, or through an embedded machine): every state's `to_<state>` is declared in the
root scope with EVERY top-level state as a source -/
def autoCoveredB (h : HSM) (sep : Nat) : Bool :=
  h.states.all fun p => h.topStates.all fun x => declared (h.scopeEvents []) (toEventH sep p) [x]

/-- Which events are offered a transition when the model is in state `pre ++ p`
(`_trigger_event_nested` descends along the active branch; in every scope on the way
`NestedEvent.trigger_nested` tries every state of the branch below that scope, i.e. every non-empty
prefix of the remaining path). -/
def firesIn (h : HSM) : Path → Path → Name → Bool
  | _, [], _ => false
  | pre, x :: tl, e =>
    (prefixesDesc (x :: tl)).any (declared (h.scopeEvents pre) e) ||
      (tl ≠ [] && firesIn h (pre ++ [x]) tl e)

/-- `build_state_tree` as the list of active paths below the current node: the keys of the dict are
the heads, the sub-dict of a key are the tails -/
def descend (t : List Path) (e : Name) : List Path :=
  (t.filter fun p => p.head? = some e).filterMap fun p => match p.tail with | [] => none | q => some q

/-- `HierarchicalMachine.is_state(state, model, allow_substates)` on the active paths -/
def isStateH (t : List Path) : Path → Bool → Bool
  | [], allow => t.isEmpty || allow
  | e :: r, allow => if t.any (fun p => p.head? = some e) then isStateH (descend t e) r allow else false

/-- `str.split(separator)` for a one-character separator -/
def splitSep (sep : Nat) : Name → Path
  | [] => [[]]
  | c :: r =>
    if c = sep then [] :: splitSep sep r
    else match splitSep sep r with
      | [] => [[c]]
      | w :: ws => (c :: w) :: ws

/-- `FunctionWrapper.add`: `if name[0].isdigit(): name = 's' + name` -/
def sDigit (seg : Name) : Name :=
  match seg with
  | c :: _ => if 48 ≤ c ∧ c ≤ 57 then 115 :: seg else seg
  | [] => []

/-- how the `is_` helper of the state at `p` is reached on the model: one attribute name for the
default separator, `is_<top>` followed by FunctionWrapper attributes for a custom one
(the `model_attribute` is not part of nested helper names) -/
def isAccessH (sep : Nat) (p : Path) : List Name :=
  if sep = cUnderscore then [sIs ++ joinSep sep p]
  else match p with
    | [] => []
    | x :: r => (sIs ++ x) :: r.map sDigit

/-- … and the auto transition `to_<global name>` (`_add_trigger_to_model`: `trigger[3:].split(separator)`) -/
def toAccessH (sep : Nat) (p : Path) : List Name :=
  if sep = cUnderscore then [sTo ++ joinSep sep p]
  else match splitSep sep (joinSep sep p) with
    | [] => []
    | x :: r => (sTo ++ x) :: r.map sDigit

/-! ### hierarchical machines: `get_transitions` -/

/-- the transition tables of a hierarchical machine: per scope, event ↦ (source, dest) of its
transitions, names relative to the scope (`none` = internal transition) -/
structure HT where
  states : List Path := []
  tables : List (Path × List (Name × List (Path × Option Path))) := []
  deriving Repr, Inhabited

def HT.table (h : HT) (pre : Path) : List (Name × List (Path × Option Path)) := (kget pre h.tables).getD []

/-- `self.states` in the scope `pre`: the names of its children, in order -/
def HT.children (h : HT) (pre : Path) : List Name :=
  h.states.filterMap fun p => if p ≠ [] ∧ p.dropLast = pre then p.getLast? else none

/-- a found transition: the scope it is declared in, its event, source and destination -/
structure FoundT where
  scope : Path
  event : Name
  source : Path
  dest : Option Path
  deriving DecidableEq, Repr, Inhabited

/-- `Machine.get_transitions(trigger, source, dest)` inside the scope `pre` (joined names compared as
strings, i.e. as relative paths; `[]` = `"*"`) -/
def flatT (h : HT) (pre : Path) (trigger : Option Name) (src dst : Path) : List FoundT :=
  let evs := match trigger with
    | some e => (match kget e (h.table pre) with | some ts => [(e, ts)] | none => [])
    | none => h.table pre
  (evs.flatMap fun ev => ev.2.map fun t => ({ scope := pre, event := ev.1, source := t.1, dest := t.2 } : FoundT)).filter fun f =>
    (src = [] || f.source == src) && (dst = [] || f.dest == some dst)

/-- `HierarchicalMachine.get_nested_transitions(trigger, src_path, dest_path)` called in the scope `pre`
(the first argument bounds the depth of the recursion; the tree depth suffices) -/
def nestedT (h : HT) : Nat → Path → Option Name → Path → Path → List FoundT
  | 0, _, _, _, _ => []
  | f + 1, pre, trig, src, dst =>
    match src, dst with
    | s0 :: sr, d0 :: dr =>
      flatT h pre trig (s0 :: sr) (d0 :: dr) ++
        -- transitions defined in the scope of a nested state connect states of that very scope
        (if sr ≠ [] ∧ dr ≠ [] ∧ s0 = d0 then nestedT h f (pre ++ [s0]) trig sr dr else [])
    | s0 :: sr, [] =>
      flatT h pre trig (s0 :: sr) [] ++ (if sr ≠ [] then nestedT h f (pre ++ [s0]) trig sr [] else [])
    | [], d0 :: dr =>
      flatT h pre trig [] (d0 :: dr) ++
        -- only the scope of the destination's parent can contain (local) transitions to that destination
        (if dr ≠ [] ∧ d0 ∈ h.children pre then nestedT h f (pre ++ [d0]) trig [] dr else [])
    | [], [] =>
      flatT h pre trig [] [] ++ (h.children pre).flatMap fun x => nestedT h f (pre ++ [x]) trig [] []

/-- `HierarchicalMachine.get_transitions(trigger, source, dest)` (`delegate=False`) -/
def getTransitionsH (h : HT) (trigger : Option Name) (src dst : Path) : List FoundT :=
  nestedT h (h.states.length + 1) [] trigger src dst

/-- what the selectors mean: global names -/
def FoundT.matchesH (f : FoundT) (trigger : Option Name) (src dst : Path) : Bool :=
  (match trigger with | some e => f.event == e | none => true) &&
  (src = [] || f.scope ++ f.source == src) &&
  (dst = [] || (match f.dest with | some d => f.scope ++ d == dst | none => false))

/-! ### hierarchical machines with a custom separator: binding of the FunctionWrapper helpers -/

/-- what `getattr(model, 'is_<top>')` / `'to_<top>'` is -/
inductive TopAttr
  | missing | user | userNone | wrapper
  deriving DecidableEq, Repr, Inhabited

/-- one binding step of `_add_wrapped_function(model, name, func, path)`; `restEmpty` = `not path` -/
structure WStep where
  name : Name
  isStep : Bool            -- an `is_` helper (else the `to_` method of an auto transition); same code path
  restEmpty : Bool
  deriving DecidableEq, Repr, Inhabited

def wrapStep (override : Bool) (a : TopAttr) (st : WStep) : TopAttr :=
  match a with
  | .wrapper => .wrapper                                   -- isinstance(bound_func, FunctionWrapper): `.add(func, path)`
  | a =>
    if st.restEmpty then
      -- self._checked_assignment(model, name, FunctionWrapper(func))
      let unbound := match a with | .missing => true | .userNone => true | _ => false
      if unbound != override then .wrapper else a
    else a                                                 -- "Skip binding of … due to model override policy"

/-- the wrapper steps of `add_model` in the code's order; the namespace maps top-level helper names -/
def runWrap (override : Bool) : List (Name × TopAttr) → List WStep → List (Name × TopAttr)
  | ns, [] => ns
  | ns, st :: r => runWrap override (kset st.name (wrapStep override ((kget st.name ns).getD .missing) st) ns) r

end Helpers
end TM
