/-
  Model/Final.lean — the final-state check of hierarchical machines, written after
  `transitions/extensions/nesting.py`:

    NestedTransition._change_state        (l. 283-293: exits, `_update_model`, enters, then
                                           `with machine(): on_final_cbs, _ = self._final_check(…)`)
    NestedTransition._final_check         (l. 295-321)
    NestedTransition._final_check_nested  (l. 323-325: `with machine(state): return self._final_check(…)`)
    NestedState.final / NestedState.on_final, Machine.on_final

  `NestedAsyncTransition._change_state` (asyncio.py) awaits the same `_final_check` result.

  Inputs of `_final_check` as the code sees them:

    * `state_tree` — the NEW configuration as an OrderedDict of OrderedDicts (`Tree`; children in the
      order of the dict, which is the order of the model's state list);
    * `machine.scoped` — the state whose scope is open (the machine itself at the root): read for
      `.final`, `.on_final` and the bound method `.scoped_enter` (`Defs`, states identified by a number);
    * `enter_partials` — the `scoped_enter` partials of the states the transition enters; the test
      `any(scoped.scoped_enter == part.func for part in enter_partials)` is membership of the scoped
      state in the entered set `E`.

  The result `on_final_cbs` is a list of `partial(machine.callbacks, <owner>.on_final, event_data)`, one
  per owner, which `_change_state` calls in order; it is modelled as the list of owners.

  Control flow is kept code-shaped.  This is the code after the fix: commits 919a36b (the loop variable
  no longer doubles as the return value, DESIGN 6 items 10/18) and 576f1fd (a final-flagged state that
  has just been entered fires also when its active children are not all final, item 11) 56c10cf
  (`_just_entered` compares the scoped path as well as the state object) and 4b253dd (`_scoped_final`: the root scope,
  where `scoped` is the machine, is never treated as a final state whatever attribute `final` the machine object has).  The root call
  can still reach `machine.scoped_enter` syntactically; `C18_nested_exact` proves it never does.
  Import-free: the driver links this file.
-/
namespace TM
namespace Final

/-- the `state_tree` handed to `_final_check`: active states only, children in dictionary order -/
inductive Tree where
  | node (id : Nat) (kids : List Tree)
  deriving Repr, Inhabited

def Tree.id : Tree → Nat
  | .node s _ => s

def Tree.kids : Tree → List Tree
  | .node _ ks => ks

/-- what `_final_check` reads from the state objects and the machine -/
structure Defs where
  /-- `NestedState.final` -/
  final : Nat → Bool
  /-- `NestedState.on_final` (callback ids, list order) -/
  onFinal : Nat → List Nat
  /-- `HierarchicalMachine.on_final` -/
  machineOnFinal : List Nat

/-- whose `on_final` list a collected partial runs -/
inductive Owner
  | state (s : Nat)
  | machine
  deriving DecidableEq, Repr, Inhabited

/-- `_just_entered` (fix 56c10cf): `any(scoped.scoped_enter == part.func and part.args[1] == parents …)` for
the state `s` in scope — the partial targets this state OBJECT and carries this state's parents as its scope
prefix; object + parents = the state's path, and a state is a path here, so this is membership in `E`.
(Before the fix only the object was compared: one child machine embedded under several states made a state
at another path count as entered — finding F-C18-shared-state-object, regression cases in the corpus.) -/
def entered (E : List Nat) (s : Nat) : Bool := E.contains s

/-- `(on_final_cbs, all_children_final)` while the `for` loop runs -/
abbrev LoopSt := List Owner × Bool

mutual
/-- `_final_check` with the scope of state `s` open (reached through `_final_check_nested`).
Returns `(on_final_cbs, is_final)`. -/
def finalCheck (D : Defs) (E : List Nat) : Tree → List Owner × Bool
  | .node s kids =>
    -- on_final_cbs = []; is_final = False
    -- if state_tree: all_children_final = True; for child_cbs, child_final in (…): …
    let r := finalLoop D E kids [] true
    if kids.isEmpty then
      -- elif getattr(scoped, 'final', False):
      if D.final s then
        -- if any(scoped.scoped_enter == part.func …): on_final_cbs.append(partial(… scoped.on_final …))
        -- is_final = True
        (if entered E s then [.state s] else [], true)
      else ([], false)
    else if r.2 then
      -- if all_children_final:
      --     if on_final_cbs or any(scoped.scoped_enter == part.func …): on_final_cbs.append(…)
      --     is_final = True
      (if !r.1.isEmpty || entered E s then r.1 ++ [.state s] else r.1, true)
    else if D.final s && entered E s then
      -- elif getattr(scoped, 'final', False) and any(scoped.scoped_enter == part.func …):
      --     on_final_cbs.append(…)            (is_final stays False)
      (r.1 ++ [.state s], false)
    else (r.1, false)
/-- the loop `for child_cbs, child_final in (self._final_check_nested(state, …) for state in state_tree)`:
`if not child_final: all_children_final = False`; `on_final_cbs.extend(child_cbs)` — every child is
visited, also after a non-final one -/
def finalLoop (D : Defs) (E : List Nat) : List Tree → List Owner → Bool → LoopSt
  | [], cbs, all => (cbs, all)
  | t :: ts, cbs, all =>
    let c := finalCheck D E t
    finalLoop D E ts (cbs ++ c.1) (all && c.2)
end

/-- outcome of the root call in `_change_state` -/
inductive RootResult
  | ok (cbs : List Owner)
  /-- `event_data.machine.scoped.scoped_enter` evaluated while `scoped` is the machine:
  `Machine.__getattr__` raises AttributeError (the state change has already happened) -/
  | attributeError
  deriving DecidableEq, Repr, Inhabited

/-- `_final_check` at the root scope (`with event_data.machine():` — `scoped` is the machine, which has
no `final` attribute and no `scoped_enter`); `roots` is the whole new configuration. -/
def finalCheckRoot (D : Defs) (E : List Nat) (roots : List Tree) : RootResult :=
  let r := finalLoop D E roots [] true
  if roots.isEmpty then .ok []                       -- `_scoped_final`: the machine itself is never final
  else if r.2 then
    if !r.1.isEmpty then .ok (r.1 ++ [.machine])     -- `on_final_cbs or …` short-circuits
    else if E.isEmpty then .ok r.1                   -- any() over no partials: nothing is evaluated
    else .attributeError                             -- first partial: `machine.scoped_enter`
  else .ok r.1      -- `elif self._scoped_final(event_data) and …`: False at the root, nothing else is evaluated

/-- the callbacks `_change_state` then runs: `for on_final_cb in on_final_cbs: on_final_cb()`, each a
`machine.callbacks(owner.on_final, event_data)` -/
def Defs.cbsOf (D : Defs) : Owner → List Nat
  | .state s => D.onFinal s
  | .machine => D.machineOnFinal

def runCalls (D : Defs) (owners : List Owner) : List Nat := owners.flatMap D.cbsOf

end Final
end TM
