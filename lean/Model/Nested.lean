/-
  Model/Nested.lean — one hierarchical state change, written after `transitions/extensions/nesting.py`:

    NestedTransition._resolve_transition   `resolveTransition`  (root = active prefix of the destination looked up
                                            in the tree of the declaring scope, re-rooting when the destination is fully active,
                                            exit scope with sibling narrowing, tree surgery)
    NestedTransition._enter_nested         `enterRoot` / `enterDest` / `initLoop` (remaining destination path, then the
                                            breadth-first descent through `initial`, a queue loop as in the code)
    NestedTransition._change_state         `nchangeState`  (exits, `_update_model`, enters)
    NestedState.scoped_enter/scoped_exit   `enterAll` / `exitAll`
    Transition.execute                     `nexecute`

  Engine state `NSt`: the model's configuration (kept as the tree `build_state_tree(model.state)`;
  `_build_state_list`/`build_state_tree` are inverse to each other on configurations, see `Model/Tree.lean`),
  the queue, the per-callback counters of the script, the persistent `event_data.result`, the observable
  log (`Item`s, as in the flat engine) and a GHOST log `glog` of state-level events (a state is
  entered / exited, a transition is offered / executes, an event's processing ends) on which C02/C03 are stated.

  `_final_check`/`on_final` run after the enter callbacks (`nfinalStage`; the collection order is property C18's
  business, here it matters as a stage in which a callback may raise).  Not modelled: `NestedState._scope`
  (only the `name` shown while a callback runs), Enum states.
-/
import Model.Tree

namespace TM

/-- pure three-way result (no engine state): value, exception, out of fuel -/
inductive PR (α : Type)
  | ok (a : α)
  | err (e : Exc)
  | oof
  deriving Repr

@[inline] def PR.bind {α β} (r : PR α) (f : α → PR β) : PR β :=
  match r with
  | .ok a => f a
  | .err e => .err e
  | .oof => .oof

/-- which transition: declaring scope (global path of the state whose definition lists it, `[]` = machine),
event, index in that scope's list for the event -/
structure TRef where
  scope : SPath
  ev : Nat
  idx : Nat
  deriving DecidableEq, Repr, Inhabited

/-- ghost events -/
inductive GEv
  | api (tag ev : Nat)            -- a trigger call is issued
  | cand (t : TRef)               -- `Transition.execute` starts for `t` (it is offered)
  | exec (t : TRef)               -- its conditions passed: it executes
  | exit (p : SPath)               -- `scoped_exit` of the state registered under `p`
  | enter (p : SPath)              -- `scoped_enter`
  | fin (tag : Nat) (mask : Nat)  -- processing of the event of call `tag` ends (finally-block); leaves then
  | ret (tag : Nat) (b : Bool)
  | raised (tag : Nat) (e : Exc)
  deriving DecidableEq, Repr, Inhabited

structure NCfg where
  states : SForest
  /-- `machine.events`: sources and destinations are global names -/
  events : List (Nat × List NTrans) := []
  prepareEvent : List Nat := []
  beforeSC : List Nat := []
  afterSC : List Nat := []
  finalize : List Nat := []
  onException : List Nat := []
  ignore : Bool := false
  queued : Bool := false
  /-- the (single) initial state handed to the constructor, as a path -/
  initial : SPath := []
  /-- `Machine.on_final` -/
  onFinal : List Nat := []
  deriving Repr, Inhabited

def NCfg.root (cfg : NCfg) : Scope := { owner := none, states := cfg.states, events := cfg.events, pre := [] }

structure NSt where
  conf : Forest
  queue : List (Nat × Nat) := []       -- `_transition_queue`: (event, tag), head = in progress
  counts : List (Nat × Nat) := []
  nextTag : Nat := 0
  result : Option Bool := none         -- `event_data.result` of the event being processed
  exited : List SPath := []            -- `event_data.exited_states` of the event being processed (global names)
  log : List Item := []
  glog : List GEv := []
  deriving Repr, Inhabited

def NSt.count (s : NSt) (c : Nat) : Nat := (alookup c s.counts).getD 0
def NSt.emit (s : NSt) (i : Item) : NSt := { s with log := s.log ++ [i] }
def NSt.emitG (s : NSt) (g : GEv) : NSt := { s with glog := s.glog ++ [g] }

abbrev NR := Res NSt
abbrev NSub := Cmd → NSt → NR Unit

/-- position of a state in the pre-order list of all registered states (`paths.length` if unregistered) -/
def stateIndex (cfg : NCfg) (p : SPath) : Nat := cfg.states.paths.idxOf p

/-- the configuration as a natural: one bit per active leaf (what a recorder sees of `model.state`) -/
def confMask (cfg : NCfg) (f : Forest) : Nat := (f.leaves.map fun p => 2 ^ stateIndex cfg p).sum

def nrunCmds (sub : NSub) : List Cmd → NSt → NR Unit
  | [], s => .ok () s
  | c :: cs, s => (sub c s).bind fun _ s' => nrunCmds sub cs s'

/-- `Machine.callback`: one invocation of a user callback (same shape as the flat `invoke`). -/
def ninvoke (sub : NSub) (sc : Script) (cfg : NCfg) (slot : Slot) (x : Ctx) (c : Nat) (s : NSt) : NR Bool :=
  let act := sc c (s.count c)
  let s1 := { s with counts := aset c (s.count c + 1) s.counts }
  let s2 := s1.emit (.call slot c x.model x.tag (confMask cfg s1.conf))
  match nrunCmds sub act.cmds s2 with
  | .ok _ s3 =>
    match act.out with
    | .ret b => .ok b (s3.emit (.done c (.ret b)))
    | .raise e => .err e (s3.emit (.done c (.raise e)))
  | .err e s3 => .err e (s3.emit (.done c (.raise e)))
  | .oof => .oof

def ncallbacks (sub : NSub) (sc : Script) (cfg : NCfg) (slot : Slot) (x : Ctx) : List Nat → NSt → NR Unit
  | [], s => .ok () s
  | c :: cs, s => (ninvoke sub sc cfg slot x c s).bind fun _ s' => ncallbacks sub sc cfg slot x cs s'

def nevalConds (sub : NSub) (sc : Script) (cfg : NCfg) (x : Ctx) : List Cond → NSt → NR Bool
  | [], s => .ok true s
  | c :: cs, s =>
    (ninvoke sub sc cfg (if c.target then .condition else .unless) x c.cb s).bind fun b s' =>
      if b = c.target then nevalConds sub sc cfg x cs s' else .ok false s'

/-! ### `_enter_nested` -/

/-- `[scoped.states[n] for n in initial_names]` (KeyError → `none`) -/
def lookupAll (f : SForest) (names : List Nat) : Option (List (SDef × SForest)) := names.mapM f.find

/-- entries of the work queue of the initial descent: position of the sub-dictionary of the new tree that
is being filled, global prefix of its states, the states to enter there -/
abbrev InitJob := SPath × SPath × List (SDef × SForest)

/-- what one pass of `for state in initial_states:` appends to the queue -/
def initJobs (pos pre : SPath) (sts : List (SDef × SForest)) : Option (List InitJob) :=
  (sts.filter fun e => !e.1.initial.isEmpty).mapM fun e =>
    (lookupAll e.2 e.1.initial).map fun l => (pos ++ [e.1.name], pre ++ [e.1.name], l)

/-- the `while True:` loop of `_enter_nested` (breadth first through `initial`); the head of the queue is the
`(scoped_tree, prefix, initial_states)` being processed -/
def initLoop : Nat → List InitJob → Forest → List Found → PR (Forest × List Found)
  | _, [], tree, ents => .ok (tree, ents)
  | 0, _ :: _, _, _ => .oof
  | n + 1, (pos, pre, sts) :: q, tree, ents =>
    let ents' := ents ++ sts.map fun e => (⟨e.1, e.2, pre ++ [e.1.name]⟩ : Found)
    let tree' := sts.foldl (fun t e => t.modifyAt pos (·.set e.1.name .nil)) tree
    match initJobs pos pre sts with
    | none => .err .other          -- KeyError: a name in `initial` is not a child
    | some more => initLoop n (q ++ more) tree' ents'

/-- `_enter_nested([], [], prefix_path)`: `elif scoped.initial: … else: return {}, []` -/
def enterInitial (sc : Scope) : PR (Forest × List Found) :=
  match sc.initial with
  | [] => .ok (.nil, [])
  | names =>
    match lookupAll sc.states names with
    | none => .err .other
    | some sts => initLoop (sc.states.size + 1) [([], sc.pre, sts)] .nil []

/-- `_enter_nested([], dest, prefix_path)`: the remaining destination path, each state entered before the next -/
def enterDest : Scope → SPath → PR (Forest × List Found)
  | sc, [] => enterInitial sc
  | sc, k :: d =>
    match sc.enter k with
    | none => .err .other            -- `with machine(state_name)`: KeyError
    | some sc' =>
      (enterDest sc' d).bind fun r =>
        .ok (Forest.cons k r.1 .nil, (⟨sc'.owner.getD default, sc'.states, sc'.pre⟩ : Found) :: r.2)

/-- `_enter_nested(root, dest, prefix_path)`: descend `root` first -/
def enterRoot : Scope → SPath → SPath → PR (Forest × List Found)
  | sc, [], dest => enterDest sc dest
  | sc, k :: r, dest =>
    match sc.enter k with
    | none => .err .other
    | some sc' => enterRoot sc' r dest

/-! ### `_resolve_transition` -/

/-- the `while tmp_tree is not None:` loop: the prefix of the destination that is active — looked up from the
top of the given tree (the sub-tree of the declaring scope) — and the rest -/
def activePrefix : Forest → SPath → SPath × SPath
  | _, [] => ([], [])
  | f, k :: p =>
    match f.get? k with
    | some s => let r := activePrefix s p; (k :: r.1, r.2)
    | none => ([], k :: p)

structure Resolved where
  tree : Forest
  exits : List Found
  enters : List Found
  /-- `scope + root + state_name for state_name in resolve_order(exit_scope)`: what goes into `exited_states` -/
  exitNames : List SPath := []
  deriving Repr, Inhabited

/-- `[get_state(root + state_name) … for state_name in resolve_order(exit_scope)]` -/
def exitStates (root sc : Scope) (rt : SPath) : List SPath → PR (List Found)
  | [] => .ok []
  | p :: ps =>
    match getState root sc (rt ++ p) with
    | none => .err .valueError
    | some f => (exitStates root sc rt ps).bind fun r => .ok (f :: r)

def resolveTransition (root sc : Scope) (conf : Forest) (dest : SPath) : PR Resolved :=
  -- _ = event_data.machine.get_state(dst_name_path)
  match getState root sc dest with
  | none => .err .valueError
  | some _ =>
    -- tmp_tree = reduce(dict.get, scope, state_tree).get(dst_name_path[0], None): the destination of a transition
    -- defined inside a state is relative to that state
    match conf.reduceGet sc.pre with
    | .error e => .err e
    | .ok none => .err .attributeError              -- None has no `get`
    | .ok (some scopeTree) =>
    let ap := activePrefix scopeTree dest
    -- if not dst_name_path: dst_name_path = [root.pop()]
    let rt := if ap.2.isEmpty then ap.1.dropLast else ap.1
    let dst := if ap.2.isEmpty then ap.1.drop (ap.1.length - 1) else ap.2
    -- scoped_tree = reduce(dict.get, scope + root, state_tree)
    match conf.reduceGet (sc.pre ++ rt) with
    | .error e => .err e
    | .ok none => .err .other                      -- len(None)
    | .ok (some scopedTree) =>
      let d0 := dst.headD 0
      -- if len(scoped_tree) > 1: exit_scope = {dst[0]: scoped_tree.get(dst[0])}
      let narrowed := scopedTree.len > 1
      let exitScope := if narrowed then Forest.cons d0 ((scopedTree.get? d0).getD .nil) .nil else scopedTree
      match resolveOrder exitScope with
      | none => .oof
      | some order =>
        (exitStates root sc rt order).bind fun exits =>
        (enterRoot sc rt dst).bind fun r =>
          -- if exit_scope == scoped_tree: scoped_tree.clear(); scoped_tree[new_key] = value (first item only)
          let tree := conf.modifyAt (sc.pre ++ rt) fun st =>
            let base := if narrowed then st else Forest.nil
            match r.1 with
            | .cons k v _ => base.set k v
            | .nil => base
          .ok { tree, exits, enters := r.2, exitNames := order.map fun p => sc.pre ++ rt ++ p }

/-! ### `_change_state` -/

/-- `for func in exit_partials: func()` -/
def exitAll (sub : NSub) (sc : Script) (cfg : NCfg) (x : Ctx) : List Found → NSt → NR Unit
  | [], s => .ok () s
  | f :: fs, s =>
    (ncallbacks sub sc cfg .onExit x f.d.onExit (s.emitG (.exit f.path))).bind fun _ s' =>
      exitAll sub sc cfg x fs s'

/-- `for func in enter_partials: func()` -/
def enterAll (sub : NSub) (sc : Script) (cfg : NCfg) (x : Ctx) : List Found → NSt → NR Unit
  | [], s => .ok () s
  | f :: fs, s =>
    (ncallbacks sub sc cfg .onEnter x f.d.onEnter (s.emitG (.enter f.path))).bind fun _ s' =>
      enterAll sub sc cfg x fs s'

/-- `NestedTransition._change_state`: the transition is resolved against the model's configuration at this
moment; exits, `_update_model`, enters. -/
def nchangeState (sub : NSub) (sc : Script) (cfg : NCfg) (scope : Scope) (x : Ctx) (dest : SPath) (s : NSt) : NR Unit :=
  match resolveTransition cfg.root scope s.conf dest with
  | .err e => .err e s
  | .oof => .oof
  | .ok r =>
    -- `_resolve_transition` records what it exits before anything runs
    (exitAll sub sc cfg x r.exits { s with exited := s.exited ++ r.exitNames }).bind fun _ s1 =>
      enterAll sub sc cfg x r.enters { s1 with conf := r.tree }

/-! ### `_final_check` (the tail of `_change_state`) -/

/-- the loop `for child_cbs, child_final in (self._final_check_nested(state, …) for state in state_tree)` of
`_final_check`, run in scope `sc` over the (new) configuration below it; `E` = the paths of the states the
transition enters (`_just_entered`: an enter partial targets the scoped state object at the scoped path);
accumulators `on_final_cbs` (one callback list per collected partial) and `all_children_final`.
For every key: `with machine(state):` (KeyError → `other`), the recursive `_final_check`, its verdict:

    leaf:                 final → ([own on_final] if just entered, True) else ([], False)
    all children final:   (children's partials + own if any was collected or just entered, True)
    otherwise:            (children's partials + own if tagged final and just entered, False) -/
def nfinalLoop (E : List SPath) : Scope → Forest → List (List Nat) → Bool → PR (List (List Nat) × Bool)
  | _, .nil, cbs, all => .ok (cbs, all)
  | sc, .cons k sub rest, cbs, all =>
    match sc.enter k with
    | none => .err .other
    | some inner =>
      (nfinalLoop E inner sub [] true).bind fun r =>
        let d := inner.owner.getD default
        let je := E.contains inner.pre
        let c : List (List Nat) × Bool :=
          if sub.isEmpty then
            (if d.final then (if je then [d.onFinal] else [], true) else ([], false))
          else if r.2 then (if !r.1.isEmpty || je then r.1 ++ [d.onFinal] else r.1, true)
          else if d.final && je then (r.1 ++ [d.onFinal], false)
          else (r.1, false)
        nfinalLoop E sc rest (cbs ++ c.1) (all && c.2)

/-- `_final_check` at the root scope (`with event_data.machine():` — `scoped` is the machine: no `final`, and
`machine.scoped_enter` raises AttributeError when `_just_entered` gets to evaluate it) -/
def nfinalCheckRoot (cfg : NCfg) (tree : Forest) (E : List SPath) : PR (List (List Nat)) :=
  (nfinalLoop E cfg.root tree [] true).bind fun r =>
    if tree.isEmpty then .ok []
    else if r.2 then
      if !r.1.isEmpty then .ok (r.1 ++ [cfg.onFinal])
      else if E.isEmpty then .ok r.1
      else .err .attributeError
    else .ok r.1

/-- the tail of `NestedTransition._change_state`, after the enter partials:
`on_final_cbs, _ = self._final_check(event_data, state_tree, enter_partials); for cb in on_final_cbs: cb()`.
`state_tree` and `enter_partials` are what `_resolve_transition` computed from the configuration `conf0` the
transition started from (a pure function, re-evaluated here; `nchangeState` is kept as exits / `_update_model` /
enters so that the frame lemmas of C02 / C03 about it stand).  Consecutive `machine.callbacks(l)` calls are one
`callbacks` over the concatenation. -/
def nfinalStage (sub : NSub) (sc : Script) (cfg : NCfg) (scope : Scope) (x : Ctx) (dest : Option SPath)
    (conf0 : Forest) (s : NSt) : NR Unit :=
  match dest with
  | none => .ok () s
  | some d =>
    match resolveTransition cfg.root scope conf0 d with
    | .ok r =>
      match nfinalCheckRoot cfg r.tree (r.enters.map (·.path)) with
      | .ok cbs => ncallbacks sub sc cfg .onFinal x cbs.flatten s
      | .err e => .err e s
      | .oof => .oof
    | _ => .ok () s        -- not reached: `nchangeState` has resolved the same transition

/-- `Transition.execute` with the nested `_change_state` (`nchangeState` then `nfinalStage`). -/
def nexecute (sub : NSub) (sc : Script) (cfg : NCfg) (scope : Scope) (x : Ctx) (tr : TRef) (t : NTrans) (s : NSt) : NR Bool :=
  (ncallbacks sub sc cfg .prepare x t.prepare (s.emitG (.cand tr))).bind fun _ s1 =>
    (nevalConds sub sc cfg x t.conds s1).bind fun ok s2 =>
      if !ok then .ok false s2 else
      (ncallbacks sub sc cfg .beforeSC x cfg.beforeSC s2).bind fun _ s3 =>
      (ncallbacks sub sc cfg .before x t.before (s3.emitG (.exec tr))).bind fun _ s4 =>
      (match t.dest with
        | some d => nchangeState sub sc cfg scope x d s4
        | none => .ok () s4).bind fun _ s5 =>
      (nfinalStage sub sc cfg scope x t.dest s4.conf s5).bind fun _ s5 =>
      (ncallbacks sub sc cfg .after x t.after s5).bind fun _ s6 =>
      (ncallbacks sub sc cfg .afterSC x cfg.afterSC s6).bind fun _ s7 =>
        .ok true s7

end TM
