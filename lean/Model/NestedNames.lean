/-
  Model/NestedNames.lean — how `HierarchicalMachine.add_states` turns names into nested states
  (transitions/extensions/nesting.py), for the two forms property C13 relates:

    _add_string_state   a separator-joined name `a_b_c` given in scope `sc`: `split(sep, 1)`; the first
                        segment is looked up in the current scope (`get_state`), created when missing
                        (`add_state(domains[0])`), then the rest is added in its scope; the last segment
                        raises ValueError when it exists.
    _add_dict_state     `{'name': a, 'children' | 'states': [ … ]}`: `self.states[name] = new_state`
                        WITHOUT an existence check (an existing state of that name is silently replaced,
                        children and all), then `add_states(children)` in the scope of the new state.
                        Only single-child chains are modelled (`{'name': a, 'children': [{'name': b, …}]}`).

  The registered states are the list of their global paths in creation order.
-/
namespace TM
namespace NestedNames

abbrev Path := List Nat

inductive Outcome
  | ok (s : List Path)
  | raises              -- ValueError: "State … cannot be added since it already exists."
  | replaces            -- the dict form overwrote a registered state (not followed further)
  deriving DecidableEq, Repr

/-- `_add_string_state` for the name whose segments are `segs`, in scope `sc` -/
def addJoined : Path → List Nat → List Path → Outcome
  | _, [], s => .ok s
  | sc, [a], s => if (sc ++ [a]) ∈ s then .raises else .ok (s ++ [sc ++ [a]])
  | sc, a :: b :: rest, s =>
    addJoined (sc ++ [a]) (b :: rest) (if (sc ++ [a]) ∈ s then s else s ++ [sc ++ [a]])

/-- `_add_dict_state` for the single-child chain `{'name': a1, 'children': [{'name': a2, 'children': […]}]}` -/
def addChainDict : Path → List Nat → List Path → Outcome
  | _, [], s => .ok s
  | sc, a :: rest, s =>
    if (sc ++ [a]) ∈ s then .replaces else addChainDict (sc ++ [a]) rest (s ++ [sc ++ [a]])

/-- nothing at or below `p` is registered -/
def Fresh (p : Path) (s : List Path) : Prop := ∀ q ∈ s, ¬ p <+: q

theorem fresh_not_mem {p : Path} {s : List Path} (h : Fresh p s) : p ∉ s :=
  fun hm => h p hm (List.prefix_refl p)

theorem fresh_step {sc : Path} {a b : Nat} {s : List Path} (h : Fresh (sc ++ [a]) s) :
    Fresh (sc ++ [a] ++ [b]) (s ++ [sc ++ [a]]) := by
  intro q hq hp
  rcases List.mem_append.mp hq with hq | hq
  · exact h q hq ((List.prefix_append _ _).trans hp)
  · simp only [List.mem_singleton] at hq
    subst hq
    have := hp.length_le
    simp at this

/-- on fresh ground the joined name creates exactly what the nested dict chain creates: the parents on
the fly, in the same order -/
theorem addJoined_eq_chainDict : ∀ (rest : List Nat) (sc : Path) (a : Nat) (s : List Path),
    Fresh (sc ++ [a]) s → addJoined sc (a :: rest) s = addChainDict sc (a :: rest) s := by
  intro rest
  induction rest with
  | nil =>
    intro sc a s h
    simp [addJoined, addChainDict, fresh_not_mem h]
  | cons b rest ih =>
    intro sc a s h
    have hn := fresh_not_mem h
    simp only [addJoined, hn, if_false]
    rw [ih (sc ++ [a]) b _ (fresh_step h)]
    conv => rhs; unfold addChainDict
    simp only [hn, if_false]

/-- a joined name whose first segment is registered is the rest of the name in that state's scope -/
theorem addJoined_existing_parent (sc : Path) (a b : Nat) (rest : List Nat) (s : List Path)
    (h : (sc ++ [a]) ∈ s) : addJoined sc (a :: b :: rest) s = addJoined (sc ++ [a]) (b :: rest) s := by
  simp [addJoined, h]

example : addJoined [] [1, 2, 3] [] = .ok [[1], [1, 2], [1, 2, 3]] := by decide
example : addChainDict [] [1, 2, 3] [] = .ok [[1], [1, 2], [1, 2, 3]] := by decide
example : addJoined [] [1, 2] [[1], [1, 2]] = .raises := by decide
example : addChainDict [] [1, 2] [[1], [1, 2]] = .replaces := by decide

end NestedNames
end TM
