/-
  Model/Basic.lean — vocabulary shared by every model module.

  Everything here is plain data over `Nat`; names of states, events, callbacks and models are
  natural numbers (the harness maps them to the strings it hands to the library).
  No imports: the driver must link as a `lean_exe`.
-/
namespace TM

/-- Callback slots (the list a callback is registered in). -/
inductive Slot
  | prepareEvent | prepare | condition | unless | beforeSC | before | onExit | onEnter
  | onFinal | after | afterSC | finalize | onException | onTimeout | onFailure
  deriving DecidableEq, Repr, Inhabited

def Slot.code : Slot → Nat
  | .prepareEvent => 0 | .prepare => 1 | .condition => 2 | .unless => 3 | .beforeSC => 4
  | .before => 5 | .onExit => 6 | .onEnter => 7 | .onFinal => 8 | .after => 9 | .afterSC => 10
  | .finalize => 11 | .onException => 12 | .onTimeout => 13 | .onFailure => 14

def Slot.ofCode : Nat → Slot
  | 0 => .prepareEvent | 1 => .prepare | 2 => .condition | 3 => .unless | 4 => .beforeSC
  | 5 => .before | 6 => .onExit | 7 => .onEnter | 8 => .onFinal | 9 => .after | 10 => .afterSC
  | 11 => .finalize | 12 => .onException | 13 => .onTimeout | _ => .onFailure

/-- Canonical exception kinds (messages are never compared). `user`/`base` are raised by scripted
callbacks (`Exception` / `BaseException` subclasses); both are caught by `except BaseException`. -/
inductive Exc
  | machineError | attributeError | valueError
  | user (n : Nat) | base (n : Nat)
  | cancelled | other
  deriving DecidableEq, Repr, Inhabited

def Exc.toNats : Exc → List Nat
  | .machineError => [0, 0] | .attributeError => [1, 0] | .valueError => [2, 0]
  | .user n => [3, n] | .base n => [4, n] | .cancelled => [5, 0] | .other => [6, 0]

def Exc.ofNats : Nat → Nat → Exc
  | 0, _ => .machineError | 1, _ => .attributeError | 2, _ => .valueError
  | 3, n => .user n | 4, n => .base n | 5, _ => .cancelled | _, _ => .other

/-- What a scripted callback invocation does at its end. -/
inductive Out
  | ret (b : Bool)
  | raise (e : Exc)
  deriving DecidableEq, Repr, Inhabited

/-- Re-entrant API calls a scripted callback makes (in order) before it returns / raises.
An exception escaping a command propagates out of the callback. -/
inductive Cmd
  | trigger (m ev : Nat)        -- `model.trigger(ev, …)` ≡ `model.<ev>(…)`
  | removeModel (m : Nat)       -- `machine.remove_model(m)`
  | addModel (m : Nat)          -- `machine.add_model(m)`
  | dispatch (ev : Nat)         -- `machine.dispatch(ev, …)`
  | may (m ev : Nat)            -- `model.may_<ev>(…)`
  deriving DecidableEq, Repr, Inhabited

structure Act where
  cmds : List Cmd := []
  out : Out := .ret true
  deriving DecidableEq, Repr, Inhabited

/-- `sc c k` is what the `k`-th invocation (0-based) of callback `c` does. -/
abbrev Script := Nat → Nat → Act

/-- Observable trace items.  All of them are visible to the harness without source hooks. -/
inductive Item
  /-- a callback starts: slot, callback id, model, tag of the API call being processed,
      the model's state when it starts -/
  | call (slot : Slot) (cb model tag st : Nat)
  /-- that callback finishes with this outcome -/
  | done (cb : Nat) (out : Out)
  /-- an API call is issued: `kind` 0 trigger, 1 may, 2 dispatch, 3 removeModel, 4 addModel -/
  | api (kind tag model ev : Nat)
  /-- the API call returns a truth value / raises -/
  | ret (tag : Nat) (b : Bool)
  | raised (tag : Nat) (e : Exc)
  deriving DecidableEq, Repr, Inhabited

def Out.toNats : Out → List Nat
  | .ret b => [0, if b then 1 else 0, 0]
  | .raise e => 1 :: e.toNats

def Item.toNats : Item → List Nat
  | .call sl cb m t st => [0, sl.code, cb, m, t, st]
  | .done cb o => 1 :: cb :: o.toNats
  | .api k t m e => [2, k, t, m, e]
  | .ret t b => [3, t, if b then 1 else 0]
  | .raised t e => 4 :: t :: e.toNats

/-- Three-way result of the fuelled interpreter: `oof` is "out of fuel", never an exception
(it is not caught by the model's `except BaseException`). -/
inductive Res (σ : Type) (α : Type)
  | ok (a : α) (s : σ)
  | err (e : Exc) (s : σ)
  | oof
  deriving Repr

namespace Res
variable {σ α β : Type}

@[inline] def bind (r : Res σ α) (f : α → σ → Res σ β) : Res σ β :=
  match r with
  | .ok a s => f a s
  | .err e s => .err e s
  | .oof => .oof

@[inline] def map (f : α → β) (r : Res σ α) : Res σ β :=
  match r with
  | .ok a s => .ok (f a) s
  | .err e s => .err e s
  | .oof => .oof

def isOof : Res σ α → Bool
  | .oof => true
  | _ => false

def state? : Res σ α → Option σ
  | .ok _ s => some s
  | .err _ s => some s
  | .oof => none
end Res

/-- association-list helpers -/
def alookup {β : Type} (k : Nat) : List (Nat × β) → Option β
  | [] => none
  | (k', v) :: r => if k' = k then some v else alookup k r

def aset {β : Type} (k : Nat) (v : β) : List (Nat × β) → List (Nat × β)
  | [] => [(k, v)]
  | (k', v') :: r => if k' = k then (k, v) :: r else (k', v') :: aset k v r

end TM
