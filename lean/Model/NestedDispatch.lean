/-
  Model/NestedDispatch.lean — dispatch of one event on a hierarchical machine, written after
  `transitions/extensions/nesting.py` (control flow kept code-shaped: the defects live here):

    NestedEvent._process                          `nprocess` / `ntry`   (prepare_event, candidates in order,
                                                   `event_data.result = trans.execute(...)`, first success ends)
    NestedEvent.trigger_nested                    `triggerNested` / `tnLoop`  (state tree of the CURRENT configuration
                                                   at the scope, `resolve_order`, the `done` set, the persistent
                                                   `event_data.result` it returns)
    HierarchicalMachine._trigger_event_nested     `ten`  (per-key loop over the snapshot taken when the event started,
                                                   recursion into the child scope, the `res` dictionary, offer to the
                                                   current scope unless `res[key]` is True)
    HierarchicalMachine._check_event_result       `checkEventResult`
    HierarchicalMachine._trigger_event            `ntriggerEvent`  (try / except BaseException / finally)
    HierarchicalMachine.trigger_event + Machine._process   `nmachineProcess` / `ndrain`
    model.trigger(name) / model.<event>()         `napiTrigger`
-/
import Model.Nested

namespace TM

/-- `self.transitions[state_name]` of an event declared in the scope with prefix `pre`: the transitions whose
(scope-relative) source is `src`, in definition order, each with its reference -/
def ncandidates (pre : SPath) (ev : Nat) (ts : List NTrans) (src : SPath) : List (TRef × NTrans) :=
  (ts.zipIdx.filter fun e => e.1.source = src).map fun e => (⟨pre, ev, e.2⟩, e.1)

/-- the loop of `NestedEvent._process` -/
def ntry (sub : NSub) (sc : Script) (cfg : NCfg) (scope : Scope) (x : Ctx) : List (TRef × NTrans) → NSt → NR Unit
  | [], s => .ok () s
  | (tr, t) :: r, s =>
    (nexecute sub sc cfg scope x tr t s).bind fun b s' =>
      -- event_data.result = trans.execute(event_data); if event_data.result: break
      let s'' := { s' with result := some b }
      if b then .ok () s'' else ntry sub sc cfg scope x r s''

/-- `NestedEvent._process` -/
def nprocess (sub : NSub) (sc : Script) (cfg : NCfg) (scope : Scope) (x : Ctx) (cands : List (TRef × NTrans)) (s : NSt) : NR Unit :=
  (ncallbacks sub sc cfg .prepareEvent x cfg.prepareEvent s).bind fun _ s1 => ntry sub sc cfg scope x cands s1

/-- all non-empty prefixes of a path (`while elems: done.add(join(elems)); elems.pop()`) -/
def prefixesOf (p : SPath) : List SPath := (List.range p.length).map fun i => p.take (i + 1)

/-- `for state_path in ordered_states:` of `trigger_nested`; returns the final `done` set.  A state which an
earlier transition of this event has exited (`event_data.exited_states`, global names) gets no turn. -/
def tnLoop (sub : NSub) (sc : Script) (cfg : NCfg) (scope : Scope) (x : Ctx) (ev : Nat) (ts : List NTrans) :
    List SPath → List SPath → NSt → NR (List SPath)
  | [], done, s => .ok done s
  | p :: ps, done, s =>
    let cands := ncandidates scope.pre ev ts p
    -- if state_name not in done and state_name in self.transitions and join(scope + state_path) not in exited:
    if p ∈ done ∨ cands.isEmpty ∨ (scope.pre ++ p) ∈ s.exited then tnLoop sub sc cfg scope x ev ts ps done s else
    match getState cfg.root scope p with
    | none => .err .valueError s
    | some _ =>
      (nprocess sub sc cfg scope x cands s).bind fun _ s' =>
        tnLoop sub sc cfg scope x ev ts ps (if s'.result = some true then done ++ prefixesOf p else done) s'

/-- `NestedEvent.trigger_nested`; returns `event_data.result` — set to True when some transition of this call
executed (`if done:`), whatever a later blocked state left there -/
def triggerNested (sub : NSub) (sc : Script) (cfg : NCfg) (scope : Scope) (x : Ctx) (ev : Nat) (ts : List NTrans)
    (s : NSt) : NR (Option Bool) :=
  -- state_tree = reduce(dict.get, machine.get_global_name(join=False), build_state_tree(model.state))
  match s.conf.reduceGet scope.pre with
  | .error e => .err e s
  | .ok none => .err .attributeError s            -- resolve_order(None): None has no `keys`
  | .ok (some sub') =>
    match resolveOrder sub' with
    | none => .oof
    | some order =>
      (tnLoop sub sc cfg scope x ev ts order [] s).bind fun done s' =>
        if done.isEmpty then .ok s'.result s' else .ok (some true) { s' with result := some true }

/-- `None if not res or all(v is None …) else any(res.values())` -/
def summarize (res : List (Nat × Bool)) : Option Bool :=
  if res.isEmpty then none else some (res.any (·.2))

/-- `HierarchicalMachine._trigger_event_nested`: the `for key, value in _state_tree.items():` loop over the
(stale) snapshot `tree`, with the `res` dictionary and the `offered` flag as accumulators; the recursive call for
`value` starts afresh and is summarised.  The event is offered to a scope at most once per call. -/
def ten (sub : NSub) (sc : Script) (cfg : NCfg) (x : Ctx) (ev : Nat) :
    Scope → Forest → List (Nat × Bool) → Bool → NSt → NR (List (Nat × Bool))
  | _, .nil, res, _, s => .ok res s
  | scope, .cons key value rest, res, offered, s =>
    (if value.isEmpty then (.ok res s : NR (List (Nat × Bool))) else
      match scope.enter key with
      | none => .err .other s                          -- `with self(key)`: KeyError
      | some inner =>
        (ten sub sc cfg x ev inner value [] false s).bind fun r s' =>
          .ok (match summarize r with
            | some b => aset key b res
            | none => res) s').bind fun res1 s1 =>
    -- if res.get(key, False) is False and trigger in self.events and not offered:
    if (alookup key res1).getD false = false ∧ offered = false then
      match alookup ev scope.events with
      | some ts =>
        (triggerNested sub sc cfg scope x ev ts s1).bind fun tmp s2 =>
          ten sub sc cfg x ev scope rest (match tmp with
            | some b => aset key b res1
            | none => res1) true s2
      | none => ten sub sc cfg x ev scope rest res1 offered s1
    else ten sub sc cfg x ev scope rest res1 offered s1

/-- `listify(state_names)` -/
def SVal.elems : SVal → List SVal
  | .cons h t => h :: t.elems
  | _ => []

def SVal.listify : SVal → List SVal
  | .name p => [.name p]
  | v => v.elems

/-- `has_trigger(trigger)` -/
def NCfg.hasTrigger (cfg : NCfg) (ev : Nat) : Bool := (alookup ev cfg.events).isSome || cfg.states.hasTrigger ev

/-- the names of a state value, flattened left to right (`flat_names`: the value of a parallel state nested in a
parallel state is a list of lists) -/
def SVal.flat : SVal → List SPath
  | .name p => [p]
  | .nil => []
  | .cons h t => h.flat ++ t.flat

/-- the loop of `_check_event_result` over the flattened names -/
def cerLoop (cfg : NCfg) (ev : Nat) : List SPath → PR Bool
  | [] => .ok false
  | p :: r =>
    match getState cfg.root cfg.root p with
    | none => .err .valueError
    | some f =>
      if !(f.d.ignore.getD cfg.ignore) then
        (if cfg.hasTrigger ev then .err .machineError else .err .attributeError)
      else cerLoop cfg ev r

/-- `HierarchicalMachine._check_event_result` -/
def checkEventResult (cfg : NCfg) (res : Option Bool) (ev : Nat) (s : NSt) : NR Bool :=
  match res with
  | some b => .ok b s
  | none =>
    match cerLoop cfg ev (buildStateList [] s.conf).flat with
    | .ok b => .ok b s
    | .err e => .err e s
    | .oof => .oof

/-- the `try:` part of `_trigger_event` -/
def triggerEventBody (sub : NSub) (sc : Script) (cfg : NCfg) (x : Ctx) (ev : Nat) (s : NSt) : NR Bool :=
  (ten sub sc cfg x ev cfg.root s.conf [] false s).bind fun r s1 =>
    (checkEventResult cfg (summarize r) ev s1).bind fun b s2 => .ok b { s2 with result := some b }

/-- `finally:` — finalize callbacks; their own exception is swallowed -/
def nfinalize (sub : NSub) (sc : Script) (cfg : NCfg) (x : Ctx) (s : NSt) : Option NSt :=
  match ncallbacks sub sc cfg .finalize x cfg.finalize (s.emitG (.fin x.tag (confMask cfg s.conf))) with
  | .ok _ s' => some s'
  | .err _ s' => some s'
  | .oof => none

/-- `HierarchicalMachine._trigger_event` (one event, processed now); returns `event_data.result` -/
def ntriggerEvent (sub : NSub) (sc : Script) (cfg : NCfg) (x : Ctx) (ev : Nat) (s : NSt) : NR Bool :=
  let r1 : NR Bool :=
    match triggerEventBody sub sc cfg x ev { s with result := none, exited := [] } with
    | .ok b s' => .ok b s'
    | .err e s' =>
      match cfg.onException with
      | [] => .err e s'
      | hs => (ncallbacks sub sc cfg .onException x hs s').bind fun _ s'' => .ok (s''.result.getD false) s''
    | .oof => .oof
  match r1 with
  | .ok b s' => match nfinalize sub sc cfg x s' with
    | some s'' => .ok b s''
    | none => .oof
  | .err e s' => match nfinalize sub sc cfg x s' with
    | some s'' => .err e s''
    | none => .oof
  | .oof => .oof

/-- drain loop of `Machine._process` (queued mode); the first argument bounds the number of processed items -/
def ndrain (sub : NSub) (sc : Script) (cfg : NCfg) : Nat → NSt → NR Unit
  | 0, _ => .oof
  | n + 1, s =>
    match s.queue with
    | [] => .ok () s
    | (ev, tag) :: _ =>
      match ntriggerEvent sub sc cfg ⟨0, tag⟩ ev s with
      | .ok _ s' => ndrain sub sc cfg n { s' with queue := s'.queue.drop 1 }
      | .err e s' => .err e { s' with queue := [] }
      | .oof => .oof

/-- `trigger_event` → `Machine._process` -/
def nmachineProcess (sub : NSub) (sc : Script) (cfg : NCfg) (qmax : Nat) (ev tag : Nat) (s : NSt) : NR Bool :=
  if !cfg.queued then
    match s.queue with
    | [] => ntriggerEvent sub sc cfg ⟨0, tag⟩ ev s
    | _ => .err .machineError s
  else
    let s1 := { s with queue := s.queue ++ [(ev, tag)] }
    if s1.queue.length > 1 then .ok true s1
    else (ndrain sub sc cfg qmax s1).bind fun _ s' => .ok true s'

/-- `model.trigger(name)` / `model.<event>()`: allocates the tag, logs the call and its outcome; the caller's
`event_data` (here: `result`, `exited`) is its own object and is unaffected by the call -/
def napiTrigger (sub : NSub) (sc : Script) (cfg : NCfg) (qmax : Nat) (ev : Nat) (s : NSt) : NR Bool :=
  let tag := s.nextTag
  let saved := s.result
  let savedX := s.exited
  let s1 := (({ s with nextTag := tag + 1 }).emit (.api 0 tag 0 ev)).emitG (.api tag ev)
  match nmachineProcess sub sc cfg qmax ev tag s1 with
  | .ok b s' => .ok b { ((s'.emit (.ret tag b)).emitG (.ret tag b)) with result := saved, exited := savedX }
  | .err e s' => .err e { ((s'.emit (.raised tag e)).emitG (.raised tag e)) with result := saved, exited := savedX }
  | .oof => .oof

/-- the fuelled interpreter of re-entrant commands (only `trigger` on the single model is modelled) -/
def nrunCmd (sc : Script) (cfg : NCfg) (qmax : Nat) : Nat → Cmd → NSt → NR Unit
  | 0, _, _ => .oof
  | f + 1, c, s =>
    match c with
    | .trigger _ ev => (napiTrigger (nrunCmd sc cfg qmax f) sc cfg qmax ev s).map fun _ => ()
    | _ => .err .other s

/-- a history of trigger calls issued by the caller one after the other; an exception that reaches the caller
is logged and the history continues -/
def nrunHistory (sc : Script) (cfg : NCfg) (qmax fuel : Nat) : List Nat → NSt → Option NSt
  | [], s => some s
  | ev :: evs, s =>
    match nrunCmd sc cfg qmax fuel (.trigger 0 ev) s with
    | .ok _ s' => nrunHistory sc cfg qmax fuel evs s'
    | .err _ s' => nrunHistory sc cfg qmax fuel evs s'
    | .oof => none

/-- `add_model`: the initial configuration descends through `initial` without firing callbacks -/
def NSt.init (cfg : NCfg) : Option NSt :=
  (resolveInitial cfg.states cfg.initial).map fun f => { conf := f }

end TM
