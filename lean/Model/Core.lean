/-
  Model/Core.lean — the flat synchronous engine, written function by function after
  `transitions/core.py`:

    Event.trigger / _trigger / _process / _is_valid_source
    Transition.execute / _eval_conditions / _change_state
    Condition.check, State.enter / exit
    Machine.callbacks / callback / _process (queue) / remove_model / add_model / dispatch
    Machine._can_trigger (may_<event>)

  Control flow is kept code-shaped on purpose: the defects live there.
  Re-entrant API calls made from callbacks go through the parameter `sub`
  (the interpreter at the next lower fuel level), so no function here is recursive in the fuel.
-/
import Model.Basic

namespace TM

structure Cond where
  cb : Nat
  target : Bool            -- `conditions` → true, `unless` → false
  deriving DecidableEq, Repr, Inhabited

structure Trans where
  source : Nat
  dest : Option Nat        -- `none` = internal transition
  prepare : List Nat := []
  conds : List Cond := []  -- `conditions` followed by `unless` (order of `Transition.__init__`)
  before : List Nat := []
  after : List Nat := []
  deriving DecidableEq, Repr, Inhabited

structure StateDef where
  name : Nat
  onEnter : List Nat := []
  onExit : List Nat := []
  ignore : Option Bool := none   -- `State.ignore_invalid_triggers` as stored on the state
  final : Bool := false
  deriving DecidableEq, Repr, Inhabited

structure Cfg where
  states : List StateDef
  /-- `machine.events`: event ↦ all its transitions in definition order; the per-source list of
      `Event.transitions[source]` is the filter on `source`. -/
  events : List (Nat × List Trans)
  prepareEvent : List Nat := []
  beforeSC : List Nat := []
  afterSC : List Nat := []
  finalize : List Nat := []
  onException : List Nat := []
  onFinal : List Nat := []
  ignore : Bool := false          -- truthiness of `machine.ignore_invalid_triggers`
  queued : Bool := false
  initial : Nat := 0
  deriving Repr, Inhabited

def Cfg.state? (cfg : Cfg) (n : Nat) : Option StateDef := cfg.states.find? (·.name = n)

def Cfg.event? (cfg : Cfg) (ev : Nat) : Option (List Trans) := alookup ev cfg.events

/-- `Event.transitions[src]` when `src in Event.transitions`, i.e. when the list is non-empty. -/
def candidates (ts : List Trans) (src : Nat) : Option (List Trans) :=
  match ts.filter (·.source = src) with
  | [] => none
  | l => some l

/-- Engine state (everything the flat machine mutates while running). -/
structure St where
  models : List Nat                 -- `machine.models`, registration order
  mstate : List (Nat × Nat)         -- model ↦ value of its state attribute (kept after removal)
  queue : List (Nat × Nat × Nat)    -- `_transition_queue`: (model, event, tag), head = in progress
  counts : List (Nat × Nat)         -- per-callback invocation counters (script position)
  nextTag : Nat := 0
  log : List Item := []
  deriving Repr, Inhabited

def St.stateOf (s : St) (m : Nat) : Nat := (alookup m s.mstate).getD 0
def St.count (s : St) (c : Nat) : Nat := (alookup c s.counts).getD 0
def St.emit (s : St) (i : Item) : St := { s with log := s.log ++ [i] }
def St.setState (s : St) (m st : Nat) : St := { s with mstate := aset m st s.mstate }

abbrev R := Res St
abbrev Sub := Cmd → St → R Unit

/-- The call context of one API call: the model it is for and its tag
(the tag is also the positional argument the harness passes, so it witnesses argument passing). -/
structure Ctx where
  model : Nat
  tag : Nat
  deriving Repr, Inhabited

/-- run the re-entrant commands of one callback invocation, in order; stop at the first that raises -/
def runCmds (sub : Sub) : List Cmd → St → R Unit
  | [], s => .ok () s
  | c :: cs, s => (sub c s).bind fun _ s' => runCmds sub cs s'

/-- `Machine.callback`: one invocation of a user callback. -/
def invoke (sub : Sub) (sc : Script) (slot : Slot) (x : Ctx) (c : Nat) (s : St) : R Bool :=
  let act := sc c (s.count c)
  let s1 := { s with counts := aset c (s.count c + 1) s.counts }
  let s2 := s1.emit (.call slot c x.model x.tag (s1.stateOf x.model))
  match runCmds sub act.cmds s2 with
  | .ok _ s3 =>
    match act.out with
    | .ret b => .ok b (s3.emit (.done c (.ret b)))
    | .raise e => .err e (s3.emit (.done c (.raise e)))
  | .err e s3 => .err e (s3.emit (.done c (.raise e)))
  | .oof => .oof

/-- `Machine.callbacks`: a fold that stops at the first raise. -/
def callbacks (sub : Sub) (sc : Script) (slot : Slot) (x : Ctx) : List Nat → St → R Unit
  | [], s => .ok () s
  | c :: cs, s => (invoke sub sc slot x c s).bind fun _ s' => callbacks sub sc slot x cs s'

/-- `Transition._eval_conditions`: stop at the first condition whose value differs from its target. -/
def evalConds (sub : Sub) (sc : Script) (x : Ctx) : List Cond → St → R Bool
  | [], s => .ok true s
  | c :: cs, s =>
    (invoke sub sc (if c.target then .condition else .unless) x c.cb s).bind fun b s' =>
      if b = c.target then evalConds sub sc x cs s' else .ok false s'

/-- `Transition._change_state` (flat). -/
def changeState (sub : Sub) (sc : Script) (cfg : Cfg) (x : Ctx) (t : Trans) (dst : Nat) (s : St) : R Unit :=
  -- machine.get_model_state(model).exit(event_data): the state the model is in NOW (a callback of this event
  -- may have moved the model since the transition was selected; repaired in ba1cc46 — it was `self.source`)
  match cfg.state? (s.stateOf x.model) with
  | none => .err .valueError s
  | some src =>
    (callbacks sub sc .onExit x src.onExit s).bind fun _ s1 =>
      -- machine.set_state(self.dest, model): get_state raises ValueError for an unregistered name
      match cfg.state? dst with
      | none => .err .valueError s1
      | some d =>
        let s2 := s1.setState x.model dst
        (callbacks sub sc .onEnter x d.onEnter s2).bind fun _ s3 =>
          if d.final then callbacks sub sc .onFinal x cfg.onFinal s3 else .ok () s3

/-- `Transition.execute`. -/
def execute (sub : Sub) (sc : Script) (cfg : Cfg) (x : Ctx) (t : Trans) (s : St) : R Bool :=
  (callbacks sub sc .prepare x t.prepare s).bind fun _ s1 =>
    (evalConds sub sc x t.conds s1).bind fun ok s2 =>
      if !ok then .ok false s2 else
      (callbacks sub sc .beforeSC x cfg.beforeSC s2).bind fun _ s3 =>
      (callbacks sub sc .before x t.before s3).bind fun _ s4 =>
      (match t.dest with
        | some d => changeState sub sc cfg x t d s4
        | none => .ok () s4).bind fun _ s5 =>
      (callbacks sub sc .after x t.after s5).bind fun _ s6 =>
      (callbacks sub sc .afterSC x cfg.afterSC s6).bind fun _ s7 =>
        .ok true s7

/-- the candidate loop of `Event._process`: first success wins -/
def tryTransitions (sub : Sub) (sc : Script) (cfg : Cfg) (x : Ctx) : List Trans → St → R Bool
  | [], s => .ok false s
  | t :: ts, s =>
    (execute sub sc cfg x t s).bind fun ok s' =>
      if ok then .ok true s' else tryTransitions sub sc cfg x ts s'

/-- `Event._process`. -/
def eventProcess (sub : Sub) (sc : Script) (cfg : Cfg) (x : Ctx) (ts : List Trans) (s : St) : R Bool :=
  (callbacks sub sc .prepareEvent x cfg.prepareEvent s).bind fun _ s1 =>
    tryTransitions sub sc cfg x ts s1

/-- effective `ignore_invalid_triggers` for a state: the state's own value wins when it is set -/
def ignoreInvalid (cfg : Cfg) (st : Nat) : Bool :=
  match cfg.state? st with
  | some d => match d.ignore with
    | some b => b
    | none => cfg.ignore
  | none => cfg.ignore

/-- `finally:` block of `_trigger`: finalize callbacks; an exception they raise is swallowed. -/
def runFinalize (sub : Sub) (sc : Script) (cfg : Cfg) (x : Ctx) (s : St) : Option St :=
  match callbacks sub sc .finalize x cfg.finalize s with
  | .ok _ s' => some s'
  | .err _ s' => some s'
  | .oof => none

/-- `except BaseException as err:` — route to `on_exception` handlers when there are any (the event
then returns its `result`, still False), re-raise otherwise -/
def exceptClause (sub : Sub) (sc : Script) (cfg : Cfg) (x : Ctx) : R Bool → R Bool
  | .ok b s => .ok b s
  | .err e s =>
    match cfg.onException with
    | [] => .err e s
    | hs => (callbacks sub sc .onException x hs s).bind fun _ s' => .ok false s'
  | .oof => .oof

/-- `finally:` — finalize callbacks run whatever happened; their own exception is swallowed -/
def finallyClause (sub : Sub) (sc : Script) (cfg : Cfg) (x : Ctx) : R Bool → R Bool
  | .ok b s => match runFinalize sub sc cfg x s with
    | some s' => .ok b s'
    | none => .oof
  | .err e s => match runFinalize sub sc cfg x s with
    | some s' => .err e s'
    | none => .oof
  | .oof => .oof

/-- the `try / except BaseException / finally` skeleton shared by `Event._trigger` and its copies -/
def guarded (sub : Sub) (sc : Script) (cfg : Cfg) (x : Ctx) (body : R Bool) : R Bool :=
  finallyClause sub sc cfg x (exceptClause sub sc cfg x body)

/-- `Event._trigger` (one event, processed now). Returns `event_data.result`. -/
def eventTrigger (sub : Sub) (sc : Script) (cfg : Cfg) (ts : List Trans) (x : Ctx) (s : St) : R Bool :=
  let src := s.stateOf x.model
  let body : R Bool :=
    match cfg.state? src with
    | none => .err .valueError s        -- get_model_state → get_state raises (outside the try)
    | some _ =>
      match candidates ts src with
      | none => if ignoreInvalid cfg src then .ok false s else .err .machineError s
      | some cs => eventProcess sub sc cfg x cs s
  match cfg.state? src with
  | none => body
  | some _ => guarded sub sc cfg x body

/-- drain loop of `Machine._process` (queued mode).  The first argument bounds the number of queue
items processed (`qmax`, independent of the nesting fuel; exceeding it is `oof`, never a verdict). -/
def drain (sub : Sub) (sc : Script) (cfg : Cfg) : Nat → St → R Unit
  | 0, _ => .oof
  | n + 1, s =>
    match s.queue with
    | [] => .ok () s
    | (m, ev, tag) :: _ =>
      let ts := (cfg.event? ev).getD []
      match eventTrigger sub sc cfg ts ⟨m, tag⟩ s with
      | .ok _ s' => drain sub sc cfg n { s' with queue := s'.queue.drop 1 }   -- popleft
      | .err e s' => .err e { s' with queue := [] }                           -- clear; raise
      | .oof => .oof

/-- `Event.trigger` → `Machine._process`. -/
def machineProcess (sub : Sub) (sc : Script) (cfg : Cfg) (fuelQ : Nat) (m ev tag : Nat) (s : St) : R Bool :=
  let ts := (cfg.event? ev).getD []
  if !cfg.queued then
    match s.queue with
    | [] => eventTrigger sub sc cfg ts ⟨m, tag⟩ s
    | _ => .err .machineError s
  else
    let s1 := { s with queue := s.queue ++ [(m, ev, tag)] }
    if s1.queue.length > 1 then .ok true s1
    else (drain sub sc cfg fuelQ s1).bind fun _ s' => .ok true s'

/-- `model.trigger(name)` / `Machine._get_trigger`: unknown event names. -/
def triggerByName (sub : Sub) (sc : Script) (cfg : Cfg) (fuelQ : Nat) (m ev tag : Nat) (s : St) : R Bool :=
  -- a model that was never added has no `trigger` / `<event>` attribute
  if (alookup m s.mstate).isNone then .err .attributeError s else
  match cfg.event? ev with
  | some _ => machineProcess sub sc cfg fuelQ m ev tag s
  | none =>
    let src := s.stateOf m
    match cfg.state? src with
    | none => .err .valueError s
    | some _ => if ignoreInvalid cfg src then .ok false s else .err .attributeError s

/-- `Machine.remove_model` (as repaired: the in-progress head is kept and not re-collected). -/
def removeModel (m : Nat) (s : St) : R Unit :=
  if m ∈ s.models then
    let s1 := { s with models := s.models.erase m }
    match s1.queue with
    | [] => .ok () s1
    | h :: rest => .ok () { s1 with queue := h :: rest.filter (fun e => e.1 != m) }
  else .err .valueError s   -- list.remove(x): x not in list

/-- `Machine.add_model` for one model: no-op when registered, else state := initial. -/
def addModel (cfg : Cfg) (m : Nat) (s : St) : R Unit :=
  if m ∈ s.models then .ok () s
  else
    match cfg.state? cfg.initial with
    | none => .err .valueError s
    | some _ => .ok () { (s.setState m cfg.initial) with models := s.models ++ [m] }

/-- `_can_trigger`: a transition whose destination is not a registered state counts as impossible
(`get_state` raises ValueError, which the loop swallows by `continue`) -/
def destOk (cfg : Cfg) (t : Trans) : Bool :=
  match t.dest with
  | some d => (cfg.state? d).isSome
  | none => true

/-- `Machine._can_trigger` (`may_<event>` / `may_trigger`). -/
def mayLoop (sub : Sub) (sc : Script) (cfg : Cfg) (x : Ctx) : List Trans → St → R Bool
  | [], s => .ok false s
  | t :: ts, s =>
    if !destOk cfg t then mayLoop sub sc cfg x ts s else
    let attempt : R Bool :=
      (callbacks sub sc .prepareEvent x cfg.prepareEvent s).bind fun _ s1 =>
      (callbacks sub sc .prepare x t.prepare s1).bind fun _ s2 =>
        evalConds sub sc x t.conds s2
    match attempt with
    | .ok true s' => .ok true s'
    | .ok false s' => mayLoop sub sc cfg x ts s'
    | .err e s' =>
      (match cfg.onException with
        | [] => (.err e s' : R Unit)
        | hs => callbacks sub sc .onException x hs s').bind fun _ s'' => mayLoop sub sc cfg x ts s''
    | .oof => .oof

def canTrigger (sub : Sub) (sc : Script) (cfg : Cfg) (m ev tag : Nat) (s : St) : R Bool :=
  if (alookup m s.mstate).isNone then .err .attributeError s else
  let src := s.stateOf m
  match cfg.state? src with
  | none => .err .valueError s
  | some _ =>
    match cfg.event? ev with
    | none => .ok false s
    | some ts =>
      match candidates ts src with
      | none => .ok false s
      | some cs => mayLoop sub sc cfg ⟨m, tag⟩ cs s

/-- One API call as issued by the harness or by a scripted callback: allocates the tag,
logs `api … / ret … / raised …` around the call. -/
def apiTrigger (sub : Sub) (sc : Script) (cfg : Cfg) (qmax : Nat) (m ev : Nat) (s : St) : R Bool :=
  let tag := s.nextTag
  let s1 := ({ s with nextTag := tag + 1 }).emit (.api 0 tag m ev)
  match triggerByName sub sc cfg qmax m ev tag s1 with
  | .ok b s' => .ok b (s'.emit (.ret tag b))
  | .err e s' => .err e (s'.emit (.raised tag e))
  | .oof => .oof

def apiMay (sub : Sub) (sc : Script) (cfg : Cfg) (m ev : Nat) (s : St) : R Bool :=
  let tag := s.nextTag
  let s1 := ({ s with nextTag := tag + 1 }).emit (.api 1 tag m ev)
  match canTrigger sub sc cfg m ev tag s1 with
  | .ok b s' => .ok b (s'.emit (.ret tag b))
  | .err e s' => .err e (s'.emit (.raised tag e))
  | .oof => .oof

/-- `Machine.dispatch` (as repaired: every registered model is triggered, then the conjunction).
`[getattr(model, trigger)(…) for model in self.models]` walks the live list by index, so membership
changes made by callbacks during the walk are observed exactly as Python's list iterator does.
The first argument bounds the number of iterations (`oof` beyond it). -/
def dispatchLoop (sub : Sub) (sc : Script) (cfg : Cfg) (qmax : Nat) (ev tag : Nat) : Nat → Nat → Bool → St → R Bool
  | 0, _, _, _ => .oof
  | n + 1, i, acc, s =>
    match s.models[i]? with
    | none => .ok acc s
    | some m =>
      -- `getattr(model, trigger)(*args, **kwargs)`: every model receives the dispatch call's arguments
      (triggerByName sub sc cfg qmax m ev tag s).bind fun b s' =>
        dispatchLoop sub sc cfg qmax ev tag n (i + 1) (acc && b) s'

def apiDispatch (sub : Sub) (sc : Script) (cfg : Cfg) (qmax : Nat) (ev : Nat) (s : St) : R Bool :=
  let tag := s.nextTag
  let s1 := ({ s with nextTag := tag + 1 }).emit (.api 2 tag 0 ev)
  match dispatchLoop sub sc cfg qmax ev tag (qmax + s1.models.length + 1) 0 true s1 with
  | .ok b s' => .ok b (s'.emit (.ret tag b))
  | .err e s' => .err e (s'.emit (.raised tag e))
  | .oof => .oof

def apiRemove (m : Nat) (s : St) : R Unit :=
  let tag := s.nextTag
  let s1 := ({ s with nextTag := tag + 1 }).emit (.api 3 tag m 0)
  match removeModel m s1 with
  | .ok _ s' => .ok () (s'.emit (.ret tag true))
  | .err e s' => .err e (s'.emit (.raised tag e))
  | .oof => .oof

def apiAdd (cfg : Cfg) (m : Nat) (s : St) : R Unit :=
  let tag := s.nextTag
  let s1 := ({ s with nextTag := tag + 1 }).emit (.api 4 tag m 0)
  match addModel cfg m s1 with
  | .ok _ s' => .ok () (s'.emit (.ret tag true))
  | .err e s' => .err e (s'.emit (.raised tag e))
  | .oof => .oof

/-- The fuelled interpreter of commands: the only recursive knot. -/
def runCmd (sc : Script) (cfg : Cfg) (qmax : Nat) : Nat → Cmd → St → R Unit
  | 0, _, _ => .oof
  | f + 1, c, s =>
    let sub := runCmd sc cfg qmax f
    match c with
    | .trigger m ev => (apiTrigger sub sc cfg qmax m ev s).map fun _ => ()
    | .may m ev => (apiMay sub sc cfg m ev s).map fun _ => ()
    | .dispatch ev => (apiDispatch sub sc cfg qmax ev s).map fun _ => ()
    | .removeModel m => apiRemove m s
    | .addModel m => apiAdd cfg m s

/-- A top-level history: commands issued one after the other by the caller; an exception that
reaches the caller is logged (`raised`) and the history continues (the harness catches it). -/
def runHistory (sc : Script) (cfg : Cfg) (qmax fuel : Nat) : List Cmd → St → Option St
  | [], s => some s
  | c :: cs, s =>
    match runCmd sc cfg qmax fuel c s with
    | .ok _ s' => runHistory sc cfg qmax fuel cs s'
    | .err _ s' => runHistory sc cfg qmax fuel cs s'
    | .oof => none

def St.init (cfg : Cfg) (models : List Nat) : St :=
  { models := models, mstate := models.map fun m => (m, cfg.initial), queue := [], counts := [] }

end TM
