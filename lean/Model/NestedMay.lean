/-
  Model/NestedMay.lean — `may_<event>()` / `may_trigger(name)` on a hierarchical machine, written after
  `transitions/extensions/nesting.py` (`HierarchicalMachine._can_trigger`, `_can_trigger_nested`):

    the candidate loop of one source                `nmayLoop`   (`for transition in self.events[trigger].transitions.get(state_name, [])`:
                                                     `get_state(dest)` ValueError → `continue`; prepare_event, transition.prepare,
                                                     conditions; `except BaseException` → on_exception handlers or re-raise;
                                                     the loop goes on after a handled exception)
    `while source_path: … source_path.pop(-1)`      `nmayWalk`   (the path itself, then its ancestors INSIDE the current scope;
                                                     `get_state(source_path)` is evaluated for every one of them, outside the `try`)
    `_can_trigger_nested(model, trigger, path)`     `nmayHere` (`if trigger in self.events:` the walk) / `ncanTriggerNested`
                                                     (`if path: with self(path.pop(0)): return <recursion>`; `return False`)
    `any(… for state_path in ordered_states)`       `nmayAny`
    `_can_trigger(model, trigger)`                  `ncanTrigger` (`build_state_tree(model.state)`, `resolve_order`, `with self():` =
                                                     the machine's own scope, whatever scope a running callback has entered)
    `model.may_<event>()` / `model.may_trigger(n)`  `napiMay`    (tag allocation, `api 1 …` / `ret` / `raised` items as in the flat `apiMay`)
    callbacks that call `trigger` AND `may_`        `nrunCmdM` / `nrunHistoryM`

  One model serves `HierarchicalMachine` and `HierarchicalAsyncMachine` (asyncio.py, after fix 9e6bb22): the async copy
  walks `for state_path in ordered_states: with self(): if await self._can_trigger_nested(...): return True` — the same
  order of scopes, sources and candidates, the same `get_state` checks outside the `try`, the same `except BaseException`
  clause.  The only difference is INSIDE one callback stage (`await self.callbacks(...)` / `await_all` gather the callbacks
  of a stage, so all conditions of a candidate are evaluated where the sync code stops at the first failing one); that is the
  stage semantics of every async class (property C07, `Model/Async.lean`), not of `may_`, and it is invisible whenever a
  stage holds at most one callback.  The correspondence stream runs the async class on exactly those inputs.

  `may_` never touches the ghost log: it enters / exits nothing and executes nothing.
-/
import Model.NestedDispatch

namespace TM

/-- `_ = self.get_state(transition.dest) if transition.dest is not None else transition.source` does not raise
ValueError — looked up from the scope the machine is in (`getState`: scope-relative walk, absolute retry) -/
def ndestOk (cfg : NCfg) (scope : Scope) (t : NTrans) : Bool :=
  match t.dest with
  | some d => (getState cfg.root scope d).isSome
  | none => true

/-- `for transition in self.events[trigger].transitions.get(state_name, []):` of `_can_trigger_nested` -/
def nmayLoop (sub : NSub) (sc : Script) (cfg : NCfg) (scope : Scope) (x : Ctx) : List NTrans → NSt → NR Bool
  | [], s => .ok false s
  | t :: ts, s =>
    -- except ValueError: continue
    if !ndestOk cfg scope t then nmayLoop sub sc cfg scope x ts s else
    let attempt : NR Bool :=
      (ncallbacks sub sc cfg .prepareEvent x cfg.prepareEvent s).bind fun _ s1 =>
      (ncallbacks sub sc cfg .prepare x t.prepare s1).bind fun _ s2 =>
        nevalConds sub sc cfg x t.conds s2
    match attempt with
    | .ok true s' => .ok true s'                       -- return True
    | .ok false s' => nmayLoop sub sc cfg scope x ts s'
    | .err e s' =>
      -- except BaseException: on_exception handlers if there are any (then the loop goes on), else re-raise
      (match cfg.onException with
        | [] => (.err e s' : NR Unit)
        | hs => ncallbacks sub sc cfg .onException x hs s').bind fun _ s'' => nmayLoop sub sc cfg scope x ts s''
    | .oof => .oof

/-- `self.events[trigger].transitions.get(state_name, [])`: the transitions of the scope's event whose
(scope-relative) source is `src`, in definition order -/
def nmayCands (ts : List NTrans) (src : SPath) : List NTrans := ts.filter fun t => t.source = src

/-- `while source_path: … source_path.pop(-1)`: the first argument is `len(source_path)`; `path.take (n+1)` is the
source looked at.  `get_state(source_path)` (for the EventData) raises ValueError for an unregistered state — outside
the `try`, so it is not routed to on_exception. -/
def nmayWalk (sub : NSub) (sc : Script) (cfg : NCfg) (scope : Scope) (x : Ctx) (ts : List NTrans) (path : SPath) :
    Nat → NSt → NR Bool
  | 0, s => .ok false s
  | n + 1, s =>
    let src := path.take (n + 1)
    match getState cfg.root scope src with
    | none => .err .valueError s
    | some _ =>
      (nmayLoop sub sc cfg scope x (nmayCands ts src) s).bind fun b s' =>
        if b then .ok true s' else nmayWalk sub sc cfg scope x ts path n s'

/-- `if trigger in self.events: source_path = copy.copy(path); while source_path: …` in the scope the machine is in -/
def nmayHere (sub : NSub) (sc : Script) (cfg : NCfg) (x : Ctx) (ev : Nat) (scope : Scope) (path : SPath) (s : NSt) : NR Bool :=
  match alookup ev scope.events with
  | some ts => nmayWalk sub sc cfg scope x ts path path.length s
  | none => .ok false s

/-- `HierarchicalMachine._can_trigger_nested(model, trigger, path)` called while the machine is in `scope`:
the walk in this scope; then `if path: with self(path.pop(0)): return self._can_trigger_nested(model, trigger, path, …)`;
`return False` -/
def ncanTriggerNested (sub : NSub) (sc : Script) (cfg : NCfg) (x : Ctx) (ev : Nat) : Scope → SPath → NSt → NR Bool
  | scope, [], s =>
    (nmayHere sub sc cfg x ev scope [] s).bind fun b s1 => if b then .ok true s1 else .ok false s1
  | scope, k :: rest, s =>
    (nmayHere sub sc cfg x ev scope (k :: rest) s).bind fun b s1 =>
      if b then .ok true s1 else
      match scope.enter k with
      | none => .err .other s1                          -- `self.states[state_name]`: KeyError
      | some inner => ncanTriggerNested sub sc cfg x ev inner rest s1

/-- `any(self._can_trigger_nested(model, trigger, state_path, …) for state_path in ordered_states)` from the
machine's own scope -/
def nmayAny (sub : NSub) (sc : Script) (cfg : NCfg) (x : Ctx) (ev : Nat) : List SPath → NSt → NR Bool
  | [], s => .ok false s
  | p :: ps, s =>
    (ncanTriggerNested sub sc cfg x ev cfg.root p s).bind fun b s' =>
      if b then .ok true s' else nmayAny sub sc cfg x ev ps s'

/-- `HierarchicalMachine._can_trigger(model, trigger)`: the state tree of the model's CURRENT state value,
`resolve_order` (children before parents, deepest level first), `with self():` -/
def ncanTrigger (sub : NSub) (sc : Script) (cfg : NCfg) (x : Ctx) (ev : Nat) (s : NSt) : NR Bool :=
  match resolveOrder s.conf with
  | none => .oof
  | some order => nmayAny sub sc cfg x ev order s

/-- `model.may_<event>(…)` / `model.may_trigger(name, …)`: allocates the tag, logs the call and its outcome -/
def napiMay (sub : NSub) (sc : Script) (cfg : NCfg) (ev : Nat) (s : NSt) : NR Bool :=
  let tag := s.nextTag
  let s1 := ({ s with nextTag := tag + 1 }).emit (.api 1 tag 0 ev)
  match ncanTrigger sub sc cfg ⟨0, tag⟩ ev s1 with
  | .ok b s' => .ok b (s'.emit (.ret tag b))
  | .err e s' => .err e (s'.emit (.raised tag e))
  | .oof => .oof

/-- the fuelled interpreter of re-entrant commands with `may_` (the single model; `trigger` and `may`) -/
def nrunCmdM (sc : Script) (cfg : NCfg) (qmax : Nat) : Nat → Cmd → NSt → NR Unit
  | 0, _, _ => .oof
  | f + 1, c, s =>
    match c with
    | .trigger _ ev => (napiTrigger (nrunCmdM sc cfg qmax f) sc cfg qmax ev s).map fun _ => ()
    | .may _ ev => (napiMay (nrunCmdM sc cfg qmax f) sc cfg ev s).map fun _ => ()
    | _ => .err .other s

/-- a history of `trigger` / `may_` calls issued by the caller one after the other; an exception that reaches
the caller is logged and the history continues -/
def nrunHistoryM (sc : Script) (cfg : NCfg) (qmax fuel : Nat) : List Cmd → NSt → Option NSt
  | [], s => some s
  | c :: cs, s =>
    match nrunCmdM sc cfg qmax fuel c s with
    | .ok _ s' => nrunHistoryM sc cfg qmax fuel cs s'
    | .err _ s' => nrunHistoryM sc cfg qmax fuel cs s'
    | .oof => none

end TM
