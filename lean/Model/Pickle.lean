/-
  Model/Pickle.lean — the identity-keyed side tables of a machine and what pickling does to them.

  After
    transitions/extensions/locking.py   LockedMachine.__getstate__/__setstate__, LockedEvent.trigger,
                                        LockedMachine._locked_method, PicklableLock.__setstate__
    transitions/extensions/diagrams.py  GraphMachine.__getstate__/__setstate__, _get_graph,
                                        TransitionGraphSupport._change_state, add_states/add_transition
    transitions/extensions/asyncio.py   AsyncMachine.__init__/add_model (`_transition_queue_dict`),
                                        _process_async
    transitions/extensions/asyncio.py   AsyncMachine.__getstate__/__setstate__ (per-model queues)
    transitions/extensions/factory.py   the MRO of the combined classes (GraphMachine precedes
                                        LockedMachine / AsyncMachine in every predefined combination
                                        and, as repaired, hands over to the next __getstate__ /
                                        __setstate__ in the MRO)

  Objects are natural numbers (their `id`).  A table whose keys are *integers* (`id(model)`) keeps its
  keys through pickling; a reference to an *object* is translated by pickle to the new object.  That
  difference is the whole content of this file: `transport ρ` renames references and leaves integer
  keys alone, where `ρ` is the identity map old object ↦ unpickled object.

  The transition relation of the engine is abstract here (`Delta`): C15 is about the bookkeeping
  around it.  No imports outside `Model.*`.
-/
import Model.Basic

namespace TM
namespace Pickle

/-- features of a predefined class that matter for pickling (factory tuple + queue mode) -/
structure Kind where
  graph : Bool := false
  locked : Bool := false
  nested : Bool := false
  /-- async machine constructed with `queued='model'`: `_transition_queue_dict` is a real dict
      keyed by `id(model)` (with `queued=True/False` it is a key-less mock / unused) -/
  qmodel : Bool := false
  /-- async class (no locked async class exists; `queued='model'` is theirs).  As repaired (845cafc) the
      async `_change_state` styles the new active state like the sync one. -/
  asyncio : Bool := false
  deriving DecidableEq, Repr, Inhabited

abbrev Tab (β : Type) := List (Nat × β)

/-- `defaultdict(list)` read without the insertion side effect -/
def lookupD (k : Nat) (t : Tab (List Nat)) : List Nat := (alookup k t).getD []

/-- One machine object with the models it manages. -/
structure PM where
  /-- `machine.models` (object references, registration order) -/
  models : List Nat := []
  /-- the state attribute of each model object (lives on the model; reachable, so pickled along) -/
  mstate : Tab Nat := []
  /-- `machine_context`: context-manager objects (locks) in order -/
  mctx : List Nat := []
  /-- `model_context_map`: `id(model)` ↦ list of context objects -/
  ctx : Tab (List Nat) := []
  /-- `model_graphs`: `id(model)` ↦ graph, abstracted to what it shows as active:
      `0` nothing, `s + 1` the state `s` -/
  graphs : Tab Nat := []
  /-- `_transition_queue_dict` (`queued='model'`): `id(model)` ↦ pending triggers (empty when idle) -/
  qdict : Tab (List Nat) := []
  /-- `machine._ident.current == get_ident()`: the calling thread is inside an event of this locked
      machine (it holds the contexts).  False at rest; true for a snapshot taken from a callback. -/
  identHeld : Bool := false
  /-- any FURTHER identity-keyed table the class keeps (registries such as a set of `id(model)`),
      abstracted to its keys.  The predefined classes keep none (`[]`; the harness discovers such tables
      generically on the live objects); the field says what pickling does to one that nobody re-keys. -/
  idtabs : List (List Nat) := []
  deriving DecidableEq, Repr, Inhabited

def PM.stateOf (M : PM) (m : Nat) : Nat := (alookup m M.mstate).getD 0

/-- the instance `__dict__` as handed to pickle by `__getstate__` -/
structure Dict where
  models : List Nat
  mstate : Tab Nat
  mctx : List Nat
  /-- `model_context_map` (integer keys); `none` = entry deleted -/
  ctx : Option (Tab (List Nat))
  /-- `_model_context_map_store`: keys are the model *objects* -/
  store : Option (Tab (List Nat))
  /-- `model_graphs`; `none` = blacklisted -/
  graphs : Option (Tab Nat)
  /-- `_transition_queue_dict` as a dict (integer keys); `none` = replaced by the pair list -/
  qdict : Option (Tab (List Nat))
  /-- `_transition_queue_dict` as the list `[(model, queue)]` of `AsyncMachine.__getstate__`:
      first components are the model *objects* -/
  qstore : Option (Tab (List Nat))
  /-- `IdentManager.current == get_ident()` as stored in the pickle -/
  identHeld : Bool
  /-- further identity-keyed tables: containers of integers, pickled by value -/
  idtabs : List (List Nat)
  deriving DecidableEq, Repr, Inhabited

/-- no `__getstate__`: pickle takes `__dict__` as it is -/
def defaultGetstate (M : PM) : Dict :=
  { models := M.models, mstate := M.mstate, mctx := M.mctx, ctx := some M.ctx, store := none,
    graphs := some M.graphs, qdict := some M.qdict, qstore := none,
    -- `IdentManager.__getstate__` (as repaired, cf88f30) returns `{'current': 0}`: the thread that holds the
    -- contexts while the snapshot is taken means nothing to the copy
    identHeld := false, idtabs := M.idtabs }

/-- `LockedMachine.__getstate__`: drop the id-keyed map, store the contexts keyed by model object -/
def lockedGetstate (M : PM) : Dict :=
  { defaultGetstate M with
    ctx := none, store := some (M.models.map fun m => (m, lookupD m M.ctx)) }

/-- `AsyncMachine.__getstate__` when `has_queue == 'model'`: the queues next to their models
    (every registered model has a queue: `add_model` creates it; see `WF`) -/
def asyncGetstate (M : PM) : Dict :=
  { defaultGetstate M with
    qdict := none, qstore := some (M.models.map fun m => (m, lookupD m M.qdict)) }

/-- the `__getstate__` found after `GraphMachine` in the MRO (or the only one): `LockedMachine`'s for
    the locked classes, `AsyncMachine`'s for the async ones (a plain copy of `__dict__` unless
    `queued='model'`), none otherwise.  No predefined class is both locked and async. -/
def baseGetstate (k : Kind) (M : PM) : Dict :=
  if k.locked then lockedGetstate M else if k.qmodel then asyncGetstate M else defaultGetstate M

/-- `GraphMachine.__getstate__` (as repaired: it asks the next class in the MRO for the state and
    removes `_pickle_blacklist = ['model_graphs']` from it) in front of the base one -/
def getstate (k : Kind) (M : PM) : Dict :=
  if k.graph then { baseGetstate k M with graphs := none } else baseGetstate k M

/-- pickle.dumps → pickle.loads: every *object reference* is replaced by the new object `ρ o`;
    integers (the keys of the id-keyed tables) are values and stay what they are -/
def transport (ρ : Nat → Nat) (d : Dict) : Dict :=
  { models := d.models.map ρ
    mstate := d.mstate.map fun e => (ρ e.1, e.2)
    mctx := d.mctx.map ρ
    ctx := d.ctx.map fun t => t.map fun e => (e.1, e.2.map ρ)
    store := d.store.map fun t => t.map fun e => (ρ e.1, e.2.map ρ)
    graphs := d.graphs
    qdict := d.qdict
    qstore := d.qstore.map fun t => t.map fun e => (ρ e.1, e.2)
    identHeld := d.identHeld
    idtabs := d.idtabs }

/-- no `__setstate__`: `__dict__.update(state)` -/
def defaultSetstate (d : Dict) : PM :=
  { models := d.models, mstate := d.mstate, mctx := d.mctx, ctx := d.ctx.getD [],
    graphs := d.graphs.getD [], qdict := d.qdict.getD [], identHeld := d.identHeld, idtabs := d.idtabs }

/-- `LockedMachine.__setstate__`: a new map, one entry per model under its *new* id, taken from the
    store (which `__getstate__` filled for exactly these models). -/
def lockedSetstate (d : Dict) : PM :=
  { defaultSetstate d with
    ctx := d.models.map fun m => (m, (alookup m (d.store.getD [])).getD []) }

/-- `AsyncMachine.__setstate__` when `has_queue == 'model'`:
    `{id(mod): queue for mod, queue in self._transition_queue_dict}` -/
def asyncSetstate (d : Dict) : PM :=
  { defaultSetstate d with qdict := d.qstore.getD [] }

def baseSetstate (k : Kind) (d : Dict) : PM :=
  if k.locked then lockedSetstate d else if k.qmodel then asyncSetstate d else defaultSetstate d

/-- `GraphMachine.__setstate__` (as repaired: the next `__setstate__` in the MRO first), then
    `model_graphs = {}` and `_get_graph(model)` per model, which finds no graph and builds a fresh
    one styled with the model's current state -/
def setstate (k : Kind) (d : Dict) : PM :=
  let M := baseSetstate k d
  if k.graph then { M with graphs := M.models.map fun m => (m, M.stateOf m + 1) } else M

/-- `pickle.loads(pickle.dumps(machine))` with identity map `ρ` -/
def roundtrip (k : Kind) (ρ : Nat → Nat) (M : PM) : PM := setstate k (transport ρ (getstate k M))

/-- the same machine with every object renamed: what an exact copy looks like -/
def ren (ρ : Nat → Nat) (M : PM) : PM :=
  { models := M.models.map ρ
    mstate := M.mstate.map fun e => (ρ e.1, e.2)
    mctx := M.mctx.map ρ
    ctx := M.ctx.map fun e => (ρ e.1, e.2.map ρ)
    graphs := M.graphs.map fun e => (ρ e.1, e.2)
    qdict := M.qdict.map fun e => (ρ e.1, e.2)
    identHeld := M.identHeld
    idtabs := M.idtabs.map fun t => t.map ρ }

/-- the same machine at rest: nobody is inside an event -/
def quiesce (M : PM) : PM := { M with identHeld := false }

/-! ### the part of an event that touches the tables -/

/-- configuration epoch, source state, event ↦ destination (none: no transition / blocked by
    conditions).  Arbitrary: the engine proper is C01–C03's business. -/
abbrev Delta := Nat → Nat → Nat → Option Nat

inductive Ev
  /-- `model.<ev>()` on model `m` under configuration epoch `ep` -/
  | trigger (ep m ev : Nat)
  /-- `add_states` / `add_transition` on the machine: graph machines rebuild every model's graph -/
  | regen
  /-- `add_model(m)` for a model that is registered already (`if mod not in self.models:` — membership in the
      list of model objects, no identity table involved): no effect -/
  | readd (m : Nat)
  deriving DecidableEq, Repr, Inhabited

inductive Obs
  /-- contexts entered (in order), whether a transition ran, the model's state afterwards -/
  | done (entered : List Nat) (moved : Bool) (st : Nat)
  /-- the call waits for context `l`, which somebody else holds -/
  | blocked (l : Nat)
  | keyError (k : Nat)
  | regen
  /-- number of registered models after the call -/
  | members (n : Nat)
  deriving DecidableEq, Repr, Inhabited

/-- `LockedEvent.trigger` enters `model_context_map[id(model)]`; with `NestedEvent` (the locked
    hierarchical classes) the event goes through the public `trigger_event`, which
    `LockedMachine.__getattribute__` wraps in `_locked_method`; `LockedHierarchicalMachine._locked_method`
    (as repaired, 2c648fd + 4ac33c2: also behind re-wrapped partials after unpickling) holds
    `model_context_map.get(id(model)) or machine_context` for it -/
def contexts (k : Kind) (M : PM) (m : Nat) : List Nat :=
  if k.locked then
    -- `if self.machine._ident.current != get_ident(): with nested(...)` — a re-entrant call enters nothing
    (if M.identHeld then [] else
      (if k.nested then (if (lookupD m M.ctx).isEmpty then M.mctx else lookupD m M.ctx)
       else lookupD m M.ctx))
  else []

/-- reading a missing key of the `defaultdict` inserts it -/
def touch (k : Kind) (M : PM) (m : Nat) : PM :=
  if k.locked && !k.nested && !M.identHeld && (alookup m M.ctx).isNone then { M with ctx := M.ctx ++ [(m, [])] }
  else M

/-- what happens once the contexts are entered -/
def fire (k : Kind) (δ : Delta) (M : PM) (cs : List Nat) (ep m ev : Nat) : PM × Obs :=
  -- `_process_async`: `self._transition_queue_dict[id(model)].append(trigger)`
  if k.qmodel && (alookup m M.qdict).isNone then (M, .keyError m) else
  let src := M.stateOf m
  match δ ep src ev with
  | none => (M, .done cs false src)
  | some dst =>
    if k.graph then
      -- `TransitionGraphSupport._change_state`: `model_graphs[id(event_data.model)]` before the change
      if (alookup m M.graphs).isNone then (M, .keyError m)
      else ({ M with mstate := aset m dst M.mstate,
                     graphs := aset m (dst + 1) M.graphs }, .done cs true dst)
    else ({ M with mstate := aset m dst M.mstate }, .done cs true dst)

def trigger (k : Kind) (δ : Delta) (held : List Nat) (M : PM) (ep m ev : Nat) : PM × Obs :=
  let cs := contexts k M m
  let M1 := touch k M m
  match cs.find? (fun l => decide (l ∈ held)) with
  | some l => (M1, .blocked l)
  | none => fire k δ M1 cs ep m ev

/-- `for model in self.models: model.get_graph(force_new=True)` -/
def regenGraphs (M : PM) : List Nat → Tab Nat → Tab Nat
  | [], g => g
  | m :: ms, g => regenGraphs M ms (aset m (M.stateOf m + 1) g)

def step (k : Kind) (δ : Delta) (held : List Nat) (M : PM) : Ev → PM × Obs
  | .trigger ep m ev => trigger k δ held M ep m ev
  | .regen => (if k.graph then { M with graphs := regenGraphs M M.models M.graphs } else M, .regen)
  | .readd _ => (M, .members M.models.length)

def run (k : Kind) (δ : Delta) (held : List Nat) : PM → List Ev → PM × List Obs
  | M, [] => (M, [])
  | M, e :: es =>
    let r := step k δ held M e
    let r2 := run k δ held r.1 es
    (r2.1, r.2 :: r2.2)

def renEv (ρ : Nat → Nat) : Ev → Ev
  | .trigger ep m ev => .trigger ep (ρ m) ev
  | .regen => .regen
  | .readd m => .readd (ρ m)

def renObs (ρ : Nat → Nat) : Obs → Obs
  | .done cs b st => .done (cs.map ρ) b st
  | .blocked l => .blocked (ρ l)
  | .keyError k => .keyError (ρ k)
  | .regen => .regen
  | .members n => .members n

/-- the model the event is for is registered with the machine -/
def Ev.onModels (models : List Nat) : Ev → Prop
  | .trigger _ m _ => m ∈ models
  | .regen => True
  | .readd m => m ∈ models

/-- every context object a machine can enter -/
def lockIds (M : PM) : List Nat := M.mctx ++ M.ctx.flatMap (·.2)

/-- the feature combinations `MachineFactory` offers: no class is both locked and async, and
    `queued='model'` exists for the async classes only -/
def Kind.predefined (k : Kind) : Bool := !(k.locked && k.asyncio) && (!k.qmodel || k.asyncio)

end Pickle
end TM
