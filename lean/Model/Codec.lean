/-
  Model/Codec.lean — the line protocol: everything is a flat list of naturals with length-prefixed
  lists.  Decoders are total (`Option`); the driver answers `bad-input` when one fails.
-/
import Model.Core

namespace TM
namespace Codec

abbrev P := StateT (List Nat) Option

def nat : P Nat := fun
  | [] => none
  | n :: r => some (n, r)

def bool : P Bool := do return (← nat) != 0

def many {α} (p : P α) : Nat → P (List α)
  | 0 => pure []
  | n + 1 => do let a ← p; let r ← many p n; pure (a :: r)

def list {α} (p : P α) : P (List α) := do many p (← nat)

def nats : P (List Nat) := list nat

def opt {α} (p : P α) : P (Option α) := do
  if (← nat) = 0 then pure none else some <$> p

def exc : P Exc := do let k ← nat; let n ← nat; pure (Exc.ofNats k n)

def out : P Out := do
  let k ← nat
  if k = 0 then do let b ← bool; let _ ← nat; pure (.ret b)
  else .raise <$> exc

def cmd : P Cmd := do
  let k ← nat; let a ← nat; let b ← nat
  pure <| match k with
    | 0 => .trigger a b
    | 1 => .may a b
    | 2 => .dispatch b
    | 3 => .removeModel a
    | _ => .addModel a

def cond : P Cond := do let c ← nat; let t ← bool; pure ⟨c, t⟩

def trans : P Trans := do
  let source ← nat
  let dest ← opt nat
  let prepare ← nats
  let conds ← list cond
  let before ← nats
  let after ← nats
  pure { source, dest, prepare, conds, before, after }

def stateDef : P StateDef := do
  let name ← nat
  let onEnter ← nats
  let onExit ← nats
  let ig ← nat
  let final ← bool
  pure { name, onEnter, onExit, ignore := (match ig with | 0 => none | 1 => some false | _ => some true), final }

def event : P (Nat × List Trans) := do let e ← nat; let ts ← list trans; pure (e, ts)

def cfg : P Cfg := do
  let states ← list stateDef
  let events ← list event
  let prepareEvent ← nats
  let beforeSC ← nats
  let afterSC ← nats
  let finalize ← nats
  let onException ← nats
  let onFinal ← nats
  let ignore ← bool
  let queued ← bool
  let initial ← nat
  pure { states, events, prepareEvent, beforeSC, afterSC, finalize, onException, onFinal, ignore, queued, initial }

/-- finite-support script: entries `(cb, k, act)`; every other invocation does nothing and returns True -/
def scriptEntry : P (Nat × Nat × Act) := do
  let c ← nat; let k ← nat
  let cmds ← list cmd
  let o ← out
  pure (c, k, { cmds, out := o })

def mkScript (es : List (Nat × Nat × Act)) : Script := fun c k =>
  match es.find? (fun e => e.1 = c && e.2.1 = k) with
  | some e => e.2.2
  | none => {}

def scriptCmds (es : List (Nat × Nat × Act)) : Nat := es.foldl (fun n e => n + e.2.2.cmds.length) 0

/-- trace item decoder (the harness sends implementation traces to the verified monitors) -/
def item : P Item := do
  let k ← nat
  match k with
  | 0 => do
    let sl ← nat; let cb ← nat; let m ← nat; let t ← nat; let st ← nat
    pure (.call (Slot.ofCode sl) cb m t st)
  | 1 => do let cb ← nat; let o ← out; pure (.done cb o)
  | 2 => do let k ← nat; let t ← nat; let m ← nat; let e ← nat; pure (.api k t m e)
  | 3 => do let t ← nat; let b ← bool; pure (.ret t b)
  | _ => do let t ← nat; let e ← exc; pure (.raised t e)

def run {α} (p : P α) (l : List Nat) : Option α :=
  match p l with
  | some (a, []) => some a
  | _ => none

def encItems (l : List Item) : List Nat :=
  l.length :: l.flatMap Item.toNats

end Codec
end TM
