/-
  Model/HsmFlat.lean — what the hierarchical classes do on FLAT configurations (property C09), as far
  as it differs from `Model/Core.lean`: `NestedTransition._change_state` / `_resolve_transition`
  (transitions/extensions/nesting.py) on a state tree of depth 1.

    _resolve_transition:
        dst_name_path = self.dest.split(sep); machine.get_state(dst_name_path)     ValueError for an
                                                     unregistered destination BEFORE anything is exited
        state_tree = build_state_tree(model.state)   the model's configuration AT THIS MOMENT
        exit_partials  = scoped_exit of the states of that tree     → the state the model is in
        enter_partials = scoped_enter of the destination
    _change_state:  exit_partials; _update_model; enter_partials; _final_check → on_final

  Since /repo ba1cc46 `Transition._change_state` exits the state the model is in as well (it used to
  exit `transition.source`: former finding F-C09-hsm-retrigger-exit), so the only difference left to
  `TM.changeState` is the moment an unregistered destination is noticed (`Props/C09.lean: C09_hsm_flat`).

  This is NOT the nested engine (`Model/Nested*.lean`, property C02): it is the depth-1 collapse of
  that one function, tied to HierarchicalMachine by trace equality in harness/props/c09.py (`hflat`
  request).  Every engine function that does not reach `_change_state` is shared with
  `Model/Core.lean` (same state type, same `sub` protocol); the functions below are the call chain
  `_change_state ← execute ← … ← runHistory`, copied line by line.
-/
import Model.Core

namespace TM
namespace HsmFlat

def changeState (sub : Sub) (sc : Script) (cfg : Cfg) (x : Ctx) (dst : Nat) (s : St) : R Unit :=
  match cfg.state? dst with
  | none => .err .valueError s
  | some d =>
    match cfg.state? (s.stateOf x.model) with
    | none => .err .valueError s
    | some cur =>
      (callbacks sub sc .onExit x cur.onExit s).bind fun _ s1 =>
        let s2 := s1.setState x.model dst
        (callbacks sub sc .onEnter x d.onEnter s2).bind fun _ s3 =>
          if d.final then callbacks sub sc .onFinal x cfg.onFinal s3 else .ok () s3

def execute (sub : Sub) (sc : Script) (cfg : Cfg) (x : Ctx) (t : Trans) (s : St) : R Bool :=
  (callbacks sub sc .prepare x t.prepare s).bind fun _ s1 =>
    (evalConds sub sc x t.conds s1).bind fun ok s2 =>
      if !ok then .ok false s2 else
      (callbacks sub sc .beforeSC x cfg.beforeSC s2).bind fun _ s3 =>
      (callbacks sub sc .before x t.before s3).bind fun _ s4 =>
      (match t.dest with
        | some d => changeState sub sc cfg x d s4
        | none => .ok () s4).bind fun _ s5 =>
      (callbacks sub sc .after x t.after s5).bind fun _ s6 =>
      (callbacks sub sc .afterSC x cfg.afterSC s6).bind fun _ s7 =>
        .ok true s7

def tryTransitions (sub : Sub) (sc : Script) (cfg : Cfg) (x : Ctx) : List Trans → St → R Bool
  | [], s => .ok false s
  | t :: ts, s =>
    (execute sub sc cfg x t s).bind fun ok s' =>
      if ok then .ok true s' else tryTransitions sub sc cfg x ts s'

def eventProcess (sub : Sub) (sc : Script) (cfg : Cfg) (x : Ctx) (ts : List Trans) (s : St) : R Bool :=
  (callbacks sub sc .prepareEvent x cfg.prepareEvent s).bind fun _ s1 =>
    tryTransitions sub sc cfg x ts s1

def eventTrigger (sub : Sub) (sc : Script) (cfg : Cfg) (ts : List Trans) (x : Ctx) (s : St) : R Bool :=
  let src := s.stateOf x.model
  let body : R Bool :=
    match cfg.state? src with
    | none => .err .valueError s
    | some _ =>
      match candidates ts src with
      | none => if ignoreInvalid cfg src then .ok false s else .err .machineError s
      | some cs => eventProcess sub sc cfg x cs s
  match cfg.state? src with
  | none => body
  | some _ => guarded sub sc cfg x body

def drain (sub : Sub) (sc : Script) (cfg : Cfg) : Nat → St → R Unit
  | 0, _ => .oof
  | n + 1, s =>
    match s.queue with
    | [] => .ok () s
    | (m, ev, tag) :: _ =>
      let ts := (cfg.event? ev).getD []
      match eventTrigger sub sc cfg ts ⟨m, tag⟩ s with
      | .ok _ s' => drain sub sc cfg n { s' with queue := s'.queue.drop 1 }
      | .err e s' => .err e { s' with queue := [] }
      | .oof => .oof

def machineProcess (sub : Sub) (sc : Script) (cfg : Cfg) (fuelQ : Nat) (m ev tag : Nat) (s : St) : R Bool :=
  let ts := (cfg.event? ev).getD []
  if !cfg.queued then
    match s.queue with
    | [] => eventTrigger sub sc cfg ts ⟨m, tag⟩ s
    | _ => .err .machineError s
  else
    let s1 := { s with queue := s.queue ++ [(m, ev, tag)] }
    if s1.queue.length > 1 then .ok true s1
    else (drain sub sc cfg fuelQ s1).bind fun _ s' => .ok true s'

def triggerByName (sub : Sub) (sc : Script) (cfg : Cfg) (fuelQ : Nat) (m ev tag : Nat) (s : St) : R Bool :=
  if (alookup m s.mstate).isNone then .err .attributeError s else
  match cfg.event? ev with
  | some _ => machineProcess sub sc cfg fuelQ m ev tag s
  | none =>
    let src := s.stateOf m
    match cfg.state? src with
    | none => .err .valueError s
    | some _ => if ignoreInvalid cfg src then .ok false s else .err .attributeError s

def apiTrigger (sub : Sub) (sc : Script) (cfg : Cfg) (qmax : Nat) (m ev : Nat) (s : St) : R Bool :=
  let tag := s.nextTag
  let s1 := ({ s with nextTag := tag + 1 }).emit (.api 0 tag m ev)
  match triggerByName sub sc cfg qmax m ev tag s1 with
  | .ok b s' => .ok b (s'.emit (.ret tag b))
  | .err e s' => .err e (s'.emit (.raised tag e))
  | .oof => .oof

def dispatchLoop (sub : Sub) (sc : Script) (cfg : Cfg) (qmax : Nat) (ev tag : Nat) : Nat → Nat → Bool → St → R Bool
  | 0, _, _, _ => .oof
  | n + 1, i, acc, s =>
    match s.models[i]? with
    | none => .ok acc s
    | some m =>
      (triggerByName sub sc cfg qmax m ev tag s).bind fun b s' =>
        dispatchLoop sub sc cfg qmax ev tag n (i + 1) (acc && b) s'

def apiDispatch (sub : Sub) (sc : Script) (cfg : Cfg) (qmax : Nat) (ev : Nat) (s : St) : R Bool :=
  let tag := s.nextTag
  let s1 := ({ s with nextTag := tag + 1 }).emit (.api 2 tag 0 ev)
  match dispatchLoop sub sc cfg qmax ev tag (qmax + s1.models.length + 1) 0 true s1 with
  | .ok b s' => .ok b (s'.emit (.ret tag b))
  | .err e s' => .err e (s'.emit (.raised tag e))
  | .oof => .oof

def runCmd (sc : Script) (cfg : Cfg) (qmax : Nat) : Nat → Cmd → St → R Unit
  | 0, _, _ => .oof
  | f + 1, c, s =>
    let sub := runCmd sc cfg qmax f
    match c with
    | .trigger m ev => (apiTrigger sub sc cfg qmax m ev s).map fun _ => ()
    | .may m ev => (apiMay sub sc cfg m ev s).map fun _ => ()
    | .dispatch ev => (apiDispatch sub sc cfg qmax ev s).map fun _ => ()
    | .removeModel m => apiRemove m s
    | .addModel m => apiAdd cfg m s

def runHistory (sc : Script) (cfg : Cfg) (qmax fuel : Nat) : List Cmd → St → Option St
  | [], s => some s
  | c :: cs, s =>
    match runCmd sc cfg qmax fuel c s with
    | .ok _ s' => runHistory sc cfg qmax fuel cs s'
    | .err _ s' => runHistory sc cfg qmax fuel cs s'
    | .oof => none

end HsmFlat
end TM
