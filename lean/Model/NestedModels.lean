/-
  Model/NestedModels.lean — several models on one (unqueued) hierarchical machine.

  Every model has its own state attribute, and every trigger call creates its own `event_data` (result, exited_states);
  the machine-level data an event reads (state definitions, events tables) are not changed by events.  What ties an event
  to ITS model is `HierarchicalMachine.set_state(state, model)` — `models = self.models if model is None else
  listify(model)` — which `NestedTransition._update_model` calls with `event_data.model`: only that model's attribute is
  written.  The layer below keeps one engine state `NSt` per model and runs the single-model engine of
  `Model/NestedDispatch.lean` on the addressed one (this is also how the harness compares a multi-model run with the
  model: model by model, script counters per model).  The shared `_transition_queue` of a queued machine is C05's / C10's
  business and is not modelled here.
-/
import Model.NestedDispatch

namespace TM

/-- the models of a machine with their engine states -/
abbrev MSt := List (Nat × NSt)

/-- `HierarchicalMachine.set_state(state, model)`: every model when `model is None`, else exactly the one given -/
def setStateM (model : Option Nat) (conf : Forest) (ms : MSt) : MSt :=
  ms.map fun e =>
    match model with
    | none => (e.1, { e.2 with conf := conf })
    | some m => if e.1 = m then (e.1, { e.2 with conf := conf }) else e

/-- `model.trigger(ev)` for model `m`: the event is processed on that model's engine state -/
def mapiTrigger (sc : Script) (cfg : NCfg) (qmax fuel : Nat) (m ev : Nat) (ms : MSt) : Option MSt :=
  match alookup m ms with
  | none => none
  | some s =>
    match nrunCmd sc cfg qmax fuel (.trigger 0 ev) s with
    | .ok _ s' => some (aset m s' ms)
    | .err _ s' => some (aset m s' ms)
    | .oof => none

/-- a history of calls `(model, event)` -/
def mrunHistory (sc : Script) (cfg : NCfg) (qmax fuel : Nat) : List (Nat × Nat) → MSt → Option MSt
  | [], ms => some ms
  | (m, ev) :: h, ms =>
    match mapiTrigger sc cfg qmax fuel m ev ms with
    | some ms' => mrunHistory sc cfg qmax fuel h ms'
    | none => none

/-! ### membership operations between events -/

/-- `HierarchicalMachine.add_model(models, initial)` between events: `Machine.add_model` skips a model that is registered,
and the nested override writes the resolved initial configuration only into the models it has just registered
(`new_models`: named, not in `known`, first mention).  `fresh` is the engine state a registration starts from
(`NSt.init` of the machine, or of the machine with the `initial=` given). -/
def addModels (fresh : NSt) : List Nat → MSt → MSt
  | [], ms => ms
  | m :: r, ms =>
    match alookup m ms with
    | some _ => addModels fresh r ms
    | none => addModels fresh r (ms ++ [(m, fresh)])

/-- `Machine.remove_model(models)`: the models leave the list, nothing is written to anybody -/
def removeModels (ids : List Nat) (ms : MSt) : MSt := ms.filter fun e => !ids.contains e.1

end TM
