/-
  Model/AsyncSched.lean — protocol-level model of concurrently awaited triggers on an
  `AsyncMachine` / `HierarchicalAsyncMachine` (property C08).

  Mirrors `transitions/extensions/asyncio.py`:
    `AsyncMachine.process_context`  — `begin` (register the root task in `async_tasks[model]`),
                                       `ret` / `raised` (CancelledError ↦ False for the root, unregister)
    `AsyncMachine._process_async`   — per-key queue (`queued=True`: one key, `'model'`: one per model),
                                       deferred calls return True, drain loop, clear on exception
    `AsyncEvent._trigger`           — `evstart`, `except BaseException` (on_exception or re-raise),
                                       finalize stage, `evend`
    `AsyncTransition.execute`       — stages before the decision (`pre`), `cancel_running_transitions`
                                       (`decide`), stages before the state write (`mid`), the write (`set`),
                                       stages after it (`post`)
    `cancel_running_transitions`    — every registered task of the model except the own context, protected
                                       and done tasks; the cancellation reaches every suspended trigger call
                                       of the cancelled task (`gather` propagates it to the stage's children
                                       and re-raises it when they have finished)

  Callbacks are opaque: a trace is a list of `Label`s, one per observable protocol step.  The scheduler is
  the trace itself: any call that is innermost in its chain may take the next step, in any order
  (a superset of asyncio's FIFO ready queue).  `step` is deterministic given the label, so `run` is at
  the same time the model and the acceptor that judges observed traces (inclusion).

  Names (trigger calls = events, models, states, tasks) are naturals; a root task is named by the tag of
  the top-level trigger call it runs.  No imports.
-/
namespace TM
namespace AS

inductive Phase
  | none | idle | pre | mid | post | exc | fin | over
  deriving DecidableEq, Repr, Inhabited

def Phase.rank : Phase → Nat
  | .none => 0 | .idle => 1 | .pre => 2 | .mid => 3 | .post => 4 | .exc => 5 | .fin => 6 | .over => 7

/-- what `_trigger` does once its finalize stage is over -/
inductive Flag
  | ok | failing | cancelling
  deriving DecidableEq, Repr, Inhabited

inductive CallSt
  | none | active | returned
  deriving DecidableEq, Repr, Inhabited

inductive Out
  | ret (b : Bool) | exc | cancelled
  deriving DecidableEq, Repr, Inhabited

def Out.code : Out → Nat
  | .ret _ => 0 | .exc => 1 | .cancelled => 2

inductive Label
  /-- trigger call `t` on model `m` starts in the chain of root task `r` (`r = t`: a new task) -/
  | begin (t r m : Nat)
  /-- `_trigger` of event `t` is entered / left (`o`: 0 returned, 1 raised, 2 raised CancelledError) -/
  | evstart (t m : Nat)
  | evend (t m o : Nat)
  /-- a callback of event `t` starts; `k`: 0 before the decision (prepare_event, prepare, conditions),
      1 before the state write (before_state_change, before, on_exit), 2 after it (on_enter, after,
      after_state_change), 3 on_exception, 4 finalize_event -/
  | cb (t k : Nat)
  /-- `cancel_running_transitions` runs for event `t`; `cs` = the root tasks it cancels, in order -/
  | decide (t : Nat) (cs : List Nat)
  | set (t v : Nat)
  /-- a callback of event `t` raised (not a cancellation) -/
  | fail (t : Nat)
  | ret (t : Nat) (b : Bool)
  | raised (t : Nat) (cancelled : Bool)
  | remove (m : Nat)
  deriving DecidableEq, Repr, Inhabited

structure Cfg where
  queued : Nat              -- 0 False, 1 True, 2 'model'
  onExc : Bool              -- machine.on_exception is non-empty
  prot : List Nat           -- root tasks in `protected_tasks`
  states : List Nat         -- registered states
  initial : Nat
  deriving Repr, DecidableEq

def Cfg.key (c : Cfg) (m : Nat) : Nat := if c.queued = 1 then 0 else m

def upd {α : Type} (f : Nat → α) (k : Nat) (v : α) : Nat → α := fun x => if x = k then v else f x

structure St where
  phase : Nat → Phase          -- event lifecycle
  flag : Nat → Flag
  res : Nat → Bool             -- event_data.result
  emodel : Nat → Nat           -- model of call / event t
  call : Nat → CallSt          -- trigger call lifecycle
  chain : Nat → Nat            -- root task of the chain call t was made in (`current_context`)
  host : Nat → Nat             -- the call whose `_process_async` processes event t
  cur : Nat → Option Nat       -- the event a call is processing right now
  deferred : Nat → Bool        -- call appended to a busy queue: returns True at once
  outc : Nat → Option Out      -- how `_process_async` of the call ends
  stack : Nat → List Nat       -- per root task: active calls, innermost first
  reg : List (Nat × Nat)       -- `async_tasks`: (model, root task), registration order
  queue : Nat → List Nat       -- per key: pending events, head in progress
  drainer : Nat → Option Nat   -- per key: the call inside the drain loop
  mstate : Nat → Nat

def St.init (c : Cfg) : St :=
  { phase := fun _ => .none, flag := fun _ => .ok, res := fun _ => false, emodel := fun _ => 0,
    call := fun _ => .none, chain := fun _ => 0, host := fun _ => 0, cur := fun _ => none,
    deferred := fun _ => false, outc := fun _ => none, stack := fun _ => [], reg := [],
    queue := fun _ => [], drainer := fun _ => none, mstate := fun _ => c.initial }

/-- call `h` is the innermost active call of its chain: the only one that can make progress -/
def innermost (s : St) (h : Nat) : Prop := (s.stack (s.chain h)).head? = some h

instance (s : St) (h : Nat) : Decidable (innermost s h) := by unfold innermost; infer_instance

/-- event `t` is being processed and its processing call is innermost -/
def running (s : St) (t : Nat) : Prop := innermost s (s.host t) ∧ s.cur (s.host t) = some t

instance (s : St) (t : Nat) : Decidable (running s t) := by unfold running; infer_instance

/-- CancelledError arrives in event `e` (at its current stage): `except BaseException` in `_trigger` -/
def deliver (c : Cfg) (s : St) (e : Nat) : St :=
  match s.phase e with
  | .pre | .mid | .post =>
    if c.onExc then { s with phase := upd s.phase e .exc }
    else { s with phase := upd s.phase e .fin, flag := upd s.flag e .cancelling }
  | .exc => { s with phase := upd s.phase e .fin, flag := upd s.flag e .cancelling }
  | _ => s          -- in the finalize stage the CancelledError is swallowed

def deliverCall (c : Cfg) (s : St) (h : Nat) : St :=
  match s.cur h with
  | some e => deliver c s e
  | none => s

/-- `task.cancel()` on root task `r`: every suspended trigger call of its chain is reached -/
def cancelChain (c : Cfg) (s : St) (r : Nat) : St := (s.stack r).foldl (deliverCall c) s

def cancelAll (c : Cfg) (s : St) (rs : List Nat) : St := rs.foldl (cancelChain c) s

/-- the loop of `cancel_running_transitions(model)` executed by event `t` -/
def targets (c : Cfg) (s : St) (t : Nat) : List Nat :=
  (s.reg.filter fun p => p.1 = s.emodel t && p.2 != s.chain (s.host t) && !c.prot.contains p.2
    && s.call p.2 == .active).map (·.2)

def advFin (s : St) (t : Nat) : St :=
  -- (from `mid`: an internal transition — no state write, no callback after the decision — has completed)
  { s with phase := upd s.phase t .fin, res := upd s.res t (s.res t || s.phase t == .post || s.phase t == .mid) }

def outOf (s : St) (t : Nat) : Out :=
  match s.flag t with
  | .ok => .ret (s.res t)
  | .failing => .exc
  | .cancelling => .cancelled

def endCall (s : St) (t : Nat) : St :=
  { s with call := upd s.call t .returned,
           stack := upd s.stack (s.chain t) (s.stack (s.chain t)).tail,
           reg := if s.chain t = t then s.reg.erase (s.emodel t, t) else s.reg }

def stepBegin (c : Cfg) (s : St) (t r m : Nat) : Option St :=
  if s.call t = .none ∧ s.phase t = .none ∧
      (if r = t then s.stack t = [] else (s.stack r ≠ [] ∧ s.call r = .active ∧ s.chain r = r)) then
    let s1 : St := { s with call := upd s.call t .active, chain := upd s.chain t r,
                            emodel := upd s.emodel t m, stack := upd s.stack r (t :: s.stack r),
                            reg := if r = t then s.reg ++ [(m, t)] else s.reg,
                            phase := upd s.phase t .idle }
    if c.queued = 0 then some s1
    else if s.queue (c.key m) = [] then
      some { s1 with queue := upd s.queue (c.key m) [t], drainer := upd s.drainer (c.key m) (some t) }
    else
      some { s1 with queue := upd s.queue (c.key m) (s.queue (c.key m) ++ [t]),
                     deferred := upd s.deferred t true }
  else none

def start (s : St) (t h : Nat) : St :=
  { s with phase := upd s.phase t .pre, host := upd s.host t h, cur := upd s.cur h (some t) }

def stepEvstart (c : Cfg) (s : St) (t m : Nat) : Option St :=
  if s.phase t = .idle ∧ s.emodel t = m then
    if c.queued = 0 then
      if s.call t = .active ∧ innermost s t ∧ s.cur t = none then some (start s t t) else none
    else
      match s.drainer (c.key m) with
      | some d =>
        if (s.queue (c.key m)).head? = some t ∧ innermost s d ∧ s.cur d = none then some (start s t d)
        else none
      | none => none
  else none

def stepCb (s : St) (t k : Nat) : Option St :=
  if running s t then
    match k, s.phase t with
    | 0, .pre => some s
    | 1, .mid => some s
    | 2, .mid => some { s with phase := upd s.phase t .post }     -- internal transition: no state write
    | 2, .post => some s
    | 3, .exc => some s
    | 4, .pre => some (advFin s t)
    | 4, .mid => some (advFin s t)
    | 4, .post => some (advFin s t)
    | 4, .exc => some (advFin s t)
    | 4, .fin => some s
    | _, _ => none
  else none

def stepDecide (c : Cfg) (s : St) (t : Nat) (cs : List Nat) : Option St :=
  if running s t ∧ s.phase t = .pre ∧ cs = targets c s t then
    some (cancelAll c { s with phase := upd s.phase t .mid } cs)
  else none

def stepSet (c : Cfg) (s : St) (t v : Nat) : Option St :=
  if running s t ∧ s.phase t = .mid ∧ v ∈ c.states then
    some { s with phase := upd s.phase t .post, mstate := upd s.mstate (s.emodel t) v }
  else none

def stepFail (c : Cfg) (s : St) (t : Nat) : Option St :=
  if running s t then
    match s.phase t with
    | .pre | .mid | .post =>
      if c.onExc then some { s with phase := upd s.phase t .exc }
      else some { s with phase := upd s.phase t .fin, flag := upd s.flag t .failing }
    | .exc => some { s with phase := upd s.phase t .fin, flag := upd s.flag t .failing }
    | .fin => some s
    | _ => none
  else none

def endable (p : Phase) : Bool := p == .pre || p == .mid || p == .post || p == .exc || p == .fin

/-- event `t` leaves `_trigger` (its finalize stage is over) -/
def finished (s : St) (t : Nat) : St :=
  let s1 := if s.phase t = .fin then s else advFin s t
  { s1 with phase := upd s1.phase t .over, cur := upd s1.cur (s.host t) none }

def stepEvend (c : Cfg) (s : St) (t m o : Nat) : Option St :=
  if running s t ∧ s.emodel t = m ∧ endable (s.phase t) = true ∧ o = (outOf (finished s t) t).code then
    if c.queued = 0 then
      some { finished s t with outc := upd s.outc (s.host t) (some (outOf (finished s t) t)) }
    else
      match s.queue (c.key m) with
      | [] => none
      | t' :: rest =>
        if t' = t then
          if o = 0 then
            if rest = [] then
              some { finished s t with queue := upd s.queue (c.key m) [], drainer := upd s.drainer (c.key m) none,
                                       outc := upd s.outc (s.host t) (some (.ret true)) }
            else some { finished s t with queue := upd s.queue (c.key m) rest }
          else
            some { finished s t with queue := upd s.queue (c.key m) [], drainer := upd s.drainer (c.key m) none,
                                     outc := upd s.outc (s.host t) (some (outOf (finished s t) t)) }
        else none
  else none

def stepRet (s : St) (t : Nat) (b : Bool) : Option St :=
  if s.call t = .active ∧ innermost s t ∧ s.cur t = none ∧
      ((s.deferred t = true ∧ b = true) ∨ s.outc t = some (.ret b) ∨
       (s.outc t = some .cancelled ∧ s.chain t = t ∧ b = false)) then
    some (endCall s t)
  else none

def stepRaised (s : St) (t : Nat) (cancelled : Bool) : Option St :=
  if s.call t = .active ∧ innermost s t ∧ s.cur t = none ∧
      ((s.outc t = some .exc ∧ cancelled = false) ∨
       (s.outc t = some .cancelled ∧ s.chain t ≠ t ∧ cancelled = true)) then
    some (endCall s t)
  else none

/-- `remove_model(m)`: with the shared queue every pending event of `m` but the head is dropped -/
def stepRemove (c : Cfg) (s : St) (m : Nat) : Option St :=
  if c.queued = 0 then some s
  else if c.queued = 1 then
    match s.queue 0 with
    | [] => some s
    | h :: rest => some { s with queue := upd s.queue 0 (h :: rest.filter fun e => s.emodel e != m) }
  else none

def step (c : Cfg) (s : St) : Label → Option St
  | .begin t r m => stepBegin c s t r m
  | .evstart t m => stepEvstart c s t m
  | .evend t m o => stepEvend c s t m o
  | .cb t k => stepCb s t k
  | .decide t cs => stepDecide c s t cs
  | .set t v => stepSet c s t v
  | .fail t => stepFail c s t
  | .ret t b => stepRet s t b
  | .raised t x => stepRaised s t x
  | .remove m => stepRemove c s m

/-- the model / acceptor: a schedule is the order of the labels -/
def run (c : Cfg) : St → List Label → Option St
  | s, [] => some s
  | s, l :: ls => match step c s l with
    | some s' => run c s' ls
    | none => none

/-- index of the first label the model does not allow (`none`: the trace is a model trace) -/
def firstReject (c : Cfg) : St → List Label → Nat → Option Nat
  | _, [], _ => none
  | s, l :: ls, i => match step c s l with
    | some s' => firstReject c s' ls (i + 1)
    | none => some i

end AS
end TM
