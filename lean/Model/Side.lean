/-
  Model/Side.lean — the flat engine of `Model/Core.lean` run by a machine class that carries a
  *side table* next to the engine state: the diagram / markup mixins of
  `transitions/extensions/diagrams.py` and `markup.py` (property C09).

  Code ↦ model
    GraphMachine.model_graphs, MarkupMachine._markup / _needs_update        ↦ `SSt.side : γ`
    TransitionGraphSupport._change_state (diagrams.py):
        graph = machine.model_graphs[id(model)]
        graph.reset_styling(); graph.set_previous_transition(source, dest)  ↦ `Hooks.pre`   (before `super()._change_state`)
        super()._change_state(event_data)                                   ↦ `TM.changeState`, copied below
        graph = machine.model_graphs[id(model)]                             (re-read: callbacks may have replaced it)
        graph.set_node_style(model.state, "active")                         ↦ `Hooks.post`  (skipped when super raised)
    AsyncTransition / NestedAsyncTransition._change_state (asyncio.py): the first half only (`post = id`)
    GraphMachine.add_model: `get_graph(force_new=True)` for a model that was not registered — builds a
        new graph from `machine.markup` (which refreshes `_markup` and clears `_needs_update`)
                                                                            ↦ `Hooks.onAdd`
    everything else is inherited from `Machine` unchanged: the functions below are those of
    `Model/Core.lean`, line by line, over the state `SSt γ = St × γ`.

  The hooks are total functions of the side table and of values the engine already has (model,
  source, destination, the model's state): on every path the engine can take the dictionary lookup
  `model_graphs[id(model)]` succeeds (a graph is created when a model is added and never deleted).
  That the real mixins do nothing else to the engine is the business of the differential
  (harness/props/c09.py); what is proved here (Proofs/C09.lean) is that an engine instrumented in
  exactly these places cannot be influenced by what it writes.

  `graphHooks` instantiates the hooks with the styling model of the Mermaid backend
  (`Model/Diagram.lean`, property C16).
-/
import Model.Core
import Model.Diagram

namespace TM
namespace Side

structure Hooks (γ : Type) where
  /-- before the state change: `reset_styling(); set_previous_transition(source, dest)` on the model's graph -/
  pre : γ → (model src dst : Nat) → γ
  /-- after a completed state change: `set_node_style(model.state, "active")` -/
  post : γ → (model st : Nat) → γ
  /-- `GraphMachine.add_model` of a new model: `get_graph(force_new=True)` -/
  onAdd : γ → (model st : Nat) → γ

/-- engine state + side table -/
structure SSt (γ : Type) where
  base : St
  side : γ

abbrev RS (γ : Type) := Res (SSt γ)
abbrev SSub (γ : Type) := Cmd → SSt γ → RS γ Unit

variable {γ : Type}

def SSt.mapBase (s : SSt γ) (f : St → St) : SSt γ := ⟨f s.base, s.side⟩

/-- an engine function that does not know about the side table -/
def liftR {α : Type} (r : R α) (g : γ) : RS γ α :=
  match r with
  | .ok a s => .ok a ⟨s, g⟩
  | .err e s => .err e ⟨s, g⟩
  | .oof => .oof

def runCmds (sub : SSub γ) : List Cmd → SSt γ → RS γ Unit
  | [], s => .ok () s
  | c :: cs, s => (sub c s).bind fun _ s' => runCmds sub cs s'

def invoke (sub : SSub γ) (sc : Script) (slot : Slot) (x : Ctx) (c : Nat) (s : SSt γ) : RS γ Bool :=
  let act := sc c (s.base.count c)
  let s1 : St := { s.base with counts := aset c (s.base.count c + 1) s.base.counts }
  let s2 := s1.emit (.call slot c x.model x.tag (s1.stateOf x.model))
  match runCmds sub act.cmds ⟨s2, s.side⟩ with
  | .ok _ s3 =>
    match act.out with
    | .ret b => .ok b (s3.mapBase (·.emit (.done c (.ret b))))
    | .raise e => .err e (s3.mapBase (·.emit (.done c (.raise e))))
  | .err e s3 => .err e (s3.mapBase (·.emit (.done c (.raise e))))
  | .oof => .oof

def callbacks (sub : SSub γ) (sc : Script) (slot : Slot) (x : Ctx) : List Nat → SSt γ → RS γ Unit
  | [], s => .ok () s
  | c :: cs, s => (invoke sub sc slot x c s).bind fun _ s' => callbacks sub sc slot x cs s'

def evalConds (sub : SSub γ) (sc : Script) (x : Ctx) : List Cond → SSt γ → RS γ Bool
  | [], s => .ok true s
  | c :: cs, s =>
    (invoke sub sc (if c.target then .condition else .unless) x c.cb s).bind fun b s' =>
      if b = c.target then evalConds sub sc x cs s' else .ok false s'

/-- `Transition._change_state` as inherited (the `super()` call of the mixin) -/
def changeStateBase (sub : SSub γ) (sc : Script) (cfg : Cfg) (x : Ctx) (t : Trans) (dst : Nat) (s : SSt γ) :
    RS γ Unit :=
  match cfg.state? (s.base.stateOf x.model) with
  | none => .err .valueError s
  | some src =>
    (callbacks sub sc .onExit x src.onExit s).bind fun _ s1 =>
      match cfg.state? dst with
      | none => .err .valueError s1
      | some d =>
        let s2 := s1.mapBase (·.setState x.model dst)
        (callbacks sub sc .onEnter x d.onEnter s2).bind fun _ s3 =>
          if d.final then callbacks sub sc .onFinal x cfg.onFinal s3 else .ok () s3

/-- `TransitionGraphSupport._change_state`: styling before, `super()`, styling after (when it returned) -/
def changeState (H : Hooks γ) (sub : SSub γ) (sc : Script) (cfg : Cfg) (x : Ctx) (t : Trans) (dst : Nat)
    (s : SSt γ) : RS γ Unit :=
  let s0 : SSt γ := ⟨s.base, H.pre s.side x.model t.source dst⟩
  (changeStateBase sub sc cfg x t dst s0).bind fun _ s' =>
    .ok () ⟨s'.base, H.post s'.side x.model (s'.base.stateOf x.model)⟩

def execute (H : Hooks γ) (sub : SSub γ) (sc : Script) (cfg : Cfg) (x : Ctx) (t : Trans) (s : SSt γ) : RS γ Bool :=
  (callbacks sub sc .prepare x t.prepare s).bind fun _ s1 =>
    (evalConds sub sc x t.conds s1).bind fun ok s2 =>
      if !ok then .ok false s2 else
      (callbacks sub sc .beforeSC x cfg.beforeSC s2).bind fun _ s3 =>
      (callbacks sub sc .before x t.before s3).bind fun _ s4 =>
      (match t.dest with
        | some d => changeState H sub sc cfg x t d s4
        | none => .ok () s4).bind fun _ s5 =>
      (callbacks sub sc .after x t.after s5).bind fun _ s6 =>
      (callbacks sub sc .afterSC x cfg.afterSC s6).bind fun _ s7 =>
        .ok true s7

def tryTransitions (H : Hooks γ) (sub : SSub γ) (sc : Script) (cfg : Cfg) (x : Ctx) :
    List Trans → SSt γ → RS γ Bool
  | [], s => .ok false s
  | t :: ts, s =>
    (execute H sub sc cfg x t s).bind fun ok s' =>
      if ok then .ok true s' else tryTransitions H sub sc cfg x ts s'

def eventProcess (H : Hooks γ) (sub : SSub γ) (sc : Script) (cfg : Cfg) (x : Ctx) (ts : List Trans) (s : SSt γ) :
    RS γ Bool :=
  (callbacks sub sc .prepareEvent x cfg.prepareEvent s).bind fun _ s1 =>
    tryTransitions H sub sc cfg x ts s1

def runFinalize (sub : SSub γ) (sc : Script) (cfg : Cfg) (x : Ctx) (s : SSt γ) : Option (SSt γ) :=
  match callbacks sub sc .finalize x cfg.finalize s with
  | .ok _ s' => some s'
  | .err _ s' => some s'
  | .oof => none

def exceptClause (sub : SSub γ) (sc : Script) (cfg : Cfg) (x : Ctx) : RS γ Bool → RS γ Bool
  | .ok b s => .ok b s
  | .err e s =>
    match cfg.onException with
    | [] => .err e s
    | hs => (callbacks sub sc .onException x hs s).bind fun _ s' => .ok false s'
  | .oof => .oof

def finallyClause (sub : SSub γ) (sc : Script) (cfg : Cfg) (x : Ctx) : RS γ Bool → RS γ Bool
  | .ok b s => match runFinalize sub sc cfg x s with
    | some s' => .ok b s'
    | none => .oof
  | .err e s => match runFinalize sub sc cfg x s with
    | some s' => .err e s'
    | none => .oof
  | .oof => .oof

def guarded (sub : SSub γ) (sc : Script) (cfg : Cfg) (x : Ctx) (body : RS γ Bool) : RS γ Bool :=
  finallyClause sub sc cfg x (exceptClause sub sc cfg x body)

def eventTrigger (H : Hooks γ) (sub : SSub γ) (sc : Script) (cfg : Cfg) (ts : List Trans) (x : Ctx) (s : SSt γ) :
    RS γ Bool :=
  let src := s.base.stateOf x.model
  let body : RS γ Bool :=
    match cfg.state? src with
    | none => .err .valueError s
    | some _ =>
      match candidates ts src with
      | none => if ignoreInvalid cfg src then .ok false s else .err .machineError s
      | some cs => eventProcess H sub sc cfg x cs s
  match cfg.state? src with
  | none => body
  | some _ => guarded sub sc cfg x body

def drain (H : Hooks γ) (sub : SSub γ) (sc : Script) (cfg : Cfg) : Nat → SSt γ → RS γ Unit
  | 0, _ => .oof
  | n + 1, s =>
    match s.base.queue with
    | [] => .ok () s
    | (m, ev, tag) :: _ =>
      let ts := (cfg.event? ev).getD []
      match eventTrigger H sub sc cfg ts ⟨m, tag⟩ s with
      | .ok _ s' => drain H sub sc cfg n (s'.mapBase fun b => { b with queue := b.queue.drop 1 })
      | .err e s' => .err e (s'.mapBase fun b => { b with queue := [] })
      | .oof => .oof

def machineProcess (H : Hooks γ) (sub : SSub γ) (sc : Script) (cfg : Cfg) (fuelQ : Nat) (m ev tag : Nat)
    (s : SSt γ) : RS γ Bool :=
  let ts := (cfg.event? ev).getD []
  if !cfg.queued then
    match s.base.queue with
    | [] => eventTrigger H sub sc cfg ts ⟨m, tag⟩ s
    | _ => .err .machineError s
  else
    let s1 := s.mapBase fun b => { b with queue := b.queue ++ [(m, ev, tag)] }
    if s1.base.queue.length > 1 then .ok true s1
    else (drain H sub sc cfg fuelQ s1).bind fun _ s' => .ok true s'

def triggerByName (H : Hooks γ) (sub : SSub γ) (sc : Script) (cfg : Cfg) (fuelQ : Nat) (m ev tag : Nat)
    (s : SSt γ) : RS γ Bool :=
  if (alookup m s.base.mstate).isNone then .err .attributeError s else
  match cfg.event? ev with
  | some _ => machineProcess H sub sc cfg fuelQ m ev tag s
  | none =>
    let src := s.base.stateOf m
    match cfg.state? src with
    | none => .err .valueError s
    | some _ => if ignoreInvalid cfg src then .ok false s else .err .attributeError s

/-- `Machine.remove_model` is inherited: `model_graphs` keeps the entry of a removed model -/
def removeModel (m : Nat) (s : SSt γ) : RS γ Unit := liftR (TM.removeModel m s.base) s.side

/-- `GraphMachine.add_model`: the inherited registration, then a new graph for a model that was not registered -/
def addModel (H : Hooks γ) (cfg : Cfg) (m : Nat) (s : SSt γ) : RS γ Unit :=
  if m ∈ s.base.models then liftR (TM.addModel cfg m s.base) s.side
  else
    match TM.addModel cfg m s.base with
    | .ok _ b => .ok () ⟨b, H.onAdd s.side m (b.stateOf m)⟩
    | .err e b => .err e ⟨b, s.side⟩
    | .oof => .oof

def mayLoop (sub : SSub γ) (sc : Script) (cfg : Cfg) (x : Ctx) : List Trans → SSt γ → RS γ Bool
  | [], s => .ok false s
  | t :: ts, s =>
    if !destOk cfg t then mayLoop sub sc cfg x ts s else
    let attempt : RS γ Bool :=
      (callbacks sub sc .prepareEvent x cfg.prepareEvent s).bind fun _ s1 =>
      (callbacks sub sc .prepare x t.prepare s1).bind fun _ s2 =>
        evalConds sub sc x t.conds s2
    match attempt with
    | .ok true s' => .ok true s'
    | .ok false s' => mayLoop sub sc cfg x ts s'
    | .err e s' =>
      (match cfg.onException with
        | [] => (.err e s' : RS γ Unit)
        | hs => callbacks sub sc .onException x hs s').bind fun _ s'' => mayLoop sub sc cfg x ts s''
    | .oof => .oof

def canTrigger (sub : SSub γ) (sc : Script) (cfg : Cfg) (m ev tag : Nat) (s : SSt γ) : RS γ Bool :=
  if (alookup m s.base.mstate).isNone then .err .attributeError s else
  let src := s.base.stateOf m
  match cfg.state? src with
  | none => .err .valueError s
  | some _ =>
    match cfg.event? ev with
    | none => .ok false s
    | some ts =>
      match candidates ts src with
      | none => .ok false s
      | some cs => mayLoop sub sc cfg ⟨m, tag⟩ cs s

def apiTrigger (H : Hooks γ) (sub : SSub γ) (sc : Script) (cfg : Cfg) (qmax : Nat) (m ev : Nat) (s : SSt γ) :
    RS γ Bool :=
  let tag := s.base.nextTag
  let s1 := s.mapBase fun b => ({ b with nextTag := tag + 1 }).emit (.api 0 tag m ev)
  match triggerByName H sub sc cfg qmax m ev tag s1 with
  | .ok b s' => .ok b (s'.mapBase (·.emit (.ret tag b)))
  | .err e s' => .err e (s'.mapBase (·.emit (.raised tag e)))
  | .oof => .oof

def apiMay (sub : SSub γ) (sc : Script) (cfg : Cfg) (m ev : Nat) (s : SSt γ) : RS γ Bool :=
  let tag := s.base.nextTag
  let s1 := s.mapBase fun b => ({ b with nextTag := tag + 1 }).emit (.api 1 tag m ev)
  match canTrigger sub sc cfg m ev tag s1 with
  | .ok b s' => .ok b (s'.mapBase (·.emit (.ret tag b)))
  | .err e s' => .err e (s'.mapBase (·.emit (.raised tag e)))
  | .oof => .oof

def dispatchLoop (H : Hooks γ) (sub : SSub γ) (sc : Script) (cfg : Cfg) (qmax : Nat) (ev tag : Nat) :
    Nat → Nat → Bool → SSt γ → RS γ Bool
  | 0, _, _, _ => .oof
  | n + 1, i, acc, s =>
    match s.base.models[i]? with
    | none => .ok acc s
    | some m =>
      (triggerByName H sub sc cfg qmax m ev tag s).bind fun b s' =>
        dispatchLoop H sub sc cfg qmax ev tag n (i + 1) (acc && b) s'

def apiDispatch (H : Hooks γ) (sub : SSub γ) (sc : Script) (cfg : Cfg) (qmax : Nat) (ev : Nat) (s : SSt γ) :
    RS γ Bool :=
  let tag := s.base.nextTag
  let s1 := s.mapBase fun b => ({ b with nextTag := tag + 1 }).emit (.api 2 tag 0 ev)
  match dispatchLoop H sub sc cfg qmax ev tag (qmax + s1.base.models.length + 1) 0 true s1 with
  | .ok b s' => .ok b (s'.mapBase (·.emit (.ret tag b)))
  | .err e s' => .err e (s'.mapBase (·.emit (.raised tag e)))
  | .oof => .oof

def apiRemove (m : Nat) (s : SSt γ) : RS γ Unit :=
  let tag := s.base.nextTag
  let s1 := s.mapBase fun b => ({ b with nextTag := tag + 1 }).emit (.api 3 tag m 0)
  match removeModel m s1 with
  | .ok _ s' => .ok () (s'.mapBase (·.emit (.ret tag true)))
  | .err e s' => .err e (s'.mapBase (·.emit (.raised tag e)))
  | .oof => .oof

def apiAdd (H : Hooks γ) (cfg : Cfg) (m : Nat) (s : SSt γ) : RS γ Unit :=
  let tag := s.base.nextTag
  let s1 := s.mapBase fun b => ({ b with nextTag := tag + 1 }).emit (.api 4 tag m 0)
  match addModel H cfg m s1 with
  | .ok _ s' => .ok () (s'.mapBase (·.emit (.ret tag true)))
  | .err e s' => .err e (s'.mapBase (·.emit (.raised tag e)))
  | .oof => .oof

def runCmd (H : Hooks γ) (sc : Script) (cfg : Cfg) (qmax : Nat) : Nat → Cmd → SSt γ → RS γ Unit
  | 0, _, _ => .oof
  | f + 1, c, s =>
    let sub := runCmd H sc cfg qmax f
    match c with
    | .trigger m ev => (apiTrigger H sub sc cfg qmax m ev s).map fun _ => ()
    | .may m ev => (apiMay sub sc cfg m ev s).map fun _ => ()
    | .dispatch ev => (apiDispatch H sub sc cfg qmax ev s).map fun _ => ()
    | .removeModel m => apiRemove m s
    | .addModel m => apiAdd H cfg m s

def runHistory (H : Hooks γ) (sc : Script) (cfg : Cfg) (qmax fuel : Nat) : List Cmd → SSt γ → Option (SSt γ)
  | [], s => some s
  | c :: cs, s =>
    match runCmd H sc cfg qmax fuel c s with
    | .ok _ s' => runHistory H sc cfg qmax fuel cs s'
    | .err _ s' => runHistory H sc cfg qmax fuel cs s'
    | .oof => none

/-- the machine after `__init__`: every initial model has been through `add_model` -/
def SSt.init (H : Hooks γ) (cfg : Cfg) (models : List Nat) (g0 : γ) : SSt γ :=
  ⟨St.init cfg models, models.foldl (fun g m => H.onAdd g m cfg.initial) g0⟩

/-! ### the hooks of the Mermaid backend (`Model/Diagram.lean`) -/

/-- `machine.model_graphs`: model ↦ styles of its graph -/
abbrev Graphs := List (Nat × Diagram.Styles)

def graphOf (g : Graphs) (m : Nat) : Diagram.Styles := (alookup m g).getD {}

/-- `TransitionGraphSupport._change_state` on flat machines (state `n` has the path `[n]`) -/
def graphHooks (o : Diagram.Opts) : Hooks Graphs where
  pre g m src dst := aset m (Diagram.setPrevious [] [src] [dst]) g
  post g m st := aset m ((graphOf g m).setNodes [[st]] 1) g
  onAdd g m st := aset m (({} : Diagram.Styles).setNodes [[st]] 1) g

/-- the async transition classes only run the first half -/
def asyncGraphHooks (o : Diagram.Opts) : Hooks Graphs := { graphHooks o with post := fun g _ _ => g }

/-- `MarkupMachine`: `_needs_update` and the cached `_markup` (an opaque value `μ`); within a run the
only writer is the graph construction of `GraphMachine.add_model`, which reads `machine.markup` -/
def markupHooks {μ : Type} (convert : Unit → μ) : Hooks (Bool × μ) where
  pre g _ _ _ := g
  post g _ _ := g
  onAdd g _ _ := if g.1 then (false, convert ()) else g

end Side
end TM
