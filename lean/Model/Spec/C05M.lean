/-
  Model/Spec/C05M.lean — queued processing with ONE QUEUE PER MODEL (`AsyncMachine(queued='model')`,
  `_transition_queue_dict[id(model)]` in `_process_async`) as an abstract acceptor that observable traces must
  follow: the per-model version of property C05.

  What the code does (asyncio.py `_process_async`): a trigger on model `m` is appended to the deque of `m`; if that
  deque already holds an entry the call returns True at once (deferred); otherwise the caller drains the deque of `m`
  — and only that one.  So a trigger on ANOTHER model whose deque is empty, awaited from a callback, is processed
  immediately and completely inside that callback (a nested draining session), while triggers on a model whose deque
  is being drained — by the innermost session or by any enclosing one — are deferred to that session.  An exception
  escaping an event clears the deque of the model of the draining session only and propagates to the awaiting
  callback of the enclosing session (whose own event may catch it with `on_exception` and whose deque stays intact).

  The acceptor keeps a STACK of draining sessions (`C05.Q`: owner tag, pending `(tag, model)` of one model in
  arrival order with the entry in progress at the head, finalize flag), innermost first, and reads the trace one item
  at a time.  Per session the rules are those of `C05.busy`: a callback may only belong to the head of the innermost
  session — or, once the head has reached its finalize stage, to the next pending entry of that session (FIFO), which
  thereby becomes the head; an entry is never processed twice; the session's call returns True only when exactly its
  finished head is left; an exception ends the session whatever is pending (discarded — the entries are never seen
  again).  Across sessions: a trigger on a model that has a session is answered at once (True = appended to THAT
  session, wherever it is in the stack; False / exception = refused); a trigger on a model without a session opens
  a session on top of the stack (or is refused at once: unknown event name, unregistered model / state).

  Visibility assumption as in Model/Spec/C05.lean: `fin0` is the first finalize callback of the machine.
  Independent of the engine functions of `Model/Async.lean`.
-/
import Model.Spec.C05

namespace TM
namespace C05M
open C05 (Q)

/-- the model whose queue the session drains -/
def modelOf (σ : Q) : Option Nat := σ.q.head?.map (·.2)

/-- state of the acceptor -/
structure MS where
  /-- draining sessions, innermost first -/
  stack : List Q := []
  /-- a trigger on a model that has a session was issued and must be answered by the next item -/
  pend : Option (Nat × Nat) := none
  /-- the innermost session was opened by the previous item (nothing of it has run yet) -/
  fresh : Bool := false
  deriving Repr, DecidableEq

/-- is the queue of model `m` being drained by one of the sessions? -/
def busyIn (m : Nat) (st : List Q) : Bool := st.any fun σ => modelOf σ == some m

/-- append a deferred trigger to the session that drains the queue of its model -/
def defer (t m : Nat) : List Q → Option (List Q)
  | [] => none
  | σ :: st =>
    if modelOf σ = some m then some ({ σ with q := σ.q ++ [(t, m)] } :: st)
    else (defer t m st).map (σ :: ·)

/-- a callback start seen by a session (the rule of `C05.busy`): it belongs to the entry in progress — and once
that entry has reached its finalize stage nothing but further finalize callbacks may run for it — or, if the entry
in progress has completed, to the next pending one, which thereby becomes the entry in progress -/
def callStep (fin0 : Nat) (σ : Q) (sl : Slot) (c m t : Nat) : Option Q :=
  match σ.q with
  | (t0, m0) :: rest =>
    if t0 = t ∧ m0 = m then
      if σ.fin then (if sl = .finalize ∧ c ≠ fin0 then some σ else none)
      else some { σ with fin := decide (sl = .finalize ∧ c = fin0) }
    else if σ.fin then
      match rest with
      | (t1, m1) :: _ =>
        if t1 = t ∧ m1 = m then some { σ with q := rest, fin := decide (sl = .finalize ∧ c = fin0) } else none
      | [] => none
    else none
  | [] => none

/-- one trace item -/
def step (fin0 : Nat) (ms : MS) : Item → Option MS
  | .done _ _ => some ms
  | .call sl c m t _ =>
    match ms.pend, ms.stack with
    | none, σ :: st => (callStep fin0 σ sl c m t).map fun σ' => { stack := σ' :: st }
    | _, _ => none
  | .api 0 t m _ =>
    match ms.pend with
    | some _ => none
    | none =>
      if busyIn m ms.stack then some { ms with pend := some (t, m), fresh := false }
      else some { stack := { owner := t, q := [(t, m)], fin := false } :: ms.stack, fresh := true }
  | .api _ _ _ _ => none
  | .ret d b =>
    match ms.pend with
    | some (t, m) =>
      -- the answer to a trigger on a model that has a session: True = deferred to that session, False = refused
      if d = t then
        (if b then (defer t m ms.stack).map fun st => { stack := st } else some { stack := ms.stack })
      else none
    | none =>
      match ms.stack with
      | σ :: st =>
        if d = σ.owner then
          -- the draining call returns: everything pending of its model has been processed …
          if b then (if σ.q.length = 1 ∧ σ.fin then some { stack := st } else none)
          -- … or the call was refused at once without an exception (nothing of the session has run)
          else (if ms.fresh then some { stack := st } else none)
        else none
      | [] => none
  | .raised d _ =>
    match ms.pend with
    | some (t, _) => if d = t then some { stack := ms.stack } else none
    | none =>
      match ms.stack with
      -- the draining call raises: whatever was pending of its model is discarded
      | σ :: st => if d = σ.owner then some { stack := st } else none
      | [] => none

def run (fin0 : Nat) : MS → List Item → Option MS
  | ms, [] => some ms
  | ms, i :: l => (step fin0 ms i).bind fun ms' => run fin0 ms' l

/-- the whole trace of a history issued by an outside caller: every session has ended -/
def accept (fin0 : Nat) (l : List Item) : Bool :=
  match run fin0 {} l with
  | some ms => ms.stack.isEmpty && ms.pend.isNone
  | none => false

end C05M
end TM
