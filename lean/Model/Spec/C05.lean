/-
  Model/Spec/C05.lean — queued processing as an *abstract queue* that observable traces must follow
  (property C05: run-to-completion, FIFO, exactly-once, discard on failure, remove_model).

  The acceptor keeps nothing but the list of pending trigger calls `(tag, model)`; its head is the
  event in progress.  It is independent of `Model/Core.lean`'s engine functions.

  Visibility assumption (stated in the theorem and enforced by the harness for this property):
  the machine has a `finalize_event` callback `fin0` at the head of that list (and nowhere else in
  it).  Finalize callbacks run once per processed event, always and last, so `fin0` marks the
  completion of an event in the trace; without it the end of an event cannot be observed.
-/
import Model.Core

namespace TM
namespace C05

structure Q where
  owner : Nat                 -- tag of the trigger call whose caller drains the queue
  q : List (Nat × Nat)        -- pending `(tag, model)`, arrival order; head = in progress
  fin : Bool                  -- the head's first finalize callback has been invoked
  deriving Repr, DecidableEq

/-- While some trigger call is draining the queue.  Returns the rest of the trace after the
draining call has returned / raised. -/
def busy (fin0 : Nat) (σ : Q) : List Item → Option (List Item)
  -- a callback of an event: it must belong to the event in progress — and once that event has
  -- reached its finalize stage nothing but further finalize callbacks may run for it (it is never
  -- processed a second time) — or, if the event in progress has completed, to the next pending one
  -- (FIFO), which thereby becomes the event in progress
  | .call sl c m t _ :: l =>
    match σ.q with
    | (t0, m0) :: rest =>
      if t0 = t ∧ m0 = m then
        if σ.fin then (if sl = .finalize ∧ c ≠ fin0 then busy fin0 σ l else none)
        else busy fin0 { σ with fin := decide (sl = .finalize ∧ c = fin0) } l
      else if σ.fin then
        match rest with
        | (t1, m1) :: _ =>
          if t1 = t ∧ m1 = m then busy fin0 { σ with q := rest, fin := decide (sl = .finalize ∧ c = fin0) } l else none
        | [] => none
      else none
    | [] => none
  | .done _ _ :: l => busy fin0 σ l
  -- a trigger issued while the queue is busy returns at once: True = deferred (appended);
  -- False / an exception = not accepted at all (unknown event name or model without helpers)
  | .api 0 t m _ :: .ret t' b :: l =>
    if t' = t then (if b then busy fin0 { σ with q := σ.q ++ [(t, m)] } l else busy fin0 σ l) else none
  | .api 0 t _ _ :: .raised t' _ :: l => if t' = t then busy fin0 σ l else none
  -- remove_model: exactly that model's pending entries go, never the head
  | .api 3 r m _ :: .ret r' _ :: l =>
    if r' = r then
      match σ.q with
      | h :: rest => busy fin0 { σ with q := h :: rest.filter (fun e => e.2 != m) } l
      | [] => none
    else none
  | .api 3 r _ _ :: .raised r' _ :: l => if r' = r then busy fin0 σ l else none
  -- the draining call returns: everything pending has been processed
  | .ret d true :: l => if d = σ.owner ∧ σ.q.length = 1 ∧ σ.fin then some l else none
  -- the draining call raises: whatever was pending is discarded
  | .raised d _ :: l => if d = σ.owner then some l else none
  | _ => none

/-- The whole trace of a history issued by an outside caller (machine idle between calls).
`n` bounds the number of top-level calls. -/
def idle (fin0 : Nat) : Nat → List Item → Bool
  | _, [] => true
  | 0, _ :: _ => false
  | n + 1, .api 0 d m _ :: l =>
    -- accepted: the caller drains the queue until it is empty (or an exception escapes) …
    match busy fin0 { owner := d, q := [(d, m)], fin := false } l with
    | some rest => idle fin0 n rest
    | none =>
      -- … or refused at once without an exception (unknown event name, invalid triggers ignored)
      match l with
      | .ret d' false :: l' => d' = d && idle fin0 n l'
      | _ => false
  | n + 1, .api 3 r _ _ :: .ret r' _ :: l => r' = r && idle fin0 n l
  | n + 1, .api 3 r _ _ :: .raised r' _ :: l => r' = r && idle fin0 n l
  | _ + 1, _ => false

end C05
end TM
