/-
  Model/Spec/C01.lean — the *documented order* of one flat event step as an acceptor over
  observable traces (README "Callback execution order" + the statement of property C01).

  It is written independently of the engine model (`Model/Core.lean`): it does not thread engine
  state, it walks a trace and says what must come next.  The same compiled definition judges
  (a) every trace of the model — theorem `C01_history` in `Props/C01.lean` — and
  (b) the traces recorded from the implementation (driver request `c01`).
-/
import Model.Core

namespace TM
namespace C01

/-- an acceptor consumes a prefix of the trace and yields a value -/
abbrev Acc (α : Type) := List Item → Option (α × List Item)

/-- the callbacks `cbs` registered under `slot`, each invoked exactly once, in list order, for model
`m`, with the arguments of call `tag`, seeing state `st`, each completing normally before the next -/
def expectCbs (slot : Slot) (m tag st : Nat) : List Nat → Acc Unit
  | [], l => some ((), l)
  | c :: cs, .call sl c' m' t' st' :: .done c'' (.ret _) :: l =>
    if sl = slot ∧ c' = c ∧ c'' = c ∧ m' = m ∧ t' = tag ∧ st' = st then expectCbs slot m tag st cs l else none
  | _ :: _, _ => none

/-- conditions then unless-checks in order, stopping after the first whose value differs from its
target; yields whether all passed -/
def expectConds (m tag st : Nat) : List Cond → Acc Bool
  | [], l => some (true, l)
  | c :: cs, .call sl c' m' t' st' :: .done c'' (.ret b) :: l =>
    if sl = (if c.target then Slot.condition else Slot.unless) ∧ c' = c.cb ∧ c'' = c.cb ∧ m' = m ∧ t' = tag ∧ st' = st then
      (if b = c.target then expectConds m tag st cs l else some (false, l))
    else none
  | _ :: _, _ => none

/-- sequencing -/
@[inline] def andThen {α β} (p : Acc α) (q : α → Acc β) : Acc β := fun l =>
  match p l with
  | some (a, l') => q a l'
  | none => none

/-- one candidate transition: prepare, conditions; if they pass the whole execution stage.
Yields `some st'` (executed, model state afterwards) or `none` (blocked). -/
def expectCand (cfg : Cfg) (m tag src : Nat) (t : Trans) : Acc (Option Nat) :=
  andThen (expectCbs .prepare m tag src t.prepare) fun _ =>
  andThen (expectConds m tag src t.conds) fun ok =>
    if !ok then fun l => some (none, l) else
    andThen (expectCbs .beforeSC m tag src cfg.beforeSC) fun _ =>
    andThen (expectCbs .before m tag src t.before) fun _ =>
    match t.dest with
    | none =>       -- internal: no exit / enter, state kept
      andThen (expectCbs .after m tag src t.after) fun _ =>
      andThen (expectCbs .afterSC m tag src cfg.afterSC) fun _ l => some (some src, l)
    | some d =>
      match cfg.state? src, cfg.state? d with
      | some sdef, some ddef =>
        andThen (expectCbs .onExit m tag src sdef.onExit) fun _ =>          -- state still the source
        andThen (expectCbs .onEnter m tag d ddef.onEnter) fun _ =>          -- state already the destination
        andThen (if ddef.final then expectCbs .onFinal m tag d cfg.onFinal else fun l => some ((), l)) fun _ =>
        andThen (expectCbs .after m tag d t.after) fun _ =>
        andThen (expectCbs .afterSC m tag d cfg.afterSC) fun _ l => some (some d, l)
      | _, _ => fun _ => none

/-- candidates in definition order; only the first that passes executes -/
def expectCands (cfg : Cfg) (m tag src : Nat) : List Trans → Acc (Option Nat)
  | [], l => some (none, l)
  | t :: ts, l =>
    match expectCand cfg m tag src t l with
    | some (some st', l') => some (some st', l')
    | some (none, l') => expectCands cfg m tag src ts l'
    | none => none

/-- One trigger call `tag` of event `ev` on model `m` in state `src`, up to and including its
`ret` / `raised` item.  Yields the model's state afterwards. -/
def expectEvent (cfg : Cfg) (m tag src ev : Nat) : Acc Nat := fun l =>
  match cfg.event? ev with
  | none => none                -- unknown event names are outside C01
  | some ts =>
    match candidates ts src with
    | none =>
      -- not a source for the event: no prepare-stage callback at all
      if ignoreInvalid cfg src then
        andThen (expectCbs .finalize m tag src cfg.finalize) (fun _ l =>
          match l with
          | .ret t false :: l' => if t = tag then some (src, l') else none
          | _ => none) l
      else
        match cfg.onException with
        | [] =>
          andThen (expectCbs .finalize m tag src cfg.finalize) (fun _ l =>
            match l with
            | .raised t .machineError :: l' => if t = tag then some (src, l') else none
            | _ => none) l
        | hs =>
          andThen (expectCbs .onException m tag src hs) (fun _ =>
          andThen (expectCbs .finalize m tag src cfg.finalize) fun _ l =>
            match l with
            | .ret t false :: l' => if t = tag then some (src, l') else none
            | _ => none) l
    | some cs =>
      andThen (expectCbs .prepareEvent m tag src cfg.prepareEvent) (fun _ =>
      andThen (expectCands cfg m tag src cs) fun r =>
        let st' := r.getD src
        andThen (expectCbs .finalize m tag st' cfg.finalize) fun _ l =>
          match l with
          | .ret t b :: l' => if t = tag ∧ b = r.isSome then some (st', l') else none
          | _ => none) l

/-- A whole trace of trigger calls issued one at a time: tracks every model's state.
`n` bounds the number of calls (the caller passes the trace length). -/
def checkTrace (cfg : Cfg) : Nat → List (Nat × Nat) → List Item → Bool
  | _, _, [] => true
  | 0, _, _ :: _ => false
  | n + 1, ms, .api 0 tag m ev :: l =>
    match alookup m ms with
    | none => false
    | some src =>
      match expectEvent cfg m tag src ev l with
      | some (st', rest) => checkTrace cfg n (aset m st' ms) rest
      | none => false
  | _ + 1, _, _ :: _ => false

end C01
end TM
