/-
  Model/Spec/C02.lean — property C02 on observable traces: the ghost bookkeeping of a hierarchical machine
  recomputed from enter / exit observations.

    `project`   maps a recorded `Item` trace to ghost events: the FIRST on_enter / on_exit callback of a state
                stands for "the state is entered / exited", the first prepare / before callback of a transition
                for "offered" / "executes", the first finalize_event callback for "processing of this event ends"
                (it also reports the model's state then, as the bit mask of the active leaves)
    `gstep`     the bookkeeping:  `live` = states entered and not exited since; per event the states entered;
                flags for: entered while live, exited while not live, exited after being entered in the same
                event, entered before its parent, exited before a live descendant; and at the end of every event:
                live states are registered, the reported state value names exactly the leaves of `live`, and every
                leaf of `live` is a state without `initial` (the entered part is closed under initial descent)
    `verdict`   what the driver answers for an implementation trace

  Written independently of the engine model (it only shares the vocabulary of `Model/Nested.lean`).
-/
import Model.Nested

namespace TM

/-! ### the invariant of C02 (decidable, structural) -/

/-- sibling keys are distinct at every level of a configuration tree -/
def Forest.WF : Forest → Bool
  | .nil => true
  | .cons k s r => !r.keys.contains k && s.WF && r.WF

def SForest.names : SForest → List Nat
  | .nil => []
  | .cons d _ rest => d.name :: rest.names

/-- static well-formedness of a `states` dictionary: sibling names distinct; `initial` lists name children,
without repetition, and are empty, a single child, or all children (the property's "initial substate (or
parallel children)") -/
def SForest.WF : SForest → Bool
  | .nil => true
  | .cons d kids rest =>
    !rest.names.contains d.name
    && d.initial.all kids.names.contains
    && (d.initial.eraseDups.length == d.initial.length)
    && (d.initial.length ≤ 1 || kids.names.all d.initial.contains)
    && kids.WF && rest.WF

/-- a configuration tree is admissible for the definitions `sf`: sibling keys distinct, every key is a defined
state, a state with active children has one of them or all of them active, and a state without active children
declares no `initial` -/
def ConfOK : SForest → Forest → Bool
  | _, .nil => true
  | sf, .cons k s r =>
    !r.keys.contains k
    && (match sf.find k with
        | some (d, kids) =>
          if s.isEmpty then d.initial.isEmpty
          else (s.len ≤ 1 || kids.names.all s.keys.contains) && ConfOK kids s
        | none => false)
    && ConfOK sf r

/-- `p` is the parent of nothing entered yet: every path's parent is `base` or an earlier path -/
def parentsFirst (base : SPath) : List SPath → List SPath → Bool
  | _, [] => true
  | seen, p :: ps => (p.dropLast == base || seen.contains p.dropLast) && parentsFirst base (seen ++ [p]) ps

/-- the scope reached from the machine's own scope by `with self(k)` along `p` -/
def scopeAt (cfg : NCfg) : SPath → Option Scope
  | p => p.foldl (fun o k => o.bind fun sc => sc.enter k) (some cfg.root)


namespace C02

/-- transitions declared in one scope, with their references -/
def scopeTrans (pre : SPath) (events : List (Nat × List NTrans)) : List (TRef × NTrans) :=
  events.flatMap fun e => e.2.zipIdx.map fun ti => ((⟨pre, e.1, ti.2⟩ : TRef), ti.1)

/-- transitions declared inside state definitions -/
def forestTrans (pre : SPath) : SForest → List (TRef × NTrans)
  | .nil => []
  | .cons d kids rest =>
    scopeTrans (pre ++ [d.name]) d.events ++ forestTrans (pre ++ [d.name]) kids ++ forestTrans pre rest

def allTrans (cfg : NCfg) : List (TRef × NTrans) := scopeTrans [] cfg.events ++ forestTrans [] cfg.states

/-- every registered state with its global path (pre-order) -/
def forestDefs (pre : SPath) : SForest → List (SPath × SDef)
  | .nil => []
  | .cons d kids rest => (pre ++ [d.name], d) :: forestDefs (pre ++ [d.name]) kids ++ forestDefs pre rest

def allDefs (cfg : NCfg) : List (SPath × SDef) := forestDefs [] cfg.states

def defOf (cfg : NCfg) (p : SPath) : Option SDef := ((allDefs cfg).find? fun e => e.1 = p).map (·.2)

def projItem (cfg : NCfg) : Item → Option GEv
  | .api 0 tag _ ev => some (.api tag ev)
  | .ret tag b => some (.ret tag b)
  | .raised tag e => some (.raised tag e)
  | .call .onEnter c _ _ _ => ((allDefs cfg).find? fun e => e.2.onEnter.head? = some c).map fun e => .enter e.1
  | .call .onExit c _ _ _ => ((allDefs cfg).find? fun e => e.2.onExit.head? = some c).map fun e => .exit e.1
  | .call .prepare c _ _ _ => ((allTrans cfg).find? fun e => e.2.prepare.head? = some c).map fun e => .cand e.1
  | .call .before c _ _ _ => ((allTrans cfg).find? fun e => e.2.before.head? = some c).map fun e => .exec e.1
  | .call .finalize c _ tag st => if cfg.finalize.head? = some c then some (.fin tag st) else none
  | _ => none

def project (cfg : NCfg) (items : List Item) : List GEv := items.filterMap (projItem cfg)

/-- `p` is a proper prefix of `q` -/
def properPrefix (p q : SPath) : Bool := p.length < q.length && q.take p.length == p

/-- global source of a transition reference -/
def srcOf (cfg : NCfg) (r : TRef) : Option SPath :=
  ((allTrans cfg).find? fun e => e.1 = r).map fun e => r.scope ++ e.2.source

structure G where
  live : List SPath
  entered : List SPath := []          -- entered while the current event is processed
  exited : List SPath := []           -- exited while the current event is processed
  /-- the source of the transition that is executing: 0 = unknown, 1 = active since the event began,
      2 = not active, 3 = active but exited and entered again since the event began,
      4 = this very transition already executed in this event -/
  cur : Nat := 0
  execd : List TRef := []             -- transitions executed while the current event is processed
  maxExec : Nat := 0                  -- the largest number of transitions executed within one event so far
  enteredWhileLive : Bool := false
  exitedWhileDead : Bool := false
  enteredThenExited : Bool := false
  /-- … by a transition whose source was no longer active / had been re-entered (classification only) -/
  eteStale : Bool := false
  eteReentered : Bool := false
  eteActive : Bool := false
  eteRepeated : Bool := false
  enterBeforeParent : Bool := false
  exitBeforeChild : Bool := false
  finBad : Bool := false             -- one of the end-of-event checks failed
  halted : Bool := false             -- a callback raised: the property says nothing about what follows
  deriving DecidableEq, Repr, Inhabited

/-- the leaves of a prefix-closed set of paths -/
def liveLeaves (live : List SPath) : List SPath := live.filter fun p => !live.any fun q => properPrefix p q

def liveMask (cfg : NCfg) (live : List SPath) : Nat := ((liveLeaves live).map fun p => 2 ^ stateIndex cfg p).sum

/-- the checks made when the processing of an event ends (and on the initial configuration) -/
def finOk (cfg : NCfg) (live : List SPath) (mask : Nat) : Bool :=
  live.all (fun p => (defOf cfg p).isSome)
  && liveMask cfg live == mask
  && (liveLeaves live).all (fun p => match defOf cfg p with
      | some d => d.initial.isEmpty
      | none => true)

def gstep (cfg : NCfg) (g : G) (e : GEv) : G :=
  if g.halted then g else
  match e with
  | .enter p =>
    { g with
      live := g.live ++ [p], entered := g.entered ++ [p],
      enteredWhileLive := g.enteredWhileLive || g.live.contains p,
      enterBeforeParent := g.enterBeforeParent || (p.length > 1 && !g.live.contains p.dropLast) }
  | .exit p =>
    { g with
      live := g.live.erase p, exited := g.exited ++ [p],
      exitedWhileDead := g.exitedWhileDead || !g.live.contains p,
      enteredThenExited := g.enteredThenExited || g.entered.contains p,
      eteStale := g.eteStale || (g.entered.contains p && g.cur == 2),
      eteReentered := g.eteReentered || (g.entered.contains p && g.cur == 3),
      eteActive := g.eteActive || (g.entered.contains p && g.cur != 2 && g.cur != 3 && g.cur != 4),
      eteRepeated := g.eteRepeated || (g.entered.contains p && g.cur == 4),
      exitBeforeChild := g.exitBeforeChild || g.live.any fun q => properPrefix p q }
  | .exec r =>
    { g with execd := g.execd ++ [r], maxExec := max g.maxExec (g.execd.length + 1), cur := if g.execd.contains r then 4 else match srcOf cfg r with
        | some src => if !g.live.contains src then 2 else if g.exited.contains src then 3 else 1
        | none => 0 }
  | .fin _ mask => { g with entered := [], exited := [], cur := 0, execd := [], finBad := g.finBad || !finOk cfg g.live mask }
  | .raised _ (.user _) => { g with halted := true }
  | .raised _ (.base _) => { g with halted := true }
  | _ => g

def grun (cfg : NCfg) (g : G) (l : List GEv) : G := l.foldl (gstep cfg) g

def G.init (cfg : NCfg) (conf : Forest) : G :=
  { live := conf.nodes, finBad := !finOk cfg conf.nodes (confMask cfg conf) }

/-- no clause of the property is violated -/
def G.clean (g : G) : Bool :=
  !g.enteredWhileLive && !g.exitedWhileDead && !g.enteredThenExited && !g.enterBeforeParent
  && !g.exitBeforeChild && !g.finBad

/-- **the invariant**: the configuration is admissible with a single active root, and the states entered and not
exited are exactly the nodes of the configuration tree (active states and all their ancestors) -/
def invOK (cfg : NCfg) (g : G) (conf : Forest) : Bool :=
  ConfOK cfg.states conf && conf.len == 1
  && (g.live.eraseDups.length == g.live.length)
  && g.live.all conf.nodes.contains && conf.nodes.all g.live.contains

/-- the monitor: bookkeeping over the projected trace, starting from the reported initial configuration -/
def check (cfg : NCfg) (conf : Forest) (items : List Item) : Bool :=
  (grun cfg (G.init cfg conf) (project cfg items)).clean

/-! ### nesting of the enter / exit callbacks themselves (`call` … `done` intervals)

"Enters parents before children, exits children before parents" also constrains the callbacks while they RUN: the
on_enter of a state must have returned before the on_enter of one of its descendants starts, and the on_exit of a state
must not start while the on_exit of a descendant is still running.  (Relevant where callbacks can suspend: the async
classes.)  Judged on the FIRST on_enter / on_exit callback of every state. -/

/-- an open interval: callback id, enter (true) / exit (false), the state -/
abbrev Span := Nat × Bool × SPath

structure Nest where
  opened : List Span := []
  enterOverlapsParent : Bool := false
  exitOverlapsChild : Bool := false
  deriving Repr, Inhabited

def nestStep (cfg : NCfg) (n : Nest) : Item → Nest
  | .call .onEnter c _ _ _ =>
    match (allDefs cfg).find? fun e => e.2.onEnter.head? = some c with
    | some e => { n with
        opened := (c, true, e.1) :: n.opened,
        enterOverlapsParent := n.enterOverlapsParent || n.opened.any fun o => o.2.1 && properPrefix o.2.2 e.1 }
    | none => n
  | .call .onExit c _ _ _ =>
    match (allDefs cfg).find? fun e => e.2.onExit.head? = some c with
    | some e => { n with
        opened := (c, false, e.1) :: n.opened,
        exitOverlapsChild := n.exitOverlapsChild || n.opened.any fun o => !o.2.1 && properPrefix e.1 o.2.2 }
    | none => n
  | .done c _ => { n with opened := n.opened.eraseP fun o => o.1 == c }
  | _ => n

def nestRun (cfg : NCfg) (n : Nest) (items : List Item) : Nest := items.foldl (nestStep cfg) n

/-- no enter callback starts while an ancestor's is running, no exit callback starts while a descendant's is running -/
def nestOk (cfg : NCfg) (items : List Item) : Bool :=
  let n := nestRun cfg {} items
  !n.enterOverlapsParent && !n.exitOverlapsChild

/-- the whole monitor of C02: bookkeeping on the projected events and nesting of the callback intervals -/
def check2 (cfg : NCfg) (conf : Forest) (items : List Item) : Bool := check cfg conf items && nestOk cfg items

def verdict (cfg : NCfg) (conf : Forest) (items : List Item) : String :=
  let g := grun cfg (G.init cfg conf) (project cfg items)
  let n := nestRun cfg {} items
  if g.clean && nestOk cfg items then "ok" else
    "reject" ++ (if g.enteredWhileLive then " entered-while-active" else "")
      ++ (if g.exitedWhileDead then " exited-while-inactive" else "")
      ++ (if g.eteStale then " entered-then-exited:source-not-active" else "")
      ++ (if g.eteReentered then " entered-then-exited:source-re-entered" else "")
      ++ (if g.eteActive then " entered-then-exited:source-active" else "")
      ++ (if g.eteRepeated then " entered-then-exited:transition-repeated" else "")
      ++ (if g.enterBeforeParent then " enter-before-parent" else "")
      ++ (if g.exitBeforeChild then " exit-before-child" else "")
      ++ (if g.finBad then " configuration-mismatch" else "")
      ++ (if n.enterOverlapsParent then " enter-overlaps-parent" else "")
      ++ (if n.exitOverlapsChild then " exit-overlaps-child" else "")

end C02
end TM
