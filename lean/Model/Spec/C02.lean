/-
  Model/Spec/C02.lean — property C02 on observable traces: the ghost bookkeeping of a hierarchical machine
  recomputed from enter / exit observations.

    `project`   maps a recorded `Item` trace to ghost events: the FIRST on_enter / on_exit callback of a state
                stands for "the state is entered / exited", the first prepare / before callback of a transition
                for "offered" / "executes", the first finalize_event callback for "processing of this event ends"
                (it also reports the model's state then, as the bit mask of the active leaves)
    `gstep`     the bookkeeping:  `live` = states entered and not exited since; per event the states entered;
                flags for: entered while live, exited while not live, exited after being entered in the same
                event, entered before its parent, exited before a live descendant; and at the end of every event:
                live states are registered, the reported state value names exactly the leaves of `live`, and every
                leaf of `live` is a state without `initial` (the entered part is closed under initial descent)
    `verdict`   what the driver answers for an implementation trace

  Written independently of the engine model (it only shares the vocabulary of `Model/Nested.lean`).
-/
import Model.Nested

namespace TM
namespace C02

/-- transitions declared in one scope, with their references -/
def scopeTrans (pre : SPath) (events : List (Nat × List NTrans)) : List (TRef × NTrans) :=
  events.flatMap fun e => e.2.zipIdx.map fun ti => ((⟨pre, e.1, ti.2⟩ : TRef), ti.1)

/-- transitions declared inside state definitions -/
def forestTrans (pre : SPath) : SForest → List (TRef × NTrans)
  | .nil => []
  | .cons d kids rest =>
    scopeTrans (pre ++ [d.name]) d.events ++ forestTrans (pre ++ [d.name]) kids ++ forestTrans pre rest

def allTrans (cfg : NCfg) : List (TRef × NTrans) := scopeTrans [] cfg.events ++ forestTrans [] cfg.states

/-- every registered state with its global path (pre-order) -/
def forestDefs (pre : SPath) : SForest → List (SPath × SDef)
  | .nil => []
  | .cons d kids rest => (pre ++ [d.name], d) :: forestDefs (pre ++ [d.name]) kids ++ forestDefs pre rest

def allDefs (cfg : NCfg) : List (SPath × SDef) := forestDefs [] cfg.states

def defOf (cfg : NCfg) (p : SPath) : Option SDef := ((allDefs cfg).find? fun e => e.1 = p).map (·.2)

def projItem (cfg : NCfg) : Item → Option GEv
  | .api 0 tag _ ev => some (.api tag ev)
  | .ret tag b => some (.ret tag b)
  | .raised tag e => some (.raised tag e)
  | .call .onEnter c _ _ _ => ((allDefs cfg).find? fun e => e.2.onEnter.head? = some c).map fun e => .enter e.1
  | .call .onExit c _ _ _ => ((allDefs cfg).find? fun e => e.2.onExit.head? = some c).map fun e => .exit e.1
  | .call .prepare c _ _ _ => ((allTrans cfg).find? fun e => e.2.prepare.head? = some c).map fun e => .cand e.1
  | .call .before c _ _ _ => ((allTrans cfg).find? fun e => e.2.before.head? = some c).map fun e => .exec e.1
  | .call .finalize c _ tag st => if cfg.finalize.head? = some c then some (.fin tag st) else none
  | _ => none

def project (cfg : NCfg) (items : List Item) : List GEv := items.filterMap (projItem cfg)

/-- `p` is a proper prefix of `q` -/
def properPrefix (p q : SPath) : Bool := p.length < q.length && q.take p.length == p

structure G where
  live : List SPath
  entered : List SPath := []          -- entered while the current event is processed
  enteredWhileLive : Bool := false
  exitedWhileDead : Bool := false
  enteredThenExited : Bool := false
  enterBeforeParent : Bool := false
  exitBeforeChild : Bool := false
  finBad : Bool := false             -- one of the end-of-event checks failed
  halted : Bool := false             -- a callback raised: the property says nothing about what follows
  deriving DecidableEq, Repr, Inhabited

/-- the leaves of a prefix-closed set of paths -/
def liveLeaves (live : List SPath) : List SPath := live.filter fun p => !live.any fun q => properPrefix p q

def liveMask (cfg : NCfg) (live : List SPath) : Nat := ((liveLeaves live).map fun p => 2 ^ stateIndex cfg p).sum

/-- the checks made when the processing of an event ends (and on the initial configuration) -/
def finOk (cfg : NCfg) (live : List SPath) (mask : Nat) : Bool :=
  live.all (fun p => (defOf cfg p).isSome)
  && liveMask cfg live == mask
  && (liveLeaves live).all (fun p => match defOf cfg p with
      | some d => d.initial.isEmpty
      | none => true)

def gstep (cfg : NCfg) (g : G) (e : GEv) : G :=
  if g.halted then g else
  match e with
  | .enter p =>
    { g with
      live := g.live ++ [p], entered := g.entered ++ [p],
      enteredWhileLive := g.enteredWhileLive || g.live.contains p,
      enterBeforeParent := g.enterBeforeParent || (p.length > 1 && !g.live.contains p.dropLast) }
  | .exit p =>
    { g with
      live := g.live.erase p,
      exitedWhileDead := g.exitedWhileDead || !g.live.contains p,
      enteredThenExited := g.enteredThenExited || g.entered.contains p,
      exitBeforeChild := g.exitBeforeChild || g.live.any fun q => properPrefix p q }
  | .fin _ mask => { g with entered := [], finBad := g.finBad || !finOk cfg g.live mask }
  | .raised _ (.user _) => { g with halted := true }
  | .raised _ (.base _) => { g with halted := true }
  | _ => g

def grun (cfg : NCfg) (g : G) (l : List GEv) : G := l.foldl (gstep cfg) g

def G.init (cfg : NCfg) (conf : Forest) : G :=
  { live := conf.nodes, finBad := !finOk cfg conf.nodes (confMask cfg conf) }

/-- no clause of the property is violated -/
def G.clean (g : G) : Bool :=
  !g.enteredWhileLive && !g.exitedWhileDead && !g.enteredThenExited && !g.enterBeforeParent
  && !g.exitBeforeChild && !g.finBad

/-- the monitor: bookkeeping over the projected trace, starting from the reported initial configuration -/
def check (cfg : NCfg) (conf : Forest) (items : List Item) : Bool :=
  (grun cfg (G.init cfg conf) (project cfg items)).clean

def verdict (cfg : NCfg) (conf : Forest) (items : List Item) : String :=
  let g := grun cfg (G.init cfg conf) (project cfg items)
  if g.clean then "ok" else
    "reject" ++ (if g.enteredWhileLive then " entered-while-active" else "")
      ++ (if g.exitedWhileDead then " exited-while-inactive" else "")
      ++ (if g.enteredThenExited then " entered-then-exited" else "")
      ++ (if g.enterBeforeParent then " enter-before-parent" else "")
      ++ (if g.exitBeforeChild then " exit-before-child" else "")
      ++ (if g.finBad then " configuration-mismatch" else "")

end C02
end TM
