/-
  Model/Spec/C17.lean — property C17 as an acceptor of observable timed traces.

  The acceptor keeps, per (state, model), only *when the state was entered and not left since*:
  `armed s m = some d` iff the last record about (s, m) is an `enter` made at time `d - timeout s`.
  Its clauses are the sentences of the property:

    enter      a state with a positive timeout entered at time t is due at t + timeout
               (re-entering restarts the period: the deadline is overwritten);
    exit       leaving the state ends the obligation and the permission to fire;
    fired      allowed only if the state is due *now* — entered exactly `timeout` ago and neither left
               nor fired since; firing consumes it (once);
    tick       time may only pass when nothing that is due has been left unfired (on time, and not
               never), every started handler has ended (a started handler is not cancelled) and
               every failed handler has reached on_exception (when the machine has such handlers);
    end        the same condition holds when the observation stops.

  Independent of `Model/Timeout.lean`'s engine functions (it only shares the record type).
  `keys` is the finite support the `tick`/end check ranges over.
-/
import Model.Timeout

namespace TM
namespace C17
open Timeout

structure Spec where
  timeout : Nat → Nat
  routes : Bool          -- failing handlers must reach on_exception (async class with on_exception)

structure Mon where
  ok : Bool
  now : Nat
  armed : Nat → Nat → Option Nat     -- state ↦ model ↦ deadline
  pend : Nat → Nat → Bool            -- handler started, not ended
  owed : Nat → Nat → Bool            -- handler failed, on_exception not yet seen
  keys : List (Nat × Nat)

def Mon.init : Mon :=
  { ok := true, now := 0, armed := fun _ _ => none, pend := fun _ _ => false, owed := fun _ _ => false, keys := [] }

def upd {α} (f : Nat → Nat → α) (s m : Nat) (v : α) : Nat → Nat → α :=
  fun s' m' => if s' = s ∧ m' = m then v else f s' m'

/-- nothing due is unfired, no handler is unfinished, no error is unrouted -/
def quiet (μ : Mon) : Bool :=
  μ.keys.all fun k =>
    (match μ.armed k.1 k.2 with
      | some d => decide (μ.now < d)
      | none => true) && !μ.pend k.1 k.2 && !μ.owed k.1 k.2

def mstep (sp : Spec) (μ : Mon) : Rec → Mon
  | .tick => { μ with ok := μ.ok && quiet μ, now := μ.now + 1 }
  | .enter m s =>
    if 0 < sp.timeout s then
      { μ with armed := upd μ.armed s m (some (μ.now + sp.timeout s)), keys := (s, m) :: μ.keys }
    else μ
  | .exit m s => { μ with armed := upd μ.armed s m none }
  | .fired m s =>
    { μ with ok := μ.ok && (μ.armed s m == some μ.now), armed := upd μ.armed s m none,
             pend := upd μ.pend s m true, keys := (s, m) :: μ.keys }
  | .firedEnd m s => { μ with ok := μ.ok && μ.pend s m, pend := upd μ.pend s m false }
  | .raised m s =>
    { μ with ok := μ.ok && μ.pend s m, pend := upd μ.pend s m false, owed := upd μ.owed s m sp.routes }
  | .routed m s => { μ with ok := μ.ok && μ.owed s m, owed := upd μ.owed s m false }

def monOf (sp : Spec) (log : List Rec) : Mon := log.foldl (mstep sp) Mon.init

/-- the property predicate on a complete observation -/
def accepts (sp : Spec) (log : List Rec) : Bool :=
  let μ := monOf sp log
  μ.ok && quiet μ

/-- the acceptor over an observation cut into segments at the assignments to `state.timeout`: each
segment is read with the timeouts in force during it (an entry is due `timeout` — as valid at the
entry — later; exits disarm whatever is armed) -/
def monSegs (μ : Mon) : List (Spec × List Rec) → Mon
  | [] => μ
  | (sp, recs) :: rest => monSegs (recs.foldl (mstep sp) μ) rest

def acceptsV (segs : List (Spec × List Rec)) : Bool :=
  let μ := monSegs Mon.init segs
  μ.ok && quiet μ

/-- the acceptor's parameters for a configuration of the model -/
def specOf (cfg : Cfg) : Spec := { timeout := cfg.timeout, routes := cfg.async && cfg.onExc }

/-! ### vocabulary of the declarative readings -/

/-- number of clock ticks in a stretch of trace = the time it spans -/
def ticks (l : List Rec) : Nat := (l.filter (· == .tick)).length

/-- no record about (m, s) — enter, exit or firing — occurs in the stretch -/
def Clean (m s : Nat) (l : List Rec) : Prop := ∀ r ∈ l, r ≠ .enter m s ∧ r ≠ .exit m s ∧ r ≠ .fired m s

/-- the model a record belongs to -/
def recModel : Rec → Option Nat
  | .tick => none
  | .enter m _ | .exit m _ | .fired m _ | .firedEnd m _ | .raised m _ | .routed m _ => some m

/-- the timer object in `state.runner[id(model)]` -/
def slot (st : St) (s m : Nat) : Option Timer := (st.runner s m).bind (fun i => st.timers[i]?)

/-- every runner slot holds a timer of that state and model -/
def Typed (st : St) : Prop :=
  ∀ s m i, st.runner s m = some i → ∃ t, st.timers[i]? = some t ∧ t.s = s ∧ t.m = m

end C17
end TM
