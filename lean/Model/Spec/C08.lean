/-
  Model/Spec/C08.lean — the trace predicates of property C08 that are judged on observed traces
  (verified monitors: `Props/C08.lean` proves that every model trace satisfies them).

  For a queue key `k` (`queued=True`: the single key 0, all models; `queued='model'`: the model):
    * `alternates`  — the processings of the key's events never overlap: in the projection of the trace
                      on `evstart`/`evend` of that key, every `evstart t` is followed by `evend t`
                      before the next `evstart`;
    * `fifo`        — events start in arrival order: the sequence of started events is a subsequence of
                      the sequence of `begin`s of that key (events dropped by a failure or by
                      `remove_model` never start; none overtakes).
-/
import Model.AsyncSched

namespace TM
namespace AS

def arrivals (c : Cfg) (k : Nat) : List Label → List Nat
  | [] => []
  | .begin t _ m :: ls => if c.key m = k then t :: arrivals c k ls else arrivals c k ls
  | _ :: ls => arrivals c k ls

def starts (c : Cfg) (k : Nat) : List Label → List Nat
  | [] => []
  | .evstart t m :: ls => if c.key m = k then t :: starts c k ls else starts c k ls
  | _ :: ls => starts c k ls

def alternates (c : Cfg) (k : Nat) : Option Nat → List Label → Bool
  | _, [] => true
  | o, .evstart t m :: ls =>
    if c.key m = k then (o == none && alternates c k (some t) ls) else alternates c k o ls
  | o, .evend t m _ :: ls =>
    if c.key m = k then (o == some t && alternates c k none ls) else alternates c k o ls
  | o, _ :: ls => alternates c k o ls

def fifo (c : Cfg) (k : Nat) (ls : List Label) : Bool := (starts c k ls).isSublist (arrivals c k ls)

def serialKey (c : Cfg) (k : Nat) (ls : List Label) : Bool := alternates c k none ls && fifo c k ls

def keysOf (c : Cfg) : List Label → List Nat
  | [] => []
  | .begin _ _ m :: ls => c.key m :: keysOf c ls
  | .evstart _ m :: ls => c.key m :: keysOf c ls
  | .evend _ m _ :: ls => c.key m :: keysOf c ls
  | _ :: ls => keysOf c ls

/-- the monitor run on implementation traces of queued machines -/
def serialOK (c : Cfg) (ls : List Label) : Bool := (keysOf c ls).all fun k => serialKey c k ls

end AS
end TM
