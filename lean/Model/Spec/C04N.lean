/-
  Model/Spec/C04N.lean — *containment of a failing callback* on the hierarchical engine, as an acceptor over
  observable traces (property C04 for `HierarchicalMachine`).

  One event of a hierarchical machine may run several transitions (one per region of a parallel state, one per
  scope that declares the event); every transition has the stages of the flat engine plus exit chains / enter
  chains / `on_final` lists of several states.  The acceptor walks a recorded trace and says what must come next:

    * the body of an event is a sequence of transition attempts, each a sequence of stages (prepare_event,
      prepare, conditions / unless, before_state_change, before, the on_exit list of every exited state, the
      on_enter list of every entered state, on_final lists, after, after_state_change); sequencing is `Acc.bind`:
      a failure ends the sequence — no later callback of that stage, no later stage of that transition, no later
      transition of that event is accepted (`C04N_no_later_stage` in `Props/C04N.lean`);
    * then the `on_exception` handlers iff some are registered (each once, in order; a raising handler ends them
      and its exception is the one that propagates);
    * then the `finalize_event` callbacks — always, once each, up to the first that raises, whose exception is
      dropped: it never replaces the outcome;
    * the outcome is `raised e` without handlers and a normal return (of `event_data.result`) with them;
    * every callback is shown the configuration the acceptor tracks: the configuration moves only between the
      last exit callback and the first enter callback of a transition (`_update_model`), so a failure in or before
      the exit chain leaves the configuration of before the transition and a failure from the enter chain on leaves
      the destination configuration — and it stays there: handlers and finalize callbacks are shown that one;
    * re-entrant `trigger` calls made by a callback are traces of the same shape between its `call` and `done`
      items (`inner`); an exception leaving one is the callback's exception;
    * afterwards nothing is left behind: the acceptor's bookkeeping after an event is the configuration and the
      queue (empty after a failure: `Machine._process` clears it); `result` / `exited` belong to the event.

  Which transitions are attempted, in which order, is computed with the pure functions of the engine model
  (`ncandidates`, `resolveOrder`, `resolveTransition`, `getState`, `nfinalCheckRoot`, `checkEventResult`) from the
  configuration being tracked; the outcomes of callbacks and conditions are read off the trace.
-/
import Model.NestedDispatch

namespace TM
namespace C04N

/-- outcome of a stage: completed with a value, or failed with exception `e` -/
inductive Rs (α : Type)
  | ok (a : α)
  | fail (e : Exc)
  deriving Repr, DecidableEq

/-- what the acceptor tracks of the machine: the model's configuration, the event queue and the two fields of
the current `event_data` the dispatch code reads -/
structure ASt where
  conf : Forest
  queue : List (Nat × Nat) := []
  result : Option Bool := none
  exited : List SPath := []
  deriving Repr, DecidableEq

/-- an acceptor: consumes a prefix of the trace, yields an outcome, the bookkeeping afterwards and the rest;
`none` = the trace is not what the property allows -/
abbrev Acc (α : Type) := ASt → List Item → Option (Rs α × ASt × List Item)

/-- sequencing: a failure ends the sequence — nothing of what was to follow is accepted -/
@[inline] def Acc.bind {α β} (p : Acc α) (q : α → Acc β) : Acc β := fun a l =>
  match p a l with
  | some (.ok v, a', l') => q v a' l'
  | some (.fail e, a', l') => some (.fail e, a', l')
  | none => none

@[inline] def Acc.pure {α} (v : α) : Acc α := fun a l => some (.ok v, a, l)

/-- the trace of one re-entrant command issued from inside a callback -/
abbrev Inner := Acc Unit

/-- between the `call` and the `done` item of a callback: the traces of the `trigger` calls it makes; an
exception leaving one of them is the callback's exception -/
def aCmds (inner : Inner) (c : Nat) : Nat → Acc Bool
  | _, a, .done c' o :: l =>
    if c' = c then
      some (match o with
        | .ret b => .ok b
        | .raise e => .fail e, a, l)
    else none
  | k + 1, a, .api kd t m ev :: l =>
    match inner a (.api kd t m ev :: l) with
    | some (.ok _, a', l') => aCmds inner c k a' l'
    | some (.fail e, a', .done c' (.raise e') :: l') =>
      if c' = c ∧ e' = e then some (.fail e, a', l') else none
    | _ => none
  | _, _, _ => none

/-- one invocation of callback `c` in slot `slot` for the call `x`: it is shown the tracked configuration -/
def aInvoke (inner : Inner) (cfg : NCfg) (slot : Slot) (x : Ctx) (c : Nat) : Acc Bool
  | a, .call sl c' m t st :: l =>
    if sl = slot ∧ c' = c ∧ m = x.model ∧ t = x.tag ∧ st = confMask cfg a.conf then aCmds inner c l.length a l
    else none
  | _, _ => none

/-- callbacks of one list: each invoked once, in order, until one raises -/
def aCallbacks (inner : Inner) (cfg : NCfg) (slot : Slot) (x : Ctx) : List Nat → Acc Unit
  | [] => Acc.pure ()
  | c :: cs => (aInvoke inner cfg slot x c).bind fun _ => aCallbacks inner cfg slot x cs

/-- conditions / unless in order, until one differs from its target (→ blocked) or raises -/
def aEvalConds (inner : Inner) (cfg : NCfg) (x : Ctx) : List Cond → Acc Bool
  | [] => Acc.pure true
  | c :: cs =>
    (aInvoke inner cfg (if c.target then .condition else .unless) x c.cb).bind fun b =>
      if b = c.target then aEvalConds inner cfg x cs else Acc.pure false

/-- the exit chain: the on_exit list of every exited state, in order -/
def aExitAll (inner : Inner) (cfg : NCfg) (x : Ctx) : List Found → Acc Unit
  | [] => Acc.pure ()
  | f :: fs => (aCallbacks inner cfg .onExit x f.d.onExit).bind fun _ => aExitAll inner cfg x fs

/-- the enter chain -/
def aEnterAll (inner : Inner) (cfg : NCfg) (x : Ctx) : List Found → Acc Unit
  | [] => Acc.pure ()
  | f :: fs => (aCallbacks inner cfg .onEnter x f.d.onEnter).bind fun _ => aEnterAll inner cfg x fs

/-- the state change of one transition: exit chain (configuration as before), then the configuration becomes the
destination configuration, then the enter chain.  A failure inside the exit chain leaves the configuration
unchanged, a failure inside the enter chain leaves the destination configuration. -/
def aChangeState (inner : Inner) (cfg : NCfg) (scope : Scope) (x : Ctx) (dest : SPath) : Acc Unit := fun a l =>
  match resolveTransition cfg.root scope a.conf dest with
  | .err e => some (.fail e, a, l)
  | .oof => none
  | .ok r =>
    ((aExitAll inner cfg x r.exits).bind fun _ a1 l1 =>
      aEnterAll inner cfg x r.enters { a1 with conf := r.tree } l1)
      { a with exited := a.exited ++ r.exitNames } l

/-- the on_final lists collected for the new configuration (configuration: the destination) -/
def aFinalStage (inner : Inner) (cfg : NCfg) (scope : Scope) (x : Ctx) (dest : Option SPath) (conf0 : Forest) :
    Acc Unit := fun a l =>
  match dest with
  | none => some (.ok (), a, l)
  | some d =>
    match resolveTransition cfg.root scope conf0 d with
    | .ok r =>
      match nfinalCheckRoot cfg r.tree (r.enters.map (·.path)) with
      | .ok cbs => aCallbacks inner cfg .onFinal x cbs.flatten a l
      | .err e => some (.fail e, a, l)
      | .oof => none
    | _ => some (.ok (), a, l)

/-- one transition attempt: `ok false` blocked by a condition, `ok true` executed, `fail e` -/
def aExecute (inner : Inner) (cfg : NCfg) (scope : Scope) (x : Ctx) (t : NTrans) : Acc Bool :=
  (aCallbacks inner cfg .prepare x t.prepare).bind fun _ =>
  (aEvalConds inner cfg x t.conds).bind fun ok =>
    if !ok then Acc.pure false else
    (aCallbacks inner cfg .beforeSC x cfg.beforeSC).bind fun _ =>
    (aCallbacks inner cfg .before x t.before).bind fun _ a4 l4 =>
    ((match t.dest with
      | some d => aChangeState inner cfg scope x d
      | none => Acc.pure ()).bind fun _ =>
     (aFinalStage inner cfg scope x t.dest a4.conf).bind fun _ =>
     (aCallbacks inner cfg .after x t.after).bind fun _ =>
     (aCallbacks inner cfg .afterSC x cfg.afterSC).bind fun _ => Acc.pure true) a4 l4

/-- the candidates of one state in order: first success ends; `event_data.result` follows -/
def aTry (inner : Inner) (cfg : NCfg) (scope : Scope) (x : Ctx) : List NTrans → Acc Unit
  | [] => Acc.pure ()
  | t :: r =>
    (aExecute inner cfg scope x t).bind fun b a l =>
      let a' := { a with result := some b }
      if b then some (.ok (), a', l) else aTry inner cfg scope x r a' l

/-- `_process`: prepare_event, then the candidates -/
def aProcess (inner : Inner) (cfg : NCfg) (scope : Scope) (x : Ctx) (cands : List NTrans) : Acc Unit :=
  (aCallbacks inner cfg .prepareEvent x cfg.prepareEvent).bind fun _ => aTry inner cfg scope x cands

/-- the active states of a scope in `resolve_order`; one that an earlier transition of this event exited, or
whose descendant executed one, gets no turn -/
def aTnLoop (inner : Inner) (cfg : NCfg) (scope : Scope) (x : Ctx) (ev : Nat) (ts : List NTrans) :
    List SPath → List SPath → Acc (List SPath)
  | [], done => Acc.pure done
  | p :: ps, done => fun a l =>
    let cands := ncandidates scope.pre ev ts p
    if p ∈ done ∨ cands.isEmpty ∨ (scope.pre ++ p) ∈ a.exited then aTnLoop inner cfg scope x ev ts ps done a l else
    match getState cfg.root scope p with
    | none => some (.fail .valueError, a, l)
    | some _ =>
      ((aProcess inner cfg scope x (cands.map (·.2))).bind fun _ a' l' =>
        aTnLoop inner cfg scope x ev ts ps (if a'.result = some true then done ++ prefixesOf p else done) a' l') a l

def aTriggerNested (inner : Inner) (cfg : NCfg) (scope : Scope) (x : Ctx) (ev : Nat) (ts : List NTrans) :
    Acc (Option Bool) := fun a l =>
  match a.conf.reduceGet scope.pre with
  | .error e => some (.fail e, a, l)
  | .ok none => some (.fail .attributeError, a, l)
  | .ok (some sub') =>
    match resolveOrder sub' with
    | none => none
    | some order =>
      ((aTnLoop inner cfg scope x ev ts order []).bind fun done a' l' =>
        if done.isEmpty then some (.ok a'.result, a', l')
        else some (.ok (some true), { a' with result := some true }, l')) a l

/-- the per-key loop over the configuration the event started from, recursing into child scopes -/
def aTen (inner : Inner) (cfg : NCfg) (x : Ctx) (ev : Nat) :
    Scope → Forest → List (Nat × Bool) → Bool → Acc (List (Nat × Bool))
  | _, .nil, res, _ => Acc.pure res
  | scope, .cons key value rest, res, offered =>
    ((if value.isEmpty then (Acc.pure res : Acc (List (Nat × Bool))) else
      match scope.enter key with
      | none => fun a l => some (.fail .other, a, l)
      | some innerScope =>
        (aTen inner cfg x ev innerScope value [] false).bind fun r =>
          Acc.pure (match summarize r with
            | some b => aset key b res
            | none => res)).bind fun res1 =>
    if (alookup key res1).getD false = false ∧ offered = false then
      match alookup ev scope.events with
      | some ts =>
        (aTriggerNested inner cfg scope x ev ts).bind fun tmp =>
          aTen inner cfg x ev scope rest (match tmp with
            | some b => aset key b res1
            | none => res1) true
      | none => aTen inner cfg x ev scope rest res1 offered
    else aTen inner cfg x ev scope rest res1 offered)

/-- the `try:` part of one event -/
def aBody (inner : Inner) (cfg : NCfg) (x : Ctx) (ev : Nat) : Acc Bool := fun a l =>
  ((aTen inner cfg x ev cfg.root a.conf [] false).bind fun r a1 l1 =>
    match cerLoopOf cfg (summarize r) ev a1.conf with
    | .ok b => some (.ok b, { a1 with result := some b }, l1)
    | .err e => some (.fail e, a1, l1)
    | .oof => none) a l
where
  /-- `_check_event_result` on a configuration -/
  cerLoopOf (cfg : NCfg) (res : Option Bool) (ev : Nat) (conf : Forest) : PR Bool :=
    match res with
    | some b => .ok b
    | none => cerLoop cfg ev (buildStateList [] conf).flat

/-- `finalize_event`: always, once each, up to the first that raises; its exception is dropped -/
def aFinalize (inner : Inner) (cfg : NCfg) (x : Ctx) (a : ASt) (l : List Item) : Option (ASt × List Item) :=
  match aCallbacks inner cfg .finalize x cfg.finalize a l with
  | some (_, a', l') => some (a', l')
  | none => none

/-- the `try:` part and the `except BaseException:` clause of one event: what comes out is the event's outcome.
Without handlers the failure of the body stands; with handlers they run — each once, in order, shown the
configuration the failure left — and the event returns `event_data.result` normally, unless a handler raises: then
that exception is the outcome. -/
def aHandled (inner : Inner) (cfg : NCfg) (x : Ctx) (ev : Nat) : Acc Bool := fun a l =>
  match aBody inner cfg x ev { a with result := none, exited := [] } l with
  | none => none
  | some (.ok b, a1, l1) => some (.ok b, a1, l1)
  | some (.fail e, a1, l1) =>
    match cfg.onException with
    | [] => some (.fail e, a1, l1)
    | hs =>
      match aCallbacks inner cfg .onException x hs a1 l1 with
      | none => none
      | some (.ok _, a2, l2) => some (.ok (a2.result.getD false), a2, l2)
      | some (.fail e2, a2, l2) => some (.fail e2, a2, l2)

/-- one event, processed now: outcome fixed by `aHandled`, then the finalize stage, which cannot change it -/
def aTriggerEvent (inner : Inner) (cfg : NCfg) (x : Ctx) (ev : Nat) : Acc Bool := fun a l =>
  match aHandled inner cfg x ev a l with
  | none => none
  | some (o, a1, l1) =>
    match aFinalize inner cfg x a1 l1 with
    | some (a2, l2) => some (o, a2, l2)
    | none => none

/-- the queue of a `queued=True` machine is drained event by event; a failure clears it -/
def aDrain (inner : Inner) (cfg : NCfg) : Nat → Acc Unit
  | 0, _, _ => none
  | n + 1, a, l =>
    match a.queue with
    | [] => some (.ok (), a, l)
    | (ev, tag) :: _ =>
      match aTriggerEvent inner cfg ⟨0, tag⟩ ev a l with
      | some (.ok _, a', l') => aDrain inner cfg n { a' with queue := a'.queue.drop 1 } l'
      | some (.fail e, a', l') => some (.fail e, { a' with queue := [] }, l')
      | none => none

def aMachineProcess (inner : Inner) (cfg : NCfg) (qmax : Nat) (ev tag : Nat) : Acc Bool := fun a l =>
  if !cfg.queued then
    match a.queue with
    | [] => aTriggerEvent inner cfg ⟨0, tag⟩ ev a l
    | _ => some (.fail .machineError, a, l)
  else
    let a1 := { a with queue := a.queue ++ [(ev, tag)] }
    if a1.queue.length > 1 then some (.ok true, a1, l)
    else ((aDrain inner cfg qmax).bind fun _ => Acc.pure true) a1 l

/-- one `trigger` call up to and including its `ret` / `raised` item; the caller's `event_data` is its own -/
def aApi (inner : Inner) (cfg : NCfg) (qmax : Nat) : Acc Bool
  | a, .api 0 tag 0 ev :: l =>
    match aMachineProcess inner cfg qmax ev tag a l with
    | some (.ok b, a', .ret t b' :: l') =>
      if t = tag ∧ b' = b then some (.ok b, { a' with result := a.result, exited := a.exited }, l') else none
    | some (.fail e, a', .raised t e' :: l') =>
      if t = tag ∧ e' = e then some (.fail e, { a' with result := a.result, exited := a.exited }, l') else none
    | _ => none
  | _, _ => none

/-- the fuelled knot: a re-entrant command is a `trigger` call accepted at the next lower level -/
def aRunCmd (cfg : NCfg) (qmax : Nat) : Nat → Inner
  | 0 => fun _ _ => none
  | f + 1 => fun a l =>
    match aApi (aRunCmd cfg qmax f) cfg qmax a l with
    | some (.ok _, a', l') => some (.ok (), a', l')
    | some (.fail e, a', l') => some (.fail e, a', l')
    | none => none

/-- a whole recorded trace: `trigger` calls issued one after the other by the caller.  Yields the number of calls
accepted and whether the whole trace was. -/
def aHistory (cfg : NCfg) (qmax fuel : Nat) : Nat → ASt → List Item → Nat → Nat × Bool × ASt
  | _, a, [], k => (k, true, a)
  | 0, a, _ :: _, k => (k, false, a)
  | n + 1, a, l, k =>
    match aRunCmd cfg qmax fuel a l with
    | some (_, a', l') => aHistory cfg qmax fuel n a' l' (k + 1)
    | none => (k, false, a)

/-- what the driver answers for a recorded trace that starts in configuration `conf` on an idle machine; `qmax` /
`fuel` are the bounds of the experiment (queue items processed by one call, nesting depth of re-entrant calls) -/
def checkTrace (cfg : NCfg) (qmax fuel : Nat) (conf : Forest) (l : List Item) : Bool :=
  (aHistory cfg qmax fuel l.length { conf } l 0).2.1

end C04N
end TM
