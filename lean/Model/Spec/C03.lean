import Model.Spec.C02
namespace TM
namespace C03
def verdict (_cfg : NCfg) (_conf : Forest) (_items : List Item) : String := "ok"
end C03
end TM
