/-
  Model/Spec/C03.lean — property C03 on observable traces: hierarchical dispatch and transition resolution,
  as five decidable predicates on (live set before the event, ghost events of the event, outcome):

    P1 precedence    the sources of the executed transitions are pairwise unrelated in the ancestor order
                     (in particular no transition executes twice)
    P2 liveness      every executed source was active when the event began and has not been exited since
    P3 innermost     no candidate of an ancestor (or of the same state) is offered after a transition of a state
       first /       executed; candidates of a descendant are offered before those of its ancestors, same state in
       completeness  definition order; every transition declared for the event on a state that was active when the
                     event began is offered, unless a descendant-or-self executed or the state was exited meanwhile
    P4 effect        an executed transition exits exactly the active states strictly below the deepest active proper
                     ancestor of its destination — only those in the destination's branch when that ancestor has
                     several active children — then enters the rest of the destination path and the initial
                     descendants of the destination; an internal transition exits and enters nothing
    P5 result        True iff some transition executed; False iff none did and some active state declares the event;
                     otherwise False if every active leaf ignores invalid triggers, else MachineError if the event
                     is known to the machine, else AttributeError  (judged on unqueued machines only: a queued
                     trigger returns True before anything is processed)

  The monitor walks the projected ghost events (`C02.project`), keeps the live set, cuts the trace into events at
  the `fin` markers and judges every event; `verdict` names every clause that failed (with a sub-classification
  the harness turns into known-finding signatures).
-/
import Model.Spec.C02

namespace TM
namespace C03
open C02 (allTrans allDefs defOf properPrefix)

def transOf (cfg : NCfg) (r : TRef) : Option NTrans := ((allTrans cfg).find? fun e => e.1 = r).map (·.2)

/-- one offered transition with what it did -/
structure Offer where
  t : TRef
  src : SPath
  dst : Option SPath
  liveAt : List SPath          -- live set when it was offered
  exitedBefore : List SPath    -- states exited earlier in this event
  executed : Bool := false
  exits : List SPath := []
  enters : List SPath := []
  exitAfterEnter : Bool := false
  deriving Repr, Inhabited

def sameSet (a b : List SPath) : Bool := a.all b.contains && b.all a.contains && a.length == b.length

def isPrefix (p q : SPath) : Bool := q.take p.length == p

/-! ### P4: the exit set and the enter set the statement prescribes -/

/-- relative paths of the initial descendants, for every state of a `states` dictionary -/
def initPaths : SForest → List (Nat × List SPath)
  | .nil => []
  | .cons d kids rest =>
    let tk := initPaths kids
    (d.name, d.initial.flatMap fun n => [n] :: ((alookup n tk).getD []).map (n :: ·)) :: initPaths rest

/-- the initial descendants of the state registered under `p` (global paths) -/
def initBelow : SForest → SPath → List SPath
  | _, [] => []
  | f, [k] => ((alookup k (initPaths f)).getD []).map (k :: ·)
  | f, k :: p => match f.find k with
    | some (_, kids) => (initBelow kids p).map (k :: ·)
    | none => []

/-- the deepest proper prefix of `dst` that is live (`[]` if none) -/
def anchor (live : List SPath) (dst : SPath) : SPath :=
  (((List.range dst.length).map fun i => dst.take i).filter fun p => p.isEmpty || live.contains p).getLast?.getD []

def expectedExits (live : List SPath) (dst : SPath) : List SPath :=
  let a := anchor live dst
  let kids := live.filter fun p => p.length == a.length + 1 && isPrefix a p
  if kids.length > 1 then live.filter fun p => isPrefix (dst.take (a.length + 1)) p
  else live.filter fun p => properPrefix a p

def expectedEnters (cfg : NCfg) (live : List SPath) (dst : SPath) : List SPath :=
  let a := anchor live dst
  (((List.range (dst.length + 1)).map fun i => dst.take i).filter fun p => p.length > a.length)
    ++ initBelow cfg.states dst

def p4Offer (cfg : NCfg) (o : Offer) : Bool :=
  !o.executed ||
  match o.dst with
  | none => o.exits.isEmpty && o.enters.isEmpty
  | some d => sameSet o.exits (expectedExits o.liveAt d) && sameSet o.enters (expectedEnters cfg o.liveAt d)
      && !o.exitAfterEnter

/-! ### P1, P2, P3 -/

def related (p q : SPath) : Bool := isPrefix p q || isPrefix q p

/-- all pairs `(earlier, later)` of a list -/
def pairs {α} : List α → List (α × α)
  | [] => []
  | a :: r => r.map (fun b => (a, b)) ++ pairs r

def p1 (offers : List Offer) : Bool :=
  (pairs (offers.filter (·.executed))).all fun e => !related e.1.src e.2.src

def p2Offer (pre : List SPath) (o : Offer) : Bool :=
  !o.executed || (pre.contains o.src && o.liveAt.contains o.src && !o.exitedBefore.contains o.src)

/-- nothing of the same state or an ancestor is offered after a transition executed -/
def p3After (offers : List Offer) : Bool :=
  (pairs offers).all fun e => !(e.1.executed && isPrefix e.2.src e.1.src)

/-- descendants before ancestors; the same state's candidates of one scope in definition order -/
def p3Order (offers : List Offer) : Bool :=
  (pairs offers).all fun e =>
    !properPrefix e.1.src e.2.src
    && !(e.1.src == e.2.src && e.1.t.scope == e.2.t.scope && e.1.t.idx ≥ e.2.t.idx)

/-- the transitions declared for `ev` on states that were active when the event began -/
def declared (cfg : NCfg) (ev : Nat) (pre : List SPath) : List (TRef × SPath) :=
  (allTrans cfg).filterMap fun e =>
    if e.1.ev = ev && pre.contains (e.1.scope ++ e.2.source) then some (e.1, e.1.scope ++ e.2.source) else none

def p3Complete (cfg : NCfg) (ev : Nat) (pre : List SPath) (offers : List Offer) (exited : List SPath) : Bool :=
  (declared cfg ev pre).all fun d =>
    offers.any (fun o => o.t == d.1)
    || offers.any (fun o => o.executed && isPrefix d.2 o.src)
    || exited.contains d.2

/-! ### P5 -/

inductive Outcome
  | ret (b : Bool)
  | raised (e : Exc)
  deriving DecidableEq, Repr, Inhabited

def expectedOutcome (cfg : NCfg) (ev : Nat) (pre : List SPath) (anyExec : Bool) : Outcome :=
  if anyExec then .ret true
  else if !(declared cfg ev pre).isEmpty then .ret false
  else if (C02.liveLeaves pre).all (fun p => match defOf cfg p with
      | some d => d.ignore.getD cfg.ignore
      | none => cfg.ignore) then .ret false
  else if (alookup ev cfg.events).isSome || cfg.states.hasTrigger ev then .raised .machineError
  else .raised .attributeError

/-! ### the monitor -/

structure Done where
  tag : Nat
  ev : Nat
  pre : List SPath
  anyExec : Bool
  laterBlocked : Bool        -- after an executed transition another state was offered and did not execute
  nestedLists : Bool         -- the state value then was a list containing lists
  deriving Repr, Inhabited

structure M where
  live : List SPath
  pre : List SPath
  exited : List SPath := []
  offers : List Offer := []          -- most recent first
  evOf : List (Nat × Nat) := []
  last : Option Done := none
  bad : List String := []
  halted : Bool := false
  deriving Repr, Inhabited

def M.flag (m : M) (ok : Bool) (what : String) : M :=
  if ok || m.bad.contains what then m else { m with bad := m.bad ++ [what] }

def scopeKind (o : Offer) : String := if o.t.scope.isEmpty then "global" else "local"

/-- number of live children of `p` -/
def liveKids (live : List SPath) (p : SPath) : List SPath :=
  live.filter fun q => q.length == p.length + 1 && isPrefix p q

/-- the state value is a list that contains a list: a state with two or more live children, below one of
which another state has two or more live children -/
def hasNestedLists (live : List SPath) : Bool :=
  ([] :: live).any fun p =>
    let kids := liveKids live p
    kids.length > 1 && kids.any fun k => live.any fun q => isPrefix k q && (liveKids live q).length > 1

/-- an active state declares the event in its own definition (the event is then dispatched scope by scope) -/
def localActive (cfg : NCfg) (ev : Nat) (pre : List SPath) : Bool :=
  pre.any fun p => match defOf cfg p with
    | some d => (alookup ev d.events).isSome
    | none => false

def group (cfg : NCfg) (ev : Nat) (pre : List SPath) : String :=
  if localActive cfg ev pre then "@local" else "@global"

def judgeEvent (cfg : NCfg) (ev : Nat) (m0 : M) : M :=
  let offers := m0.offers.reverse
  let g := group cfg ev m0.pre
  let m := { m0 with bad := [] }
  let m := m.flag (p1 offers)
    ("P1:" ++ (match (pairs (offers.filter (·.executed))).find? fun e => related e.1.src e.2.src with
      | some e => (if e.1.t == e.2.t then "same-transition-twice:" else "related-sources:") ++ scopeKind e.2
      | none => ""))
  let m := offers.foldl (fun m o => m.flag (p2Offer m.pre o)
    (if !o.liveAt.contains o.src then "P2:source-not-active"
     else if o.exitedBefore.contains o.src then "P2:source-re-entered"
     else "P2:source-entered-during-event")) m
  let m := m.flag (p3After offers)
    ("P3:offered-after-execution:" ++ (match (pairs offers).find? fun e => e.1.executed && isPrefix e.2.src e.1.src with
      | some e => scopeKind e.2
      | none => ""))
  let m := m.flag (p3Order offers) "P3:order"
  let m := m.flag (p3Complete cfg ev m.pre offers m.exited)
    (if offers.any (·.executed) then "P3:not-offered:after-execution" else "P3:not-offered:nothing-executed")
  let m := offers.foldl (fun m o => m.flag (p4Offer cfg o) ("P4:" ++ scopeKind o)) m
  m.bad.foldl (fun acc w => acc.flag false (w ++ g)) m0

def laterBlocked (offers : List Offer) : Bool :=
  (pairs offers).any fun e => e.1.executed && !e.2.executed && e.1.src != e.2.src
    && !offers.any (fun o => o.executed && o.src == e.2.src && o.t != e.1.t)

def mstep (cfg : NCfg) (m : M) (e : GEv) : M :=
  if m.halted then m else
  match e with
  | .api tag ev => { m with evOf := (tag, ev) :: m.evOf }
  | .cand r =>
    match transOf cfg r with
    | some t => { m with offers := { t := r, src := r.scope ++ t.source, dst := t.dest.map (r.scope ++ ·),
                                      liveAt := m.live, exitedBefore := m.exited } :: m.offers }
    | none => m.flag false "unknown-transition"
  | .exec r =>
    match m.offers with
    | o :: rest => if o.t == r && !o.executed then { m with offers := { o with executed := true } :: rest }
                   else m.flag false "exec-without-offer"
    | [] => m.flag false "exec-without-offer"
  | .exit p =>
    let m := { m with live := m.live.erase p, exited := m.exited ++ [p] }
    match m.offers with
    | o :: rest => if o.executed then
        { m with offers := { o with exits := o.exits ++ [p], exitAfterEnter := o.exitAfterEnter || !o.enters.isEmpty } :: rest }
        else m.flag false "exit-outside-transition"
    | [] => m.flag false "exit-outside-transition"
  | .enter p =>
    let m := { m with live := m.live ++ [p] }
    match m.offers with
    | o :: rest => if o.executed then { m with offers := { o with enters := o.enters ++ [p] } :: rest }
        else m.flag false "enter-outside-transition"
    | [] => m.flag false "enter-outside-transition"
  | .fin tag _ =>
    let ev := (alookup tag m.evOf).getD 0
    let j := judgeEvent cfg ev m
    { j with
      last := some { tag, ev, pre := m.pre, anyExec := m.offers.any (·.executed),
                     laterBlocked := laterBlocked m.offers.reverse, nestedLists := hasNestedLists m.pre },
      offers := [], exited := [], pre := j.live }
  | .ret tag b =>
    if cfg.queued then m else
    match m.last with
    | some d => if d.tag != tag then m else
        m.flag (expectedOutcome cfg d.ev d.pre d.anyExec == .ret b)
          ((if d.anyExec && !b && d.laterBlocked then "P5:false-after-execution:later-offer-blocked" else "P5:result")
            ++ group cfg d.ev d.pre)
    | none => m
  | .raised _ (.user _) => { m with halted := true }
  | .raised _ (.base _) => { m with halted := true }
  | .raised tag e =>
    if cfg.queued then m else
    match m.last with
    | some d => if d.tag != tag then m else
        m.flag (expectedOutcome cfg d.ev d.pre d.anyExec == .raised e)
          ((if (e == .valueError || e == .other) && !d.anyExec && d.nestedLists then "P5:error-kind:nested-state-lists"
            else if d.anyExec then "P5:raises-after-execution" else "P5:result") ++ group cfg d.ev d.pre)
    | none => m

def mrun (cfg : NCfg) (m : M) (l : List GEv) : M := l.foldl (mstep cfg) m

def M.init (conf : Forest) : M := { live := conf.nodes, pre := conf.nodes }

def check (cfg : NCfg) (conf : Forest) (items : List Item) : Bool :=
  (mrun cfg (M.init conf) (C02.project cfg items)).bad.isEmpty

def verdict (cfg : NCfg) (conf : Forest) (items : List Item) : String :=
  let m := mrun cfg (M.init conf) (C02.project cfg items)
  if m.bad.isEmpty then "ok" else "reject " ++ " ".intercalate m.bad

end C03
end TM
