/-
  Model/Spec/C07.lean — vocabulary of property C07 ("async machines match the synchronous semantics
  when awaited one at a time"): the observation map `obsC07`, the hypotheses under which the
  equivalence is claimed, and the counting function used by the stage-barrier theorem.
-/
import Model.Async

namespace TM
namespace C07

/-- an invocation that neither awaits triggers nor raises -/
def Quiet (a : Act) : Prop := a.cmds = [] ∧ ∃ b, a.out = .ret b

/-- a callback that does the same at every invocation (a deterministic condition) -/
def Const (sc : Script) (c : Nat) : Prop := ∀ j k, sc c j = sc c k

/-- One `gather` stage is within C07's regime when a callback that awaits triggers or raises sits
alone in it: with two or more callbacks in the stage every one of them is quiet.
(A callback awaiting a trigger next to siblings means two call chains in flight at once — not "one at
a time"; a raising callback next to siblings is the `gather` finding, see `Props/C07.lean`.) -/
def StageOK (sc : Script) (l : List Nat) : Prop :=
  l.length ≤ 1 ∨ ∀ c ∈ l, ∀ k, Quiet (sc c k)

/-- conditions that share a stage are deterministic predicates -/
def CondsOK (sc : Script) (l : List Cond) : Prop :=
  l.length ≤ 1 ∨ ∀ cd ∈ l, Const sc cd.cb ∧ ∀ k, Quiet (sc cd.cb k)

def TransStaged (sc : Script) (t : Trans) : Prop :=
  StageOK sc t.prepare ∧ CondsOK sc t.conds ∧ StageOK sc t.before ∧ StageOK sc t.after

structure WellStaged (cfg : Cfg) (sc : Script) : Prop where
  trans : ∀ e ∈ cfg.events, ∀ t ∈ e.2, TransStaged sc t
  states : ∀ d ∈ cfg.states, StageOK sc d.onEnter ∧ StageOK sc d.onExit
  prepareEvent : StageOK sc cfg.prepareEvent
  beforeSC : StageOK sc cfg.beforeSC
  afterSC : StageOK sc cfg.afterSC
  finalize : StageOK sc cfg.finalize
  onException : StageOK sc cfg.onException
  onFinal : StageOK sc cfg.onFinal

/-- the commands of C07's histories: awaited triggers; with `queued='model'` (qm = 2) the comparison
with the synchronous machine-wide queue is claimed for one model `m0` -/
def CmdOK (qm m0 : Nat) (c : Cmd) : Prop := ∃ m ev, c = .trigger m ev ∧ (qm = 2 → m = m0)

def ScriptOK (qm m0 : Nat) (sc : Script) : Prop := ∀ c k, ∀ cmd ∈ (sc c k).cmds, CmdOK qm m0 cmd

/-- ... and awaited `may_<event>` polls (on any model: a poll touches no queue) -/
def CmdOKP (qm m0 : Nat) (c : Cmd) : Prop := CmdOK qm m0 c ∨ ∃ m ev, c = .may m ev

def ScriptOKP (qm m0 : Nat) (sc : Script) : Prop := ∀ c k, ∀ cmd ∈ (sc c k).cmds, CmdOKP qm m0 cmd

/-! ### the licensed difference and the observation map -/

/-- the (deterministic) condition does not meet its target -/
def condFails (sc : Script) (cd : Cond) : Bool :=
  match (sc cd.cb 0).out with
  | .ret b => b != cd.target
  | .raise _ => false

/-- the conditions of a candidate that come after its first failing one -/
def afterFail (sc : Script) : List Cond → List Cond
  | [] => []
  | cd :: r => if condFails sc cd then r else afterFail sc r

/-- callback `c` is a condition standing after the first failing condition of some candidate: a
synchronous machine never evaluates it there, an async machine does (gather) -/
def dead (cfg : Cfg) (sc : Script) (c : Nat) : Bool :=
  cfg.events.any fun e => e.2.any fun t => (afterFail sc t.conds).any fun cd => cd.cb == c

def isCondSlot : Slot → Bool
  | .condition => true
  | .unless => true
  | _ => false

/-- what C07 compares: callback STARTS in order (slot, callback, model, tag, state seen), API calls,
returned values and exception kinds.  Dropped: `done` items (when a callback finishes relative to its
siblings is the barrier theorem's business) and the calls of dead conditions (the licensed
difference). -/
def keep (cfg : Cfg) (sc : Script) : Item → Bool
  | .done _ _ => false
  | .call slot c _ _ _ => !(isCondSlot slot && dead cfg sc c)
  | _ => true

def obsC07 (cfg : Cfg) (sc : Script) (l : List Item) : List Item := l.filter (keep cfg sc)

/-- agreement of two whole runs (`none` = the fuelled interpreter gave no answer): same observation,
same model states, same registered models, same pending queue -/
def Agree (cfg : Cfg) (sc : Script) : Option St → Option St → Prop
  | some a, some b =>
    obsC07 cfg sc a.log = obsC07 cfg sc b.log ∧ a.mstate = b.mstate ∧ a.models = b.models ∧ a.queue = b.queue
  | none, none => True
  | _, _ => False

instance (cfg : Cfg) (sc : Script) : ∀ x y, Decidable (Agree cfg sc x y)
  | some a, some b => inferInstanceAs (Decidable (_ ∧ _ ∧ _ ∧ _))
  | none, none => isTrue trivial
  | some _, none => isFalse id
  | none, some _ => isFalse id

/-! ### counting open callbacks (stage barrier) -/

def nCalls (l : List Item) : Nat := (l.filter fun i => match i with | .call .. => true | _ => false).length
def nDones (l : List Item) : Nat := (l.filter fun i => match i with | .done .. => true | _ => false).length

/-- the callback starts of a trace segment, in order -/
def callsOf (l : List Item) : List (Slot × Nat) :=
  l.filterMap fun i => match i with | .call sl c _ _ _ => some (sl, c) | _ => none

end C07
end TM
