/-
  Model/Spec/C04.lean — *containment of a failing callback* for one flat event step, as an acceptor
  over observable traces (property C04).  It extends the documented order of `Spec/C01.lean` to
  callbacks that raise:

    * the segment is the no-failure segment cut right after the first raising call — no callback of
      a later stage (nor a later callback of the same stage) runs;
    * then the `on_exception` handlers run iff some are registered (each exactly once, in order; a
      raising handler ends them and its exception is the one that propagates);
    * then the `finalize_event` callbacks run — always, once each, up to the first that raises,
      whose exception is swallowed: it never replaces the outcome;
    * the outcome is `raised e` without handlers and a normal `False` return with them;
    * the model's state afterwards is the state before the event if the failure happened at or
      before the source's exit callbacks, the destination if it happened at or after the
      destination's enter callbacks — the `st` carried by `Rs.fail` — never anything else.

  Written independently of the engine model: it walks a trace and says what must come next.
-/
import Model.Core

namespace TM
namespace C04

/-- outcome of a stage: completed with a value, or failed with exception `e` while the model's
state was `st` -/
inductive Rs (α : Type)
  | ok (a : α)
  | fail (e : Exc) (st : Nat)
  deriving Repr

abbrev AccE (α : Type) := List Item → Option (Rs α × List Item)

/-- callbacks of one list: each invoked once, in order, until one raises -/
def expectCbs (slot : Slot) (m tag st : Nat) : List Nat → AccE Unit
  | [], l => some (.ok (), l)
  | c :: cs, .call sl c' m' t' st' :: .done c'' o :: l =>
    if sl = slot ∧ c' = c ∧ c'' = c ∧ m' = m ∧ t' = tag ∧ st' = st then
      match o with
      | .ret _ => expectCbs slot m tag st cs l
      | .raise e => some (.fail e st, l)
    else none
  | _ :: _, _ => none

/-- conditions / unless in order, until one differs from its target (→ blocked) or raises -/
def expectConds (m tag st : Nat) : List Cond → AccE Bool
  | [], l => some (.ok true, l)
  | c :: cs, .call sl c' m' t' st' :: .done c'' o :: l =>
    if sl = (if c.target then Slot.condition else Slot.unless) ∧ c' = c.cb ∧ c'' = c.cb ∧ m' = m ∧ t' = tag ∧ st' = st then
      match o with
      | .ret b => if b = c.target then expectConds m tag st cs l else some (.ok false, l)
      | .raise e => some (.fail e st, l)
    else none
  | _ :: _, _ => none

/-- sequencing: a failure ends the sequence — nothing of a later stage is accepted -/
@[inline] def andThen {α β} (p : AccE α) (q : α → AccE β) : AccE β := fun l =>
  match p l with
  | some (.ok a, l') => q a l'
  | some (.fail e st, l') => some (.fail e st, l')
  | none => none

@[inline] def pureA {α} (a : α) : AccE α := fun l => some (.ok a, l)

/-- one candidate: `ok none` blocked, `ok (some st')` executed, `fail e st` -/
def expectCand (cfg : Cfg) (m tag src : Nat) (t : Trans) : AccE (Option Nat) :=
  andThen (expectCbs .prepare m tag src t.prepare) fun _ =>
  andThen (expectConds m tag src t.conds) fun ok =>
    if !ok then pureA none else
    andThen (expectCbs .beforeSC m tag src cfg.beforeSC) fun _ =>
    andThen (expectCbs .before m tag src t.before) fun _ =>
    match t.dest with
    | none =>
      andThen (expectCbs .after m tag src t.after) fun _ =>
      andThen (expectCbs .afterSC m tag src cfg.afterSC) fun _ => pureA (some src)
    | some d =>
      match cfg.state? src, cfg.state? d with
      | some sdef, some ddef =>
        andThen (expectCbs .onExit m tag src sdef.onExit) fun _ =>          -- failure here: state = source
        andThen (expectCbs .onEnter m tag d ddef.onEnter) fun _ =>          -- failure here: state = destination
        andThen (if ddef.final then expectCbs .onFinal m tag d cfg.onFinal else pureA ()) fun _ =>
        andThen (expectCbs .after m tag d t.after) fun _ =>
        andThen (expectCbs .afterSC m tag d cfg.afterSC) fun _ => pureA (some d)
      | _, _ => fun _ => none

def expectCands (cfg : Cfg) (m tag src : Nat) : List Trans → AccE (Option Nat)
  | [], l => some (.ok none, l)
  | t :: ts, l =>
    match expectCand cfg m tag src t l with
    | some (.ok (some st'), l') => some (.ok (some st'), l')
    | some (.ok none, l') => expectCands cfg m tag src ts l'
    | some (.fail e st, l') => some (.fail e st, l')
    | none => none

/-- the `try:` part of one event -/
def body (cfg : Cfg) (m tag src ev : Nat) : AccE (Option Nat) :=
  match cfg.event? ev with
  | none => fun _ => none
  | some ts =>
    match candidates ts src with
    | none =>
      -- not a source: no prepare-stage callback; MachineError is a failure like any other
      if ignoreInvalid cfg src then pureA none else fun l => some (.fail .machineError src, l)
    | some cs =>
      andThen (expectCbs .prepareEvent m tag src cfg.prepareEvent) fun _ => expectCands cfg m tag src cs

/-- `finalize_event`: always, once each, up to the first that raises; its exception is swallowed -/
def finalize (cfg : Cfg) (m tag st : Nat) (l : List Item) : Option (List Item) :=
  match expectCbs .finalize m tag st cfg.finalize l with
  | some (_, l') => some l'
  | none => none

/-- what follows the `try:` part: handlers, finalize, outcome.  Yields the state afterwards. -/
def finish (cfg : Cfg) (m tag src : Nat) (r : Rs (Option Nat)) (l : List Item) : Option (Nat × List Item) :=
  match r with
  | .ok res =>
    let st' := res.getD src
    match finalize cfg m tag st' l with
    | some (.ret t b :: l') => if t = tag ∧ b = res.isSome then some (st', l') else none
    | _ => none
  | .fail e st =>
    match cfg.onException with
    | [] =>
      match finalize cfg m tag st l with
      | some (.raised t e' :: l') => if t = tag ∧ e' = e then some (st, l') else none
      | _ => none
    | hs =>
      match expectCbs .onException m tag st hs l with
      | some (.ok _, l1) =>
        match finalize cfg m tag st l1 with
        | some (.ret t false :: l') => if t = tag then some (st, l') else none
        | _ => none
      | some (.fail e2 _, l1) =>
        match finalize cfg m tag st l1 with
        | some (.raised t e' :: l') => if t = tag ∧ e' = e2 then some (st, l') else none
        | _ => none
      | none => none

/-- One trigger call `tag` of event `ev` on model `m` in state `src`, up to and including its
`ret` / `raised` item.  Yields the model's state afterwards. -/
def expectEvent (cfg : Cfg) (m tag src ev : Nat) (l : List Item) : Option (Nat × List Item) :=
  match body cfg m tag src ev l with
  | some (r, l') => finish cfg m tag src r l'
  | none => none

/-- A whole trace of trigger calls issued one at a time (machine idle in between). -/
def checkTrace (cfg : Cfg) : Nat → List (Nat × Nat) → List Item → Bool
  | _, _, [] => true
  | 0, _, _ :: _ => false
  | n + 1, ms, .api 0 tag m ev :: l =>
    match alookup m ms with
    | none => false
    | some src =>
      match expectEvent cfg m tag src ev l with
      | some (st', rest) => checkTrace cfg n (aset m st' ms) rest
      | none => false
  | _ + 1, _, _ :: _ => false

end C04
end TM
