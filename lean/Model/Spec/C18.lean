/-
  Model/Spec/C18.lean — the declarative reading of property C18 for hierarchical machines
  (DESIGN 4/C18), on the configuration after a transition and the set `E` of states it entered:

    fin(s)   := if s has active children then all of them are fin else s.final
    fires(s) := (s.final ∧ s ∈ E) ∨ (s has active children ∧ all of them are fin ∧ some child fires)
    the machine is the node above the roots (it has no final flag: only the second disjunct)
    the on_final callbacks of every state that fires run once, children's before their parents',
    the machine's last.

  Written independently of `_final_check` (Model/Final.lean is imported for the vocabulary `Tree`,
  `Defs`, `Owner` only).  The flat reading (machine-level on_final of `core.Machine`) is at the end:
  `C18.view` / `C18.eventView`.  The compiled definitions also serve as the monitor: the driver evaluates
  `expected` on the configuration and entered set OBSERVED on the implementation.
-/
import Model.Final
import Model.Core

namespace TM
namespace Final

mutual
/-- a state *counts as final* -/
def fin (D : Defs) : Tree → Bool
  | .node s kids => if kids.isEmpty then D.final s else finAll D kids
def finAll (D : Defs) : List Tree → Bool
  | [] => true
  | t :: ts => fin D t && finAll D ts
end

/-- the state (identified by its path) is one of the states the transition entered -/
def inE (E : List Nat) (s : Nat) : Bool := E.contains s

mutual
/-- the state's own on_final callbacks run in this transition -/
def fires (D : Defs) (E : List Nat) : Tree → Bool
  | .node s kids =>
    (D.final s && inE E s) || (!kids.isEmpty && finAll D kids && firesAny D E kids)
def firesAny (D : Defs) (E : List Nat) : List Tree → Bool
  | [] => false
  | t :: ts => fires D E t || firesAny D E ts
end

/-- the machine's own on_final callbacks run in this transition -/
def machineFires (D : Defs) (E : List Nat) (roots : List Tree) : Bool :=
  !roots.isEmpty && finAll D roots && firesAny D E roots

mutual
/-- the states that fire, children first (post-order of the configuration) -/
def firing (D : Defs) (E : List Nat) : Tree → List Owner
  | .node s kids => firingL D E kids ++ (if fires D E (.node s kids) then [.state s] else [])
def firingL (D : Defs) (E : List Nat) : List Tree → List Owner
  | [] => []
  | t :: ts => firing D E t ++ firingL D E ts
end

/-- **the specification**: owners whose on_final lists run after a transition, in order -/
def expected (D : Defs) (E : List Nat) (roots : List Tree) : List Owner :=
  firingL D E roots ++ (if machineFires D E roots then [.machine] else [])

/-! ### vocabulary of the hypotheses (all decidable) -/

mutual
def ids : Tree → List Nat
  | .node s kids => s :: idsL kids
def idsL : List Tree → List Nat
  | [] => []
  | t :: ts => ids t ++ idsL ts
end

def allIn (E : List Nat) : List Tree → Bool
  | [] => true
  | t :: ts => inE E t.id && allIn E ts

mutual
/-- entering a state enters every state below it that is active afterwards -/
def downClosed (E : List Nat) : Tree → Bool
  | .node s kids => (!inE E s || allIn E kids) && downClosedL E kids
def downClosedL (E : List Nat) : List Tree → Bool
  | [] => true
  | t :: ts => downClosed E t && downClosedL E ts
end

/-- well-formedness of the entered set w.r.t. the new configuration (what `_resolve_transition` /
`_enter_nested` produce: the entered states are active afterwards, and below an entered state
everything active was entered) -/
def enteredWF (E : List Nat) (roots : List Tree) : Bool :=
  downClosedL E roots && E.all (idsL roots).contains

end Final
end TM

/-! ### flat machines: what C18 says about the trace segment of one event

The observable is the subsequence of an event's callback starts that belong to the three slots the
statement mentions — the destination's on_enter callbacks, the machine's on_final callbacks, the
transition's after callbacks: `view seg`.  C18 for an event that executes transition `t` is
`view seg = transView cfg t`: the destination's on_enter callbacks, then — iff the destination is
flagged final — the machine's on_final callbacks once each in list order, then the after callbacks,
and no other on_final call anywhere in the segment; for an internal transition only the after
callbacks; for an event that executes nothing (blocked or not a valid source) no such call at all. -/

namespace TM
namespace C18

def watched : Slot → Bool
  | .onEnter | .onFinal | .after => true
  | _ => false

/-- the on_enter / on_final / after callback starts of a trace, in order -/
def view : List Item → List (Slot × Nat)
  | [] => []
  | .call sl c _ _ _ :: l => if watched sl then (sl, c) :: view l else view l
  | _ :: l => view l

/-- the on_enter / on_final / after callback starts that belong to the event of trigger call `tag` (every
callback start carries the tag of the call whose event it runs for): what `view` is for an event that runs
alone, when other events run inside its callbacks or are drained from the queue around it -/
def ownView (tag : Nat) : List Item → List (Slot × Nat)
  | [] => []
  | .call sl c _ t _ :: l => if watched sl && t == tag then (sl, c) :: ownView tag l else ownView tag l
  | _ :: l => ownView tag l

/-- the callbacks of one list as they show in `view` -/
def stage (slot : Slot) (cbs : List Nat) : List (Slot × Nat) :=
  if watched slot then cbs.map (slot, ·) else []

/-- what the on_enter / on_final / after calls of an executed transition must be -/
def transView (cfg : Cfg) (t : Trans) : List (Slot × Nat) :=
  match t.dest with
  | none => stage .after t.after                  -- internal: no state is entered
  | some d =>
    match cfg.state? d with
    | some dd =>
      stage .onEnter dd.onEnter ++ (if dd.final then stage .onFinal cfg.onFinal else []) ++ stage .after t.after
    | none => []

/-- `w` = the transition the event executes (`none`: blocked / not a valid source) -/
def eventView (cfg : Cfg) : Option Trans → List (Slot × Nat)
  | none => []
  | some t => transView cfg t

/-- how an event's segment ends -/
def endsWith (seg : List Item) (i : Item) : Prop := ∃ pre, seg = pre ++ [i]

/-- **C18 on one event**: trigger call `tag` of event `ev` on a model in state `src`, trace segment
`seg`, state afterwards `st'`.  Some `w` explains the segment: a transition of `ev` from `src` whose
destination is the state afterwards and which made the trigger return True — or nothing executed, the
state is kept and the trigger returned False / raised MachineError. -/
def FlatFinalEvent (cfg : Cfg) (tag src ev : Nat) (seg : List Item) (st' : Nat) : Prop :=
  ∃ w : Option Trans, view seg = eventView cfg w ∧
    (∀ t, w = some t → (∃ ts, cfg.event? ev = some ts ∧ t ∈ ts) ∧ t.source = src ∧
      st' = t.dest.getD src ∧ endsWith seg (.ret tag true)) ∧
    (w = none → st' = src ∧ (endsWith seg (.ret tag false) ∨ endsWith seg (.raised tag .machineError)))

/-- **C18 on a whole trace** of trigger calls issued one at a time: every event obeys `FlatFinalEvent`
and nothing lies between the events (so no on_final call happens at any other time). -/
inductive FlatFinalTrace (cfg : Cfg) : List (Nat × Nat) → List Item → Prop
  | nil (ms : List (Nat × Nat)) : FlatFinalTrace cfg ms []
  | event (ms : List (Nat × Nat)) (tag m ev src st' : Nat) (seg rest : List Item) :
      alookup m ms = some src → FlatFinalEvent cfg tag src ev seg st' →
      FlatFinalTrace cfg (aset m st' ms) rest →
      FlatFinalTrace cfg ms (.api 0 tag m ev :: seg ++ rest)

end C18
end TM
