/-
  Model/Spec/C13.lean — behavioural equivalence of two configurations (`≈`) and its checker.

  Two machines are equivalent when they have the same states (in order, with the same enter/exit
  callbacks, final flag and *effective* `ignore_invalid_triggers`), the same machine-level callback
  lists and flags, know the same events, and for every (event, source) hold the same ordered
  candidate list `Event.transitions[source]`.  The order of the keys of `machine.events` and the
  interleaving of transitions with different sources inside one event are *not* part of `≈`
  (no engine function looks at them; `C13_equiv_behaviour`).
-/
import Model.Core

namespace TM
namespace Build

/-- a state with `ignore_invalid_triggers` resolved against the machine-level value
(`state.ignore_invalid_triggers if … is not None else machine.ignore_invalid_triggers`) -/
def normState (g : Bool) (s : StateDef) : StateDef := { s with ignore := some (s.ignore.getD g) }

structure Equiv (a b : Cfg) : Prop where
  ignore : a.ignore = b.ignore
  states : a.states.map (normState a.ignore) = b.states.map (normState a.ignore)
  known : ∀ ev, (a.event? ev).isSome = (b.event? ev).isSome
  cands : ∀ ev src, candidates ((a.event? ev).getD []) src = candidates ((b.event? ev).getD []) src
  prepareEvent : a.prepareEvent = b.prepareEvent
  beforeSC : a.beforeSC = b.beforeSC
  afterSC : a.afterSC = b.afterSC
  finalize : a.finalize = b.finalize
  onException : a.onException = b.onException
  onFinal : a.onFinal = b.onFinal
  queued : a.queued = b.queued
  initial : a.initial = b.initial

scoped infix:50 " ≈ " => Equiv

/-- all sources that occur in an event's transition list -/
def sourcesOf (ts : List Trans) : List Nat := ts.map (·.source)

def sameCands (x y : List Trans) : Bool :=
  (sourcesOf x ++ sourcesOf y).all fun s => x.filter (·.source = s) == y.filter (·.source = s)

/-- computable checker for `≈` (sound and complete: `equivCheck_iff`) -/
def equivCheck (a b : Cfg) : Bool :=
  a.ignore == b.ignore &&
  a.states.map (normState a.ignore) == b.states.map (normState a.ignore) &&
  (a.events.map (·.1) ++ b.events.map (·.1)).all (fun ev =>
    (a.event? ev).isSome == (b.event? ev).isSome &&
    sameCands ((a.event? ev).getD []) ((b.event? ev).getD [])) &&
  a.prepareEvent == b.prepareEvent && a.beforeSC == b.beforeSC && a.afterSC == b.afterSC &&
  a.finalize == b.finalize && a.onException == b.onException && a.onFinal == b.onFinal &&
  a.queued == b.queued && a.initial == b.initial

end Build
end TM
