/-
  Model/Async.lean — the flat asynchronous engine, written function by function after
  `transitions/extensions/asyncio.py` (NOT derived from `Model/Core.lean`; only the data vocabulary
  `Cfg / Trans / StateDef / St / Ctx / Sub` and the two helpers that the async classes *inherit*
  unchanged from `core.py` — `Event._is_valid_source` (`candidates`, `ignoreInvalid`) and
  `Machine._get_trigger` — are shared):

    AsyncMachine.await_all / callbacks / callback      gather over one stage
    AsyncCondition.check, AsyncTransition._eval_conditions / execute / _change_state
    AsyncState.enter / exit
    AsyncEvent.trigger / _trigger / _process
    AsyncMachine.process_context / _process_async      queue modes False / True / 'model'

  Scope of the model: triggers are awaited ONE AT A TIME (property C07) — the caller awaits each
  trigger before issuing the next, a callback awaits each of its triggers before going on, and nothing
  else runs on the loop.  Under that regime `asyncio.gather(*[f() for f in callables])` behaves as two
  phases (this is what the harness observes on the real classes, see design_notes/C07.md):

    phase 1   every callable is *started*, in list order.  A callback runs until it returns, raises or
              reaches its (single) suspension point; plain callables and coroutines that do not suspend
              finish here.
    phase 2   the suspended ones are resumed in the same order and finish.
    result    the exception of the first gather task to complete with one (phase 1 before phase 2;
              see `firstExc`) if any — the other
              callables still run to completion, `gather` does not cancel them — else the list of values.

  The two-phase reading is exact when no callback of a multi-callback stage awaits a trigger itself
  (such a nested trigger yields to the loop and the siblings would interleave with it — that is two
  triggers in flight, outside C07's regime).  The harness ties this model to the code on exactly that
  domain (`Solo` descriptions); the theorems carry it as the explicit hypothesis `WellStaged`.

  `cancel_running_transitions` and the `CancelledError` clause of `process_context` are no-ops in
  this regime (the only task registered for the model is the current context); they are C08's business.

  Callback kinds (`Kinds`): 0 plain callable answering directly, 1 coroutine function that does not
  suspend, ≥ 2 a callable whose result is awaited and finishes one loop turn after its start:
    2  coroutine function that suspends once (after its own awaited triggers, before finishing);
    3  PLAIN callable handing back an already scheduled `asyncio.Task` (its body runs when the loop
       gets to it);
    4  PLAIN callable handing back a bare `Future` that a later loop callback resolves;
    5  PLAIN callable handing back an object with `__await__` whose body suspends once.
  `AsyncMachine.callback` and `AsyncCondition.check` recognise all of 1–5 by `inspect.isawaitable(res)`
  and await them; for the engine the kinds ≥ 2 are indistinguishable in C07's regime (each is queued on
  the loop at the moment it is started, so they finish in start order after the stage's last start) —
  which is exactly what the model tie checks against the real classes for every one of them.
-/
import Model.Core

namespace TM
namespace Async

abbrev Kinds := Nat → Nat

/-- one callable handed to `await_all`: `partial(machine.callback, func, event_data)` (no target) or
`partial(cond.check, event_data)` (target of the condition) -/
structure Job where
  slot : Slot
  cb : Nat
  target : Option Bool := none
  deriving Repr, Inhabited

/-- what is known about a started callable: how it finishes, and whether it is still suspended -/
structure Entry where
  cb : Nat
  out : Out
  pending : Bool
  /-- kinds 3 (Task) and 4 (Future): the callable's own gather task completes one loop turn after the
  body has finished (it has to be woken by the Task / Future it awaits) -/
  late : Bool
  target : Option Bool
  deriving Repr, Inhabited

/-- the value `gather` collects for a callable that finished normally:
`AsyncCondition.check` returns `res == target`; `Machine.callback` returns nothing (True here) -/
def Entry.value (e : Entry) : Bool :=
  match e.out, e.target with
  | .ret b, some t => b == t
  | .ret _, none => true
  | .raise _, _ => false

def Entry.exc? (e : Entry) : Option Exc :=
  match e.out with
  | .raise x => some x
  | .ret _ => none

/-- phase 1 for one callable (`AsyncMachine.callback` / `AsyncCondition.check` up to the first
suspension): the recorder logs `call`, awaits its scripted triggers, then either finishes (`done`)
or suspends. An exception escaping an awaited trigger finishes the callback at once. -/
def start (sub : Sub) (sc : Script) (kd : Kinds) (x : Ctx) (j : Job) (s : St) : Option (Entry × St) :=
  let act := sc j.cb (s.count j.cb)
  let s1 := { s with counts := aset j.cb (s.count j.cb + 1) s.counts }
  let s2 := s1.emit (.call j.slot j.cb x.model x.tag (s1.stateOf x.model))
  match runCmds sub act.cmds s2 with
  | .ok _ s3 =>
    if 2 ≤ kd j.cb then some (⟨j.cb, act.out, true, kd j.cb == 3 || kd j.cb == 4, j.target⟩, s3)
    else some (⟨j.cb, act.out, false, false, j.target⟩, s3.emit (.done j.cb act.out))
  | .err e s3 => some (⟨j.cb, .raise e, false, false, j.target⟩, s3.emit (.done j.cb (.raise e)))
  | .oof => none

/-- phase 1 of `gather`: start every callable in list order -/
def startAll (sub : Sub) (sc : Script) (kd : Kinds) (x : Ctx) : List Job → St → Option (List Entry × St)
  | [], s => some ([], s)
  | j :: js, s =>
    match start sub sc kd x j s with
    | none => none
    | some (e, s1) =>
      match startAll sub sc kd x js s1 with
      | none => none
      | some (es, s2) => some (e :: es, s2)

/-- phase 2 of `gather`: the suspended callables resume in order and finish -/
def finishAll : List Entry → St → St
  | [], s => s
  | e :: es, s => finishAll es (if e.pending then s.emit (.done e.cb e.out) else s)

/-- the exception `gather` propagates: that of the first of its tasks to complete with one — the
callables that finished in phase 1, then the suspended coroutines (their task completes in the turn
they are resumed), then the callables awaiting a Task / Future (one turn later), each group in order -/
def firstExc (es : List Entry) : Option Exc :=
  match (es.filter fun e => !e.pending).findSome? Entry.exc? with
  | some x => some x
  | none =>
    match (es.filter fun e => e.pending && !e.late).findSome? Entry.exc? with
    | some x => some x
    | none => (es.filter fun e => e.pending && e.late).findSome? Entry.exc?

/-- `AsyncMachine.await_all` = `asyncio.gather(*[func() for func in callables])` -/
def gather (sub : Sub) (sc : Script) (kd : Kinds) (x : Ctx) (js : List Job) (s : St) : R (List Bool) :=
  match startAll sub sc kd x js s with
  | none => .oof
  | some (es, s1) =>
    let s2 := finishAll es s1
    match firstExc es with
    | some e => .err e s2
    | none => .ok (es.map Entry.value) s2

/-- `AsyncMachine.callbacks` -/
def callbacks (sub : Sub) (sc : Script) (kd : Kinds) (slot : Slot) (x : Ctx) (cs : List Nat) (s : St) : R Unit :=
  (gather sub sc kd x (cs.map fun c => { slot := slot, cb := c }) s).map fun _ => ()

def condJob (cd : Cond) : Job :=
  { slot := if cd.target then .condition else .unless, cb := cd.cb, target := some cd.target }

/-- `AsyncTransition._eval_conditions`: every condition is checked (gather), then `all(res)` -/
def evalConds (sub : Sub) (sc : Script) (kd : Kinds) (x : Ctx) (conds : List Cond) (s : St) : R Bool :=
  (gather sub sc kd x (conds.map condJob) s).map fun bs => bs.all id

/-- `AsyncTransition._change_state` -/
def changeState (sub : Sub) (sc : Script) (kd : Kinds) (cfg : Cfg) (x : Ctx) (t : Trans) (dst : Nat) (s : St) : R Unit :=
  -- await machine.get_model_state(model).exit(event_data): the state the model is in now (repaired in ba1cc46)
  match cfg.state? (s.stateOf x.model) with
  | none => .err .valueError s
  | some src =>
    (callbacks sub sc kd .onExit x src.onExit s).bind fun _ s1 =>
      -- machine.set_state(self.dest, model)
      match cfg.state? dst with
      | none => .err .valueError s1
      | some d =>
        let s2 := s1.setState x.model dst
        -- await dest.enter(event_data); if dest.final: await callbacks(on_final)
        (callbacks sub sc kd .onEnter x d.onEnter s2).bind fun _ s3 =>
          if d.final then callbacks sub sc kd .onFinal x cfg.onFinal s3 else .ok () s3

/-- `AsyncTransition.execute` -/
def execute (sub : Sub) (sc : Script) (kd : Kinds) (cfg : Cfg) (x : Ctx) (t : Trans) (s : St) : R Bool :=
  (callbacks sub sc kd .prepare x t.prepare s).bind fun _ s1 =>
    (evalConds sub sc kd x t.conds s1).bind fun ok s2 =>
      if !ok then .ok false s2 else
      -- await machine.cancel_running_transitions(model, event.name): nothing to cancel (see header)
      (callbacks sub sc kd .beforeSC x cfg.beforeSC s2).bind fun _ s3 =>
      (callbacks sub sc kd .before x t.before s3).bind fun _ s4 =>
      (match t.dest with
        | some d => changeState sub sc kd cfg x t d s4
        | none => .ok () s4).bind fun _ s5 =>
      (callbacks sub sc kd .after x t.after s5).bind fun _ s6 =>
      (callbacks sub sc kd .afterSC x cfg.afterSC s6).bind fun _ s7 =>
        .ok true s7

/-- loop of `AsyncEvent._process`: `event_data.result = await trans.execute(…); if result: break` -/
def tryTransitions (sub : Sub) (sc : Script) (kd : Kinds) (cfg : Cfg) (x : Ctx) : List Trans → St → R Bool
  | [], s => .ok false s
  | t :: ts, s =>
    (execute sub sc kd cfg x t s).bind fun ok s' =>
      if ok then .ok true s' else tryTransitions sub sc kd cfg x ts s'

/-- `AsyncEvent._process` -/
def eventProcess (sub : Sub) (sc : Script) (kd : Kinds) (cfg : Cfg) (x : Ctx) (ts : List Trans) (s : St) : R Bool :=
  (callbacks sub sc kd .prepareEvent x cfg.prepareEvent s).bind fun _ s1 =>
    tryTransitions sub sc kd cfg x ts s1

/-- `except BaseException as err:` of `AsyncEvent._trigger` — on_exception callbacks when there are any
(the event then returns its `result`, still False), re-raise otherwise -/
def exceptClause (sub : Sub) (sc : Script) (kd : Kinds) (cfg : Cfg) (x : Ctx) : R Bool → R Bool
  | .ok b s => .ok b s
  | .err e s =>
    match cfg.onException with
    | [] => .err e s
    | hs => (callbacks sub sc kd .onException x hs s).bind fun _ s' => .ok false s'
  | .oof => .oof

/-- `finally:` of `AsyncEvent._trigger` — finalize callbacks run whatever happened; whatever they raise
is swallowed (inner `try / except BaseException`) -/
def finallyClause (sub : Sub) (sc : Script) (kd : Kinds) (cfg : Cfg) (x : Ctx) : R Bool → R Bool
  | .ok b s =>
    (match callbacks sub sc kd .finalize x cfg.finalize s with
      | .ok _ s' => .ok b s'
      | .err _ s' => .ok b s'
      | .oof => .oof)
  | .err e s =>
    (match callbacks sub sc kd .finalize x cfg.finalize s with
      | .ok _ s' => .err e s'
      | .err _ s' => .err e s'
      | .oof => .oof)
  | .oof => .oof

/-- the `try:` body of `AsyncEvent._trigger`: `if self._is_valid_source(state): await self._process(…)` -/
def eventBody (sub : Sub) (sc : Script) (kd : Kinds) (cfg : Cfg) (ts : List Trans) (x : Ctx) (src : Nat) (s : St) : R Bool :=
  match candidates ts src with
  | none => if ignoreInvalid cfg src then .ok false s else .err .machineError s
  | some cs => eventProcess sub sc kd cfg x cs s

/-- `AsyncEvent._trigger`: try / except BaseException / finally around `_process`. -/
def eventTrigger (sub : Sub) (sc : Script) (kd : Kinds) (cfg : Cfg) (ts : List Trans) (x : Ctx) (s : St) : R Bool :=
  let src := s.stateOf x.model
  -- event_data.state = machine.get_state(model.state)      (outside the try)
  match cfg.state? src with
  | none => .err .valueError s
  | some _ =>
    finallyClause sub sc kd cfg x (exceptClause sub sc kd cfg x (eventBody sub sc kd cfg ts x src s))

/-! ### `_process_async` and its queues

`qm` = 0 (`queued=False`), 1 (`queued=True`: `_DictionaryMock` — every key is the one machine-wide
deque), 2 (`queued='model'`: one deque per model).  The per-model deques are kept in the single list
`St.queue`; the deque of model `m` is the sub-list of the entries whose model is `m`. -/

def qOf (qm m : Nat) (q : List (Nat × Nat × Nat)) : List (Nat × Nat × Nat) :=
  if qm = 2 then q.filter (fun e => e.1 = m) else q

def eraseFirst (m : Nat) : List (Nat × Nat × Nat) → List (Nat × Nat × Nat)
  | [] => []
  | e :: r => if e.1 = m then r else e :: eraseFirst m r

/-- `deque.popleft()` on the deque of `m` -/
def qPop (qm m : Nat) (q : List (Nat × Nat × Nat)) : List (Nat × Nat × Nat) :=
  if qm = 2 then eraseFirst m q else q.drop 1

/-- `deque.clear()` on the deque of `m` -/
def qClear (qm m : Nat) (q : List (Nat × Nat × Nat)) : List (Nat × Nat × Nat) :=
  if qm = 2 then q.filter (fun e => e.1 ≠ m) else []

/-- `while self._transition_queue_dict[id(model)]:` loop (bounded by the first argument) -/
def drain (sub : Sub) (sc : Script) (kd : Kinds) (cfg : Cfg) (qm m : Nat) : Nat → St → R Unit
  | 0, _ => .oof
  | n + 1, s =>
    match qOf qm m s.queue with
    | [] => .ok () s
    | (m', ev, tag) :: _ =>
      let ts := (cfg.event? ev).getD []
      match eventTrigger sub sc kd cfg ts ⟨m', tag⟩ s with
      | .ok _ s' => drain sub sc kd cfg qm m n { s' with queue := qPop qm m s'.queue }
      | .err e s' => .err e { s' with queue := qClear qm m s'.queue }
      | .oof => .oof

/-- `AsyncEvent.trigger` → `process_context` → `_process_async` -/
def machineProcess (sub : Sub) (sc : Script) (kd : Kinds) (cfg : Cfg) (qm qmax : Nat) (m ev tag : Nat) (s : St) : R Bool :=
  let ts := (cfg.event? ev).getD []
  if qm = 0 then
    -- `if not self._transition_queue: return await trigger()` else MachineError
    match s.queue with
    | [] => eventTrigger sub sc kd cfg ts ⟨m, tag⟩ s
    | _ => .err .machineError s
  else
    let s1 := { s with queue := s.queue ++ [(m, ev, tag)] }
    if (qOf qm m s1.queue).length > 1 then .ok true s1
    else (drain sub sc kd cfg qm m qmax s1).bind fun _ s' => .ok true s'

/-- `model.trigger(name)` = `Machine._get_trigger` (inherited): unknown names are answered
synchronously (False / AttributeError), known ones return the coroutine of `AsyncEvent.trigger`. -/
def triggerByName (sub : Sub) (sc : Script) (kd : Kinds) (cfg : Cfg) (qm qmax : Nat) (m ev tag : Nat) (s : St) : R Bool :=
  if (alookup m s.mstate).isNone then .err .attributeError s else
  match cfg.event? ev with
  | some _ => machineProcess sub sc kd cfg qm qmax m ev tag s
  | none =>
    let src := s.stateOf m
    match cfg.state? src with
    | none => .err .valueError s
    | some _ => if ignoreInvalid cfg src then .ok false s else .err .attributeError s

/-- one awaited trigger as issued by the harness or a scripted callback -/
def apiTrigger (sub : Sub) (sc : Script) (kd : Kinds) (cfg : Cfg) (qm qmax : Nat) (m ev : Nat) (s : St) : R Bool :=
  let tag := s.nextTag
  let s1 := ({ s with nextTag := tag + 1 }).emit (.api 0 tag m ev)
  match triggerByName sub sc kd cfg qm qmax m ev tag s1 with
  | .ok b s' => .ok b (s'.emit (.ret tag b))
  | .err e s' => .err e (s'.emit (.raised tag e))
  | .oof => .oof

/-- `AsyncMachine._can_trigger` (`await model.may_<event>()` / `may_trigger`): for every transition of
the event from the model's state whose destination is registered — prepare_event, the transition's
prepare, all its conditions (gather); the first that passes answers True; an exception goes to the
on_exception handlers when there are any (and the loop goes on), else it is raised. -/
def mayLoop (sub : Sub) (sc : Script) (kd : Kinds) (cfg : Cfg) (x : Ctx) : List Trans → St → R Bool
  | [], s => .ok false s
  | t :: ts, s =>
    if !destOk cfg t then mayLoop sub sc kd cfg x ts s else
    let attempt : R Bool :=
      (callbacks sub sc kd .prepareEvent x cfg.prepareEvent s).bind fun _ s1 =>
      (callbacks sub sc kd .prepare x t.prepare s1).bind fun _ s2 =>
        evalConds sub sc kd x t.conds s2
    match attempt with
    | .ok true s' => .ok true s'
    | .ok false s' => mayLoop sub sc kd cfg x ts s'
    | .err e s' =>
      (match cfg.onException with
        | [] => (.err e s' : R Unit)
        | hs => callbacks sub sc kd .onException x hs s').bind fun _ s'' => mayLoop sub sc kd cfg x ts s''
    | .oof => .oof

/-- `state = self.get_model_state(model)`; `for trigger_name in self.get_triggers(state)` keeps the
events that have an entry for the state; the probe itself writes nothing (no queue, no state, and no
entry in `Event.transitions`: a later trigger from a state without transitions still raises). -/
def canTrigger (sub : Sub) (sc : Script) (kd : Kinds) (cfg : Cfg) (m ev tag : Nat) (s : St) : R Bool :=
  if (alookup m s.mstate).isNone then .err .attributeError s else
  let src := s.stateOf m
  match cfg.state? src with
  | none => .err .valueError s
  | some _ =>
    match cfg.event? ev with
    | none => .ok false s
    | some ts =>
      match candidates ts src with
      | none => .ok false s
      | some cs => mayLoop sub sc kd cfg ⟨m, tag⟩ cs s

/-- one awaited `may_` poll as issued by the harness or a scripted callback -/
def apiMay (sub : Sub) (sc : Script) (kd : Kinds) (cfg : Cfg) (m ev : Nat) (s : St) : R Bool :=
  let tag := s.nextTag
  let s1 := ({ s with nextTag := tag + 1 }).emit (.api 1 tag m ev)
  match canTrigger sub sc kd cfg m ev tag s1 with
  | .ok b s' => .ok b (s'.emit (.ret tag b))
  | .err e s' => .err e (s'.emit (.raised tag e))
  | .oof => .oof

/-- the fuelled interpreter of commands, triggers only (the other commands answer `oof` = no answer);
kept for the properties that reason about trigger-only programs (C05 async queues, C09) -/
def runCmd (sc : Script) (kd : Kinds) (cfg : Cfg) (qm qmax : Nat) : Nat → Cmd → St → R Unit
  | 0, _, _ => .oof
  | f + 1, c, s =>
    let sub := runCmd sc kd cfg qm qmax f
    match c with
    | .trigger m ev => (apiTrigger sub sc kd cfg qm qmax m ev s).map fun _ => ()
    | _ => .oof

/-- the fuelled interpreter of C07's histories: awaited triggers AND awaited `may_` polls, issued by the
caller or by callbacks (the remaining commands are not modelled for the async classes: `oof`) -/
def runCmdP (sc : Script) (kd : Kinds) (cfg : Cfg) (qm qmax : Nat) : Nat → Cmd → St → R Unit
  | 0, _, _ => .oof
  | f + 1, c, s =>
    let sub := runCmdP sc kd cfg qm qmax f
    match c with
    | .trigger m ev => (apiTrigger sub sc kd cfg qm qmax m ev s).map fun _ => ()
    | .may m ev => (apiMay sub sc kd cfg m ev s).map fun _ => ()
    | _ => .oof

/-- a top-level history: each trigger is awaited before the next is issued; an exception reaching the
caller is logged and the history goes on -/
def runHistory (sc : Script) (kd : Kinds) (cfg : Cfg) (qm qmax fuel : Nat) : List Cmd → St → Option St
  | [], s => some s
  | c :: cs, s =>
    match runCmd sc kd cfg qm qmax fuel c s with
    | .ok _ s' => runHistory sc kd cfg qm qmax fuel cs s'
    | .err _ s' => runHistory sc kd cfg qm qmax fuel cs s'
    | .oof => none

/-- a top-level history of awaited triggers and `may_` polls -/
def runHistoryP (sc : Script) (kd : Kinds) (cfg : Cfg) (qm qmax fuel : Nat) : List Cmd → St → Option St
  | [], s => some s
  | c :: cs, s =>
    match runCmdP sc kd cfg qm qmax fuel c s with
    | .ok _ s' => runHistoryP sc kd cfg qm qmax fuel cs s'
    | .err _ s' => runHistoryP sc kd cfg qm qmax fuel cs s'
    | .oof => none

end Async
end TM
