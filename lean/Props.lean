import Props.C01
import Props.C05
import Props.C07
