import Props.C01
import Props.C05
import Props.C04
import Props.C10
import Props.C12
