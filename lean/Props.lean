import Props.C01
