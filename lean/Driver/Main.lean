/-
  Driver/Main.lean — line-protocol driver: one request per input line, one answer per line.

    flat <cfg> <models> <script> <history>      → `T <items…> S <model state …>` | `oof` | `bad-input`
    c01  <cfg> <model states> <items>           → `ok` | `reject`      (verified monitor `C01.checkTrace`)
-/
import Model
import Handlers

open TM TM.Codec

def joinNats (l : List Nat) : String := " ".intercalate (l.map toString)

def flatCase : P String := do
  let c ← cfg
  let models ← nats
  let es ← list scriptEntry
  let h ← list cmd
  let qmax := (h.length + scriptCmds es + 2) * 8
  let fuel := scriptCmds es + 2
  match runHistory (mkScript es) c qmax fuel h (St.init c models) with
  | none => pure "oof"
  | some s =>
    let st := s.mstate.flatMap fun (m, v) => [m, v]
    pure s!"T {joinNats (encItems s.log)} S {joinNats (s.models.length :: s.models)} {joinNats st}"

/-- verified monitor for C01 on a recorded trace: `c01 <cfg> <(model,state) pairs> <items>` -/
def c01Case : P String := do
  let c ← cfg
  let ms ← list (do let m ← nat; let st ← nat; pure (m, st))
  let items ← list item
  pure (if C01.checkTrace c items.length ms items then "ok" else "reject")

/-- verified monitor for C05 (queued): `c05 <fin0> <items>` -/
def c05Case : P String := do
  let fin0 ← nat
  let items ← list item
  pure (if C05.idle fin0 items.length items then "ok" else "reject")

def handle (line : String) : String :=
  match (line.trimAscii.toString.splitOn " ").filter (· ≠ "") with
  | [] => "bad-input"
  | kind :: rest =>
    match rest.mapM String.toNat? with
    | none => "bad-input"
    | some ns =>
      let r := match kind with
        | "flat" => run flatCase ns
        | "c01" => run c01Case ns
        | "c05" => run c05Case ns
        | k => match Handlers.all.find? (fun (e : String × (List Nat → Option String)) => e.1 = k) with
          | some (_, h) => h ns
          | none => none
      r.getD "bad-input"

partial def loop (h : IO.FS.Stream) (out : IO.FS.Stream) : IO Unit := do
  let line ← h.getLine
  if line.isEmpty then return ()
  out.putStrLn (handle line)
  loop h out

def main : IO Unit := do
  let out ← IO.getStdout
  loop (← IO.getStdin) out
  out.flush
