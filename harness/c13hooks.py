"""Module-level callbacks for C13: a callback given to the library as the dotted import path
`harness.c13hooks.cb_<slot>_<id>` is resolved by `Machine.resolve_callable` through `__import__` +
`getattr`; the module synthesises the function on attribute access (PEP 562) and forwards the call to
the recorder of the run that is currently active in this process."""

CURRENT = None      # (run, model) of the active case


def __getattr__(name):
    if name.startswith('cb_'):
        _, slot, cid = name.split('_')
        slot, cid = int(slot), int(cid)

        def hook(*args, **kwargs):
            run, model = CURRENT
            return run.invoke(model, slot, cid, *args, **kwargs)
        hook.__name__ = name
        return hook
    raise AttributeError(name)
