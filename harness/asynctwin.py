"""Sync-vs-async twin used by the flat-engine properties (C01, C04, C05, C10) for their asyncio clauses:
the same description is realised on `Machine` and on `AsyncMachine` (callbacks as plain functions, coroutine
functions, or coroutine functions that suspend once; triggers awaited one at a time) and the two runs are compared
up to the observation map of C07 (`aflat.obs`: callback starts in order with the state they saw, API calls, results,
exception kinds — minus the conditions after the first failing one of a candidate, the licensed difference), plus the
stage barrier on the async trace.  What the synchronous run does is in turn judged by the property's own verified
monitor / the Lean model, so a difference found here is a deviation of the async class from the property."""
import copy
import random

from . import aflat, common, flat
from .flat import TRIGGER, REMOVE


class TwinRun(aflat.Run7):
    """Run7 + remove_model issued from coroutine callbacks / histories (a synchronous call on both classes)"""

    async def ado_cmd(self, c):
        if c[0] != REMOVE:
            return await aflat.Run7.ado_cmd(self, c)
        return flat.FlatRun.do_cmd(self, c)


def clone(d):
    return flat.FlatDesc.from_json(copy.deepcopy(d.to_json()))


def twin_failures(d, seed, qmode=None):
    """[(what, details)] for description `d` (left untouched)"""
    from transitions import Machine
    from transitions.extensions.asyncio import AsyncMachine
    rng = random.Random(seed)
    dd = aflat.decorate(clone(d), rng, qmode=qmode, raise_in_stage=False, keep_kinds=(TRIGGER, REMOVE))
    ra = TwinRun(dd, AsyncMachine, True).run()
    rs = TwinRun(dd, Machine, False).run()
    out = []
    if ra.bad or rs.bad:
        out.append(('async-arguments', {'async': ra.bad[:3], 'sync': rs.bad[:3]}))
    oa, os_ = aflat.obs(dd, ra.items), aflat.obs(dd, rs.items)
    comparable = not (dd.qmode == 2 and len(dd.models) > 1)
    if comparable and (oa != os_ or ra.final() != rs.final()):
        k = next((i for i, (x, y) in enumerate(zip(oa, os_)) if x != y), min(len(oa), len(os_)))
        out.append(('async-class-deviates-from-sync', {
            'qmode': dd.qmode, 'first_difference_at': k,
            'async': [common.show_item(i) for i in oa[max(0, k - 4):k + 3]],
            'sync': [common.show_item(i) for i in os_[max(0, k - 4):k + 3]],
            'async_final': repr(ra.final()), 'sync_final': repr(rs.final())}))
    b = aflat.barrier(ra.items)
    if b or ra.leftover:
        out.append(('async-stage-barrier', {'violation': b, 'tasks_left_running': ra.leftover}))
    return out
