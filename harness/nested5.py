"""C05 on the hierarchical classes: generated hierarchical machines (the C02/C03 generator) whose callbacks — at
every stage: prepare_event, prepare, conditions, before, on_exit, on_enter, after, on_exception, finalize — trigger
further events and raise (Exception and BaseException), with and without `on_exception` handlers, `queued=True`
(stream `nested-queued`) and direct (stream `nested-unqueued`).

Per case:
  * correspondence: the Lean model of the hierarchical engine (`nested` request of Handlers/HC02.lean:
    `nrunHistory` = `napiTrigger` / `nmachineProcess` / `ndrain` / `ntriggerEvent` …) must produce the same
    item trace and the same `model.state` after every call as `HierarchicalMachine`;
  * class differential: `LockedHierarchicalMachine` must produce the same trace as `HierarchicalMachine`;
  * queued: the VERIFIED acceptor `C05.idle` (request `c05`, the function theorem `C05N_queued_history` is about)
    judges the implementation traces of HierarchicalMachine, LockedHierarchicalMachine and (when no callback that
    triggers shares a stage with siblings) HierarchicalAsyncMachine;
  * unqueued: a Python oracle states "processed immediately and completely before the triggering callback
    returns" directly on the same traces (`immediate_oracle`, the content of `C05N_unqueued_nested_complete`).
"""
import copy
import random

from . import common, flat, nested, nestedcheck
from .common import SLOT
from .runner import Exploration, Failure

SYNC_CLASSES = ('HierarchicalMachine', 'LockedHierarchicalMachine')
ASYNC_CLASS = 'HierarchicalAsyncMachine'

STREAMS = {
    #                      queued  quick (chunks, per chunk)  thorough
    'nested-queued': dict(queued=True, quick=(16, 45), thorough=(48, 300)),
    'nested-unqueued': dict(queued=False, quick=(8, 40), thorough=(24, 250)),
}


def knobs(p_local=0.3):
    return nested.NKnobs(p_local=p_local, max_states=9, max_depth=3, max_history=8, p_cmds=0.0, p_queued=0.0, p_unknown_event=0.08,
                         p_cond_false=0.3, max_trans=3)


def stage_lists(d):
    out = []
    for _p, n in d.walk():
        out += [n['on_enter'], n['on_exit']]
    for _scope, _ev, _i, t in d.all_trans():
        out += [t['prepare'], [c for c, _tg in t['conds']], t['before'], t['after']]
    out += [d.prepare_event, d.before_sc, d.after_sc, d.finalize, d.on_exception]
    return out


def solo(d):
    """no callback that triggers events shares its stage with siblings (the regime in which the async classes
    process one trigger at a time)"""
    multi = set()
    for l in stage_lists(d):
        if len(l) >= 2:
            multi.update(l)
    return not any(cmds and c in multi for (c, _k), (cmds, _o) in d.script.items())


def decorate(d, rng, queued, root_only=False):
    """turn a generated hierarchical description into a C05 case (in place); `root_only`: no on_enter / on_exit
    callback triggers events (see `modelled`)"""
    d.queued = queued

    def new_cb(slot):
        c = (max(d.cb_slot) + 1) if d.cb_slot else 0
        d.cb_slot[c] = slot
        return c
    # visibility marker: a fresh first finalize callback (see Model/Spec/C05.lean)
    d.finalize = [new_cb(SLOT['finalize_event'])] + d.finalize
    if rng.random() < 0.35:
        d.on_exception = [new_cb(SLOT['on_exception']) for _ in range(rng.randint(1, 2))]
    known = sorted(set([e for e, _ in d.events] + [e for _p, n in d.walk() for e, _ts in n['local']])) or [0]
    unknown = max(known) + 3
    cond = set(c for _s, _e, _i, t in d.all_trans() for c, _tg in t['conds'])
    # every callback that a run can reach, with how likely it is to be reached
    budget = [6]
    p_cmd = 0.10 if queued else 0.07
    for c in sorted(d.cb_slot):
        for k in range(3):
            cmds, out = d.script.get((c, k), ((), ('ret', True)))
            cmds = list(cmds)
            if rng.random() < 0.05:
                out = ('raise', 4 if rng.random() < 0.3 else 3, rng.randrange(3))
            elif c not in cond and out == ('ret', True) and rng.random() < 0.3:
                out = ('ret', False)           # return values of non-condition callbacks are ignored
            if budget[0] > 0 and rng.random() < p_cmd and not (
                    root_only and d.cb_slot[c] in (SLOT['on_enter'], SLOT['on_exit'])):
                n = rng.randint(1, min(2, budget[0]))
                cmds = [(flat.TRIGGER, 0, rng.choice(known) if rng.random() > 0.07 else unknown) for _ in range(n)]
                budget[0] -= n
            if cmds or out != ('ret', True):
                d.script[(c, k)] = (cmds, out)
            elif (c, k) in d.script:
                del d.script[(c, k)]
    return d


def gen(stream, rng):
    queued = STREAMS[stream]['queued']
    # unqueued: two thirds of the cases inside the domain of the model tie (machine-level declarations, events
    # triggered from root-scope callbacks), one third anywhere (judged by the immediacy oracle)
    root_only = (not queued) and rng.random() < 0.67
    d = nested.gen_nested(rng, knobs(p_local=0.0 if root_only else 0.3))
    return decorate(d, rng, queued, root_only)


# ---------------------------------------------------------------------------------------------
# oracles
# ---------------------------------------------------------------------------------------------

def immediate_oracle(d, items):
    """Without a queue, an event triggered from a callback is processed immediately and completely before the
    triggering callback returns: for every trigger call (`api` tag t … its `ret`/`raised` t) every callback of
    the event t lies between the two items, the marker finalize callback among them exactly once, and the trace is
    properly nested (the call's outcome precedes the `done` of the callback that issued it)."""
    fin0 = d.finalize[0]
    span = {}
    open_calls = []          # stack of tags whose outcome is pending
    cb_stack = []            # stack of (cb, depth of open_calls when it started)
    bad = []
    for n, it in enumerate(items):
        k = it[0]
        if k == 'api':
            span[it[2]] = [n, None, 0]
            open_calls.append(it[2])
        elif k in ('ret', 'raised'):
            if not open_calls or open_calls[-1] != it[1]:
                bad.append(('outcome-out-of-order', n, it[1]))
                break
            open_calls.pop()
            span[it[1]][1] = n
            if span[it[1]][2] != 1:
                bad.append(('not-processed-completely' if span[it[1]][2] == 0 else 'processed-twice', n, it[1]))
        elif k == 'call':
            tag = it[4]
            if tag not in span or span[tag][1] is not None:
                bad.append(('callback-outside-its-trigger-call', n, tag))
                break
            if not open_calls or open_calls[-1] != tag:
                bad.append(('callback-of-an-outer-event-while-a-nested-trigger-is-in-progress', n, tag))
            if it[1] == SLOT['finalize_event'] and it[2] == fin0:
                span[tag][2] += 1
            cb_stack.append((it[2], len(open_calls)))
        elif k == 'done':
            if not cb_stack:
                bad.append(('done-without-call', n, it[1]))
                break
            _c, depth = cb_stack.pop()
            if len(open_calls) != depth:
                bad.append(('callback-returned-before-its-trigger-call', n, it[1]))
    if not bad and open_calls:
        bad.append(('unfinished-trigger-call', len(items), open_calls[-1]))
    return bad


def deferred(items):
    """number of trigger calls issued from inside a callback"""
    depth = n = 0
    for it in items:
        if it[0] == 'call':
            depth += 1
        elif it[0] == 'done':
            depth -= 1
        elif it[0] == 'api' and depth > 0:
            n += 1
    return n


# ---------------------------------------------------------------------------------------------
# judge
# ---------------------------------------------------------------------------------------------

def modelled(d):
    """the domain of the model tie on UNQUEUED machines: events are triggered only from callbacks that run at the
    machine's root scope.  on_enter / on_exit callbacks run while the machine is scoped into their state
    (`NestedState.scoped_enter/exit`), and every callback of an event declared INSIDE a state runs while the machine
    is scoped into the declaring state (`with self(key)` in `_trigger_event_nested`); an event triggered from there is
    dispatched relative to that scope (ValueError from `get_state`, AttributeError instead of MachineError from
    `_check_event_result`).  `Model/Nested.lean` does not model the dynamic scope of the machine.  The property
    itself is still judged on such runs (immediate_oracle).  On queued machines a deferred event is processed later,
    from the root scope, and the tie holds for every slot."""
    if d.queued:
        return True
    root_only = (SLOT['finalize_event'], SLOT['on_exception'])
    scoped = (SLOT['on_enter'], SLOT['on_exit'])
    local = any(n['local'] for _p, n in d.walk())
    for (c, _k), (cmds, _o) in d.script.items():
        if cmds and (d.cb_slot[c] in scoped or (local and d.cb_slot[c] not in root_only)):
            return False
    return True


def classes_for(d):
    return list(SYNC_CLASSES) + ([ASYNC_CLASS] if solo(d) else [])


def judge(stream, d, model_ans=None, only=None):
    """-> (failures, {class: run})"""
    queued = STREAMS[stream]['queued']
    case = {'stream': stream, 'desc': d.to_json()}
    out = []
    runs = {}
    for cls in (only or classes_for(d)):
        r, err = nested.run_guarded(d, cls, seconds=30)
        ccase = dict(case, cls=cls)
        if err == 'hang':
            out.append(Failure('monitor', 'hang:' + cls, ccase, {'class': cls}, signature='C05.nested-hang'))
            continue
        if err:
            out.append(Failure('correspondence', 'construction:' + cls, ccase, {'error': err}))
            continue
        runs[cls] = r
        if r.bad:
            out.append(Failure('monitor', 'arguments:' + cls, ccase, {'bad': r.bad[:5]}, signature='C05.args'))
    if queued and runs:
        order = sorted(runs)
        answers = common.batch_driver([('c05', [d.finalize[0]] + common.enc_items(runs[c].items)) for c in order])
        for cls, a in zip(order, answers):
            if a != 'ok':
                out.append(Failure('monitor', 'verified-monitor:' + cls, dict(case, cls=cls),
                                   {'monitor': a, 'class': cls,
                                    'impl_trace': [common.show_item(i) for i in runs[cls].items]},
                                   signature='C05.monitor'))
    if not queued:
        for cls, r in sorted(runs.items()):
            for b in immediate_oracle(d, r.items)[:1]:
                out.append(Failure('monitor', 'immediate:' + b[0] + ':' + cls, dict(case, cls=cls),
                                   {'oracle': list(b), 'class': cls,
                                    'impl_trace': [common.show_item(i) for i in r.items]},
                                   signature='C05.immediate'))
    hm = runs.get('HierarchicalMachine')
    if hm is not None:
        if not modelled(d):
            model_ans = 'oof'
        elif model_ans is None:
            model_ans = common.batch_driver([('nested', d.enc_case())])[0]
        m = nested.parse_model_answer(model_ans)
        if m is None:
            if model_ans == 'noinit':
                out.append(Failure('correspondence', 'model_noinit', case, {}))
        else:
            items, vals, _g = m
            if items != hm.items or vals != hm.states_after:
                k = next((i for i, (x, y) in enumerate(zip(items, hm.items)) if x != y), min(len(items), len(hm.items)))
                out.append(Failure('correspondence', 'nested_trace_eq', case, {
                    'first_difference_at': k,
                    'model': [common.show_item(i) for i in items[max(0, k - 4):k + 3]],
                    'impl': [common.show_item(i) for i in hm.items[max(0, k - 4):k + 3]],
                    'model_states': vals, 'impl_states': hm.states_after}))
        lk = runs.get('LockedHierarchicalMachine')
        if lk is not None and (lk.items != hm.items or lk.states_after != hm.states_after):
            k = next((i for i, (x, y) in enumerate(zip(lk.items, hm.items)) if x != y), min(len(lk.items), len(hm.items)))
            out.append(Failure('correspondence', 'class_differential:LockedHierarchicalMachine',
                               dict(case, cls='LockedHierarchicalMachine'), {
                                   'first_difference_at': k,
                                   'locked': [common.show_item(i) for i in lk.items[max(0, k - 4):k + 3]],
                                   'plain': [common.show_item(i) for i in hm.items[max(0, k - 4):k + 3]]}))
    return out, runs


def stats(st, stream, d, runs):
    def bump(k, kk, n=1):
        dd = st.setdefault(k, {})
        dd[str(kk)] = dd.get(str(kk), 0) + n
    bump('stream', stream)
    hm = runs.get('HierarchicalMachine')
    if hm is None:
        return
    bump('nested_states', len(d.walk()))
    bump('nested_classes_run', len(runs))
    bump('nested_triggers_from_callbacks', min(deferred(hm.items), 5))
    bump('nested_on_exception', int(bool(d.on_exception)))
    if not d.queued:
        bump('nested_unqueued_model_tie', ('tied' if modelled(d) else 'oracle-only') + (':nested-trigger' if deferred(hm.items) else ''))
    shape = 'single'
    for v in hm.states_after:
        if isinstance(v, list):
            shape = 'parallel'
    bump('nested_configuration', shape)
    for it in hm.items:
        if it[0] == 'ret':
            bump('outcomes', 'true' if it[2] else 'false')
        elif it[0] == 'raised':
            bump('outcomes', 'raised:' + common.EXC_NAMES[it[2]])
        elif it[0] == 'done' and it[2] == 1:
            st['raising_callbacks'] = st.get('raising_callbacks', 0) + 1
        elif it[0] == 'call':
            bump('slot_calls', common.SLOTS[it[1]])


def nontrivial(d, runs):
    hm = runs.get('HierarchicalMachine')
    return hm is not None and deferred(hm.items) > 0


def chunk(seed, idx, n, stream):
    rng = random.Random('C05/%s/%d/%d' % (stream, seed, idx))
    descs = [gen(stream, rng) for _ in range(n)]
    answers = common.batch_driver([('nested', d.enc_case()) for d in descs])
    ex = Exploration()
    for d, a in zip(descs, answers):
        if any(f.kind == 'monitor' and f.what.startswith('hang') for f in ex.failures):
            break
        fs, runs = judge(stream, d, a)
        ex.evaluations += 1
        ex.traces_validated += len(runs)
        if a == 'oof':
            ex.oof += 1
        if nontrivial(d, runs):
            ex.nontrivial.add(nestedcheck.fingerprint(d))
            if len(ex.samples) < 1:
                ex.samples.append({'stream': stream, 'initial': nested.pname(d.initial), 'history': d.history,
                                   'trace': [common.show_item(i) for i in runs['HierarchicalMachine'].items[:40]]})
        stats(ex.stats, stream, d, runs)
        ex.failures += fs
    return ex


# ---------------------------------------------------------------------------------------------
# shrinking / replay
# ---------------------------------------------------------------------------------------------

def shrink_steps(case):
    d = case['desc']
    for c in nestedcheck.shrink_steps(case):
        nd = c['desc']
        if nd['queued'] != d['queued'] or nd['finalize'][:1] != d['finalize'][:1]:
            continue
        yield c
    # drop single commands / turn a raise into a return
    for i, (_key, (cmds, out)) in enumerate(d['script']):
        for j in range(len(cmds)):
            nd = copy.deepcopy(d)
            del nd['script'][i][1][0][j]
            yield dict(case, desc=nd)
        if out[0] == 'raise':
            nd = copy.deepcopy(d)
            nd['script'][i][1][1] = ['ret', True]
            yield dict(case, desc=nd)
    for key in ('on_exception',):
        for ci in range(len(d[key])):
            nd = copy.deepcopy(d)
            del nd[key][ci]
            yield dict(case, desc=nd)
    for ci in range(1, len(d['finalize'])):
        nd = copy.deepcopy(d)
        del nd['finalize'][ci]
        yield dict(case, desc=nd)


def rejudge(case):
    d = nested.NDesc.from_json(case['desc'])
    only = None
    if case.get('cls') and case['cls'] != 'HierarchicalMachine':
        only = ['HierarchicalMachine', case['cls']]
    return judge(case['stream'], d, only=only)


def replay(case):
    d = nested.NDesc.from_json(case['desc'])
    print('stream:', case['stream'], ' class:', case.get('cls') or 'HierarchicalMachine', ' initial:',
          nested.pname(d.initial), ' queued:', d.queued, ' history:', d.history)
    for p, n in d.walk():
        print('  ' * len(p) + nested.pname(p), 'initial', [nested.seg(i) for i in n['initial']],
              ['local e%d: %s -> %s' % (e, nested.pname(t['source']), t['dest'] and nested.pname(t['dest']))
               for e, ts in n['local'] for t in ts])
    for e, ts in d.events:
        for t in ts:
            print('global e%d: %s -> %s' % (e, nested.pname(t['source']), t['dest'] and nested.pname(t['dest'])))
    print('script:', sorted(d.script.items()))
    fs, runs = rejudge(case)
    for cls, r in sorted(runs.items()):
        print('implementation trace (%s):' % cls)
        for i in r.items:
            print('   ', common.show_item(i))
        print('   states after each call:', r.states_after)
    m = nested.parse_model_answer(common.batch_driver([('nested', d.enc_case())])[0])
    if m:
        print('model trace:')
        for i in m[0]:
            print('   ', common.show_item(i))
    for f in fs:
        print('FAIL', f.kind, f.what, f.signature)
    return 1 if fs else 0
