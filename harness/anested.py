"""Nested / parallel configurations for the C07 differential (HierarchicalMachine vs
HierarchicalAsyncMachine): a generated flat description gets a random tree imposed on its states —
compound states with an initial child, parallel states, transitions whose source / destination are
leaves or ancestors — and is realised through the public dict format of `HierarchicalMachine`."""
from . import aflat, flat, common


def impose_tree(d, rng, p_child=0.6, p_parallel=0.35, max_depth=2, p_local=0.5):
    """in place: d.states[i] gets parent / children / parallel / initial; returns d"""
    depth = {}
    for s in d.states:
        s['parent'] = None
        s['children'] = []
        s['parallel'] = False
        s['init_child'] = None
    for i, s in enumerate(d.states):
        if i == 0:
            depth[i] = 0
            continue
        cands = [j for j in range(i) if depth[j] < max_depth]
        if cands and rng.random() < p_child:
            p = rng.choice(cands)
            s['parent'] = p
            d.states[p]['children'].append(i)
            depth[i] = depth[p] + 1
        else:
            depth[i] = 0
    for s in d.states:
        if len(s['children']) >= 2 and rng.random() < p_parallel:
            s['parallel'] = True
        elif s['children']:
            s['init_child'] = rng.choice(s['children'])
    # some transitions between siblings are declared locally, in the scope of their common parent
    for _ev, ts in d.events:
        for t in ts:
            p = d.states[t['source']]['parent']
            t['local'] = None
            if p is not None and (t['dest'] is None or d.states[t['dest']]['parent'] == p) and rng.random() < p_local:
                t['local'] = p
    d.nested = True
    return d


def seg(i):
    return 'n%d' % i


def full_name(d, i):
    parts = []
    while i is not None:
        parts.append(seg(i))
        i = d.states[i]['parent']
    return getattr(d, 'sep', '_').join(reversed(parts))


TO = 5      # history command (TO, model, state): `model.to(<full state name>)`, the hierarchical classes' helper


class NRun7(aflat.Run7):
    """Run7 on the hierarchical classes with the tree of the description"""

    def _to_call(self, c, tag):
        _kind, a, b = c
        self.items.append(('api', TO, tag, a, b))
        self.tag_event[tag] = 'to'
        return self.model_objs[a].to(full_name(self.d, b), tag, m=a)

    def _to_done(self, tag, r=None, exc=None):
        if exc is not None:
            if isinstance(exc, common.MachineryError):
                raise exc
            self.items.append(('raised', tag) + flat.canon_exc(exc))
            return
        self.items.append(('ret', tag, int(bool(r))))

    def do_cmd(self, c):
        if c[0] != TO:
            return aflat.Run7.do_cmd(self, c)
        tag = self.next_tag
        self.next_tag += 1
        try:
            r = self._to_call(c, tag)
        except BaseException as e:
            self._to_done(tag, exc=e)
            raise
        self._to_done(tag, r)
        return r

    async def ado_cmd(self, c):
        if c[0] != TO:
            return await aflat.Run7.ado_cmd(self, c)
        import inspect
        tag = self.next_tag
        self.next_tag += 1
        try:
            r = self._to_call(c, tag)
            if inspect.isawaitable(r):      # a careful caller awaits what is awaitable
                r = await r
        except BaseException as e:
            self._to_done(tag, exc=e)
            raise
        self._to_done(tag, r)
        return r

    def node_def(self, i):
        s = self.d.states[i]
        nd = {'name': seg(i), 'on_enter': self.names(s['on_enter']), 'on_exit': self.names(s['on_exit']),
              'ignore_invalid_triggers': s['ignore'], 'final': s['final']}
        local = [self.trans_def(ev, t, True) for ev, ts in self.d.events for t in ts if t.get('local') == i]
        if local:
            nd['transitions'] = local
        if s['children']:
            kids = [self.node_def(c) for c in s['children']]
            if s['parallel']:
                nd['parallel'] = kids
            elif i in getattr(self.d, 'embed', ()):
                # the children (and the transitions declared in this state's scope) arrive as ANOTHER MACHINE instance
                # embedded as children: its Event objects are adopted by the embedding machine
                nd.pop('transitions', None)
                nd['children'] = self.cls(model=None, states=kids, transitions=local, initial=seg(s['init_child']),
                                          auto_transitions=False, send_event=self.d.send_event)
                nd['initial'] = seg(s['init_child'])
            else:
                nd['children'] = kids
                nd['initial'] = seg(s['init_child'])
        return nd

    def state_defs(self):
        return [self.node_def(i) for i, s in enumerate(self.d.states) if s['parent'] is None]

    def trans_def(self, ev, t, local):
        d = self.d
        name = (lambda i: seg(i)) if local else (lambda i: full_name(d, i))
        return {'trigger': flat.ename(ev), 'source': name(t['source']),
                'dest': None if t['dest'] is None else name(t['dest']),
                'prepare': self.names(t['prepare']),
                'conditions': self.names([c for c, tg in t['conds'] if tg]),
                'unless': self.names([c for c, tg in t['conds'] if not tg]),
                'before': self.names(t['before']), 'after': self.names(t['after'])}

    def transition_defs(self):
        return [self.trans_def(ev, t, False) for ev, ts in self.d.events for t in ts if t.get('local') is None]

    def build(self, extra):
        d = self.d
        sep = getattr(d, 'sep', '_')
        if sep != '_' and not getattr(self.cls, '_verif_sep', None):
            # a custom separator the documented way: a state subclass with its own `separator`, used by a machine
            # subclass through `state_cls` (embedded machines are built from the same class)
            self.cls = type(self.cls.__name__ + 'Sep', (self.cls,),
                            {'state_cls': type('SepState', (self.cls.state_cls,), {'separator': sep}),
                             '_verif_sep': sep})
        kw = dict(model=[self.model_objs[m] for m in d.models], states=self.state_defs(),
                  transitions=self.transition_defs(), initial=full_name(d, d.initial), send_event=d.send_event,
                  auto_transitions=False, ignore_invalid_triggers=d.ignore,
                  before_state_change=self.names(d.before_sc), after_state_change=self.names(d.after_sc),
                  prepare_event=self.names(d.prepare_event), finalize_event=self.names(d.finalize),
                  on_exception=self.names(d.on_exception), on_final=self.names(d.on_final))
        kw.update(extra)
        return self.cls(**kw)

    def state_id(self, model):
        return repr(getattr(model, 'state', None))

    def final(self):
        models = [mo._mid for mo in self.machine.models]
        return models, {m: self.state_id(mo) for m, mo in self.model_objs.items() if 'state' in mo.__dict__}


def to_json(d):
    return aflat.to_json(d)


def from_json(j):
    d = aflat.from_json(j)
    d.nested = True
    return d
