"""Hierarchical machines for C02 / C03: abstract descriptions (state trees with exclusive / parallel compounds,
initial present / absent / nested, globally and locally declared transitions, scripted conditions), generator,
small-scope enumerator, protocol encoder (mirror of `lean/Handlers/HC02.lean`) and a sync/async-agnostic runner
that realises a description on any of the six hierarchical classes with recording callbacks.

Names: every state has an integer segment id `i` (string `n<i>`), its full name is the `_`-joined path; events are
`e<i>`; callbacks `cb_<slot>_<id>` are synthesised by the recording model (`flat.RecModel`).

Recorder convention (what `C02.project` in Lean relies on): the FIRST on_enter / on_exit callback of a state, the
first prepare / before callback of a transition and the first finalize_event callback of the machine are unique
to their owner."""
import asyncio
import copy
import inspect
import signal

from . import common, flat
from .common import SLOT

HSM_CLASSES = ['HierarchicalMachine', 'LockedHierarchicalMachine', 'HierarchicalGraphMachine',
               'LockedHierarchicalGraphMachine', 'HierarchicalAsyncMachine', 'HierarchicalAsyncGraphMachine']


def get_cls(name):
    import transitions.extensions as ext
    cls = getattr(ext, name)
    kw = {'graph_engine': 'mermaid'} if 'Graph' in name else {}
    return cls, kw


def seg(i):
    return 'n%d' % i


def pname(path):
    return '_'.join(seg(i) for i in path)


def parse_name(name):
    return [int(x[1:]) for x in name.split('_')]


# ---------------------------------------------------------------------------------------------
# description
# ---------------------------------------------------------------------------------------------

class NDesc(object):
    def __init__(self):
        self.roots = []         # nodes: dict(name, children, initial, pkey, ignore, on_enter, on_exit, local)
        self.events = []        # (ev, [trans]); trans: dict(source [ints], dest None|[ints], prepare, conds, before, after)
        self.prepare_event = []
        self.before_sc = []
        self.after_sc = []
        self.finalize = []
        self.on_exception = []
        self.ignore = None
        self.queued = False
        self.initial = []
        self.script = {}
        self.history = []       # event ids
        self.cb_slot = {}
        self.on_final = []      # Machine.on_final (nodes may carry 'final' / 'on_final'; absent = False / [])
        self.models = 1         # number of models on the machine
        self.mhist = []         # model of every history item (empty = all on model 0)
        self.falsy = []         # per model: 0 truthy, 1 always falsy (__bool__), 2 falsy during its odd-numbered calls
        self.suspend = {}       # callback id -> number of times it really suspends (async classes only)
        self.start = None       # number of models registered at construction (None = all of them)
        self.mops = []          # membership operations between events: [k, 'add' | 'remove', [model ids], initial path | None],
                                # carried out before history item k (k = len(history): after the last one)

    # -- traversal ----------------------------------------------------------------------------
    def walk(self):
        """(path, node) in pre-order"""
        def rec(nodes, pre):
            for n in nodes:
                p = pre + [n['name']]
                yield p, n
                for x in rec(n['children'], p):
                    yield x
        return list(rec(self.roots, []))

    def node(self, path):
        nodes = self.roots
        n = None
        for k in path:
            n = next((x for x in nodes if x['name'] == k), None)
            if n is None:
                return None
            nodes = n['children']
        return n

    def all_trans(self):
        """(scope path, ev, idx, trans)"""
        out = []
        for ev, ts in self.events:
            for i, t in enumerate(ts):
                out.append(([], ev, i, t))
        for p, n in self.walk():
            for ev, ts in n['local']:
                for i, t in enumerate(ts):
                    out.append((p, ev, i, t))
        return out

    # -- protocol ---------------------------------------------------------------------------
    @staticmethod
    def enc_trans(t):
        o = _l(t['source'])
        o += [0] if t['dest'] is None else [1] + _l(t['dest'])
        o += _l(t['prepare']) + [len(t['conds'])]
        for cb, tg in t['conds']:
            o += [cb, int(tg)]
        return o + _l(t['before']) + _l(t['after'])

    @classmethod
    def enc_events(cls, evs):
        o = [len(evs)]
        for ev, ts in evs:
            o += [ev, len(ts)]
            for t in ts:
                o += cls.enc_trans(t)
        return o

    @classmethod
    def enc_forest(cls, nodes):
        o = [len(nodes)]
        for n in nodes:
            o += [n['name']] + _l(n['on_enter']) + _l(n['on_exit'])
            o += [0 if n['ignore'] is None else (2 if n['ignore'] else 1)]
            o += _l(n['initial']) + cls.enc_events(n['local']) + cls.enc_forest(n['children'])
        return o

    def enc_cfg(self):
        o = self.enc_forest(self.roots) + self.enc_events(self.events)
        for l in (self.prepare_event, self.before_sc, self.after_sc, self.finalize, self.on_exception):
            o += _l(l)
        return o + [int(bool(self.ignore)), int(self.queued)] + _l(self.initial)

    # extended form (mirror of `ncfg4` in lean/Handlers/HC04N.lean): final flags and on_final lists
    @classmethod
    def enc_forest4(cls, nodes):
        o = [len(nodes)]
        for n in nodes:
            o += [n['name']] + _l(n['on_enter']) + _l(n['on_exit'])
            o += [0 if n['ignore'] is None else (2 if n['ignore'] else 1)]
            o += _l(n['initial']) + cls.enc_events(n['local'])
            o += [int(bool(n.get('final')))] + _l(n.get('on_final', []))
            o += cls.enc_forest4(n['children'])
        return o

    def enc_cfg4(self):
        o = self.enc_forest4(self.roots) + self.enc_events(self.events)
        for l in (self.prepare_event, self.before_sc, self.after_sc, self.finalize, self.on_exception):
            o += _l(l)
        return o + [int(bool(self.ignore)), int(self.queued)] + _l(self.initial) + _l(self.on_final)

    def enc_case4(self):
        return self.enc_cfg4() + self.enc_script() + _l(self.history)

    def enc_script(self):
        o = [len(self.script)]
        for (cb, k), (cmds, out) in sorted(self.script.items()):
            o += [cb, k, len(cmds)]
            for c in cmds:
                o += list(c)
            o += flat.enc_out(out)
        return o

    def enc_case(self):
        return self.enc_cfg() + self.enc_script() + _l(self.history)

    def model_of(self, k):
        return self.mhist[k] if k < len(self.mhist) else 0

    def history_of(self, m):
        return [ev for k, ev in enumerate(self.history) if self.model_of(k) == m]

    def life_plan(self):
        """(lives, new): a LIFE of a model lasts from its registration to its removal (or the end); lives are numbered in
        the order they begin. lives[li] = {'model', 'initial' (path | None = the machine's), 'items' (history indices)};
        new[j] = [(model, li)] the lives which membership operation j begins. An add_model call begins a life for every
        model it names that is not registered at that moment (first mention counts); all other models are not touched."""
        n = max(1, self.models)
        start = n if self.start is None else self.start
        lives = [{'model': m, 'initial': None, 'items': []} for m in range(start)]
        cur = {m: m for m in range(start)}
        new = []
        ops = sorted(enumerate(self.mops), key=lambda jo: (jo[1][0], jo[0]))
        new = [[] for _ in self.mops]
        oi = 0
        for k in range(len(self.history) + 1):
            while oi < len(ops) and ops[oi][1][0] <= k:
                j, (_k, kind, mids, init) = ops[oi]
                oi += 1
                if kind == 'add':
                    for m in mids:
                        if m not in cur:
                            cur[m] = len(lives)
                            new[j].append((m, len(lives)))
                            lives.append({'model': m, 'initial': (list(init) if init is not None else None), 'items': []})
                else:
                    for m in mids:
                        cur.pop(m, None)
            if k < len(self.history) and self.model_of(k) in cur:
                lives[cur[self.model_of(k)]]['items'].append(k)
        return lives, new

    def enc_case_model(self, m):
        """the case as model `m` sees it: models of one machine are independent, script counters are per model"""
        return self.enc_cfg() + self.enc_script() + _l(self.history_of(m))

    def to_json(self):
        d = copy.deepcopy(self.__dict__)
        d['script'] = [[list(k), [list(map(list, v[0])), list(v[1])]] for k, v in sorted(self.script.items())]
        d['cb_slot'] = sorted(self.cb_slot.items())
        d['suspend'] = sorted(self.suspend.items())
        return d

    @staticmethod
    def from_json(j):
        x = NDesc()
        j = copy.deepcopy(j)
        x.__dict__.update(j)
        x.script = {tuple(k): ([tuple(c) for c in v[0]], tuple(v[1])) for k, v in j['script']}
        x.cb_slot = {k: v for k, v in j['cb_slot']}
        x.suspend = {k: v for k, v in j.get('suspend', [])}
        x.models = j.get('models', 1)
        x.mhist = list(j.get('mhist', []))
        x.falsy = list(j.get('falsy', []))
        x.start = j.get('start')
        x.mops = [[o[0], o[1], list(o[2]), (list(o[3]) if o[3] is not None else None)] for o in j.get('mops', [])]

        def fix_events(evs):
            out = []
            for ev, ts in evs:
                for t in ts:
                    t['conds'] = [tuple(c) for c in t['conds']]
                out.append((ev, ts))
            return out
        x.events = fix_events(j['events'])

        def fix_nodes(nodes):
            for n in nodes:
                n['local'] = fix_events(n['local'])
                fix_nodes(n['children'])
        fix_nodes(x.roots)
        return x


def _l(xs):
    return [len(xs)] + list(xs)


def enc_sval(v):
    """model.state (str | nested list) → tokens (mirror of `encSVal`)"""
    if isinstance(v, (list, tuple)):
        o = [1, len(v)]
        for x in v:
            o += enc_sval(x)
        return o
    p = parse_name(v)
    return [0, len(p)] + p


def dec_svals(nums):
    """a sequence of encoded state values → list of python values"""
    pos = [0]

    def one():
        k = nums[pos[0]]
        pos[0] += 1
        n = nums[pos[0]]
        pos[0] += 1
        if k == 0:
            p = nums[pos[0]:pos[0] + n]
            pos[0] += n
            return pname(p)
        return [one() for _ in range(n)]
    out = []
    while pos[0] < len(nums):
        out.append(one())
    return out


def flatten(v):
    if isinstance(v, (list, tuple)):
        out = []
        for x in v:
            out += flatten(x)
        return out
    return [v]


# ---------------------------------------------------------------------------------------------
# generator
# ---------------------------------------------------------------------------------------------

class NKnobs(object):
    def __init__(self, **kw):
        self.max_depth = 4
        self.max_branch = 4
        self.max_states = 12
        self.max_roots = 3
        self.p_compound = 0.65
        self.p_parallel = 0.4
        self.p_noinit = 0.15
        self.p_collide = 0.08       # reuse a segment name that exists elsewhere in the tree
        self.max_events = 3
        self.max_trans = 4          # per event
        self.p_local = 0.3
        self.max_conds = 2
        self.p_cond_false = 0.35
        self.p_queued = 0.35
        self.p_cmds = 0.08          # per scripted invocation of a non-condition callback (queued machines only)
        self.max_history = 15
        self.p_unknown_event = 0.06
        self.script_depth = 4
        self.p_extra_cb = 0.2
        self.p_ignore = 0.25
        self.p_deep_initial = 0.3   # machine initial is a nested path
        self.p_mops = 0.0           # several models: membership operations (add_model / remove_model) between events
        self.max_models = 1         # models on one machine (each history item goes to one of them)
        self.p_falsy = 0.0          # a model is falsy (always / on its odd-numbered calls)
        self.p_suspend = 0.0        # an on_enter / on_exit callback really suspends (1-3 times) on the async classes
        self.__dict__.update(kw)


def gen_nested(rng, kn):
    d = NDesc()
    nxt_cb = [0]
    nxt_name = [0]
    used_names = []
    count = [0]
    cond_cbs = []

    def cb(slot):
        c = nxt_cb[0]
        nxt_cb[0] += 1
        d.cb_slot[c] = slot
        return c

    def cbs(slot, p=None):
        out = [cb(slot)]
        if rng.random() < (kn.p_extra_cb if p is None else p):
            out.append(cb(slot))
        return out

    def fresh_name(siblings, parent_path):
        if used_names and rng.random() < kn.p_collide:
            cand = rng.choice(used_names)
            if cand not in siblings:
                return cand
        n = nxt_name[0]
        nxt_name[0] += 1
        used_names.append(n)
        return n

    cap = rng.randint(2, kn.max_states) if kn.max_states >= 2 else 1

    def mk_node(depth, siblings, path):
        count[0] += 1
        name = fresh_name(siblings, path)
        n = {'name': name, 'children': [], 'initial': [], 'pkey': False,
             'ignore': (rng.choice([False, True]) if rng.random() < kn.p_ignore else None),
             'on_enter': cbs(SLOT['on_enter']), 'on_exit': cbs(SLOT['on_exit']), 'local': []}
        if depth < kn.max_depth and count[0] < cap and rng.random() < kn.p_compound:
            k = rng.randint(1, kn.max_branch)
            names = []
            for _ in range(k):
                if count[0] >= cap:
                    break
                ch = mk_node(depth + 1, names, path + [name])
                names.append(ch['name'])
                n['children'].append(ch)
            if n['children']:
                r = rng.random()
                if len(names) >= 2 and r < kn.p_parallel:
                    if rng.random() < 0.6:
                        n['pkey'] = True
                        n['initial'] = list(names)
                    else:
                        n['initial'] = list(names)
                        rng.shuffle(n['initial'])
                elif r < kn.p_parallel + kn.p_noinit:
                    n['initial'] = []
                else:
                    n['initial'] = [rng.choice(names)]
        return n

    nroots = rng.randint(1, kn.max_roots)
    rnames = []
    for _ in range(nroots):
        if count[0] >= cap and d.roots:
            break
        r = mk_node(1, rnames, [])
        rnames.append(r['name'])
        d.roots.append(r)
    allp = d.walk()
    paths = [p for p, _n in allp]
    compounds = [(p, n) for p, n in allp if n['children']]
    # machine initial: a root, or a nested path
    if rng.random() < kn.p_deep_initial:
        d.initial = list(rng.choice(paths))
    else:
        d.initial = list(rng.choice([p for p in paths if len(p) == 1]))
    d.ignore = rng.choice([None, None, False, True])
    d.queued = rng.random() < kn.p_queued
    d.finalize = cbs(SLOT['finalize_event'])
    if rng.random() < 0.5:
        d.prepare_event = cbs(SLOT['prepare_event'], 0.0)
    if rng.random() < 0.3:
        d.before_sc = cbs(SLOT['before_state_change'], 0.0)
    if rng.random() < 0.3:
        d.after_sc = cbs(SLOT['after_state_change'], 0.0)

    def mk_trans(source, dest):
        nc = rng.randint(0, kn.max_conds)
        ncond = rng.randint(0, nc)
        conds = [(cb(SLOT['conditions']), True) for _ in range(ncond)] + [(cb(SLOT['unless']), False) for _ in range(nc - ncond)]
        cond_cbs.extend(c for c, _ in conds)
        return {'source': list(source), 'dest': None if dest is None else list(dest),
                'prepare': cbs(SLOT['prepare'], 0.1), 'conds': conds, 'before': cbs(SLOT['before'], 0.1),
                'after': ([cb(SLOT['after'])] if rng.random() < 0.3 else [])}

    def pick_dest(src, universe):
        r = rng.random()
        if r < 0.10:
            return None
        if r < 0.22:
            return src
        anc = [src[:i] for i in range(1, len(src)) if src[:i] in universe]
        desc = [p for p in universe if len(p) > len(src) and p[:len(src)] == src]
        if r < 0.37 and anc:
            return rng.choice(anc)
        if r < 0.50 and desc:
            return rng.choice(desc)
        sib = [p for p in universe if len(p) == len(src) and p[:-1] == src[:-1] and p != src]
        if r < 0.65 and sib:
            return rng.choice(sib)
        return rng.choice(universe)

    nev = rng.randint(1, kn.max_events)
    glob = {e: [] for e in range(nev)}
    for e in range(nev):
        for _ in range(rng.randint(1, kn.max_trans)):
            if compounds and rng.random() < kn.p_local:
                cp, cn = rng.choice(compounds)
                rel = [p[len(cp):] for p in paths if len(p) > len(cp) and p[:len(cp)] == cp]
                src = rng.choice([p for p in rel if len(p) <= 2] or rel)
                dst = pick_dest(src, rel)
                t = mk_trans(src, dst)
                for entry in cn['local']:
                    if entry[0] == e:
                        entry[1].append(t)
                        break
                else:
                    cn['local'].append((e, [t]))
            else:
                src = rng.choice(paths)
                if rng.random() < 0.12:     # "wildcard": the same event from every root state
                    for rp in [p for p in paths if len(p) == 1]:
                        glob[e].append(mk_trans(rp, pick_dest(rp, paths)))
                    continue
                glob[e].append(mk_trans(src, pick_dest(src, paths)))
    d.events = [(e, ts) for e, ts in glob.items() if ts]
    known = sorted(set([e for e, _ in d.events] + [e for _p, n in allp for e, _ts in n['local']]))
    # script
    cond_set = set(cond_cbs)
    budget = [4]
    for c in range(nxt_cb[0]):
        for k in range(kn.script_depth):
            out = ('ret', True)
            cmds = []
            if c in cond_set:
                if rng.random() < kn.p_cond_false:
                    out = ('ret', False)
            elif d.queued and budget[0] > 0 and rng.random() < kn.p_cmds and d.cb_slot[c] != SLOT['finalize_event']:
                cmds = [(flat.TRIGGER, 0, rng.choice(known or [0]))]
                budget[0] -= 1
            if cmds or out != ('ret', True):
                d.script[(c, k)] = (cmds, out)
    d.history = [(rng.choice(known or [0]) if rng.random() >= kn.p_unknown_event else nev + 3)
                 for _ in range(rng.randint(1, kn.max_history))]
    if kn.max_models > 1:
        d.models = rng.randint(2, kn.max_models)
        d.mhist = [rng.randrange(d.models) for _ in d.history]
        d.falsy = [(rng.choice([1, 2]) if rng.random() < kn.p_falsy else 0) for _ in range(d.models)]
    if kn.p_suspend > 0:
        for c, slot in sorted(d.cb_slot.items()):
            if slot in (SLOT['on_enter'], SLOT['on_exit']) and rng.random() < kn.p_suspend:
                d.suspend[c] = rng.randint(1, 3)
    if kn.p_mops > 0 and d.models > 1 and rng.random() < kn.p_mops:
        d.start = rng.randint(1, d.models)
        reg = set(range(d.start))
        for k in range(len(d.history) + 1):
            if rng.random() < 0.35:
                if reg and rng.random() < 0.3:
                    mids = rng.sample(sorted(reg), rng.randint(1, min(2, len(reg))))
                    d.mops.append([k, 'remove', mids, None])
                    reg -= set(mids)
                else:
                    # lists mixing registered and new models, a model named twice, with and without `initial=`
                    mids = [rng.randrange(d.models) for _ in range(rng.randint(1, 3))]
                    init = list(rng.choice(paths)) if rng.random() < 0.3 else None
                    d.mops.append([k, 'add', mids, init])
                    reg |= set(mids)
            if k < len(d.history) and d.mhist[k] not in reg and reg and rng.random() < 0.85:
                d.mhist[k] = rng.choice(sorted(reg))
    return d


# ---------------------------------------------------------------------------------------------
# realisation on the real classes
# ---------------------------------------------------------------------------------------------

class CaseTimeout(Exception):
    pass


class BoolModel(flat.RecModel):
    """a recording model whose truth value the harness controls (`__bool__`): an ordinary object that happens to be
    falsy at some moments, like a container that is empty"""

    def __init__(self, mid, run):
        flat.RecModel.__init__(self, mid, run)
        self.__dict__['_truthy'] = True

    def __bool__(self):
        return self.__dict__['_truthy']

    __nonzero__ = __bool__


class View(object):
    """what one model of the machine saw: its items, its state after each of its own calls"""

    def __init__(self):
        self.items = []
        self.counts = {}
        self.next_tag = 0
        self.bad = []
        self.states_after = []
        self.calls = 0


class NestedRun(object):
    """Realise an NDesc on one of the hierarchical classes and run its history, recording."""

    def __init__(self, desc, cls_name='HierarchicalMachine', enum=False):
        self.d = desc
        self.cls_name = cls_name
        self.enum = enum
        self.member = {}        # path tuple -> Enum member (enum mode: one Enum class per sibling group)
        self.member_path = {}   # Enum member -> full name
        if enum:
            self._make_enums()
        self.is_async = 'Async' in cls_name
        self.lives, self.op_new = desc.life_plan()
        self.life_views = [View() for _ in self.lives]      # one view per life (see NDesc.life_plan)
        nstart = max(1, desc.models) if desc.start is None else desc.start
        self.registered = set(range(nstart))
        self.views = {m: self.life_views[m] for m in range(nstart)}      # the view of a model's current life
        self.index = {pname(p): i for i, (p, _n) in enumerate(desc.walk())}
        self.nstates = len(self.index)
        self.model_objs = [BoolModel(m, self) for m in range(max(1, desc.models))]
        self.model = self.model_objs[0]
        self.loop = asyncio.new_event_loop() if self.is_async else None
        cls, kw = get_cls(cls_name)
        self.machine = self.build(cls, kw)

    # model 0's view under the old names (single-model consumers)
    @property
    def items(self):
        return self.views[0].items

    @property
    def bad(self):
        return self.views[0].bad

    @property
    def states_after(self):
        return self.views[0].states_after

    @property
    def counts(self):
        return self.views[0].counts

    @counts.setter
    def counts(self, v):
        self.views[0].counts = v

    @property
    def next_tag(self):
        return self.views[0].next_tag

    @next_tag.setter
    def next_tag(self, v):
        self.views[0].next_tag = v

    def _trig(self, ev, mid):
        # model 0 through the one-argument form: single-model subclasses override `trigger(ev)`
        return self.trigger(ev) if mid == 0 else self.trigger(ev, mid)

    def close(self):
        if self.loop is not None:
            self.loop.close()
            self.loop = None

    # -- construction ------------------------------------------------------------------------
    def _make_enums(self):
        """Enum states: the children of every state (and the root states) form an Enum class of their own, so two
        classes on different levels share a member name whenever the description re-uses a segment name"""
        from enum import Enum

        def rec(nodes, pre):
            if not nodes:
                return
            cls = Enum('E_' + ('_'.join(seg(i) for i in pre) or 'root'), [seg(n['name']) for n in nodes])
            for n in nodes:
                p = tuple(pre + [n['name']])
                m = cls[seg(n['name'])]
                self.member[p] = m
                self.member_path[m] = pname(p)
                rec(n['children'], pre + [n['name']])
        rec(self.d.roots, [])

    def names(self, cbs):
        return [flat.cbname(self.d, c) for c in cbs]

    def sref(self, path, scope=()):
        """how a state is named in a definition: its (scope-relative) name, or its Enum member"""
        if self.enum:
            return self.member[tuple(scope) + tuple(path)]
        return pname(path)

    def trans_def(self, ev, t, scope=()):
        return {'trigger': flat.ename(ev), 'source': self.sref(t['source'], scope),
                'dest': None if t['dest'] is None else self.sref(t['dest'], scope),
                'prepare': self.names(t['prepare']),
                'conditions': self.names([c for c, tg in t['conds'] if tg]),
                'unless': self.names([c for c, tg in t['conds'] if not tg]),
                'before': self.names(t['before']), 'after': self.names(t['after'])}

    def node_def(self, n, pre=()):
        path = tuple(pre) + (n['name'],)
        nd = {'name': (self.member[path] if self.enum else seg(n['name'])), 'on_enter': self.names(n['on_enter']), 'on_exit': self.names(n['on_exit']),
              'ignore_invalid_triggers': n['ignore']}
        if n.get('final'):
            nd['final'] = True
        if n.get('on_final'):
            nd['on_final'] = self.names(n['on_final'])
        local = [self.trans_def(ev, t, path) for ev, ts in n['local'] for t in ts]
        if local:
            nd['transitions'] = local
        if n['children']:
            kids = [self.node_def(c, path) for c in n['children']]
            child = (lambda i: self.member[path + (i,)]) if self.enum else seg
            if n['pkey']:
                nd['parallel'] = kids
            else:
                nd['children'] = kids
                if len(n['initial']) == 1:
                    nd['initial'] = child(n['initial'][0])
                elif n['initial']:
                    nd['initial'] = [child(i) for i in n['initial']]
        return nd

    def build(self, cls, extra):
        d = self.d
        first = [self.model_objs[m] for m in sorted(self.registered)]
        kw = dict(model=(first[0] if len(self.model_objs) == 1 else first),
                  states=[self.node_def(n) for n in d.roots],
                  transitions=[self.trans_def(ev, t) for ev, ts in d.events for t in ts],
                  initial=self.sref(d.initial), send_event=False, auto_transitions=False,
                  ignore_invalid_triggers=d.ignore, queued=d.queued,
                  before_state_change=self.names(d.before_sc), after_state_change=self.names(d.after_sc),
                  prepare_event=self.names(d.prepare_event), finalize_event=self.names(d.finalize),
                  on_exception=self.names(d.on_exception))
        if getattr(d, 'on_final', None):
            kw['on_final'] = self.names(d.on_final)
        kw.update(extra)
        return cls(**kw)

    # -- recording ---------------------------------------------------------------------------
    def names_of(self, v):
        """model.state with Enum members replaced by the full names of their states"""
        if isinstance(v, (list, tuple)):
            return [self.names_of(x) for x in v]
        if self.enum and v in self.member_path:
            return self.member_path[v]
        return v

    def mask(self, mid=0):
        v = self.names_of(getattr(self.model_objs[mid], 'state', None))
        m = 0
        try:
            for name in flatten(v):
                i = self.index.get(name)
                if i is None:
                    self.views[mid].bad.append(('unregistered-state-name', repr(v)))
                    i = self.nstates
                m += 2 ** i
        except Exception:
            self.views[mid].bad.append(('odd-state', repr(v)))
        return m

    def _begin(self, model, slot, cid, args, kwargs):
        mid = model._mid
        vw = self.views[mid]
        tag = args[0] if (len(args) == 1 and isinstance(args[0], int)) else -1
        if tag < 0 or kwargs != {'m': mid}:
            vw.bad.append(('bad-args', slot, cid, repr(args)[:80], repr(kwargs)[:80]))
            tag = max(tag, 0)
        k = vw.counts.get(cid, 0)
        vw.counts[cid] = k + 1
        vw.items.append(('call', slot, cid, 0, tag, self.mask(mid)))
        return self.d.script.get((cid, k), ((), ('ret', True)))

    def _end(self, *a):
        mid, cid, out = a if len(a) == 3 else (0,) + a      # (cid, out): single-model subclasses
        vw = self.views[mid]
        if out[0] == 'ret':
            vw.items.append(('done', cid, 0, int(bool(out[1])), 0))
            return flat.flavour(self.d, cid, out[1], len(vw.items))
        exc = flat.make_exc(out[1], out[2])
        vw.items.append(('done', cid, 1) + flat.canon_exc(exc))     # builtin kinds are recorded canonically
        raise exc

    def invoke(self, model, slot, cid, *args, **kwargs):
        mid = model._mid
        cmds, out = self._begin(model, slot, cid, args, kwargs)
        nsusp = self.d.suspend.get(cid, 0) if self.is_async else 0
        if (cmds or nsusp) and self.is_async:
            return self._ainvoke(mid, cid, cmds, out, nsusp)
        try:
            for c in cmds:
                self._trig(c[2], mid)
        except BaseException as e:
            self.views[mid].items.append(('done', cid, 1) + flat.canon_exc(e))
            raise
        return self._end(mid, cid, out)

    async def _ainvoke(self, mid, cid, cmds, out, nsusp=0):
        try:
            for _ in range(nsusp):
                await asyncio.sleep(0)          # a real suspension: other coroutines of a gather get to run
            for c in cmds:
                await self.atrigger(c[2], mid)
        except BaseException as e:
            self.views[mid].items.append(('done', cid, 1) + flat.canon_exc(e))
            raise
        return self._end(mid, cid, out)

    # -- API calls ---------------------------------------------------------------------------
    def _call(self, ev, tag, mid):
        mo = self.model_objs[mid]
        # known events alternate between the convenience method and trigger-by-name
        if tag % 2 == 0 and hasattr(mo, flat.ename(ev)):
            return getattr(mo, flat.ename(ev))(tag, m=mid)
        return mo.trigger(flat.ename(ev), tag, m=mid)

    def trigger(self, ev, mid=0):
        vw = self.views[mid]
        tag = vw.next_tag
        vw.next_tag += 1
        vw.items.append(('api', 0, tag, 0, ev))
        try:
            r = self._call(ev, tag, mid)
        except BaseException as e:
            if isinstance(e, (common.MachineryError, CaseTimeout)):
                raise
            vw.items.append(('raised', tag) + flat.canon_exc(e))
            raise
        vw.items.append(('ret', tag, int(bool(r))))
        return r

    async def atrigger(self, ev, mid=0):
        vw = self.views[mid]
        tag = vw.next_tag
        vw.next_tag += 1
        vw.items.append(('api', 0, tag, 0, ev))
        try:
            r = self._call(ev, tag, mid)
            if inspect.isawaitable(r):
                r = await r
        except BaseException as e:
            if isinstance(e, (common.MachineryError, CaseTimeout)):
                raise
            vw.items.append(('raised', tag) + flat.canon_exc(e))
            raise
        vw.items.append(('ret', tag, int(bool(r))))
        return r

    def state_value(self, mid=0):
        v = copy.deepcopy(self.names_of(getattr(self.model_objs[mid], 'state', None)))
        try:
            enc_sval(v)
        except Exception:
            self.views[mid].bad.append(('odd-state', repr(v)))
        return v

    def membership(self, j, last):
        """membership operation j of the description; afterwards every model that did not begin a life keeps its state"""
        _k, kind, mids, init = self.d.mops[j]
        objs = [self.model_objs[m] for m in mids]
        arg = objs[0] if (len(objs) == 1 and j % 2 == 0) else objs
        if kind == 'add' and 'Graph' in self.cls_name:
            # GraphMachine.add_model refuses a model that carries `get_graph` (AttributeError: "Model already has a
            # get_graph attribute"), i.e. every model that is or was registered: take the attribute off first
            for mo in objs:
                mo.__dict__.pop('get_graph', None)
        try:
            if kind == 'add':
                if init is not None:
                    self.machine.add_model(arg, initial=self.sref(init))
                else:
                    self.machine.add_model(arg)
            else:
                self.machine.remove_model(arg)
        except BaseException as e:
            if isinstance(e, (common.MachineryError, KeyboardInterrupt, CaseTimeout)):
                raise
            self.life_views[0].bad.append(('membership-op-raised', j, kind, '%s: %s' % (type(e).__name__, str(e)[:120])))
        begun = dict(self.op_new[j])
        if kind == 'remove':
            self.registered -= set(mids)
        for m, li in self.op_new[j]:
            self.registered.add(m)
            self.views[m] = self.life_views[li]
            last[m] = self.state_value(m)
            self.views[m].states_after.append(last[m])
        for m in sorted(last):
            if m in begun:
                continue
            now = self.state_value(m)
            if now != last[m]:
                # the per-model clause again: only callbacks (enter / exit) move a model, registering or removing
                # OTHER models - or naming a registered model in add_model - does not
                self.views[m].bad.append(('moved-by-membership-op', 'operation %d (%s %r)' % (j, kind, mids),
                                          repr(last[m])[:80], repr(now)[:80]))
                last[m] = now

    def run(self):
        d = self.d
        last = {}
        for m in sorted(self.views):
            last[m] = self.state_value(m)
            self.views[m].states_after.append(last[m])
        ops = sorted(range(len(d.mops)), key=lambda j: (d.mops[j][0], j))
        oi = 0
        try:
            for k in range(len(d.history) + 1):
                while oi < len(ops) and d.mops[ops[oi]][0] <= k:
                    self.membership(ops[oi], last)
                    oi += 1
                if k == len(d.history):
                    break
                ev = d.history[k]
                mid = d.model_of(k)
                if mid not in self.registered:
                    continue            # addressed to a model that is not registered at this moment: not sent
                vw = self.views[mid]
                # truth value of the models at this moment
                for m, mo in enumerate(self.model_objs):
                    f = d.falsy[m] if m < len(d.falsy) else 0
                    calls = self.views[m].calls if m in self.views else 0
                    mo.__dict__['_truthy'] = not (f == 1 or (f == 2 and calls % 2 == 1))
                vw.calls += 1
                try:
                    if self.is_async:
                        self.loop.run_until_complete(self.atrigger(ev, mid))
                    else:
                        self._trig(ev, mid)
                except BaseException as e:
                    if isinstance(e, (common.MachineryError, KeyboardInterrupt, CaseTimeout)):
                        raise
                for m in sorted(last):
                    now = self.state_value(m)
                    if m == mid:
                        vw.states_after.append(now)
                    elif now != last[m]:
                        # the per-model clause: an event of one model leaves every other model's configuration alone
                        self.views[m].bad.append(('moved-by-other-model', 'event %d of model %d' % (k, mid),
                                                  repr(last[m])[:80], repr(now)[:80]))
                    last[m] = now
        finally:
            for mo in self.model_objs:
                mo.__dict__['_truthy'] = True
            self.close()
        return self


def _on_alarm(_sig, _frm):
    raise CaseTimeout()


def run_guarded(desc, cls_name, seconds=60, enum=False):
    """(run | None, error string | None): construction errors and hangs are reported, not raised"""
    old = signal.signal(signal.SIGALRM, _on_alarm)
    signal.alarm(seconds)
    r = None
    try:
        r = NestedRun(desc, cls_name, enum=enum)
        r.run()
        return r, None
    except CaseTimeout:
        if r is not None:
            r.close()
        return r, 'hang'
    except common.MachineryError:
        raise
    except BaseException as e:     # construction failed
        return None, 'construction: %s: %s' % (type(e).__name__, str(e)[:200])
    finally:
        signal.alarm(0)
        signal.signal(signal.SIGALRM, old)


def parse_model_answer(ans):
    """`T <items> C <state values…> G <ok|diff>` → (items, [state values as token lists re-encoded], ghost_ok)"""
    if ans in ('oof', 'noinit'):
        return None
    if not ans.startswith('T '):
        raise common.MachineryError('driver answered %r' % ans[:200])
    t, rest = ans[2:].split(' C ')
    c, g = rest.split(' G ')
    nums = [int(x) for x in t.split()]
    items, pos = common.dec_items(nums)
    if pos != len(nums):
        raise common.MachineryError('trailing numbers in driver trace')
    vals = dec_svals([int(x) for x in c.split()])
    return items, vals, g.strip()
