"""Shared machinery of the checks that run on flat-machine descriptions (C01, C04, C05, C10, C12, C18)."""
import copy
import hashlib
import json
import random

from . import common, flat, runner
from .runner import Exploration, Failure


class Stream(object):
    """One generator stream of a check.

    knobs      -> flat.Knobs
    prepare    (desc, rng) -> None      post-process a generated description (optional)
    monitor    (desc, run) -> (kind, nats) | None     driver request judging the implementation trace
    oracle     (desc, run) -> list of (what, details, signature)   Python-side property failures (optional)
    nontrivial (desc, run) -> bool
    """

    def __init__(self, name, knobs, monitor=None, prepare=None, nontrivial=None, oracle=None, quick=(16, 100),
                 thorough=(64, 600), machine_cls=None, run_factory=None):
        self.name = name
        self.knobs = knobs
        self.monitor = monitor
        self.prepare = prepare
        self.nontrivial = nontrivial or (lambda d, r: True)
        self.oracle = oracle
        self.quick = quick
        self.thorough = thorough
        self.run_factory = run_factory or (lambda d: flat.FlatRun(d))


def fingerprint(desc):
    return hashlib.sha1(repr(desc.enc_case()).encode()).hexdigest()[:16]


def run_cases(stream, descs):
    ans = common.batch_driver([('flat', d.enc_case()) for d in descs])
    runs = [stream.run_factory(d).run() for d in descs]
    mon = [None] * len(descs)
    if stream.monitor:
        reqs, idx = [], []
        for i, (d, r) in enumerate(zip(descs, runs)):
            q = stream.monitor(d, r)
            if q is not None:
                reqs.append(q)
                idx.append(i)
        if reqs:
            for i, a in zip(idx, common.batch_driver(reqs)):
                mon[i] = a
    return ans, runs, mon


def judge(prop, stream, desc, model_ans, monitor_ans, run):
    out = []
    case = {'stream': stream.name, 'desc': desc.to_json()}
    if run.bad:
        out.append(Failure('monitor', 'arguments', case, {'bad': run.bad[:5]}, signature=prop + '.args'))
    if monitor_ans is not None and monitor_ans != 'ok':
        out.append(Failure('monitor', 'verified-monitor', case,
                           {'monitor': monitor_ans, 'impl_trace': [common.show_item(i) for i in run.items]},
                           signature=prop + '.monitor'))
    if stream.oracle:
        for what, details, sig in stream.oracle(desc, run):
            out.append(Failure('monitor', what, case, details, signature=sig))
    m = flat.parse_model_answer(model_ans)
    if m is not None:
        items, models, st = m
        if items != run.items or (models, st) != run.final():
            k = next((i for i, (a, b) in enumerate(zip(items, run.items)) if a != b), min(len(items), len(run.items)))
            out.append(Failure('correspondence', 'trace_eq', case, {
                'first_difference_at': k,
                'model': [common.show_item(i) for i in items[max(0, k - 4):k + 3]],
                'impl': [common.show_item(i) for i in run.items[max(0, k - 4):k + 3]],
                'model_final': [models, sorted(st.items())],
                'impl_final': [run.final()[0], sorted(run.final()[1].items())]}))
    return out


def trace_stats(st, d, r):
    rets = [i for i in r.items if i[0] in ('ret', 'raised')]
    o = st.setdefault('outcomes', {})
    for i in rets:
        key = 'true' if (i[0] == 'ret' and i[2] == 1) else ('false' if i[0] == 'ret' else 'raised:' + common.EXC_NAMES[i[2]])
        o[key] = o.get(key, 0) + 1
    sl = st.setdefault('slot_calls', {})
    for i in r.items:
        if i[0] == 'call':
            sl[common.SLOTS[i[1]]] = sl.get(common.SLOTS[i[1]], 0) + 1
    ap = st.setdefault('api_calls', {})
    for i in r.items:
        if i[0] == 'api':
            k = ['trigger', 'may', 'dispatch', 'remove_model', 'add_model'][i[1]]
            ap[k] = ap.get(k, 0) + 1
    sz = st.setdefault('n_states', {})
    sz[str(len(d.states))] = sz.get(str(len(d.states)), 0) + 1
    tl = st.setdefault('trace_len', {})
    b = str(min(len(r.items) // 20 * 20, 200))
    tl[b] = tl.get(b, 0) + 1
    st['raising_callbacks'] = st.get('raising_callbacks', 0) + sum(1 for i in r.items if i[0] == 'done' and i[2] == 1)
    st['queued_cases'] = st.get('queued_cases', 0) + int(d.queued)


# registry so that worker processes can find the streams of a check by name
_REGISTRY = {}


def register(prop, streams):
    _REGISTRY[prop] = {s.name: s for s in streams}


def chunk(prop, seed, idx, n, stream_name):
    import importlib
    importlib.import_module('harness.props.' + prop.lower())
    stream = _REGISTRY[prop][stream_name]
    rng = random.Random('%s/%s/%d/%d' % (prop, stream_name, seed, idx))
    kn = stream.knobs()
    descs = []
    for _ in range(n):
        d = flat.gen_flat(rng, kn)
        if stream.prepare:
            stream.prepare(d, rng)
        descs.append(d)
    ex = Exploration()
    # sub-batches: once a batch has produced property failures the rest of the chunk is skipped — one
    # counterexample per chunk is enough, and failures such as hangs are expensive (watchdog time-outs)
    for b in range(0, len(descs), 25):
        if any(f.kind == 'monitor' for f in ex.failures):
            break
        _chunk_batch(prop, stream, stream_name, descs[b:b + 25], ex)
    return ex


def _chunk_batch(prop, stream, stream_name, descs, ex):
    ans, runs, mon = run_cases(stream, descs)
    for d, a, r, mo in zip(descs, ans, runs, mon):
        ex.evaluations += 1
        if a == 'oof':
            ex.oof += 1
        nt = stream.nontrivial(d, r)
        if nt:
            ex.nontrivial.add(fingerprint(d))
        if mo is not None or stream.oracle:
            ex.traces_validated += 1
        trace_stats(ex.stats, d, r)
        if len(ex.samples) < 2 and nt:
            ex.samples.append({'stream': stream_name, 'history': d.history,
                               'trace': [common.show_item(i) for i in r.items[:40]]})
        ex.failures += judge(prop, stream, d, a, mo, r)
    return ex


def shrink_steps(case):
    d = case['desc']

    def mk(nd):
        return {'stream': case['stream'], 'desc': nd}
    for i in range(len(d['history'])):
        c = copy.deepcopy(d)
        del c['history'][i]
        if c['history']:
            yield mk(c)
    for i in range(len(d['script'])):
        c = copy.deepcopy(d)
        del c['script'][i]
        yield mk(c)
    for i, (k, (cmds, out)) in enumerate(d['script']):
        for j in range(len(cmds)):
            c = copy.deepcopy(d)
            del c['script'][i][1][0][j]
            yield mk(c)
    for ei, (_ev, ts) in enumerate(d['events']):
        for ti in range(len(ts)):
            if len(ts) > 1:
                c = copy.deepcopy(d)
                del c['events'][ei][1][ti]
                yield mk(c)
            for key in ('prepare', 'conds', 'before', 'after'):
                for ci in range(len(ts[ti][key])):
                    c = copy.deepcopy(d)
                    del c['events'][ei][1][ti][key][ci]
                    yield mk(c)
    for key in ('prepare_event', 'before_sc', 'after_sc', 'on_exception', 'on_final'):
        for ci in range(len(d[key])):
            c = copy.deepcopy(d)
            del c[key][ci]
            yield mk(c)
    for ci in range(1, len(d['finalize'])):      # the first finalize callback may be a visibility marker
        c = copy.deepcopy(d)
        del c['finalize'][ci]
        yield mk(c)
    for si, s in enumerate(d['states']):
        for key in ('on_enter', 'on_exit'):
            for ci in range(len(s[key])):
                c = copy.deepcopy(d)
                del c['states'][si][key][ci]
                yield mk(c)


class FlatCheck(runner.Check):
    streams = ()

    def __init__(self):
        register(self.prop, self.streams)

    def stream(self, name):
        return _REGISTRY[self.prop][name]

    def explore(self, tier, seed):
        payloads = []
        for s in self.streams:
            nch, per = s.quick if tier == 'quick' else s.thorough
            payloads += [(self.prop, seed, i, per, s.name) for i in range(nch)]
        ex = Exploration()
        for part in runner.parallel(chunk, payloads):
            ex.merge(part)
        done = set()
        for f in ex.failures:
            key = (f.kind, f.what)
            if key in done:
                continue
            done.add(key)
            f.case = runner.shrink(f.case, self.fails_like(f.kind, f.what), shrink_steps,
                                   budget=20 if 'hang' in f.what else 400)
            self.annotate(f)
        return ex

    def rejudge(self, case):
        stream = self.stream(case['stream'])
        d = flat.FlatDesc.from_json(case['desc'])
        ans, runs, mon = run_cases(stream, [d])
        return d, ans[0], runs[0], mon[0], judge(self.prop, stream, d, ans[0], mon[0], runs[0])

    def fails_like(self, kind, what):
        def f(case):
            return any(x.kind == kind and x.what == what for x in self.rejudge(case)[4])
        return f

    def annotate(self, f):
        d, a, r, mo, _fs = self.rejudge(f.case)
        f.details['shrunk_impl_trace'] = [common.show_item(i) for i in r.items]
        m = flat.parse_model_answer(a)
        if m:
            f.details['shrunk_model_trace'] = [common.show_item(i) for i in m[0]]

    def search(self, tier, seed, failures):
        """correspondence broke but no monitor failure yet: extra budget with fresh seeds on the streams
        that carry a monitor / oracle"""
        payloads = []
        for s in self.streams:
            if s.monitor or s.oracle:
                payloads += [(self.prop, seed + 7919, i, 250, s.name) for i in range(32)]
        found = []
        for part in runner.parallel(chunk, payloads):
            found += [f for f in part.failures if f.kind == 'monitor']
        for f in found[:1]:
            f.case = runner.shrink(f.case, self.fails_like(f.kind, f.what), shrink_steps)
            self.annotate(f)
        return found

    def replay(self, path):
        with open(path) as fh:
            payload = json.load(fh)
        if 'case' not in payload:
            print('no concrete input in this replay file: broken obligation', payload.get('broken_obligation'))
            return 1
        d, a, r, mo, fs = self.rejudge(payload['case'])
        print('implementation trace:')
        for i in r.items:
            print('   ', common.show_item(i))
        m = flat.parse_model_answer(a)
        print('model trace:')
        for i in (m[0] if m else []):
            print('   ', common.show_item(i))
        print('verified monitor on implementation trace:', mo)
        for f in fs:
            print('FAIL', f.kind, f.what)
        return 1 if fs else 0
