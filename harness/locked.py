"""C06 harness: build a real Locked(Hierarchical)Machine from a case description, run its thread
programs under the deterministic controller (harness/threads.py), observe, and judge.

Case (JSON-able):
  cls       'flat' | 'hsm'
  base      machine_context argument: list of ['lock', id] | ['user', id]   ([] = library default)
  extras    per model index: model_context list (same encoding)
  nmodels   number of models that receive events; two more "spare" models exist for remove_model
  dyn       list of model_context lists: "dynamic" models (numbered nmodels+j), registered initially with
            that context; each is used by ONE thread only, through top-level calls
            dyn_ev [j, name] | dyn_add [j, ctxs, mixed] (mixed = 1 | 2: the add_model call gets a LIST in which one / two
            already registered models precede the dynamic one) | dyn_remove [j]; a dyn_ev issued while the model is not
            registered carries 'unjudged': it is executed silently (outside the statement: no events, no
            voluntary yields) - what follows a re-registration is judged
  restored  None | 'pickle' | 'deepcopy': the machine (with its models) goes through pickle.loads(pickle.dumps()) /
            copy.deepcopy() BEFORE the threads start; they run on the restored copy
  ignore    ignore_invalid_triggers; queued
  threads   list (per thread) of calls; call = {'tag', 'kind', 'args', 'script'}
            kind: ev (getattr(model, name)(tag)) | trig (model.trigger(name, tag)) | dispatch (machine.dispatch(name, tag):
                  the event on every registered model, ONE locked call) | add_transition | add_states | set_state |
                  get_state | remove_model
            script: {str(k): {'snap': 'pickle' | 'deepcopy' | 'model' (optional), 'sub': [call…],
                  'raise': False | 'exc' | 'base' | 'kbd'}} — what the k-th callback
                  invocation of this call does (re-entrant calls from inside the callback, then return / raise an
                  Exception subclass / a custom BaseException / a KeyboardInterrupt subclass)
  schedule  list of thread ids (one per scheduling decision); missing tail = run the last thread on
"""
import copy
import itertools
import pickle
import threading

from . import common, threads
from .threads import SLock, UCtx

from transitions.extensions import LockedMachine, MachineFactory
from transitions.extensions import locking as _locking


class UserErr(Exception):
    pass


class NotLocked(Exception):
    """MachineFactory.get_predefined(locked=True, ...) returned a class without locking"""


class UserBase(BaseException):
    """an application BaseException (e.g. a shutdown signal): not an Exception subclass"""


class KbdLike(KeyboardInterrupt):
    """KeyboardInterrupt-like"""


RAISE_KINDS = {True: UserErr, 'exc': UserErr, 'base': UserBase, 'kbd': KbdLike}


FLAT_STATES = ['A', 'B', 'C']
# the compound state C declares events of its own: they are processed INSIDE the scope of C (machine-wide
# _stack / scoped / states / events / prefix_path are switched), so their callbacks are yield points in a nested scope
HSM_STATES = ['A', 'B', {'name': 'C', 'children': ['1', '2'], 'initial': '1',
                         'transitions': [['inner', '1', '2'], ['inner', '2', '1'], ['flip', '1', '2']]}]
SYNC = {'trigger': 'sync', 'source': ['A', 'B'], 'dest': 'C', 'conditions': ['peer_ready']}
FLAT_TRANS = [['go', 'A', 'B'], ['go', 'B', 'C'], ['back', 'C', 'A'], ['back', 'B', 'A'], ['step', 'A', 'C'], SYNC]
HSM_TRANS = [['go', 'A', 'B'], ['go', 'B', 'C'], ['back', 'C', 'A'], ['back', 'B', 'A'], ['step', 'C_1', 'C_2'], SYNC]
EVENTS = {'flat': ['go', 'back', 'step', 'to_A', 'to_B', 'to_C', 'sync'],
          'hsm': ['go', 'back', 'step', 'to_A', 'to_B', 'to_C', 'to_C_2', 'inner', 'inner', 'flip', 'to_C', 'sync']}
EVENTS['hsmg'] = EVENTS['hsm']
STATE_NAMES = {'flat': ['A', 'B', 'C'], 'hsm': ['A', 'B', 'C', 'C_1', 'C_2']}
STATE_NAMES['hsmg'] = STATE_NAMES['hsm']


def is_hsm(case):
    return case['cls'] in ('hsm', 'hsmg')
N_SPARE = 2


class Model(object):
    """`peer_ready` is a transition condition that reads ANOTHER model's state (order-sensitive outcomes)"""
    peers = ()
    idx = 0

    def peer_ready(self, *args, **kwargs):
        if len(self.peers) < 2:
            return True
        return str(getattr(self.peers[(self.idx + 1) % len(self.peers)], 'state', '')) == 'B'


CURRENT = None      # the Run being executed in this process (recorders are picklable and find it here)


class Rec(object):
    """recorder callback; picklable / deep-copyable (callbacks take snapshots of the machine)"""

    def __init__(self, name):
        self.name = name
        self.__name__ = 'rec_' + name

    def __call__(self, *args, **kwargs):
        return CURRENT.callback(self.name, args)


def enc_ctx(c):
    return [0, c[1]] if c[0] == 'lock' else [2, c[1]]


def enc_cfg(case):
    """protocol encoding of Locked.Cfg: hsm, base, extra"""
    out = [1 if is_hsm(case) else 0, len(case['base'])]
    for c in case['base']:
        out += enc_ctx(c)
    ex = [(int(m), l) for m, l in sorted(case['extras'].items(), key=lambda kv: int(kv[0])) if l]
    ex += [(case['nmodels'] + j, l) for j, l in enumerate(case.get('dyn') or []) if l]
    out.append(len(ex))
    for m, l in ex:
        out += [m, len(l)]
        for c in l:
            out += enc_ctx(c)
    out.append(0)       # no model is absent initially
    return out


def machine_lock_id(case):
    """cid of the first mutex among the machine contexts (the library default lock is 0)"""
    if not case['base']:
        return 0
    for c in case['base']:
        if c[0] == 'lock':
            return c[1]
    return None


def call_tgt(call, case=None):
    if call['kind'] in ('ev', 'trig'):
        return call['args'][0] + 1
    if call['kind'] == 'dyn_ev':
        return case['nmodels'] + call['args'][0] + 1
    return 0


class Run(object):
    """one execution of a case under a policy"""

    def __init__(self, case):
        self.case = case
        self.ctxs = {}
        self.outcome = {}        # tag -> ['ret', repr] | ['exc', name]
        self.cbtrace = {}        # tag -> [[name, [model states…]], …]
        self.cbcount = {}
        self.scripts = {}
        self.final = None
        self.released = None
        self.ctl = None

    def ctx(self, c):
        key = (c[0], c[1])
        if key not in self.ctxs:
            self.ctxs[key] = SLock(c[1]) if c[0] == 'lock' else UCtx(c[1])
        return self.ctxs[key]

    # ---- construction (main thread, no controller) -------------------------------------------
    def build(self):
        case = self.case
        # the classes are drawn through the factory, as a user would
        cls = MachineFactory.get_predefined(locked=True, nested=is_hsm(case), graph=case['cls'] == 'hsmg')
        if not issubclass(cls, LockedMachine):
            raise NotLocked(cls.__name__)
        kw = {}
        if case['cls'] == 'hsmg':
            kw['graph_engine'] = 'mermaid'
        if case['base']:
            kw['machine_context'] = [self.ctx(c) for c in case['base']]
        self.machine = cls(model=None, states=copy.deepcopy(HSM_STATES) if is_hsm(case) else FLAT_STATES, initial='A',
                           transitions=HSM_TRANS if is_hsm(case) else FLAT_TRANS,
                           ignore_invalid_triggers=bool(case.get('ignore')), queued=bool(case.get('queued')),
                           prepare_event=[self.rec('P')], before_state_change=[self.rec('B')],
                           finalize_event=[self.rec('Z')], **kw)
        self.models = [Model() for _ in range(case['nmodels'])]
        for i, mod in enumerate(self.models):
            mod.idx = i
            mod.peers = self.models
        self.spares = [Model() for _ in range(N_SPARE)]
        for m, mod in enumerate(self.models):
            ex = case['extras'].get(str(m)) or []
            if ex:
                self.machine.add_model(mod, model_context=[self.ctx(c) for c in ex])
            else:
                self.machine.add_model(mod)
        for sp in self.spares:
            self.machine.add_model(sp)
        self.dyn = [Model() for _ in (case.get('dyn') or [])]
        for j, mod in enumerate(self.dyn):
            ex = case['dyn'][j]
            if ex:
                self.machine.add_model(mod, model_context=[self.ctx(c) for c in ex])
            else:
                self.machine.add_model(mod)
        if case.get('restored'):
            self.restore(case['restored'])
        self.default_lock = None if case['base'] else self.machine.machine_context[0]

        def reg(call):
            self.scripts[call['tag']] = call.get('script') or {}
            for sc in (call.get('script') or {}).values():
                for sub in sc.get('sub', []):
                    reg(sub)
        for th in case['threads']:
            for call in th:
                reg(call)

    def rec(self, name):
        return Rec(name)

    def restore(self, how):
        """the threads run on a machine that went through pickle / deepcopy before they start"""
        if how == 'pickle':
            m2 = pickle.loads(pickle.dumps(self.machine))
        else:
            m2 = copy.deepcopy(self.machine)
        n, ns = len(self.models), len(self.spares)
        mods = list(m2.models)
        self.machine = m2
        self.models, self.spares, self.dyn = mods[:n], mods[n:n + ns], mods[n + ns:]
        # the restored context objects are the live ones from now on (shared objects stay shared: one memo)
        self.ctxs = {}
        seen = list(m2.machine_context)
        for l in m2.model_context_map.values():
            seen += list(l)
        for c in seen:
            if isinstance(c, SLock):
                self.ctxs.setdefault(('lock', c.cid), c)
            elif isinstance(c, UCtx):
                self.ctxs.setdefault(('user', c.cid), c)

    def slocks(self):
        """every scheduler-aware lock of the live machine, WITHOUT touching attributes of the library's wrapper
        (a lazily allocating `lock` property must not be triggered by the harness)"""
        out = {k: c for k, c in self.ctxs.items() if isinstance(c, SLock)}
        if self.default_lock is not None:
            for v in vars(self.default_lock).values():
                if isinstance(v, SLock):
                    out[('lock', 0)] = v
        return out

    def snapshot(self, how):
        """a callback persists the machine in the middle of an event (the documented way: pickle / deepcopy)"""
        threads.IN_SNAPSHOT += 1
        try:
            if how == 'pickle':
                pickle.dumps(self.machine)
            elif how == 'deepcopy':
                copy.deepcopy(self.machine)
            else:
                copy.deepcopy(self.models[0])       # a model references the machine through its trigger partials
        finally:
            threads.IN_SNAPSHOT -= 1

    # ---- worker side -------------------------------------------------------------------------
    def callback(self, name, args):
        c = self.ctl
        if c.tids.get(threading.get_ident()) in c.muted:
            return True
        tag = args[0] if args and isinstance(args[0], int) else 0
        k = self.cbcount.get(tag, 0)
        self.cbcount[tag] = k + 1
        a = (tag * 32 + min(k, 31)) * 2
        t = c.point()
        c.emit((2, t, a, 0))
        self.cbtrace.setdefault(tag, []).append([name, [getattr(m, 'state', None) for m in self.models]])
        sc = self.scripts.get(tag, {}).get(str(k))
        if sc and sc.get('snap'):
            t = c.point()
            try:
                self.snapshot(sc['snap'])
                self.cbtrace[tag].append(['snapshot', sc['snap'], 'ok'])
            except (threads.Abort, common.MachineryError):
                raise
            except BaseException as e:
                self.cbtrace[tag].append(['snapshot', sc['snap'], type(e).__name__])
            c.emit((7, t, 0, 0))
        if sc:
            for sub in sc.get('sub', []):
                self.do_call(sub)
        t = c.point()
        c.emit((2, t, a + 1, 0))
        if sc and sc.get('raise'):
            raise RAISE_KINDS[sc['raise']]('scripted %d/%d' % (tag, k))
        return True

    def invoke(self, call):
        kind, args, tag = call['kind'], call['args'], call['tag']
        if kind == 'ev':
            return getattr(self.models[args[0]], args[1])(tag)
        if kind == 'trig':
            return self.models[args[0]].trigger(args[1], tag)
        if kind == 'add_transition':
            return self.machine.add_transition(args[0], args[1], args[2])
        if kind == 'add_states':
            return self.machine.add_states(args[0])
        if kind == 'set_state':
            return self.machine.set_state(args[0], self.models[args[1]])
        if kind == 'remove_model':
            return self.machine.remove_model(self.spares[args[0]])
        if kind == 'dispatch':
            return self.machine.dispatch(args[0], tag)
        if kind == 'get_state':
            return self.machine.get_state(args[0]).name
        if kind == 'dyn_ev':
            return getattr(self.dyn[args[0]], args[1])(tag)
        if kind == 'dyn_add':
            # mixed list: models that are registered already come BEFORE the new one in the same add_model call
            target = self.dyn[args[0]]
            if len(args) > 2 and args[2]:
                target = [self.models[0], self.spares[0], target] if args[2] == 2 else [self.models[0], target]
            if args[1]:
                return self.machine.add_model(target, model_context=[self.ctx(c) for c in args[1]])
            return self.machine.add_model(target)
        if kind == 'dyn_remove':
            return self.machine.remove_model(self.dyn[args[0]])
        raise common.MachineryError('bad call kind %r' % kind)

    def do_call(self, call):
        c = self.ctl
        tag = call['tag']
        if call.get('unjudged'):
            # an event on a model that is not registered at this point: outside the statement. Executed
            # silently; it still waits for locks like any other thread.
            t = c.tids.get(threading.get_ident())
            c.muted.add(t)
            try:
                r = self.invoke(call)
                self.outcome[tag] = ['ret', repr(r)]
            except threads.Abort:
                raise
            except common.MachineryError:
                raise
            except BaseException as e:
                self.outcome[tag] = ['exc', type(e).__name__]
            finally:
                c.muted.discard(t)
            return
        t = c.point()
        c.emit((0, t, call_tgt(call, self.case), tag))
        raised = 0
        try:
            r = self.invoke(call)
            self.outcome[tag] = ['ret', repr(r)]
        except threads.Abort:
            raise
        except common.MachineryError:
            raise
        except BaseException as e:
            raised = 1
            self.outcome[tag] = ['exc', type(e).__name__]
        t = c.point()
        c.emit((4, t, raised, 0))

    def body(self, t):
        def b():
            for call in self.case['threads'][t]:
                self.do_call(call)
        return b

    # ---- run -----------------------------------------------------------------------------------
    def run(self, policy, watchdog=10.0):
        global CURRENT
        threads.install()
        CURRENT = self
        try:
            self.build()
            n = len(self.case['threads'])
            self.ctl = threads.Controller(n, policy, watchdog=watchdog)
            if hasattr(policy, 'bind'):
                policy.bind(self.ctl)
            self.ctl.run([self.body(t) for t in range(n)])
            if self.ctl.errors:
                raise common.MachineryError('controller: %s' % self.ctl.errors[:3])
            if self.ctl.status == 'ok':
                self.observe_final()
        finally:
            threads.uninstall()
        return self

    def observe_final(self):
        m = self.machine
        ev = {}
        for name, e in sorted(m.events.items()):
            if name.startswith('to_'):
                continue
            ev[name] = sorted((str(src), [str(getattr(t, 'dest', None)) for t in ts]) for src, ts in e.transitions.items())
        try:
            names = sorted(m.get_nested_state_names()) if is_hsm(self.case) else sorted(m.states.keys())
        except Exception as e:    # pragma: no cover
            names = ['?%s' % type(e).__name__]
        self.final = {'states': [str(getattr(x, 'state', None)) for x in self.models + self.dyn + self.spares],
                      'dyn_registered': [x in m.models for x in self.dyn], 'names': [str(n) for n in names],
                      'events': ev, 'nmodels': len(m.models),
                      'triggers': sorted(k for k in ev)}
        # probe from another thread (this one): everything released
        held = sorted('%s%d' % k for k, c in self.slocks().items() if c.owner is not None)
        cur = m._ident.__dict__.get('current', 0)
        self.released = {'locks_held': held, 'current': 0 if cur == 0 else 1}

    @property
    def events(self):
        return self.augmented()[0]

    @property
    def model_schedule(self):
        return self.augmented()[1]

    def augmented(self):
        """the observed events with the `reg` / `unreg` events of top-level dyn_add / dyn_remove calls put in,
        and the schedule for the model.  The update of model_context_map happens inside add_model / remove_model
        where the harness has no yield point: the body of such a call runs in the same scheduling step as its
        last `__enter__` (one step = from one yield point to the next), so that is where the event goes and where
        the model gets one extra step of that thread."""
        if getattr(self, '_aug', None) is not None:
            return self._aug
        raw = [list(e) for e in self.ctl.log]
        dyn_calls = {}
        for th in self.case['threads']:
            for call in th:
                if call['kind'] in ('dyn_add', 'dyn_remove'):
                    dyn_calls[call['tag']] = call
        insert_after = {}       # raw event index -> synthesized event
        pending = {}            # thread -> (call, index of its latest callBegin/enter event)
        for i, e in enumerate(raw):
            t = e[1]
            if e[0] == 0 and e[3] in dyn_calls and e[2] == 0:
                pending[t] = [dyn_calls[e[3]], i]
            elif t in pending:
                if e[0] == 1:
                    pending[t][1] = i
                else:
                    call, at = pending.pop(t)
                    insert_after[at] = self._reg_event(t, call)
        for t, (call, at) in pending.items():
            insert_after[at] = self._reg_event(t, call)
        events, sched = [], []
        idx = 0
        for t, kind in self.ctl.steps:
            if kind == 'e':
                events.append(raw[idx])
                sched.append(t)
                if idx in insert_after:
                    events.append(insert_after[idx])
                    sched.append(t)
                idx += 1
            elif kind == 'b':
                sched.append(t)
        while idx < len(raw):       # events of an aborted last step
            events.append(raw[idx])
            idx += 1
        self._aug = (events, sched)
        return self._aug

    def _reg_event(self, t, call):
        m = self.case['nmodels'] + call['args'][0]
        if call['kind'] == 'dyn_add':
            ev = [5, t, m, len(call['args'][1])]
            for c in call['args'][1]:
                ev += enc_ctx(c)
            return ev
        return [6, t, m, 0]

    @property
    def schedule(self):
        return [t for t, _k in self.ctl.steps]


class SerialPolicy(object):
    """run the outermost calls one after the other: `order` lists the thread of each call"""

    def __init__(self, order):
        self.order = list(order)
        self.cur = None
        self.begun = False
        self.ctl = None
        self.pos = 0
        self.depth = {}

    def bind(self, ctl):
        self.ctl = ctl

    def _scan(self):
        log = self.ctl.log
        while self.pos < len(log):
            e = log[self.pos]
            self.pos += 1
            if e[0] == 0:
                self.depth[e[1]] = self.depth.get(e[1], 0) + 1
            elif e[0] == 4:
                self.depth[e[1]] = self.depth.get(e[1], 0) - 1

    def choose(self, i, run, last):
        self._scan()
        if self.cur is not None and self.cur in run:
            d = self.depth.get(self.cur, 0)
            if d > 0:
                self.begun = True
            if d > 0 or not self.begun:
                return self.cur
        while self.order:
            self.cur = self.order.pop(0)
            self.begun = False
            if self.cur in run:
                return self.cur
        self.cur = None
        return last if last in run else run[0]


# ---------------------------------------------------------------------------------------------
# derived observations
# ---------------------------------------------------------------------------------------------

def thread_progs(events, n):
    """the model's thread programs = what each thread was seen to do (calls, markers, returns)"""
    progs = [[] for _ in range(n)]
    for e in events:
        k, t = e[0], e[1]
        if k == 0:
            progs[t].append([0, e[2], e[3]])
        elif k == 2:
            progs[t].append([1, e[2], 0])
        elif k == 4:
            progs[t].append([2, e[2], 0])
        elif k == 5:
            progs[t].append([3, e[2], 0, e[3]] + list(e[4:]))
        elif k == 6:
            progs[t].append([4, e[2], 0])
        elif k == 7:
            progs[t].append([5, 0, 0])
    return progs


def enc_progs(progs):
    out = [len(progs)]
    for p in progs:
        out.append(len(p))
        for op in p:
            out += op
    return out


def enc_events(events):
    out = [len(events)]
    for e in events:
        out += list(e)
    return out


def acquisition_order(events, lock_id):
    """threads of the outermost calls, ordered by the moment the call acquires the machine lock
    (calls that never do: by their begin)"""
    depth = {}
    calls = []        # [key index, thread]
    open_call = {}
    for i, e in enumerate(events):
        k, t = e[0], e[1]
        if k == 0:
            d = depth.get(t, 0)
            depth[t] = d + 1
            if d == 0:
                open_call[t] = len(calls)
                calls.append([None, i, t])
        elif k == 4:
            depth[t] = depth.get(t, 0) - 1
            if depth[t] == 0:
                open_call.pop(t, None)
        elif k == 1 and e[2] == 0 and e[3] == lock_id and t in open_call:
            c = calls[open_call[t]]
            if c[0] is None:
                c[0] = i
    calls.sort(key=lambda c: (c[0] if c[0] is not None else c[1]))
    return [c[2] for c in calls]


def blocks_contiguous(events):
    """Python oracle: between the first and the last callback marker of one outermost call there is
    no callback marker of another thread"""
    depth = {}
    last_marker = {}      # thread -> index in marker sequence of its latest marker within current outermost call
    markers = []
    for e in events:
        k, t = e[0], e[1]
        if k == 0:
            depth[t] = depth.get(t, 0) + 1
        elif k == 4:
            depth[t] = depth.get(t, 0) - 1
            if depth[t] == 0:
                last_marker.pop(t, None)
        elif k == 2:
            if t in last_marker:
                for (_i, t2) in markers[last_marker[t] + 1:]:
                    if t2 != t:
                        return False
            markers.append((len(markers), t))
            last_marker[t] = len(markers) - 1
    return True


def all_calls(case):
    out = []

    def walk(call, top):
        out.append((call, top))
        for sc in (call.get('script') or {}).values():
            for sub in sc.get('sub', []):
                walk(sub, False)
    for th in case['threads']:
        for call in th:
            walk(call, True)
    return out


def serial_orders(case):
    """every interleaving of the threads' call sequences (thread id per outermost call)"""
    counts = [len([c for c in th if not c.get('unjudged')]) for th in case['threads']]
    seq = []
    for t, c in enumerate(counts):
        seq += [t] * c
    return sorted(set(itertools.permutations(seq)))
