"""C12 on the hierarchical engine — stream `nested-model` (wired into harness/props/c12.py).

Generated hierarchical machines (harness/nested.py: compound and parallel states, parallel inside parallel, `initial`
present / absent / nested, globally and locally declared transitions, transitions on ancestors, "wildcards"), plus what
`may_` has to cope with: destinations that are not registered states (global and scope-relative ones), prepare_event /
prepare / condition callbacks that raise (Exception and BaseException subclasses) with and without on_exception
handlers, handlers that raise themselves, unknown event names, and histories that MIX `trigger` and `may_` calls —
also issued re-entrantly from inside callbacks (of a running trigger and of a running may_), on direct and on queued
machines.

  * correspondence   the full observable trace + `model.state` after every history item on `HierarchicalMachine`
                     == the Lean model `nrunCmdM` (`Model/NestedMay.lean` over `Model/NestedDispatch.lean`; driver request
                     `nestedmay`); `HierarchicalAsyncMachine` is compared as well whenever no callback stage holds two
                     callbacks (the async classes gather the callbacks of a stage — C07's business);
  * purity oracle    on every implementation trace (both classes): a TOP-LEVEL may_ call whose callbacks issue no
                     commands runs only prepare_event / prepare / conditions / unless / on_exception callbacks, with the
                     call's arguments, and leaves `model.state` as it was;
  * twin oracle      deterministic non-raising descriptions without unresolvable destinations: at every prefix of the
                     history and for every event name (one unknown), may_ on one run against the trigger on an identically
                     prepared twin run — "would execute a transition" = a transition-stage callback of that call ran.
"""
import copy
import hashlib
import inspect
import random

from . import common, nested, runner, flat
from .common import SLOT
from .flat import TRIGGER, MAY
from .runner import Exploration, Failure

MAY_SLOTS = (SLOT['prepare_event'], SLOT['prepare'], SLOT['conditions'], SLOT['unless'], SLOT['on_exception'])
EXEC_SLOTS = (SLOT['before_state_change'], SLOT['before'], SLOT['on_exit'], SLOT['on_enter'], SLOT['on_final'],
              SLOT['after'], SLOT['after_state_change'])
EVAL_SLOTS = (SLOT['prepare_event'], SLOT['prepare'], SLOT['conditions'], SLOT['unless'])
DET_DEPTH = 64


class MayKnobs(nested.NKnobs):
    def __init__(self, **kw):
        nested.NKnobs.__init__(self)
        self.max_states = 9
        self.max_history = 7
        self.max_roots = 2
        self.p_compound = 0.75
        self.p_parallel = 0.55
        self.p_noinit = 0.1
        self.p_deep_initial = 0.4
        self.p_cmds = 0.0             # gen_nested's own (queued-only) trigger commands: replaced by ours
        self.hist_kinds = (MAY, MAY, TRIGGER)
        self.p_bad_dest = 0.12        # per transition: destination not a registered state
        self.p_global_dest = 0.0      # per LOCALLY declared transition: destination = a GLOBAL multi-segment name that does
                                      # not resolve relative to the declaring state (get_state falls back to global names)
        self.p_raise = 0.07           # per scripted invocation of an evaluated callback (prepare_event/prepare/conditions)
        self.p_raise_other = 0.02     # per scripted invocation of any other callback but finalize
        self.p_on_exception = 0.5
        self.p_handler_raises = 0.06
        self.p_cmd = 0.09             # per scripted invocation: the callback issues a may_ / trigger itself
        self.cmd_budget = 3
        self.cmd_kinds = (MAY, MAY, TRIGGER)
        self.local_boost = 1          # factor on p_cmd for callbacks of locally declared transitions
        self.max_handlers = 2
        self.single_stage = False     # truncate every callback stage to one callback (async classes comparable)
        self.deterministic = False
        self.__dict__.update(kw)


def gen_may(rng, kn):
    d = nested.gen_nested(rng, kn)
    nodes = d.walk()
    if kn.single_stage:
        for _p, n in nodes:
            n['on_enter'] = n['on_enter'][:1]
            n['on_exit'] = n['on_exit'][:1]
        for _s, _e, _i, t in d.all_trans():
            for k in ('prepare', 'conds', 'before', 'after'):
                t[k] = t[k][:1]
        for k in ('prepare_event', 'before_sc', 'after_sc', 'finalize'):
            setattr(d, k, getattr(d, k)[:1])
    known = sorted(set([e for e, _ in d.events] + [e for _p, n in nodes for e, _ts in n['local']]))
    unknown = (max(known) if known else 0) + 3
    d.history = [(rng.choice(kn.hist_kinds), 0, ev) for ev in d.history]
    if kn.deterministic:
        d.history = [(TRIGGER, 0, ev) for _k, _m, ev in d.history]
    # unresolvable destinations
    if kn.p_bad_dest:
        for scope, _ev, _i, t in d.all_trans():
            if t['dest'] is not None and rng.random() < kn.p_bad_dest:
                r = rng.random()
                if r < 0.4:
                    t['dest'] = [77]
                elif r < 0.8:
                    t['dest'] = list(t['dest'][:rng.randint(1, len(t['dest']))]) + [77]
                else:
                    t['dest'] = list(t['source']) + [77]
    # locally declared transitions whose destination only resolves as a GLOBAL name
    if kn.p_global_dest:
        paths = [list(p) for p, _n in nodes]
        for scope, _ev, _i, t in d.all_trans():
            if scope and t['dest'] is not None and rng.random() < kn.p_global_dest:
                cands = [p for p in paths if len(p) > 1 and list(scope) + p not in paths]
                if cands:
                    t['dest'] = list(rng.choice(cands))
    # handlers
    if kn.p_on_exception and rng.random() < kn.p_on_exception:
        nxt = max(d.cb_slot) + 1 if d.cb_slot else 0
        for _ in range(rng.randint(1, kn.max_handlers)):
            d.cb_slot[nxt] = SLOT['on_exception']
            d.on_exception.append(nxt)
            nxt += 1
    # script: conditions (deterministic or per invocation), raises, re-entrant commands
    cond_cbs = set(c for _s, _e, _i, t in d.all_trans() for c, _tg in t['conds'])
    budget = [kn.cmd_budget]
    if kn.deterministic:
        d.script = {}
        for c in sorted(cond_cbs):
            if rng.random() < kn.p_cond_false:
                for k in range(DET_DEPTH):
                    d.script[(c, k)] = ([], ('ret', False))
        return d
    # callbacks of locally declared transitions run while the machine is scoped into the declaring state
    local_cbs = set(c for scope, _e, _i, t in d.all_trans() if scope
                    for c in list(t['prepare']) + [x for x, _tg in t['conds']] + list(t['before']) + list(t['after']))
    order = sorted(d.cb_slot)
    rng.shuffle(order)      # the command budget must not be used up by the callbacks with the lowest ids (the states')
    for c in order:
        slot = d.cb_slot[c]
        for k in range(kn.script_depth):
            cmds, out = d.script.get((c, k), ([], ('ret', True)))
            cmds = list(cmds)
            if slot in EVAL_SLOTS and rng.random() < kn.p_raise:
                out = ('raise', rng.choice([3, 3, 4]), rng.randrange(5))
            elif slot == SLOT['on_exception'] and rng.random() < kn.p_handler_raises:
                out = ('raise', 3, 9)
            elif slot not in EVAL_SLOTS and slot not in (SLOT['finalize_event'], SLOT['on_exception']) \
                    and rng.random() < kn.p_raise_other:
                out = ('raise', 3, 8)
            if budget[0] > 0 and slot != SLOT['finalize_event'] and rng.random() < kn.p_cmd * (kn.local_boost if c in local_cbs else 1):
                # re-entrant may_ AND trigger commands from every callback (also on_enter / on_exit callbacks and callbacks
                # of locally declared transitions, which run while the machine is scoped into a state): since the repairs
                # 4b06f60 (`_enter_nested` files a state under its plain name) and 84867c8 (`_check_event_result` inside
                # `with self():`) the engine is re-entrant for triggers and the scope-free model agrees with it
                kind = rng.choice(kn.cmd_kinds)
                ev = rng.choice(known or [0]) if rng.random() > 0.05 else unknown
                cmds.append((kind, 0, ev))
                budget[0] -= 1
            if cmds or out != ('ret', True):
                d.script[(c, k)] = (cmds, out)
    return d


def enc_case(d):
    o = d.enc_cfg() + d.enc_script() + [len(d.history)]
    for c in d.history:
        o += list(c)
    return o


def fingerprint(d):
    return hashlib.sha1(repr(enc_case(d)).encode()).hexdigest()[:16]


def with_history(d, hist):
    d2 = nested.NDesc.from_json(d.to_json())
    d2.history = [tuple(c) for c in hist]
    return d2


def from_json(j):
    d = nested.NDesc.from_json(j)
    d.history = [tuple(c) for c in d.history]
    return d


# ---------------------------------------------------------------------------------------------
# realisation: NestedRun with may_ calls and mixed commands
# ---------------------------------------------------------------------------------------------

class MayRun(nested.NestedRun):
    def _may_call(self, ev, tag):
        name = flat.ename(ev)
        if tag % 2 == 0 and hasattr(self.model, 'may_' + name):
            return getattr(self.model, 'may_' + name)(tag, m=0)
        return self.model.may_trigger(name, tag, m=0)

    def may(self, ev):
        tag = self.next_tag
        self.next_tag += 1
        self.items.append(('api', 1, tag, 0, ev))
        try:
            r = self._may_call(ev, tag)
        except BaseException as e:
            if isinstance(e, (common.MachineryError, nested.CaseTimeout)):
                raise
            self.items.append(('raised', tag) + flat.canon_exc(e))
            raise
        self.items.append(('ret', tag, int(bool(r))))
        return r

    async def amay(self, ev):
        tag = self.next_tag
        self.next_tag += 1
        self.items.append(('api', 1, tag, 0, ev))
        try:
            r = self._may_call(ev, tag)
            if inspect.isawaitable(r):
                r = await r
        except BaseException as e:
            if isinstance(e, (common.MachineryError, nested.CaseTimeout)):
                raise
            self.items.append(('raised', tag) + flat.canon_exc(e))
            raise
        self.items.append(('ret', tag, int(bool(r))))
        return r

    def do_cmd(self, c):
        return self.may(c[2]) if c[0] == MAY else self.trigger(c[2])

    async def ado_cmd(self, c):
        return await (self.amay(c[2]) if c[0] == MAY else self.atrigger(c[2]))

    def invoke(self, model, slot, cid, *args, **kwargs):
        cmds, out = self._begin(model, slot, cid, args, kwargs)
        if cmds and self.is_async:
            return self._ainvoke(cid, cmds, out)
        try:
            for c in cmds:
                self.do_cmd(c)
        except BaseException as e:
            if isinstance(e, (common.MachineryError, nested.CaseTimeout)):
                raise
            self.items.append(('done', cid, 1) + flat.canon_exc(e))
            raise
        return self._end(cid, out)

    async def _ainvoke(self, cid, cmds, out):
        try:
            for c in cmds:
                await self.ado_cmd(c)
        except BaseException as e:
            if isinstance(e, (common.MachineryError, nested.CaseTimeout)):
                raise
            self.items.append(('done', cid, 1) + flat.canon_exc(e))
            raise
        return self._end(cid, out)

    def run(self):
        self.states_after.append(self.state_value())
        try:
            for c in self.d.history:
                try:
                    if self.is_async:
                        self.loop.run_until_complete(self.ado_cmd(c))
                    else:
                        self.do_cmd(c)
                except BaseException as e:
                    if isinstance(e, (common.MachineryError, KeyboardInterrupt, nested.CaseTimeout)):
                        raise
                self.states_after.append(self.state_value())
        finally:
            self.close()
        return self


def run_guarded(desc, cls_name, seconds=60):
    import signal
    old = signal.signal(signal.SIGALRM, nested._on_alarm)
    signal.alarm(seconds)
    r = None
    try:
        r = MayRun(desc, cls_name)
        r.run()
        return r, None
    except nested.CaseTimeout:
        if r is not None:
            r.close()
        return r, 'hang'
    except common.MachineryError:
        raise
    except BaseException as e:     # construction failed
        return None, 'construction: %s: %s' % (type(e).__name__, str(e)[:200])
    finally:
        signal.alarm(0)
        signal.signal(signal.SIGALRM, old)


def parse_model_answer(ans):
    if ans in ('oof', 'noinit'):
        return None
    if not ans.startswith('T '):
        raise common.MachineryError('driver answered %r' % ans[:200])
    t, c = ans[2:].split(' C ')
    nums = [int(x) for x in t.split()]
    items, pos = common.dec_items(nums)
    if pos != len(nums):
        raise common.MachineryError('trailing numbers in driver trace')
    return items, nested.dec_svals([int(x) for x in c.split()])


# ---------------------------------------------------------------------------------------------
# judges
# ---------------------------------------------------------------------------------------------

def single_stage(d):
    """no callback stage holds two callbacks (then the async classes behave like the sync ones stage by stage)"""
    if any(len(l) > 1 for l in (d.prepare_event, d.before_sc, d.after_sc, d.finalize, d.on_exception)):
        return False
    for _p, n in d.walk():
        if len(n['on_enter']) > 1 or len(n['on_exit']) > 1:
            return False
    for _s, _e, _i, t in d.all_trans():
        if len(t['prepare']) > 1 or len(t['conds']) > 1 or len(t['before']) > 1 or len(t['after']) > 1:
            return False
    return True


def top_level_calls(items):
    """(api item, segment between api and outcome, outcome item | None, index of the history item) of the calls issued
    by the history itself"""
    out = []
    i = 0
    n = 0
    while i < len(items):
        it = items[i]
        if it[0] == 'api':
            tag = it[2]
            j = i + 1
            seg = []
            while j < len(items) and not (items[j][0] in ('ret', 'raised') and items[j][1] == tag):
                seg.append(items[j])
                j += 1
            out.append((it, seg, items[j] if j < len(items) else None, n))
            n += 1
            i = j
        i += 1
    return out


def purity_oracle(d, run, cls):
    """a top-level may_ whose segment contains no re-entrant api call: only evaluation slots, own arguments,
    `model.state` unchanged"""
    out = []
    for api, seg, outcome, k in top_level_calls(run.items):
        if api[1] != MAY or any(s[0] == 'api' for s in seg):
            continue
        info = {'class': cls, 'history_item': k, 'event': api[4], 'segment': [common.show_item(s) for s in seg[:24]]}
        bad = [common.show_item(s) for s in seg if s[0] == 'call' and s[1] not in MAY_SLOTS]
        if bad:
            out.append(('may-ran-a-forbidden-callback', dict(info, calls=bad[:4]), 'C12.pure:nested:' + cls))
        if any(s[0] == 'call' and s[4] != api[2] for s in seg):
            out.append(('may-arguments-not-passed', info, 'C12.args:nested:' + cls))
        if outcome is None:
            out.append(('may-call-without-outcome', info, 'C12.routing:nested:' + cls))
        if k + 1 < len(run.states_after) and run.states_after[k] != run.states_after[k + 1]:
            out.append(('may-changed-a-state', dict(info, before=str(run.states_after[k]), after=str(run.states_after[k + 1])),
                        'C12.pure:nested:' + cls))
        # routing: an evaluated callback raised
        handlers = list(d.on_exception)
        raises = [s for s in seg if s[0] == 'done' and s[2] == 1]
        eval_raises = [s for s in raises if s[1] not in handlers]
        hraise = [s for s in raises if s[1] in handlers]
        hcalls = [s for s in seg if s[0] == 'call' and s[1] == SLOT['on_exception']]
        if outcome is not None:
            if eval_raises and not handlers and outcome[0] != 'raised':
                out.append(('exception-swallowed-without-handlers', info, 'C12.routing:nested:' + cls))
            elif eval_raises and handlers and not hraise:
                if outcome[0] == 'raised':
                    out.append(('exception-escaped-although-handlers-registered', info, 'C12.routing:nested:' + cls))
                elif len(hcalls) != len(handlers) * len(eval_raises):
                    out.append(('handler-not-called', info, 'C12.routing:nested:' + cls))
            elif not raises and outcome[0] == 'raised':
                out.append(('may-raised-without-a-raising-callback', info, 'C12.predict:nested:' + cls))
    return out


def last_outcome(items):
    for it in reversed(items):
        if it[0] in ('ret', 'raised'):
            return it
    return None


def last_segment(items):
    idx = max(i for i, it in enumerate(items) if it[0] == 'api')
    return items[idx:]


def global_dest_locals(d):
    """locally declared transitions whose destination does not resolve relative to the declaring state but is a
    registered GLOBAL multi-segment name: (scope, event, index)"""
    paths = [list(p) for p, _n in d.walk()]
    return [(list(scope), ev, i) for scope, ev, i, t in d.all_trans()
            if scope and t['dest'] is not None and len(t['dest']) > 1
            and list(scope) + list(t['dest']) not in paths and list(t['dest']) in paths]


def twin_oracle(d, cls, max_prefixes=4):
    """deterministic description: may_ vs the real trigger at prefixes of the history; returns (failures, checks, trues)"""
    out = []
    nodes = d.walk()
    gdest = global_dest_locals(d)
    known = sorted(set([e for e, _ in d.events] + [e for _p, n in nodes for e, _ts in n['local']]))
    evs = known + [(max(known) if known else 0) + 3]
    checks = trues = 0
    prefixes = list(range(len(d.history) + 1))[:max_prefixes]
    for i in prefixes:
        prefix = d.history[:i]
        for ev in evs:
            ra, ea = run_guarded(with_history(d, prefix + [(MAY, 0, ev)]), cls)
            rb, eb = run_guarded(with_history(d, prefix + [(TRIGGER, 0, ev)]), cls)
            if ea or eb or ra is None or rb is None:
                continue
            oa, ob = last_outcome(ra.items), last_outcome(rb.items)
            if oa is None or ob is None:
                continue
            checks += 1
            may_val = (oa[0] == 'ret' and oa[2] == 1)
            tseg = last_segment(rb.items)
            executed = any(it[0] == 'call' and it[1] in EXEC_SLOTS for it in tseg)
            trues += int(may_val)
            info = {'class': cls, 'prefix_len': i, 'event': ev, 'may': common.show_item(oa), 'trigger': common.show_item(ob),
                    'state': str(ra.states_after[i] if i < len(ra.states_after) else None)}
            if oa[0] == 'raised':
                out.append(('may-raised-without-a-raising-callback', info, 'C12.predict:nested:' + cls))
            elif may_val != executed:
                out.append(('may-differs-from-trigger', info, 'C12.predict:nested:' + cls))
            elif may_val and ob[0] == 'raised' and not any(it[0] == 'done' and it[2] == 1 for it in tseg):
                # may_ answered True, no callback raised, and yet the trigger did not complete a transition: it raised
                # from the library's own resolution of the transition
                # from the library's own resolution of the transition.  In general an engine failure after the conditions
                # is not a wrong prediction (DESIGN 9.3); it is one when the description holds a locally declared
                # transition whose destination is not a state of the declaring scope: such a destination "is not a
                # registered state" for that transition and has to count as impossible
                if gdest:
                    out.append(('may-true-but-trigger-cannot-resolve-global-destination-of-local-transition',
                                dict(info, local_global_dest=gdest[:4]), 'C12.predict:local-global-dest'))
            if out:
                return out, checks, trues
    return out, checks, trues


def judge_case(stream, d, model_ans, runs, twin=None):
    out = []
    case = {'stream': stream, 'nested_may': True, 'desc': d.to_json()}
    hm, hm_err = runs['HierarchicalMachine']
    for cls, (r, err) in sorted(runs.items()):
        ccase = dict(case, cls=cls)
        if err == 'hang':
            out.append(Failure('monitor', 'hang:' + cls, ccase, {'class': cls}, signature=None))
            continue
        if err:
            out.append(Failure('correspondence', 'construction:' + cls, ccase, {'error': err}))
            continue
        if r.bad:
            out.append(Failure('monitor', 'recorder:' + r.bad[0][0], ccase, {'bad': r.bad[:5], 'class': cls},
                               signature='C12.args:nested:' + cls))
        for what, details, sig in purity_oracle(d, r, cls):
            out.append(Failure('monitor', what, ccase, details, signature=sig))
    if twin:
        for what, details, sig in twin:
            out.append(Failure('monitor', what, dict(case, cls=details.get('class'), twin=True), details, signature=sig))
    m = parse_model_answer(model_ans)
    if m is None:
        if model_ans == 'noinit' and hm is not None:
            out.append(Failure('correspondence', 'model_noinit', case, {}))
        return out
    items, vals = m
    for cls, (r, err) in sorted(runs.items()):
        if r is None or err:
            continue
        if items != r.items or vals != r.states_after:
            k = next((i for i, (x, y) in enumerate(zip(items, r.items)) if x != y), min(len(items), len(r.items)))
            out.append(Failure('correspondence', 'nested_trace_eq:' + cls, dict(case, cls=cls), {
                'class': cls, 'first_difference_at': k,
                'model': [common.show_item(i) for i in items[max(0, k - 6):k + 4]],
                'impl': [common.show_item(i) for i in r.items[max(0, k - 6):k + 4]],
                'model_states': vals, 'impl_states': r.states_after}))
    return out


def classes_for(d):
    cl = ['HierarchicalMachine']
    if single_stage(d):
        cl.append('HierarchicalAsyncMachine')
    return cl


def run_batch(stream, descs, ex, deterministic=False, only_classes=None):
    ans = common.batch_driver([('nestedmay', enc_case(d)) for d in descs])
    for d, a in zip(descs, ans):
        classes = list(only_classes) if only_classes else classes_for(d)
        if 'HierarchicalMachine' not in classes:
            classes = ['HierarchicalMachine'] + classes
        runs = {cls: run_guarded(d, cls) for cls in classes}
        twin = None
        ntw = ntrue = 0
        if deterministic:
            twin = []
            # may_ against the trigger on the SAME class: the async stage semantics do not matter here
            for cls in (['HierarchicalMachine', 'HierarchicalAsyncMachine'] if not only_classes else only_classes):
                fs, n, t = twin_oracle(d, cls)
                twin += fs
                ntw += n
                ntrue += t
        ex.evaluations += 1
        if a == 'oof':
            ex.oof += 1
        ex.failures += judge_case(stream, d, a, runs, twin)
        ex.traces_validated += len([1 for r, e in runs.values() if r is not None and not e]) + ntw
        hm = runs['HierarchicalMachine'][0]
        if hm is not None:
            stats(ex.stats, d, hm, deterministic, ntw, ntrue)
            if is_nontrivial(d, hm, deterministic, ntw, ntrue):
                ex.nontrivial.add(fingerprint(d))
                if len(ex.samples) < 2:
                    ex.samples.append({'stream': stream, 'initial': nested.pname(d.initial),
                                       'history': [list(c) for c in d.history], 'states': hm.states_after[:6],
                                       'trace': [common.show_item(i) for i in hm.items[:30]]})


def is_nontrivial(d, run, deterministic, ntw, ntrue):
    """both answers of may_ occur (top-level or re-entrant calls of the run, or twin comparisons)"""
    if deterministic:
        return 0 < ntrue < ntw
    tags = set(it[2] for it in run.items if it[0] == 'api' and it[1] == MAY)
    vals = set(it[2] for it in run.items if it[0] == 'ret' and it[1] in tags)
    return vals == {0, 1}


def stats(st, d, run, deterministic, ntw, ntrue):
    def bump(k, kk, n=1):
        dd = st.setdefault(k, {})
        dd[str(kk)] = dd.get(str(kk), 0) + n
    nodes = d.walk()
    bump('nested_n_states', len(nodes))
    bump('nested_depth', max(len(p) for p, _n in nodes))
    bump('nested_queued', int(d.queued))
    bump('nested_handlers', len(d.on_exception))
    bump('nested_async_class_compared', int(single_stage(d)))
    bump('nested_local_declarations', min(3, sum(len(ts) for _p, n in nodes for _e, ts in n['local'])))
    shape = 'single'
    for v in run.states_after:
        if isinstance(v, list):
            shape = 'parallel' if shape == 'single' else shape
            if any(isinstance(x, list) for x in v):
                shape = 'parallel-in-parallel'
    bump('nested_configuration_shape', shape)
    tags = {}
    depth = 0
    for it in run.items:
        if it[0] == 'api':
            tags[it[2]] = (it[1], depth)
            depth += 1
        elif it[0] in ('ret', 'raised'):
            depth -= 1
            kind, dp = tags.get(it[1], (0, 0))
            who = ('may' if kind == MAY else 'trigger') + ('-reentrant' if dp > 0 else '')
            if it[0] == 'ret':
                bump('nested_outcomes', who + ':' + ('true' if it[2] else 'false'))
            else:
                bump('nested_outcomes', who + ':raised:' + common.EXC_NAMES[min(it[2], 6)])
    stack = []
    for it in run.items:
        if it[0] == 'call':
            stack.append(it[1])
        elif it[0] == 'done' and stack:
            stack.pop()
        elif it[0] == 'api' and stack:
            bump('nested_reentrant_from', ('may' if it[1] == MAY else 'trigger') + '@' + common.SLOTS[stack[-1]])
    bump('nested_raising_callbacks', 'n', sum(1 for it in run.items if it[0] == 'done' and it[2] == 1))
    bump('nested_handler_calls', 'n', sum(1 for it in run.items if it[0] == 'call' and it[1] == SLOT['on_exception']))
    if deterministic:
        bump('nested_twin', 'checks', ntw)
        bump('nested_twin', 'true', ntrue)


STREAMS = {
    # name: (knobs factory, deterministic?)
    'nested-model': (lambda: MayKnobs(), False),
    'nested-model-small': (lambda: MayKnobs(max_states=6, max_depth=3, max_branch=3, p_cmd=0.1), False),
    'nested-model-parallel': (lambda: MayKnobs(max_roots=1, p_compound=0.9, p_parallel=0.85, p_noinit=0.0, p_deep_initial=0.0,
                                               max_states=8, max_depth=3), False),
    # many re-entrant calls, mostly triggers, many locally declared transitions: calls issued while the machine is scoped
    # into a state / while an on_enter or on_exit callback runs
    'nested-model-reentrant': (lambda: MayKnobs(p_cmd=0.3, cmd_budget=6, cmd_kinds=(MAY, TRIGGER, TRIGGER), p_local=0.6,
                                                max_states=7, max_depth=3, p_raise=0.03, p_unknown_event=0.1, max_trans=2, p_ignore=0.05, local_boost=3,
                                                hist_kinds=(MAY, TRIGGER, TRIGGER)), False),
    # every callback stage holds at most one callback: HierarchicalAsyncMachine is compared with the model as well
    'nested-model-async': (lambda: MayKnobs(single_stage=True, max_handlers=1, p_parallel=0.6), False),
    'nested-twin-parallel': (lambda: MayKnobs(deterministic=True, p_bad_dest=0.0, p_on_exception=0.0, max_history=3, p_queued=0.0,
                                              p_cond_false=0.45, max_roots=1, p_compound=0.9, p_parallel=0.85, p_noinit=0.0,
                                              p_deep_initial=0.0, max_states=8, max_depth=3), True),
    'nested-twin': (lambda: MayKnobs(deterministic=True, p_bad_dest=0.0, p_on_exception=0.0, max_history=4, max_events=3,
                                     p_queued=0.0, p_cond_false=0.45), True),
    # locally declared transitions naming a GLOBAL multi-segment destination (accepted by add_transition and by may_
    # through get_state's fallback to global names, not enterable by _resolve_transition): the Lean model follows the
    # fallback too (trace equality), the twin comparison reports the listed finding F-C12-local-global-dest
    'nested-twin-globaldest': (lambda: MayKnobs(deterministic=True, p_bad_dest=0.0, p_global_dest=0.6, p_local=0.7,
                                                p_on_exception=0.0, max_history=3, max_events=3, p_queued=0.0,
                                                p_cond_false=0.3, max_roots=3, p_parallel=0.3), True),
}


def chunk(seed, idx, n, stream):
    kf, det = STREAMS[stream]
    rng = random.Random('C12N/%s/%d/%d' % (stream, seed, idx))
    kn = kf()
    descs = [gen_may(rng, kn) for _ in range(n)]
    ex = Exploration()
    for b in range(0, len(descs), 30):
        if any(f.kind == 'monitor' for f in ex.failures):
            break
        run_batch(stream, descs[b:b + 30], ex, deterministic=det)
    return ex


def rejudge(case):
    d = from_json(case['desc'])
    ex = Exploration()
    det = STREAMS.get(case.get('stream'), (None, False))[1] or bool(case.get('twin'))
    only = [case['cls']] if case.get('cls') else None
    run_batch(case.get('stream', 'nested-model'), [d], ex, deterministic=det, only_classes=only)
    return ex.failures


def shrink_steps(case):
    """history items, script entries / commands, handlers, then the structural steps of nestedcheck"""
    from . import nestedcheck
    d = case['desc']

    def mk(nd):
        c = dict(case)
        c['desc'] = nd
        return c
    for i in range(len(d['history']) - 1, -1, -1):
        if len(d['history']) > 1:
            c = copy.deepcopy(d)
            del c['history'][i]
            yield mk(c)
    for i in range(len(d['script'])):
        c = copy.deepcopy(d)
        del c['script'][i]
        yield mk(c)
    for i, (_k, (cmds, _out)) in enumerate(d['script']):
        for j in range(len(cmds)):
            c = copy.deepcopy(d)
            del c['script'][i][1][0][j]
            yield mk(c)
    for i in range(len(d['on_exception'])):
        c = copy.deepcopy(d)
        del c['on_exception'][i]
        yield mk(c)
    # structural steps (they keep `history` as it is apart from deletions, which we have done above)
    hist = d['history']
    for cand in nestedcheck.shrink_steps(dict(case, desc=dict(d, history=[0] * max(1, len(hist))))):
        nd = cand['desc']
        if len(nd['history']) != max(1, len(hist)):
            continue
        nd = dict(nd, history=hist)
        yield mk(nd)


def replay(case):
    d = from_json(case['desc'])
    cls = case.get('cls') or 'HierarchicalMachine'
    print('class:', cls, ' initial:', nested.pname(d.initial), ' queued:', d.queued, ' on_exception:', d.on_exception,
          ' history:', [('may' if c[0] == MAY else 'trigger', 'e%d' % c[2]) for c in d.history])
    for p, n in d.walk():
        print('  ' * len(p) + nested.pname(p), 'initial', [nested.seg(i) for i in n['initial']],
              ['local e%d: %s -> %s' % (e, nested.pname(t['source']), t['dest'] and nested.pname(t['dest']))
               for e, ts in n['local'] for t in ts])
    for e, ts in d.events:
        for t in ts:
            print('global e%d: %s -> %s' % (e, nested.pname(t['source']), t['dest'] and nested.pname(t['dest'])))
    r, err = run_guarded(d, cls)
    ans = common.batch_driver([('nestedmay', enc_case(d))])[0]
    m = parse_model_answer(ans)
    if r is not None:
        print('states:', r.states_after)
        print('implementation trace:')
        for it in r.items:
            print('   ', common.show_item(it))
    print('model trace:' if m else 'model: %s' % ans)
    for it in (m[0] if m else []):
        print('   ', common.show_item(it))
    fs = rejudge(case)
    for f in fs:
        print('FAIL', f.kind, f.what, f.signature, str(f.details)[:600])
    return 1 if fs else 0
